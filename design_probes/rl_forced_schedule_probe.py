"""Probe: forced-schedule execution of the real RLScheduler threads (no repo changes)."""
import threading, queue, types, io, contextlib, random, sys
import numpy as np
import black_it.schedulers.rl.rl_scheduler as rlmod
from black_it.schedulers.rl.rl_scheduler import RLScheduler
from black_it.schedulers.rl.agents.epsilon_greedy import MABEpsilonGreedy
from black_it.schedulers.rl.envs.mab import MABCalibrationEnv
from black_it.samplers.halton import HaltonSampler
from black_it.samplers.random_uniform import RandomUniformSampler

class Controller:
    def __init__(self, schedule_rng):
        self.lock = threading.Condition()
        self.parked = {}      # tid -> (point, enabled_fn)
        self.live = set()
        self.grant = None
        self.trace = []
        self.rng = schedule_rng
        self.deadlock = False
    def register(self, tid):
        with self.lock: self.live.add(tid); self.lock.notify_all()
    def finish(self, tid):
        with self.lock:
            self.live.discard(tid); self.trace.append((tid, "exit")); self.lock.notify_all()
    def yield_point(self, tid, point, enabled=lambda: True):
        with self.lock:
            self.parked[tid] = (point, enabled)
            self.lock.notify_all()
            while self.grant != tid:
                self.lock.wait()
            self.grant = None
            del self.parked[tid]
            self.trace.append((tid, point))
    def run(self, done):
        # controller loop, runs in harness main thread
        while True:
            with self.lock:
                while not done() and (self.grant is not None or set(self.parked) != self.live):
                    if not self.lock.wait(timeout=5): self.deadlock = True; return
                if done() and not self.live: return
                en = sorted(t for t,(p,f) in self.parked.items() if f())
                if not en:
                    if done(): return
                    self.deadlock = True; self.trace.append(("ctl","DEADLOCK",dict((t,p) for t,(p,f) in self.parked.items()))); return
                t = self.rng.choice(en)
                self.grant = t
                self.lock.notify_all()

def tid(): return threading.current_thread().name

class CtlQueue(queue.Queue):
    def __init__(self, ctl, name): super().__init__(); self.ctl=ctl; self.qname=name
    def put(self, item, *a, **k):
        self.ctl.yield_point(tid(), ("put", self.qname, None if item is None else "x"))
        super().put(item, *a, **k)
    def get(self, *a, **k):
        self.ctl.yield_point(tid(), ("get", self.qname), enabled=lambda: self.qsize()>0)
        return super().get(*a, **k)

def make_thread_shim(ctl):
    class CtlThread(threading.Thread):
        def __init__(s, target=None, **kw):
            def wrapped():
                ctl.yield_point("A", ("begin",))
                try: target()
                finally: ctl.finish("A")
            super().__init__(target=wrapped, name="A", **kw)
        def start(s):
            ctl.yield_point(tid(), ("spawn",))
            ctl.register("A"); super().start()
        def join(s, *a):
            ctl.yield_point(tid(), ("join",), enabled=lambda: "A" not in ctl.live)
            super().join(*a)
    return types.SimpleNamespace(Thread=CtlThread)

def make_sched_class(ctl):
    class CtlRLScheduler(RLScheduler):
        def _g(self):
            if getattr(self, "_ctl_on", False): ctl.yield_point(tid(), ("read_stopped",))
            return self.__dict__["_stopped_v"]
        def _s(self, v):
            if getattr(self, "_ctl_on", False): ctl.yield_point(tid(), ("write_stopped", v))
            self.__dict__["_stopped_v"] = v
        _stopped = property(_g, _s)
    return CtlRLScheduler

class LogAgent(MABEpsilonGreedy):
    def __init__(s,*a,**k): super().__init__(*a,**k); s.log=[]
    def policy(s,o):
        a=super().policy(o); s.log.append(('policy',a)); return a
    def learn(s,st,a,r,ns):
        s.log.append(('learn',a,round(float(r),6))); super().learn(st,a,r,ns)

def one_run(seed, sessions):
    ctl = Controller(random.Random(seed))
    rlmod.threading = make_thread_shim(ctl)
    agent = LogAgent(2, alpha=0.5, eps=0.3, random_state=1); env = MABCalibrationEnv(2)
    S = make_sched_class(ctl)
    sch = S([HaltonSampler(1), RandomUniformSampler(1)], agent, env, random_state=3)
    sch._in_queue = env._out_queue = CtlQueue(ctl, "action")
    sch._out_queue = env._in_queue = CtlQueue(ctl, "outcome")
    sch._ctl_on = True
    executed = []
    finished = [False]
    def main():
        try:
            loss = 10.0; b = 0
            for nb in sessions:
                sch.start_session()
                for _ in range(nb):
                    s = sch.get_next_sampler(); executed.append(type(s).__name__[0])
                    loss *= 0.9; b += 1
                    sch.update(b, np.array([[0.1]]), np.array([loss]), None)
                sch.end_session()
        finally:
            finished[0] = True; ctl.finish("M")
    ctl.register("M")
    t = threading.Thread(target=main, name="M", daemon=True); t.start()
    ctl.run(lambda: finished[0])
    return ctl, agent.log, executed, sch._in_queue.qsize(), sch._out_queue.qsize()

if __name__ == "__main__":
    outs=set()
    for seed in range(40):
        ctl, log, ex, aq, oq = one_run(seed, [2,2])
        outs.add((tuple(log), tuple(ex), aq, oq, ctl.deadlock))
    for o in sorted(outs, key=str): print(o)
    print(len(outs), "distinct outcomes over 40 schedules")
    import os; os._exit(0)
