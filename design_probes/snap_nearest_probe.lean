import Mathlib.Order.Basic
import Mathlib.Order.Defs.LinearOrder
import Mathlib.Tactic.Linarith

namespace Probe2
variable {α β : Type} [LinearOrder α] [LinearOrder β]

def ssLeft (a : List α) (v : α) : Nat := (a.filter (· < v)).length

/-- get_closest with abstract distance `d v g` -/
def getClosestIdx (d : α → α → β) (a : List α) (v : α) (dflt : α) : Nat :=
  let n := a.length
  let idx := ssLeft a v
  let prev := a.getD (idx - 1) dflt
  let cur := a.getD (min idx (n - 1)) dflt
  if idx = n ∨ d v prev < d v cur then idx - 1 else idx

theorem filter_lt_eq_take (a : List α) (v : α) (hs : a.Pairwise (· ≤ ·)) :
    a.filter (· < v) = a.take (ssLeft a v) := by
  induction a with
  | nil => simp [ssLeft]
  | cons x xs ih =>
    rw [List.pairwise_cons] at hs
    obtain ⟨hx, hxs⟩ := hs
    by_cases h : x < v
    · simp [ssLeft, h, List.filter_cons] at *
      exact ih hxs
    · have hall : ∀ y ∈ xs, ¬ y < v := fun y hy hyv => h (lt_of_le_of_lt (hx y hy) hyv)
      have : xs.filter (· < v) = [] := by
        simp [List.filter_eq_nil_iff]; intro y hy; exact not_lt.mp (hall y hy)
      simp [ssLeft, h, List.filter_cons, this]

theorem ssLeft_le (a : List α) (v : α) : ssLeft a v ≤ a.length := List.length_filter_le _ _

theorem lt_of_lt_ssLeft (a : List α) (v : α) (hs : a.Pairwise (· ≤ ·)) (i : Nat) (hi : i < ssLeft a v)
    (hil : i < a.length) : a[i] < v := by
  have h := filter_lt_eq_take a v hs
  have hm : a[i] ∈ a.take (ssLeft a v) := by
    rw [List.mem_take_iff_getElem]
    exact ⟨i, by omega, rfl⟩
  rw [← h] at hm
  simpa using (List.mem_filter.mp hm).2

theorem ge_of_ge_ssLeft (a : List α) (v : α) (hs : a.Pairwise (· ≤ ·)) (i : Nat) (hi : ssLeft a v ≤ i)
    (hil : i < a.length) : v ≤ a[i] := by
  by_contra hlt
  push_neg at hlt
  -- a[i] < v so it's in filter = take idx, so appears at some index j < idx with a[j] = a[i]...
  -- count argument: all elements at index ≤ i are ≤ a[i] < v, so filter has length ≥ i+1
  have hall : ∀ j (hj : j < a.length), j ≤ i → a[j] < v := by
    intro j hj hji
    rcases Nat.lt_or_eq_of_le hji with h | h
    · exact lt_of_le_of_lt (List.pairwise_iff_getElem.mp hs j i hj hil h) hlt
    · subst h; exact hlt
  have : a.take (i+1) = (a.take (i+1)).filter (· < v) := by
    symm; rw [List.filter_eq_self]
    intro x hx
    rw [List.mem_take_iff_getElem] at hx
    obtain ⟨j, hj, rfl⟩ := hx
    simpa using hall j (by omega) (by omega)
  have hlen : i + 1 ≤ ssLeft a v := by
    unfold ssLeft
    calc i + 1 = (a.take (i+1)).length := by simp; omega
      _ = ((a.take (i+1)).filter (· < v)).length := by rw [← this]
      _ ≤ (a.filter (· < v)).length := by
          apply List.Sublist.length_le
          exact List.Sublist.filter _ (List.take_sublist _ _)
  omega
end Probe2

namespace Probe2
variable {α β : Type} [LinearOrder α] [LinearOrder β]

theorem getD_get (a : List α) (i : Nat) (d : α) (h : i < a.length) : a.getD i d = a[i] := by
  simp [List.getD_eq_getElem?_getD, h]

/-- unimodality of the distance around v -/
structure Unimodal (d : α → α → β) : Prop where
  left  : ∀ v g g', g ≤ g' → g' ≤ v → d v g' ≤ d v g
  right : ∀ v g g', v ≤ g → g ≤ g' → d v g ≤ d v g'

theorem getClosestIdx_lt (d : α → α → β) (a : List α) (v dflt : α) (hne : a ≠ []) :
    getClosestIdx d a v dflt < a.length := by
  have hpos : 0 < a.length := List.length_pos_iff.mpr hne
  have hle := ssLeft_le a v
  unfold getClosestIdx
  simp only
  split <;> omega

theorem getClosest_nearest (d : α → α → β) (hd : Unimodal d) (a : List α) (v dflt : α)
    (hs : a.Pairwise (· ≤ ·)) (hne : a ≠ []) :
    ∀ g ∈ a, d v (a.getD (getClosestIdx d a v dflt) dflt) ≤ d v g := by
  have hpos : 0 < a.length := List.length_pos_iff.mpr hne
  have hle := ssLeft_le a v
  intro g hg
  obtain ⟨k, hk, rfl⟩ := List.getElem_of_mem hg
  have hmono : ∀ i j (hi : i < a.length) (hj : j < a.length), i ≤ j → a[i] ≤ a[j] := by
    intro i j hi hj hij
    rcases Nat.lt_or_eq_of_le hij with h | h
    · exact List.pairwise_iff_getElem.mp hs i j hi hj h
    · subst h; exact le_rfl
  set idx := ssLeft a v with hidx
  by_cases hn : idx = a.length
  · -- all elements < v; result is last
    have hr : getClosestIdx d a v dflt = a.length - 1 := by
      unfold getClosestIdx; simp [← hidx, hn]
    rw [hr, getD_get _ _ _ (by omega)]
    have hlast : a[a.length - 1] < v := lt_of_lt_ssLeft a v hs _ (by omega) (by omega)
    exact hd.left v _ _ (hmono k (a.length - 1) hk (by omega) (by omega)) hlast.le
  · have hlt : idx < a.length := by omega
    have hcur_ge : v ≤ a[idx] := ge_of_ge_ssLeft a v hs idx le_rfl hlt
    have hmin : min idx (a.length - 1) = idx := by omega
    by_cases h0 : idx = 0
    · -- prev = cur = a[0]; not strictly less
      have hr : getClosestIdx d a v dflt = 0 := by
        unfold getClosestIdx; simp [← hidx, h0]
      rw [hr, getD_get _ _ _ hpos]
      have : v ≤ a[0] := by simpa [h0] using hcur_ge
      exact hd.right v _ _ this (hmono 0 k hpos hk (by omega))
    · have hprev_lt : a[idx - 1] < v := lt_of_lt_ssLeft a v hs _ (by omega) (by omega)
      -- g is either ≤ prev or ≥ cur
      have hgcase : d v a[idx - 1] ≤ d v a[k] ∨ d v a[idx] ≤ d v a[k] := by
        by_cases hki : k < idx
        · left; exact hd.left v _ _ (hmono k (idx - 1) hk (by omega) (by omega)) hprev_lt.le
        · right; exact hd.right v _ _ hcur_ge (hmono idx k hlt hk (by omega))
      unfold getClosestIdx
      simp only [← hidx, hmin, hn, false_or]
      rw [getD_get _ _ _ (by omega : idx - 1 < a.length), getD_get _ _ _ hlt]
      split
      · next hlt' =>
        rw [getD_get _ _ _ (by omega : idx - 1 < a.length)]
        rcases hgcase with h | h
        · exact h
        · exact le_trans hlt'.le h
      · next hnlt =>
        rw [getD_get _ _ _ hlt]
        rcases hgcase with h | h
        · exact le_trans (not_lt.mp hnlt) h
        · exact h
end Probe2
#print axioms Probe2.getClosest_nearest
