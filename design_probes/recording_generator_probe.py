import numpy as np, pickle
from scipy.stats import betabinom
log=[]
class RecGen(np.random.Generator):
    def integers(self,*a,**k):
        r=super().integers(*a,**k); log.append(('integers',a,k,r)); return r
    def random(self,*a,**k):
        r=super().random(*a,**k); log.append(('random',a,k)); return r
    def choice(self,*a,**k):
        r=super().choice(*a,**k); log.append(('choice',)); return r
g=RecGen(np.random.PCG64(np.random.SeedSequence(5)))
h=np.random.default_rng(5)
print(g.integers(2**32-1), h.integers(2**32-1))
rv=betabinom(n=3,a=3.0,b=1.0); rv.random_state=g; print(rv.rvs(size=1), log[-1][0])
import black_it.utils.seedable as sd
sd.default_rng=lambda seed=None: RecGen(np.random.PCG64(np.random.SeedSequence(seed)))
from black_it.samplers.halton import HaltonSampler
s=HaltonSampler(3,random_state=1); print(type(s.random_generator).__name__, s._sequence_index, HaltonSampler.__mro__[1].__name__)
p=pickle.loads(pickle.dumps(s)); print(type(p.random_generator).__name__, p.random_generator.bit_generator.state==s.random_generator.bit_generator.state)
