/-! Probe: repaired RL exchange as a two-thread transition system; inductive invariant. Core Lean only. -/
namespace RLP

inductive MPc where
  | idle                       -- no session
  | loopHead                   -- session active, between batches
  | running (a : Option Nat)   -- batch in progress; `some a` = agent-chosen action, `none` = bootstrap
  | endPut                     -- flag written, about to put the end marker
  | endJoin                    -- marker put, waiting for the agent to exit
  | endDrain                   -- joined, about to drain the action queue
  deriving DecidableEq, Repr

inductive APc where
  | dead
  | policy
  | put (a : Nat)
  | get (a : Nat)
  | learn (a : Nat) (b : Nat)
  deriving DecidableEq, Repr

structure St where
  mpc : MPc := .idle
  apc : APc := .dead
  actionQ : List Nat := []
  outcomeQ : List (Option Nat) := []     -- `some b` outcome of batch b, `none` end marker
  boot : Bool := true                    -- bootstrap batch still pending (best_loss is None)
  batchNo : Nat := 0
  chosen : List Nat := []                -- ghost: policy results, oldest first
  executed : List (Nat × Nat) := []      -- ghost: (batch, action) for agent-chosen batches
  learned : List (Nat × Nat) := []       -- ghost: (batch, action) the agent learned from
  deriving Repr

/-- choices: which thread moves, and for the main thread at loopHead whether to run another batch,
    `pol` is the action the (arbitrary) policy returns at this step -/
inductive Choice where
  | mStart | mBatch | mEnd | mStep | aStep (pol : Nat)
  deriving Repr

def step (s : St) : Choice → Option St
  | .mStart => match s.mpc with
      | .idle => some { s with mpc := .loopHead, apc := .policy }
      | _ => none
  | .mBatch => match s.mpc with            -- get_next_sampler
      | .loopHead =>
          if s.boot then some { s with mpc := .running none }
          else match s.actionQ with
            | a :: q => some { s with mpc := .running (some a), actionQ := q }
            | [] => none                    -- blocked on the action queue
      | _ => none
  | .mStep => match s.mpc with
      | .running none => some { s with mpc := .loopHead, boot := false, batchNo := s.batchNo + 1 }
      | .running (some a) =>
          some { s with mpc := .loopHead, batchNo := s.batchNo + 1,
                        executed := s.executed ++ [(s.batchNo + 1, a)],
                        outcomeQ := s.outcomeQ ++ [some (s.batchNo + 1)] }
      | .endPut => some { s with mpc := .endJoin, outcomeQ := s.outcomeQ ++ [none] }
      | .endJoin => if s.apc = .dead then some { s with mpc := .endDrain } else none
      | .endDrain => some { s with mpc := .idle, actionQ := [] }
      | _ => none
  | .mEnd => match s.mpc with              -- end of calibrate() or exception inside a batch (C11)
      | .loopHead => some { s with mpc := .endPut }
      | .running _ => some { s with mpc := .endPut }
      | _ => none
  | .aStep pol => match s.apc with
      | .dead => none
      | .policy => some { s with apc := .put pol, chosen := s.chosen ++ [pol] }
      | .put a => some { s with apc := .get a, actionQ := s.actionQ ++ [a] }
      | .get a => match s.outcomeQ with
          | [] => none
          | none :: q => some { s with apc := .dead, outcomeQ := q }
          | some b :: q => some { s with apc := .learn a b, outcomeQ := q }
      | .learn a b => some { s with apc := .policy, learned := s.learned ++ [(b, a)] }

def init : St := {}

/-- the pending action, if the agent has chosen one that is not yet executed -/
def Inv (s : St) : Prop :=
  (s.boot = true → s.executed = []) ∧ (s.mpc = .running none → s.boot = true) ∧
  -- learned is always a prefix of executed, lagging by at most the in-flight one
  (match s.apc, s.mpc with
   | .dead, .idle => s.actionQ = [] ∧ s.outcomeQ = [] ∧ s.learned = s.executed
   | .dead, .endJoin => s.outcomeQ = [] ∧ s.learned = s.executed ∧ s.actionQ.length ≤ 1
   | .dead, .endDrain => s.outcomeQ = [] ∧ s.learned = s.executed ∧ s.actionQ.length ≤ 1
   | .dead, _ => False
   | _, .idle => False
   | _, .endDrain => False
   | .policy, .running (some _) => False
   | .policy, m => s.actionQ = [] ∧ s.learned = s.executed ∧
        s.outcomeQ = (if m = .endJoin then [none] else [])
   | .put _, .running (some _) => False
   | .put _, m => s.actionQ = [] ∧ s.learned = s.executed ∧
        s.outcomeQ = (if m = .endJoin then [none] else [])
   | .get a, .running (some a') => a' = a ∧ s.actionQ = [] ∧ s.outcomeQ = [] ∧ s.learned = s.executed
   | .get a, m =>
        (s.actionQ = [a] ∧ s.learned = s.executed ∧ s.outcomeQ = (if m = .endJoin then [none] else [])) ∨
        (s.actionQ = [] ∧ s.executed = s.learned ++ [(s.batchNo, a)] ∧
           s.outcomeQ = some s.batchNo :: (if m = .endJoin then [none] else [])) ∨
        (s.actionQ = [] ∧ m = .endPut ∧ s.learned = s.executed ∧ s.outcomeQ = [])  -- fault while holding a
   | .learn a b, .running (some _) => False
   | .learn a b, m => s.actionQ = [] ∧ b = s.batchNo ∧ s.executed = s.learned ++ [(b, a)] ∧
        s.outcomeQ = (if m = .endJoin then [none] else []))

theorem inv_init : Inv init := by simp [Inv, init]

theorem inv_step (s s' : St) (c : Choice) (h : Inv s) (hs : step s c = some s') : Inv s' := by
  cases c <;> simp only [step] at hs
  all_goals (
    rcases s with ⟨mpc, apc, aq, oq, boot, bn, ch, ex, le⟩
    rcases mpc with _|_|(_|am)|_|_|_ <;> cases apc <;> simp_all [Inv] <;> (try grind))
end RLP
