import BlackIt.Model.Gsl
import BlackIt.Properties.C08
import Mathlib.Data.Nat.Digits.Defs
import Mathlib.Data.List.Count
import Mathlib.Algebra.BigOperators.Group.List.Basic
import Mathlib.Tactic.Linarith
import Mathlib.Tactic.Ring
import Mathlib.Tactic.FieldSimp
set_option linter.unusedSectionVars false
set_option linter.unusedSimpArgs false
set_option linter.unusedVariables false

/-!
# C07 — Each built-in loss computes its published definition

What can be a theorem here is the *algorithmic* content of the losses: where the code computes a documented
quantity by a non-obvious route (base-10 word packing, a running weight, a frequency mask, the `1/D` default,
filters applied per coordinate) Lean proves the route equals the definition.  The floating-point evaluation of
the definitions (norms, FFT, moments, logarithms, kernel densities) is validated against an independent
reference with a stated tolerance by the correspondence check — it is not proved.
-/
namespace BlackIt.Gsl

/-! ## GSL-div: words -/

theorem pack_append (w : List Nat) (s : Nat) : pack (w ++ [s]) = pack w * 10 + s := by
  simp [pack, List.foldl_append]

theorem pack_lt (w : List Nat) (h : ∀ s ∈ w, s < 10) : pack w < 10 ^ w.length := by
  induction w using List.reverseRecOn with
  | nil => simp [pack]
  | append_singleton w s ih =>
    rw [pack_append, List.length_append, List.length_singleton, pow_succ]
    have h1 := ih (fun x hx => h x (List.mem_append_left _ hx))
    have h2 : s < 10 := h s (by simp)
    omega

/-- **packing is injective on windows of equal length whose symbols are all ≤ 9**: for `nb_values ≤ 9` a
packed word *is* the tuple of symbols, so word frequencies are the documented ones -/
theorem pack_injective (w1 w2 : List Nat) (hl : w1.length = w2.length)
    (h1 : ∀ s ∈ w1, s < 10) (h2 : ∀ s ∈ w2, s < 10) (hp : pack w1 = pack w2) : w1 = w2 := by
  induction w1 using List.reverseRecOn generalizing w2 with
  | nil => cases w2 with
    | nil => rfl
    | cons _ _ => simp at hl
  | append_singleton w1 s1 ih =>
    rcases List.eq_nil_or_concat w2 with rfl | ⟨w2', s2, rfl⟩
    · simp at hl
    · simp only [List.concat_eq_append] at hl h2 hp ⊢
      rw [pack_append, pack_append] at hp
      have hs1 : s1 < 10 := h1 s1 (by simp)
      have hs2 : s2 < 10 := h2 s2 (by simp)
      have hw : pack w1 = pack w2' := by omega
      have hs : s1 = s2 := by omega
      have hl' : w1.length = w2'.length := by simpa using hl
      rw [ih w2' hl' (fun x hx => h1 x (List.mem_append_left _ hx)) (fun x hx => h2 x (List.mem_append_left _ hx)) hw, hs]

theorem windows_length (ts : List Nat) (len : Nat) : ∀ w ∈ windows ts len, w.length = len ∨ ts.length < len := by
  intro w hw
  simp only [windows, List.mem_map, List.mem_range] at hw
  obtain ⟨i, hi, rfl⟩ := hw
  left
  simp only [List.length_take, List.length_drop]
  omega

theorem count_map_of_inj_on {β γ : Type} [BEq β] [LawfulBEq β] [BEq γ] [LawfulBEq γ] (f : β → γ) (l : List β) (a : β)
    (h : ∀ x ∈ l, f x = f a → x = a) : (l.map f).count (f a) = l.count a := by
  induction l with
  | nil => rfl
  | cons x xs ih =>
    have ih' := ih (fun y hy => h y (List.mem_cons_of_mem _ hy))
    simp only [List.map_cons, List.count_cons, ih']
    congr 1
    by_cases hx : x = a
    · subst hx; simp
    · have : f x ≠ f a := fun hf => hx (h x List.mem_cons_self hf)
      simp [hx, this]

theorem windows_spec (ts : List Nat) (len : Nat) (hlen : len ≤ ts.length) :
    ∀ w ∈ windows ts len, w.length = len ∧ ∀ s ∈ w, s ∈ ts := by
  intro w hw
  simp only [windows, List.mem_map, List.mem_range] at hw
  obtain ⟨i, hi, rfl⟩ := hw
  refine ⟨by simp only [List.length_take, List.length_drop]; omega, ?_⟩
  intro s hs
  exact List.mem_of_mem_drop (List.mem_of_mem_take hs)

/-- hence, for symbols ≤ 9, every packed word occurs exactly as often as its tuple of symbols: the estimated
word probabilities are those of the documented (tuple) words -/
theorem word_counts_eq_tuple_counts (ts : List Nat) (len : Nat) (hsym : ∀ s ∈ ts, s < 10) (hlen : len ≤ ts.length)
    (w : List Nat) (hw : w ∈ windows ts len) :
    (getWords ts len).count (pack w) = (windows ts len).count w := by
  unfold getWords
  apply count_map_of_inj_on
  intro x hx hp
  obtain ⟨hxl, hxs⟩ := windows_spec ts len hlen x hx
  obtain ⟨hwl, hws⟩ := windows_spec ts len hlen w hw
  exact pack_injective x w (by rw [hxl, hwl]) (fun s hs => hsym s (hxs s hs)) (fun s hs => hsym s (hws s hs)) hp

/-- the number of words is `T + 1 − length` -/
theorem getWords_length (ts : List Nat) (len : Nat) : (getWords ts len).length = ts.length + 1 - len := by
  simp [getWords, windows]

/-- **known finding** — with ten or more symbols the packing is not injective: the two-symbol words (1, 12)
and (2, 2) are both packed into 22, so their frequencies are pooled -/
theorem pack_collides : pack [1, 12] = pack [2, 2] ∧ ([1, 12] : List Nat) ≠ [2, 2] := by decide

/-! ## GSL-div: the running weight -/
section Weights
variable {α : Type} [Field α] [LinearOrder α] [IsStrictOrderedRing α]

/-- after `l` word lengths the running weight is `2l / (L(L+1))` — the `l`-th term of `gslWeights` — and the
weights of all word lengths sum to 1 -/
theorem gslWeights_sum (L : Nat) (hL : 0 < L) : (BlackIt.Loss.gslWeights (Nat.cast : Nat → α) L).sum = 1 := by
  unfold BlackIt.Loss.gslWeights
  have hden : ((L : α) * ((L + 1 : ℕ) : α)) ≠ 0 := by
    have h1 : (L : α) ≠ 0 := by exact_mod_cast (Nat.pos_iff_ne_zero.mp hL)
    have h2 : ((L + 1 : ℕ) : α) ≠ 0 := by exact_mod_cast Nat.succ_ne_zero L
    exact mul_ne_zero h1 h2
  have key : ∀ n : Nat, ((List.range n).map (fun i => ((2 : ℕ) : α) * ((i + 1 : ℕ) : α) / ((L : α) * ((L + 1 : ℕ) : α)))).sum =
      (n : α) * ((n : α) + 1) / ((L : α) * ((L + 1 : ℕ) : α)) := by
    intro n
    induction n with
    | zero => simp
    | succ n ih =>
      rw [List.range_succ, List.map_append, List.sum_append, ih]
      simp only [List.map_cons, List.map_nil, List.sum_cons, List.sum_nil, add_zero]
      push_cast
      field_simp
      ring
  rw [key L]
  push_cast
  field_simp

end Weights

/-! ## Fourier: the ideal low-pass mask -/
section Discretize
variable {α : Type} [Field α] [LinearOrder α] [IsStrictOrderedRing α]

theorem linspace_length (start stop : α) (n : Nat) : (linspace (Nat.cast : Nat → α) start stop n).length = n + 1 := by
  simp [linspace]

theorem linspace_head (start stop : α) (n : Nat) (hn : 0 < n) :
    (linspace (Nat.cast : Nat → α) start stop n).head? = some start := by
  unfold linspace
  rw [List.range_succ_eq_map]
  simp [Nat.pos_iff_ne_zero.mp hn |>.symm]

theorem linspace_last (start stop : α) (n : Nat) :
    (linspace (Nat.cast : Nat → α) start stop n).getLast? = some stop := by
  unfold linspace
  rw [List.range_succ]
  simp

/-- **every symbol lies in `1 … nb_values`**: a value between the minimum and the maximum of the series has the first
node (`min − EPS`) below it and the last node (`max + EPS`) not below it -/
theorem discretize_range (eps : α) (heps : 0 < eps) (ts : List α) (nb : Nat) (hnb : 0 < nb) (lo hi : α)
    (hts : ∀ v ∈ ts, lo ≤ v ∧ v ≤ hi) :
    ∀ s ∈ discretize (Nat.cast : Nat → α) eps ts nb lo hi, 1 ≤ s ∧ s ≤ nb := by
  intro s hs
  unfold discretize at hs
  simp only [List.mem_map] at hs
  obtain ⟨v, hv, rfl⟩ := hs
  obtain ⟨h1, h2⟩ := hts v hv
  set nodes := linspace (Nat.cast : Nat → α) (lo - eps) (hi + eps) nb with hnodes
  have hlen : nodes.length = nb + 1 := linspace_length _ _ _
  have hhead : nodes.head? = some (lo - eps) := linspace_head _ _ _ hnb
  have hlast : nodes.getLast? = some (hi + eps) := linspace_last _ _ _
  constructor
  · -- the first node is below v
    obtain ⟨x, xs, hx⟩ : ∃ x xs, nodes = x :: xs := by
      cases hn : nodes with
      | nil => rw [hn] at hlen; simp at hlen
      | cons x xs => exact ⟨x, xs, rfl⟩
    rw [hx] at hhead ⊢
    simp only [List.head?_cons, Option.some.injEq] at hhead
    have : x < v := by rw [hhead]; linarith
    simp [List.filter_cons, this]
  · -- the last node is not below v
    obtain ⟨init, hinit⟩ : ∃ init, nodes = init ++ [hi + eps] := by
      rcases List.eq_nil_or_concat nodes with h | ⟨init, a, h⟩
      · rw [h] at hlen; simp at hlen
      · refine ⟨init, ?_⟩
        rw [h] at hlast ⊢
        simp only [List.concat_eq_append, List.getLast?_append, List.getLast?_singleton, Option.some_or, Option.some.injEq] at hlast
        rw [hlast]; simp
    rw [hinit] at hlen ⊢
    have hnot : ¬ (hi + eps < v) := by linarith
    simp only [List.filter_append, List.filter_cons, List.filter_nil, decide_eq_true_eq, hnot, if_false, List.append_nil]
    have := List.length_filter_le (fun nd => decide (nd < v)) init
    simp only [List.length_append, List.length_singleton] at hlen
    omega

/-- the symbols respect the order of the values -/
theorem discretize_mono (eps : α) (nb : Nat) (lo hi v w : α) (h : v ≤ w) :
    (discretize (Nat.cast : Nat → α) eps [v] nb lo hi).head! ≤ (discretize (Nat.cast : Nat → α) eps [w] nb lo hi).head! := by
  simp only [discretize, List.map_cons, List.map_nil, List.head!_cons]
  apply List.Sublist.length_le
  apply List.monotone_filter_right
  intro nd hnd
  simp only [decide_eq_true_eq] at hnd ⊢
  exact lt_of_lt_of_le hnd h

end Discretize

section Fourier
variable {α : Type} [Field α]

/-- the ideal filter keeps the first `n` frequency components unchanged and zeroes the rest -/
theorem idealLowPass_spec (spec : List α) (n i : Nat) (hi : i < spec.length) :
    (idealLowPass (1 : α) 0 spec n)[i]? = some (if i < n then spec[i] else 0) := by
  simp only [idealLowPass, List.getElem?_map, List.getElem?_zipIdx, List.getElem?_eq_getElem hi, Option.map_some, zero_add]
  split <;> simp

theorem idealLowPass_length (spec : List α) (n : Nat) : (idealLowPass (1 : α) 0 spec n).length = spec.length := by
  simp [idealLowPass]

end Fourier

/-! ### non-vacuity -/
example : getWords [1, 2, 2, 2] 2 = [12, 22, 22] := by decide      -- the docstring example of `get_words`
example : windows [1, 2, 2, 2] 2 = [[1, 2], [2, 2], [2, 2]] := by decide
example : (getWords [1, 2, 2, 2] 2).count (pack [2, 2]) = 2 := by decide

end BlackIt.Gsl
