import BlackIt.Properties.C05
import BlackIt.Properties.C02
import BlackIt.Properties.C09
set_option linter.unusedSectionVars false
set_option linter.unusedSimpArgs false
set_option linter.unusedVariables false

/-!
# C01 — A calibration run is a pure function of its configuration and seed

Model: `BlackIt/Model/Calibrator.lean`.  The run is a *function* of (components, configuration, line-up,
PRNG stream) by construction; what needs proof is that the nuisance inputs — verbosity, number of jobs,
saving folder, and the state the sampler objects were constructed with — do not enter it.
-/
namespace BlackIt.Calibrator
variable {Θ S L σ : Type}

theorem calibrate_strip (c : Comp Θ S L σ) (n : Nat) (s s' : State Θ S L σ)
    (ht : s.table = s'.table) (hc : s.core.strip = s'.core.strip) :
    (calibrate c n s).1.core.strip = (calibrate c n s').1.core.strip ∧ (calibrate c n s).2 = (calibrate c n s').2 ∧
    (calibrate c n s).1.table = (calibrate c n s').1.table := by
  have hb : s.core.batchIdx = s'.core.batchIdx := by
    have := congrArg Core.batchIdx hc; simpa [Core.strip] using this
  unfold calibrate
  rw [hb]
  split
  · have hss : (setSeeds c s.core).strip = (setSeeds c s'.core).strip := by
      have e1 : (setSeeds c s.core).strip = setSeeds c s.core.strip := rfl
      have e2 : (setSeeds c s'.core).strip = setSeeds c s'.core.strip := rfl
      rw [e1, e2, hc]
    exact calLoop_strip c n { s with core := setSeeds c s.core } { s' with core := setSeeds c s'.core } ht hss
  · exact calLoop_strip c n s s' ht hc

/-- the observable result of a run: history, counters, scheduler and sampler state, generator position -/
def observable (s : State Θ S L σ) : Core Θ S L σ := s.core.strip

/-- **C01, nuisance settings.**  Two calibrators built from the same configuration except for verbosity,
number of parallel jobs and saving folder produce, after any sequence of `calibrate()` calls, the same
histories, return values and failures. -/
theorem run_independent_of_nuisance (c : Comp Θ S L σ) (cfg cfg' : Cfg) (samplers : List (Smp σ)) (sched : Sched)
    (hcfg : cfg.strip = cfg'.strip) (ns : List Nat) :
    observable (calibrates c ns (init cfg samplers sched)) = observable (calibrates c ns (init cfg' samplers sched)) ∧
    result c (calibrates c ns (init cfg samplers sched)).core = result c (calibrates c ns (init cfg' samplers sched)).core := by
  have h0 : (init cfg samplers sched : State Θ S L σ).core.strip = (init cfg' samplers sched : State Θ S L σ).core.strip := by
    simp [init, Core.strip, hcfg]
  have key : ∀ s s' : State Θ S L σ, s.table = s'.table → s.core.strip = s'.core.strip →
      (calibrates c ns s).core.strip = (calibrates c ns s').core.strip := by
    unfold calibrates
    induction ns with
    | nil => intro s s' _ h; exact h
    | cons n ns ih =>
      intro s s' ht hc
      obtain ⟨h1, _, h3⟩ := calibrate_strip c n s s' ht hc
      exact ih _ _ h3 h1
  have hobs := key (init cfg samplers sched) (init cfg' samplers sched) rfl h0
  refine ⟨hobs, ?_⟩
  have hp : (calibrates c ns (init cfg samplers sched)).core.params = (calibrates c ns (init cfg' samplers sched)).core.params :=
    congrArg (fun k => k.params) hobs
  have hl : (calibrates c ns (init cfg samplers sched)).core.losses = (calibrates c ns (init cfg' samplers sched)).core.losses :=
    congrArg (fun k => k.losses) hobs
  simp only [result, hp, hl]

/-! ## constructor state of the samplers -/

/-- contract of a sampler class: assigning `random_state` overwrites everything the constructor seed
influenced (proved per built-in class from its `_set_random_state`, validated on the real objects) -/
def ReseedErases (c : Comp Θ S L σ) : Prop := ∀ cls seed st st', c.reseed cls seed st = c.reseed cls seed st'

/-- two line-ups that differ only in the internal (constructor) state of the sampler objects -/
def SameShape (a b : List (Smp σ)) : Prop := a.map sig = b.map sig

theorem setSeeds_erases (c : Comp Θ S L σ) (h : ReseedErases c) (k : Core Θ S L σ) (ss' : List (Smp σ))
    (hs : SameShape k.samplers ss') :
    setSeeds c k = setSeeds c { k with samplers := ss' } := by
  have hlen : k.samplers.length = ss'.length := by
    have := congrArg List.length hs; simpa using this
  have hsm : (setSeeds c k).samplers = (setSeeds c { k with samplers := ss' }).samplers := by
    simp only [setSeeds, hlen]
    apply List.ext_getElem (by simp [hlen])
    intro i h1 h2
    simp only [List.getElem_map, List.getElem_zipIdx]
    have hi : i < k.samplers.length := by simpa using h1
    have hi' : i < ss'.length := by simpa using h2
    have hsig : sig k.samplers[i] = sig ss'[i] := by
      have := congrArg (fun l => l[i]?) hs
      simpa [hi, hi'] using this
    simp only [sig, Prod.mk.injEq] at hsig
    rcases hk : k.samplers[i] with ⟨c1, b1, st1⟩
    rcases hk' : ss'[i] with ⟨c2, b2, st2⟩
    rw [hk, hk'] at hsig
    simp only at hsig
    obtain ⟨rfl, rfl⟩ := hsig
    simp only [Smp.mk.injEq, true_and]
    exact h _ _ _ _
  cases k
  simp only [setSeeds] at hsm ⊢
  simp only [Core.mk.injEq, true_and]
  simp only at hlen
  exact ⟨hsm, by rw [hlen], trivial⟩

/-- **C01, sampler constructor seeds.**  The first `calibrate()` of a fresh calibrator reseeds every sampler;
under the class contract `ReseedErases` the run does not depend on the state (seed) the sampler objects were
constructed with. -/
theorem run_independent_of_ctor_seeds (c : Comp Θ S L σ) (h : ReseedErases c) (cfg : Cfg)
    (samplers samplers' : List (Smp σ)) (sched : Sched) (hs : SameShape samplers samplers') (n : Nat) :
    (calibrate c n (init cfg samplers sched)).1.core = (calibrate c n (init cfg samplers' sched)).1.core ∧
    (calibrate c n (init cfg samplers sched)).2 = (calibrate c n (init cfg samplers' sched)).2 := by
  have hcls : classes samplers = classes samplers' := by
    have := congrArg (List.map Prod.fst) hs
    simpa [classes, sig, List.map_map, Function.comp_def] using this
  have hseed : setSeeds c (init cfg samplers sched : State Θ S L σ).core = setSeeds c (init cfg samplers' sched : State Θ S L σ).core :=
    setSeeds_erases c h (init cfg samplers sched : State Θ S L σ).core samplers' hs
  unfold calibrate
  simp only [init, if_true]
  have := calLoop_disk_irrelevant c n
    { core := setSeeds c (init cfg samplers sched : State Θ S L σ).core, table := constructTable (classes samplers), disk := none }
    { core := setSeeds c (init cfg samplers' sched : State Θ S L σ).core, table := constructTable (classes samplers'), disk := none }
    hseed (by rw [hcls])
  simpa [init] using this

/-! ## simulation seeds -/

/-- in a run without failures the simulation seeds are consecutive draws of the calibrator's stream, in
replication order, starting right after the draws burnt at seeding time; the generator position accounts for
exactly those draws — independently of the number of jobs, which the model does not even look at -/
structure SeedInv (c : Comp Θ S L σ) (base : Nat) (k : Core Θ S L σ) : Prop where
  gen : k.gen = base + k.nSampled * k.cfg.ensemble
  seeds : k.seeds.flatten = (List.range (k.nSampled * k.cfg.ensemble)).map (fun j => c.tape (base + j))

theorem batchSeeds_flatten (tape : Nat → Nat) (gen rows ens : Nat) :
    (batchSeeds tape gen rows ens).flatten = (List.range (rows * ens)).map (fun j => tape (gen + j)) := by
  induction rows with
  | zero => simp [batchSeeds]
  | succ r ih =>
    have : batchSeeds tape gen (r + 1) ens =
        batchSeeds tape gen r ens ++ [(List.range ens).map (fun e => tape (gen + r * ens + e))] := by
      simp [batchSeeds, List.range_succ]
    rw [this, List.flatten_append, ih, Nat.succ_mul, List.range_add, List.map_append]
    simp [List.map_map, Function.comp_def, Nat.add_assoc]

theorem seedInv_batch (c : Comp Θ S L σ) (t : List (Nat × Nat)) (base : Nat) (k k' : Core Θ S L σ)
    (hb : BatchOk c t k k') (h : SeedInv c base k) : SeedInv c base k' := by
  obtain ⟨smp, _, _, _, _, hsd, _, _, hn, hg, _, _⟩ := hb.smp_ex
  refine ⟨?_, ?_⟩
  · rw [hg, hn, hb.cfg, h.gen, Nat.add_mul]; omega
  · rw [hsd, List.flatten_append, h.seeds, batchSeeds_flatten, hn, hb.cfg, Nat.add_mul, List.range_add,
      List.map_append, h.gen]
    simp [List.map_map, Function.comp_def, Nat.add_assoc]

theorem seedInv_calLoop (c : Comp Θ S L σ) (base n : Nat) (s : State Θ S L σ)
    (hret : (calLoop c n s).2 = none) (h : SeedInv c base s.core) : SeedInv c base (calLoop c n s).1.core := by
  induction n generalizing s with
  | zero => exact h
  | succ n ih =>
    revert hret
    apply calLoop_cases c n s (fun r => r.2 = none → SeedInv c base r.1.core)
    · intro k f _ hh; cases hh
    · intro k heq _ _
      have := seedInv_batch c s.table base s.core _ (runBatch_ok c s.table s.core (by rw [heq])) h
      rw [heq] at this; exact this
    · intro k heq _ hh
      have := seedInv_batch c s.table base s.core _ (runBatch_ok c s.table s.core (by rw [heq])) h
      rw [heq] at this
      exact ih (stepState s k) hh this

/-- **C01, seeds drawn in the parent, in order.**  First call of a fresh calibrator with `m` samplers, no
failure: the seed of ensemble member `e` of row `i` is draw `m + i·E + e` of the calibrator's stream. -/
theorem seeds_drawn_in_order (c : Comp Θ S L σ) (cfg : Cfg) (samplers : List (Smp σ)) (sched : Sched) (n : Nat)
    (hret : (calibrate c n (init cfg samplers sched)).2 = none) :
    SeedInv c samplers.length (calibrate c n (init cfg samplers sched)).1.core := by
  unfold calibrate at hret ⊢
  simp only [init, if_true] at hret ⊢
  apply seedInv_calLoop c samplers.length n _ hret
  exact ⟨by simp [setSeeds], by simp [setSeeds]⟩

end BlackIt.Calibrator
