import BlackIt.Properties.C03
import Mathlib.Data.List.Perm.Basic
import Mathlib.Data.List.Nodup
import Mathlib.Data.List.Range
import Mathlib.Tactic.IntervalCases
set_option linter.unusedSectionVars false
set_option linter.unusedSimpArgs false
set_option linter.unusedVariables false

/-!
# C16 — History-driven samplers use the history faithfully and never modify it

Model: `BlackIt/Model/Samplers.lean` (`selectLowest`, `applyShocks`).  In the model values are immutable, so
the no-modification clause lives entirely in the correspondence check (byte snapshots of the real arrays);
what is proved here is the selection rule of the surrogate samplers — for *every* admissible `argsort`,
i.e. however ties are broken — and the shape of a best-batch proposal.
-/
namespace BlackIt.Samplers

section Select
variable {α β : Type} [LinearOrder β]

theorem filterMap_valid {γ : Type} (pool : List γ) (idx : List Nat) (h : ∀ i ∈ idx, i < pool.length) :
    (idx.filterMap (fun i => pool[i]?)).map some = idx.map (fun i => pool[i]?) := by
  induction idx with
  | nil => rfl
  | cons i idx ih =>
    have hi := h i List.mem_cons_self
    simp only [List.filterMap_cons, List.getElem?_eq_getElem hi, List.map_cons]
    rw [ih (fun j hj => h j (List.mem_cons_of_mem _ hj))]

theorem filterMap_take {γ : Type} (pool : List γ) (idx : List Nat) (k : Nat) (h : ∀ i ∈ idx, i < pool.length) :
    (idx.filterMap (fun i => pool[i]?)).take k = (idx.take k).filterMap (fun i => pool[i]?) := by
  induction idx generalizing k with
  | nil => simp
  | cons i idx ih =>
    have hi := h i List.mem_cons_self
    cases k with
    | zero => simp
    | succ k =>
      simp only [List.filterMap_cons, List.getElem?_eq_getElem hi, List.take_succ_cons]
      rw [ih k (fun j hj => h j (List.mem_cons_of_mem _ hj))]

/-- **selection rule of the surrogate samplers.**  For every pool, every vector of surrogate predictions and
every admissible result of `argsort` (ties broken in any way): the returned candidates are exactly the pool
rows at the first `k` indices of the order; those indices are distinct and valid (a sub-multiset of the pool of
size `min k n`); and every selected prediction is ≤ every prediction that was left out. -/
theorem selectLowest_spec (order : List Nat) (pool : List (List α)) (preds : List β) (k : Nat)
    (h : IsArgsort order preds) (hlen : pool.length = preds.length) :
    (selectLowest order pool k).length = min k pool.length ∧
    (selectLowest order pool k).map some = (order.take k).map (fun i => pool[i]?) ∧
    (order.take k).Nodup ∧ (∀ i ∈ order.take k, i < pool.length) ∧
    (∀ i ∈ order.take k, ∀ j ∈ order.drop k, ∀ pi pj,
        preds[i]? = some pi → preds[j]? = some pj → pi ≤ pj) := by
  obtain ⟨hperm, hsorted⟩ := h
  have hvalid : ∀ i ∈ order, i < pool.length := by
    intro i hi
    have := (hperm.mem_iff).mp hi
    rw [hlen]; simpa using this
  have hnodup : order.Nodup := (hperm.nodup_iff).mpr List.nodup_range
  have holen : order.length = pool.length := by rw [hperm.length_eq, hlen]; simp
  have htake_valid : ∀ i ∈ order.take k, i < pool.length := fun i hi => hvalid i (List.mem_of_mem_take hi)
  unfold selectLowest
  rw [filterMap_take pool order k hvalid]
  refine ⟨?_, filterMap_valid pool (order.take k) htake_valid, hnodup.sublist (List.take_sublist _ _), htake_valid, ?_⟩
  · have := congrArg List.length (filterMap_valid pool (order.take k) htake_valid)
    simp only [List.length_map, List.length_take] at this
    rw [this, holen]
  · intro i hi j hj pi pj hpi hpj
    obtain ⟨a, ha, rfl⟩ := List.getElem_of_mem hi
    obtain ⟨b, hb, rfl⟩ := List.getElem_of_mem hj
    simp only [List.length_take] at ha
    simp only [List.length_drop] at hb
    simp only [List.getElem_take, List.getElem_drop] at hpi hpj
    exact hsorted a (k + b) (by omega) (by omega) pi pj hpi hpj

/-- **parent of a best-batch proposal.**  For every history of at least `batch_size` points, every admissible
`argsort` of its losses and every drawn position `j < batch_size`: the parent is the history row at the `j`-th index of
the order, and its loss is ≤ the loss of every point outside the `batch_size` selected ones — it is one of the
`batch_size` lowest-loss points, however ties are broken. -/
theorem bestBatch_parent_among_lowest (order : List Nat) (hist : List (List α)) (losses : List β) (bs j : Nat)
    (h : IsArgsort order losses) (hlen : hist.length = losses.length) (hj : j < bs) (hb : bs ≤ hist.length) :
    ∃ i row, (order.take bs)[j]? = some i ∧ hist[i]? = some row ∧ bestBatchParent order hist bs j = some row ∧
      ∀ i' ∈ order.drop bs, ∀ pi pj, losses[i]? = some pi → losses[i']? = some pj → pi ≤ pj := by
  obtain ⟨_, hmap, _, hval, hlow⟩ := selectLowest_spec order hist losses bs h hlen
  have holen : order.length = hist.length := by rw [h.1.length_eq, hlen]; simp
  have hjt : j < (order.take bs).length := by simp [List.length_take]; omega
  refine ⟨(order.take bs)[j], hist[(order.take bs)[j]]'(hval _ (List.getElem_mem hjt)), List.getElem?_eq_getElem hjt,
    List.getElem?_eq_getElem _, ?_, ?_⟩
  · have := congrArg (fun l => l[j]?) hmap
    simp only [List.getElem?_map, List.getElem?_eq_getElem hjt, Option.map_some] at this
    unfold bestBatchParent
    cases hs : (selectLowest order hist bs)[j]? with
    | none => rw [hs] at this; simp at this
    | some x =>
      rw [hs] at this
      simp only [Option.map_some, Option.some.injEq] at this
      rw [this, List.getElem?_eq_getElem (hval _ (List.getElem_mem hjt))]
  · intro i' hi' pi pj hpi hpj
    exact hlow _ (List.getElem_mem hjt) i' hi' pi pj hpi hpj

end Select

/-! ## best-batch -/
section BestBatch
variable {α : Type} [LinearOrder α] [Add α] [Mul α] [Neg α]

/-- the displacement a shock applies: `precision · (±1) · size` -/
def shift (ofNat : Nat → α) (prec : List α) (dflt : α) (sh : Shock) : α :=
  if sh.plus then prec.getD sh.idx dflt * ofNat 1 * ofNat sh.size
  else prec.getD sh.idx dflt * (-(ofNat 1)) * ofNat sh.size

theorem applyShocks_length (ofNat : Nat → α) (prec lo hi : List α) (dflt : α) (p : List α) (shocks : List Shock) :
    (applyShocks ofNat prec lo hi dflt p shocks).length = p.length := by
  induction shocks generalizing p with
  | nil => rfl
  | cons sh rest ih => simp only [applyShocks]; rw [ih]; simp

/-- **shape of a best-batch proposal (before the final snap)**: starting from the parent row, every coordinate
that is not shocked keeps the parent's value, and every shocked coordinate (the shocked coordinates are
distinct — `choice(..., replace=False)`) is the parent's value displaced by `size` precision steps in the
drawn direction, clipped to that parameter's bounds -/
theorem applyShocks_spec (ofNat : Nat → α) (prec lo hi : List α) (dflt : α) (p : List α) (shocks : List Shock)
    (hdist : (shocks.map (·.idx)).Nodup) :
    (∀ j, j ∉ shocks.map (·.idx) → (applyShocks ofNat prec lo hi dflt p shocks)[j]? = p[j]?) ∧
    (∀ sh ∈ shocks, sh.idx < p.length →
        (applyShocks ofNat prec lo hi dflt p shocks)[sh.idx]? =
          some (clip (p.getD sh.idx dflt + shift ofNat prec dflt sh) (lo.getD sh.idx dflt) (hi.getD sh.idx dflt))) := by
  induction shocks generalizing p with
  | nil => exact ⟨fun _ _ => rfl, fun sh h => by cases h⟩
  | cons s rest ih =>
    simp only [List.map_cons, List.nodup_cons] at hdist
    obtain ⟨hs, hrest⟩ := hdist
    simp only [applyShocks]
    obtain ⟨ih1, ih2⟩ := ih (p.set s.idx (clip (p.getD s.idx dflt +
      (if s.plus then prec.getD s.idx dflt * ofNat 1 * ofNat s.size else prec.getD s.idx dflt * (-(ofNat 1)) * ofNat s.size))
      (lo.getD s.idx dflt) (hi.getD s.idx dflt))) hrest
    constructor
    · intro j hj
      simp only [List.map_cons, List.mem_cons, not_or] at hj
      rw [ih1 j hj.2, List.getElem?_set_ne (Ne.symm hj.1)]
    · intro sh hsh hlt
      rcases List.mem_cons.mp hsh with rfl | hsh
      · rw [ih1 _ hs, List.getElem?_set_self hlt]
        rfl
      · have hne : sh.idx ≠ s.idx := by
          intro heq; apply hs; rw [← heq]; exact List.mem_map_of_mem hsh
        rw [ih2 sh hsh (by simpa using hlt)]
        simp only [List.getD_eq_getElem?_getD, List.getElem?_set_ne (Ne.symm hne)]

/-- the number of precision steps is between 1 and `perturbation_range − 1` and at least one coordinate is
shocked: that is the contract of the draws (`integers(1, range)`, `betabinom(...) + 1`); stated as the
predicate the correspondence check evaluates on every recorded proposal -/
def ValidShocks (dims range : Nat) (shocks : List Shock) : Prop :=
  shocks ≠ [] ∧ (shocks.map (·.idx)).Nodup ∧ ∀ sh ∈ shocks, sh.idx < dims ∧ 1 ≤ sh.size ∧ sh.size + 1 ≤ range

end BestBatch

/-! ### non-vacuity -/
section Examples
example : IsArgsort [2, 0, 1] ([5, 7, 1] : List Nat) := by
  refine ⟨by decide, ?_⟩
  intro a b hab hb pa pb h1 h2
  simp only [List.length_cons, List.length_nil] at hb
  have hb' : b < 3 := by omega
  interval_cases b <;> interval_cases a <;> simp_all <;> omega
example : selectLowest [2, 0, 1] [[10], [20], [30]] 2 = [[30], [10]] := by decide
example : applyShocks (fun n => (n : Int)) [1, 2] [0, 0] [10, 10] 0 [5, 5] [⟨1, 2, false⟩] = [5, 1] := by decide
end Examples

end BlackIt.Samplers
