import BlackIt.Properties.C03
import BlackIt.Lemmas.Pso
import BlackIt.Model.Cors
import Mathlib.Data.List.Perm.Basic
import Mathlib.Data.List.Nodup
import Mathlib.Data.List.Range
import Mathlib.Tactic.IntervalCases
set_option linter.unusedSectionVars false
set_option linter.unusedSimpArgs false
set_option linter.unusedVariables false

/-!
# C16 — History-driven samplers use the history faithfully and never modify it

Model: `BlackIt/Model/Samplers.lean` (`selectLowest`, `applyShocks`).  In the model values are immutable, so
the no-modification clause lives entirely in the correspondence check (byte snapshots of the real arrays);
what is proved here is the selection rule of the surrogate samplers — for *every* admissible `argsort`,
i.e. however ties are broken — and the shape of a best-batch proposal.
-/
namespace BlackIt.Samplers

section Select
variable {α β : Type} [LinearOrder β]

theorem filterMap_valid {γ : Type} (pool : List γ) (idx : List Nat) (h : ∀ i ∈ idx, i < pool.length) :
    (idx.filterMap (fun i => pool[i]?)).map some = idx.map (fun i => pool[i]?) := by
  induction idx with
  | nil => rfl
  | cons i idx ih =>
    have hi := h i List.mem_cons_self
    simp only [List.filterMap_cons, List.getElem?_eq_getElem hi, List.map_cons]
    rw [ih (fun j hj => h j (List.mem_cons_of_mem _ hj))]

theorem filterMap_take {γ : Type} (pool : List γ) (idx : List Nat) (k : Nat) (h : ∀ i ∈ idx, i < pool.length) :
    (idx.filterMap (fun i => pool[i]?)).take k = (idx.take k).filterMap (fun i => pool[i]?) := by
  induction idx generalizing k with
  | nil => simp
  | cons i idx ih =>
    have hi := h i List.mem_cons_self
    cases k with
    | zero => simp
    | succ k =>
      simp only [List.filterMap_cons, List.getElem?_eq_getElem hi, List.take_succ_cons]
      rw [ih k (fun j hj => h j (List.mem_cons_of_mem _ hj))]

/-- **selection rule of the surrogate samplers.**  For every pool, every vector of surrogate predictions and
every admissible result of `argsort` (ties broken in any way): the returned candidates are exactly the pool
rows at the first `k` indices of the order; those indices are distinct and valid (a sub-multiset of the pool of
size `min k n`); and every selected prediction is ≤ every prediction that was left out. -/
theorem selectLowest_spec (order : List Nat) (pool : List (List α)) (preds : List β) (k : Nat)
    (h : IsArgsort order preds) (hlen : pool.length = preds.length) :
    (selectLowest order pool k).length = min k pool.length ∧
    (selectLowest order pool k).map some = (order.take k).map (fun i => pool[i]?) ∧
    (order.take k).Nodup ∧ (∀ i ∈ order.take k, i < pool.length) ∧
    (∀ i ∈ order.take k, ∀ j ∈ order.drop k, ∀ pi pj,
        preds[i]? = some pi → preds[j]? = some pj → pi ≤ pj) := by
  obtain ⟨hperm, hsorted⟩ := h
  have hvalid : ∀ i ∈ order, i < pool.length := by
    intro i hi
    have := (hperm.mem_iff).mp hi
    rw [hlen]; simpa using this
  have hnodup : order.Nodup := (hperm.nodup_iff).mpr List.nodup_range
  have holen : order.length = pool.length := by rw [hperm.length_eq, hlen]; simp
  have htake_valid : ∀ i ∈ order.take k, i < pool.length := fun i hi => hvalid i (List.mem_of_mem_take hi)
  unfold selectLowest
  rw [filterMap_take pool order k hvalid]
  refine ⟨?_, filterMap_valid pool (order.take k) htake_valid, hnodup.sublist (List.take_sublist _ _), htake_valid, ?_⟩
  · have := congrArg List.length (filterMap_valid pool (order.take k) htake_valid)
    simp only [List.length_map, List.length_take] at this
    rw [this, holen]
  · intro i hi j hj pi pj hpi hpj
    obtain ⟨a, ha, rfl⟩ := List.getElem_of_mem hi
    obtain ⟨b, hb, rfl⟩ := List.getElem_of_mem hj
    simp only [List.length_take] at ha
    simp only [List.length_drop] at hb
    simp only [List.getElem_take, List.getElem_drop] at hpi hpj
    exact hsorted a (k + b) (by omega) (by omega) pi pj hpi hpj

/-- **parent of a best-batch proposal.**  For every history of at least `batch_size` points, every admissible
`argsort` of its losses and every drawn position `j < batch_size`: the parent is the history row at the `j`-th index of
the order, and its loss is ≤ the loss of every point outside the `batch_size` selected ones — it is one of the
`batch_size` lowest-loss points, however ties are broken. -/
theorem bestBatch_parent_among_lowest (order : List Nat) (hist : List (List α)) (losses : List β) (bs j : Nat)
    (h : IsArgsort order losses) (hlen : hist.length = losses.length) (hj : j < bs) (hb : bs ≤ hist.length) :
    ∃ i row, (order.take bs)[j]? = some i ∧ hist[i]? = some row ∧ bestBatchParent order hist bs j = some row ∧
      ∀ i' ∈ order.drop bs, ∀ pi pj, losses[i]? = some pi → losses[i']? = some pj → pi ≤ pj := by
  obtain ⟨_, hmap, _, hval, hlow⟩ := selectLowest_spec order hist losses bs h hlen
  have holen : order.length = hist.length := by rw [h.1.length_eq, hlen]; simp
  have hjt : j < (order.take bs).length := by simp [List.length_take]; omega
  refine ⟨(order.take bs)[j], hist[(order.take bs)[j]]'(hval _ (List.getElem_mem hjt)), List.getElem?_eq_getElem hjt,
    List.getElem?_eq_getElem _, ?_, ?_⟩
  · have := congrArg (fun l => l[j]?) hmap
    simp only [List.getElem?_map, List.getElem?_eq_getElem hjt, Option.map_some] at this
    unfold bestBatchParent
    cases hs : (selectLowest order hist bs)[j]? with
    | none => rw [hs] at this; simp at this
    | some x =>
      rw [hs] at this
      simp only [Option.map_some, Option.some.injEq] at this
      rw [this, List.getElem?_eq_getElem (hval _ (List.getElem_mem hjt))]
  · intro i' hi' pi pj hpi hpj
    exact hlow _ (List.getElem_mem hjt) i' hi' pi pj hpi hpj

end Select

/-! ## best-batch -/
section BestBatch
variable {α : Type} [LinearOrder α] [Add α] [Mul α] [Neg α]

/-- the displacement a shock applies: `precision · (±1) · size` -/
def shift (ofNat : Nat → α) (prec : List α) (dflt : α) (sh : Shock) : α :=
  if sh.plus then prec.getD sh.idx dflt * ofNat 1 * ofNat sh.size
  else prec.getD sh.idx dflt * (-(ofNat 1)) * ofNat sh.size

theorem applyShocks_length (ofNat : Nat → α) (prec lo hi : List α) (dflt : α) (p : List α) (shocks : List Shock) :
    (applyShocks ofNat prec lo hi dflt p shocks).length = p.length := by
  induction shocks generalizing p with
  | nil => rfl
  | cons sh rest ih => simp only [applyShocks]; rw [ih]; simp

/-- **shape of a best-batch proposal (before the final snap)**: starting from the parent row, every coordinate
that is not shocked keeps the parent's value, and every shocked coordinate (the shocked coordinates are
distinct — `choice(..., replace=False)`) is the parent's value displaced by `size` precision steps in the
drawn direction, clipped to that parameter's bounds -/
theorem applyShocks_spec (ofNat : Nat → α) (prec lo hi : List α) (dflt : α) (p : List α) (shocks : List Shock)
    (hdist : (shocks.map (·.idx)).Nodup) :
    (∀ j, j ∉ shocks.map (·.idx) → (applyShocks ofNat prec lo hi dflt p shocks)[j]? = p[j]?) ∧
    (∀ sh ∈ shocks, sh.idx < p.length →
        (applyShocks ofNat prec lo hi dflt p shocks)[sh.idx]? =
          some (clip (p.getD sh.idx dflt + shift ofNat prec dflt sh) (lo.getD sh.idx dflt) (hi.getD sh.idx dflt))) := by
  induction shocks generalizing p with
  | nil => exact ⟨fun _ _ => rfl, fun sh h => by cases h⟩
  | cons s rest ih =>
    simp only [List.map_cons, List.nodup_cons] at hdist
    obtain ⟨hs, hrest⟩ := hdist
    simp only [applyShocks]
    obtain ⟨ih1, ih2⟩ := ih (p.set s.idx (clip (p.getD s.idx dflt +
      (if s.plus then prec.getD s.idx dflt * ofNat 1 * ofNat s.size else prec.getD s.idx dflt * (-(ofNat 1)) * ofNat s.size))
      (lo.getD s.idx dflt) (hi.getD s.idx dflt))) hrest
    constructor
    · intro j hj
      simp only [List.map_cons, List.mem_cons, not_or] at hj
      rw [ih1 j hj.2, List.getElem?_set_ne (Ne.symm hj.1)]
    · intro sh hsh hlt
      rcases List.mem_cons.mp hsh with rfl | hsh
      · rw [ih1 _ hs, List.getElem?_set_self hlt]
        rfl
      · have hne : sh.idx ≠ s.idx := by
          intro heq; apply hs; rw [← heq]; exact List.mem_map_of_mem hsh
        rw [ih2 sh hsh (by simpa using hlt)]
        simp only [List.getD_eq_getElem?_getD, List.getElem?_set_ne (Ne.symm hne)]

/-- the number of precision steps is between 1 and `perturbation_range − 1` and at least one coordinate is
shocked: that is the contract of the draws (`integers(1, range)`, `betabinom(...) + 1`); stated as the
predicate the correspondence check evaluates on every recorded proposal -/
def ValidShocks (dims range : Nat) (shocks : List Shock) : Prop :=
  shocks ≠ [] ∧ (shocks.map (·.idx)).Nodup ∧ ∀ sh ∈ shocks, sh.idx < dims ∧ 1 ≤ sh.size ∧ sh.size + 1 ≤ range

end BestBatch

/-! ### non-vacuity -/
section Examples
example : IsArgsort [2, 0, 1] ([5, 7, 1] : List Nat) := by
  refine ⟨by decide, ?_⟩
  intro a b hab hb pa pb h1 h2
  simp only [List.length_cons, List.length_nil] at hb
  have hb' : b < 3 := by omega
  interval_cases b <;> interval_cases a <;> simp_all <;> omega
example : selectLowest [2, 0, 1] [[10], [20], [30]] 2 = [[30], [10]] := by decide
example : applyShocks (fun n => (n : Int)) [1, 2] [0, 0] [10, 10] 0 [5, 5] [⟨1, 2, false⟩] = [5, 1] := by decide
end Examples

end BlackIt.Samplers


/-!
## Particle swarm: the whole sampler (`BlackIt/Model/Pso.lean`, tied bit for bit to `ParticleSwarmSampler` by `harness/props/pso_model.py`)

What the swarm reads from the history, for every sequence of calls, every history, every draw of its generator and every option:
its personal bests are the best of the losses recorded *in each particle's own slot* of the history (and the matching row), its
global-best index always points at a smallest personal best, and after a step every position lies in the unit cube, so that the
raw proposal lies within the declared bounds before it is snapped.
-/
namespace BlackIt.Pso
open BlackIt.Samplers

section Reads
variable {α β : Type} [LinearOrder β]

/-- the rows of the history `_update_best` looks at: slot `j` of the swarm's previous batch -/
def ownSlot (bs : Nat) (s : Swarm α β) (points : List (List α)) (losses : List β) (j : Nat) : Option (List α × β) :=
  (((points.drop s.prevStart).take bs).zip ((losses.drop s.prevStart).take bs))[j]?

/-- a slot that is read is a row of the history, at the index where the swarm's own batch `j` was recorded -/
theorem ownSlot_is_history_row (bs : Nat) (s : Swarm α β) (points : List (List α)) (losses : List β) (j : Nat) (p : List α) (l : β)
    (h : ownSlot bs s points losses j = some (p, l)) :
    j < bs ∧ points[s.prevStart + j]? = some p ∧ losses[s.prevStart + j]? = some l := by
  unfold ownSlot at h
  rw [List.getElem?_zip_eq_some] at h
  obtain ⟨h1, h2⟩ := h
  simp only [List.getElem?_take, List.getElem?_drop] at h1 h2
  split at h1
  · exact ⟨‹j < bs›, h1, by simpa [‹j < bs›] using h2⟩
  · cases h1

/-- **personal-best losses**: after `_update_best`, particle `j`'s personal-best loss is the smaller of what it was and the loss
recorded in its own slot; a particle whose slot is not in the history keeps its value -/
theorem updateBest_bestLoss (bs : Nat) (s : Swarm α β) (points : List (List α)) (losses : List β) (j : Nat) :
    (updateBest bs s points losses).bestLoss[j]? =
      match ownSlot bs s points losses j with
      | some pl => (s.bestLoss[j]?).map (fun bl => min bl pl.2)
      | none => s.bestLoss[j]? := by
  unfold updateBest ownSlot
  dsimp only
  have key := updateLoop_bestLoss ({ s with bestPoint := points[argmin losses]? }) 0
    (((points.drop s.prevStart).take bs).zip ((losses.drop s.prevStart).take bs)) j
  simp only [Nat.zero_le, if_true, Nat.sub_zero] at key
  split <;> exact key

/-- personal-best losses never increase -/
theorem updateBest_bestLoss_antitone (bs : Nat) (s : Swarm α β) (points : List (List α)) (losses : List β) (j : Nat) (bl' : β)
    (h : (updateBest bs s points losses).bestLoss[j]? = some bl') : ∃ bl, s.bestLoss[j]? = some bl ∧ bl' ≤ bl := by
  rw [updateBest_bestLoss] at h
  split at h
  · cases hb : s.bestLoss[j]? with
    | none => simp [hb] at h
    | some bl =>
      simp only [hb, Option.map_some, Option.some.injEq] at h
      exact ⟨bl, rfl, h ▸ min_le_left _ _⟩
  · exact ⟨bl', h, le_refl _⟩

/-- **personal-best positions come from the particle's own slot**: after `_update_best`, either particle `j` keeps its personal
best (position and loss), or both are exactly the row and the loss the history holds at `previous_batch_index_start + j`, and that
loss is strictly below the old personal best -/
theorem updateBest_personal_best_from_own_slot (bs : Nat) (s : Swarm α β) (points : List (List α)) (losses : List β) (j : Nat)
    (hwf : s.bestPos.length = s.bestLoss.length) :
    ((updateBest bs s points losses).bestPos[j]? = s.bestPos[j]? ∧ (updateBest bs s points losses).bestLoss[j]? = s.bestLoss[j]?) ∨
    (∃ p l bl, j < bs ∧ points[s.prevStart + j]? = some p ∧ losses[s.prevStart + j]? = some l ∧ s.bestLoss[j]? = some bl ∧ l < bl ∧
      (updateBest bs s points losses).bestPos[j]? = some p ∧ (updateBest bs s points losses).bestLoss[j]? = some l) := by
  have hloss := updateBest_bestLoss bs s points losses j
  have hpos : (updateBest bs s points losses).bestPos[j]? =
      match ownSlot bs s points losses j with
      | some pl => if (∃ bl, s.bestLoss[j]? = some bl ∧ pl.2 < bl) ∧ j < s.bestPos.length then some pl.1 else s.bestPos[j]?
      | none => s.bestPos[j]? := by
    unfold updateBest ownSlot
    dsimp only
    have key := updateLoop_bestPos ({ s with bestPoint := points[argmin losses]? }) 0
      (((points.drop s.prevStart).take bs).zip ((losses.drop s.prevStart).take bs)) j
    simp only [Nat.zero_le, if_true, Nat.sub_zero] at key
    split <;> exact key
  cases hos : ownSlot bs s points losses j with
  | none =>
    left
    rw [hpos, hloss, hos]
    exact ⟨rfl, rfl⟩
  | some pl =>
    obtain ⟨p, l⟩ := pl
    obtain ⟨hj, hp, hl⟩ := ownSlot_is_history_row bs s points losses j p l hos
    rw [hos] at hpos hloss
    dsimp only at hpos hloss
    cases hb : s.bestLoss[j]? with
    | none =>
      left
      rw [hpos, hloss, hb]
      simp
    | some bl =>
      have hjl : j < s.bestLoss.length := by
        rcases Nat.lt_or_ge j s.bestLoss.length with h | h
        · exact h
        · simp [List.getElem?_eq_none h] at hb
      by_cases hlt : l < bl
      · right
        refine ⟨p, l, bl, hj, hp, hl, rfl, hlt, ?_, ?_⟩
        · rw [hpos, if_pos ⟨⟨bl, hb, hlt⟩, by omega⟩]
        · rw [hloss, hb]; simp [min_eq_right (le_of_lt hlt)]
      · left
        constructor
        · rw [hpos, if_neg]
          rintro ⟨⟨bl', h1, h2⟩, _⟩
          rw [hb] at h1; cases h1; exact hlt h2
        · rw [hloss, hb]; simp [min_eq_left (not_lt.mp hlt)]

/-- **the attractor across samplers is the first lowest-loss point of the whole history**
(`global_minimum_across_samplers=True`: `_best_point = existing_points[np.argmin(existing_losses)]`) -/
theorem updateBest_bestPoint_is_first_lowest (bs : Nat) (s : Swarm α β) (points : List (List α)) (losses : List β)
    (hne : losses ≠ []) (hlen : points.length = losses.length) :
    ∃ (i : Nat) (p : List α) (l : β), (updateBest bs s points losses).bestPoint = some p ∧ points[i]? = some p ∧ losses[i]? = some l ∧
      (∀ (j : Nat) (v : β), losses[j]? = some v → l ≤ v) ∧ (∀ (j : Nat) (v : β), j < i → losses[j]? = some v → l < v) := by
  obtain ⟨rv, h1, h2, h3⟩ := argmin_spec losses hne
  have hi : argmin losses < points.length := by
    rw [hlen]
    rcases Nat.lt_or_ge (argmin losses) losses.length with h | h
    · exact h
    · simp [List.getElem?_eq_none h] at h1
  have hbp : (updateBest bs s points losses).bestPoint = points[argmin losses]? := by
    unfold updateBest
    dsimp only
    have key := (updateLoop_other ({ s with bestPoint := points[argmin losses]? }) 0
      (((points.drop s.prevStart).take bs).zip ((losses.drop s.prevStart).take bs))).2.2.1
    split <;> exact key
  exact ⟨argmin losses, points[argmin losses], rv, by rw [hbp, List.getElem?_eq_getElem hi], List.getElem?_eq_getElem hi, h1, h2, h3⟩

/-- `_update_best` keeps the two personal-best arrays of equal length -/
theorem updateBest_wf (bs : Nat) (s : Swarm α β) (points : List (List α)) (losses : List β)
    (hwf : s.bestPos.length = s.bestLoss.length) :
    (updateBest bs s points losses).bestPos.length = (updateBest bs s points losses).bestLoss.length := by
  unfold updateBest
  dsimp only
  have key := updateLoop_len ({ s with bestPoint := points[argmin losses]? }) 0
    (((points.drop s.prevStart).take bs).zip ((losses.drop s.prevStart).take bs))
  split <;> ((try dsimp only); rw [key.1, key.2]; exact hwf)

end Reads

section Reach
variable {α β : Type} [Field α] [LinearOrder α] [IsStrictOrderedRing α] [LinearOrder β]

/-- one `sample_batch` call: the two draws of the generator and the history handed over -/
structure Call (α β : Type) where
  d0 : List (List α)
  d1 : List (List α)
  points : List (List α)
  losses : List β

/-- the life of one sampler object: any sequence of calls -/
def runCalls (cfg : Cfg α) (half : α) (top : β) (lo hi : List α) : Option (Swarm α β) → List (Call α β) → Option (Swarm α β)
  | s, [] => s
  | s, c :: cs => runCalls cfg half top lo hi (some (sampleBatch cfg 0 1 half top lo hi s c.d0 c.d1 c.points c.losses).1) cs

theorem sampleBatch_ginv (cfg : Cfg α) (hbs : 0 < cfg.bs) (half : α) (top : β) (lo hi : List α) (s : Option (Swarm α β))
    (hs : ∀ sw, s = some sw → GInv sw) (d0 d1 points : List (List α)) (losses : List β) :
    GInv (sampleBatch cfg 0 1 half top lo hi s d0 d1 points losses).1 := by
  unfold sampleBatch
  split
  · rename_i sw
    split
    · exact setUp_ginv cfg.bs hbs half top d0 d1 0 sw.bestPoint
    · have h0 : GInv sw := hs sw rfl
      have h1 : GInv (updateBest cfg.bs sw points losses) := by
        unfold updateBest
        dsimp only
        have : GInv (updateLoop ({ sw with bestPoint := points[argmin losses]? }) 0
            (((points.drop sw.prevStart).take cfg.bs).zip ((losses.drop sw.prevStart).take cfg.bs))) :=
          updateLoop_ginv _ _ _ h0
        split <;> exact this
      exact h1
  · exact setUp_ginv cfg.bs hbs half top d0 d1 points.length none

/-- **the global-best index points at a smallest personal-best loss in every reachable state** — for every sequence of calls,
histories (of any length, growing or not), draws and options -/
theorem pso_global_best_is_argmin (cfg : Cfg α) (hbs : 0 < cfg.bs) (half : α) (top : β) (lo hi : List α)
    (calls : List (Call α β)) (sw : Swarm α β) (h : runCalls cfg half top lo hi none calls = some sw) : GInv sw := by
  have H : ∀ (calls : List (Call α β)) (s : Option (Swarm α β)), (∀ t, s = some t → GInv t) →
      ∀ sw, runCalls cfg half top lo hi s calls = some sw → GInv sw := by
    intro calls
    induction calls with
    | nil => intro s hs sw h; exact hs sw h
    | cons c cs ih =>
      intro s hs sw h
      simp only [runCalls] at h
      refine ih _ ?_ sw h
      intro t ht
      cases ht
      exact sampleBatch_ginv cfg hbs half top lo hi s hs _ _ _ _
  exact H calls none (by simp) sw h

/-- in every reachable state the two personal-best arrays have one entry per particle — provided each first draw of a call has
`batch_size` rows (the contract of `random(size=(batch_size, dims))`), so the hypothesis of
`updateBest_personal_best_from_own_slot` is met throughout the life of a sampler -/
theorem pso_personal_best_arrays_aligned (cfg : Cfg α) (half : α) (top : β) (lo hi : List α)
    (calls : List (Call α β)) (hd : ∀ c ∈ calls, c.d0.length = cfg.bs) (sw : Swarm α β)
    (h : runCalls cfg half top lo hi none calls = some sw) : sw.bestPos.length = cfg.bs ∧ sw.bestLoss.length = cfg.bs := by
  have H : ∀ (calls : List (Call α β)), (∀ c ∈ calls, c.d0.length = cfg.bs) → ∀ (s : Option (Swarm α β)),
      (∀ t, s = some t → t.bestPos.length = cfg.bs ∧ t.bestLoss.length = cfg.bs) →
      ∀ sw, runCalls cfg half top lo hi s calls = some sw → sw.bestPos.length = cfg.bs ∧ sw.bestLoss.length = cfg.bs := by
    intro calls
    induction calls with
    | nil => intro _ s hs sw h; exact hs sw h
    | cons c cs ih =>
      intro hd s hs sw h
      simp only [runCalls] at h
      refine ih (fun c' hc' => hd c' (List.mem_cons_of_mem _ hc')) _ ?_ sw h
      intro t ht
      cases ht
      have hc := hd c List.mem_cons_self
      unfold sampleBatch
      split
      · rename_i sw0
        split
        · simp [setUp, hc]
        · have h0 := hs sw0 rfl
          have hw := updateBest_wf cfg.bs sw0 c.points c.losses (by rw [h0.1, h0.2])
          have hl : (updateBest cfg.bs sw0 c.points c.losses).bestLoss.length = cfg.bs := by
            unfold updateBest
            dsimp only
            have key := updateLoop_len ({ sw0 with bestPoint := c.points[argmin c.losses]? }) 0
              (((c.points.drop sw0.prevStart).take cfg.bs).zip ((c.losses.drop sw0.prevStart).take cfg.bs))
            split <;> ((try dsimp only); rw [key.1]; exact h0.2)
          simp only [doStep]
          exact ⟨by rw [hw, hl], hl⟩
      · simp [setUp, hc]
  exact H calls hd none (by simp) sw h

/-- the losses particle `j` reads from its own slot along a sequence of update calls (every call is handed a non-empty history) -/
def ownLossesAlong (cfg : Cfg α) (half : α) (top : β) (lo hi : List α) (j : Nat) : Swarm α β → List (Call α β) → List β
  | _, [] => []
  | s, c :: cs =>
    (match ownSlot cfg.bs s c.points c.losses j with
      | some pl => [pl.2]
      | none => []) ++
    ownLossesAlong cfg half top lo hi j (sampleBatch cfg 0 1 half top lo hi (some s) c.d0 c.d1 c.points c.losses).1 cs

theorem foldl_min_map {γ : Type} [LinearOrder γ] (b : Option γ) (l : List γ) (x : γ) :
    (b.map (fun v => min v x)).map (fun v => l.foldl min v) = b.map (fun v => (x :: l).foldl min v) := by
  cases b <;> simp

/-- **a particle's personal-best loss is the smallest loss it has ever read from its own slot of the history** — over any number of
update calls, any histories and any draws; which rows those slots are is `ownSlot_is_history_row` (row `previous_start + j`, where
`previous_start` is the length of the history handed to the previous call: `sampleBatch_prevStart`) -/
theorem pso_personal_best_is_min_of_own_losses (cfg : Cfg α) (half : α) (top : β) (lo hi : List α) (j : Nat)
    (calls : List (Call α β)) (hne : ∀ c ∈ calls, c.points.length ≠ 0) (s : Swarm α β) :
    ∀ sw, runCalls cfg half top lo hi (some s) calls = some sw →
      sw.bestLoss[j]? = (s.bestLoss[j]?).map (fun b => (ownLossesAlong cfg half top lo hi j s calls).foldl min b) := by
  induction calls generalizing s with
  | nil =>
    intro sw h
    simp only [runCalls, Option.some.injEq] at h
    subst h
    cases s.bestLoss[j]? <;> simp [ownLossesAlong]
  | cons c cs ih =>
    intro sw h
    simp only [runCalls] at h
    have hc : c.points.length ≠ 0 := hne c List.mem_cons_self
    have hstep : (sampleBatch cfg 0 1 half top lo hi (some s) c.d0 c.d1 c.points c.losses).1.bestLoss[j]? =
        match ownSlot cfg.bs s c.points c.losses j with
        | some pl => (s.bestLoss[j]?).map (fun bl => min bl pl.2)
        | none => s.bestLoss[j]? := by
      have : (sampleBatch cfg 0 1 half top lo hi (some s) c.d0 c.d1 c.points c.losses).1.bestLoss =
          (updateBest cfg.bs s c.points c.losses).bestLoss := by
        unfold sampleBatch
        simp only [hc, if_false, doStep]
      rw [this]
      exact updateBest_bestLoss cfg.bs s c.points c.losses j
    rw [ih (fun c' hc' => hne c' (List.mem_cons_of_mem _ hc')) _ sw h, hstep]
    simp only [ownLossesAlong]
    cases hos : ownSlot cfg.bs s c.points c.losses j with
    | none => simp
    | some pl =>
      simp only [List.singleton_append]
      exact foldl_min_map _ _ _

/-- the cursor after a call is the length of the history the call was handed -/
theorem sampleBatch_prevStart (cfg : Cfg α) (half : α) (top : β) (lo hi : List α) (s : Option (Swarm α β))
    (d0 d1 points : List (List α)) (losses : List β) :
    (sampleBatch cfg 0 1 half top lo hi s d0 d1 points losses).1.prevStart = points.length := by
  unfold sampleBatch
  split
  · split
    · rename_i h; simp [setUp, h]
    · rfl
  · simp [setUp]

/-- **after a step every position lies in the unit cube and the raw proposal within the declared bounds**: for a swarm that has
started and a non-empty history, whatever the state, the draws and the history -/
theorem pso_step_in_unit_cube_and_bounds (cfg : Cfg α) (half : α) (top : β) (lo hi : List α) (sw : Swarm α β)
    (d0 d1 points : List (List α)) (losses : List β) (hne : points.length ≠ 0) (hb : ∀ b ∈ lo.zip hi, b.1 ≤ b.2) :
    (∀ row ∈ (sampleBatch cfg 0 1 half top lo hi (some sw) d0 d1 points losses).1.pos, ∀ y ∈ row, 0 ≤ y ∧ y ≤ 1) ∧
    (∀ row ∈ (sampleBatch cfg 0 1 half top lo hi (some sw) d0 d1 points losses).2, ∀ (j : Nat) (v : α), row[j]? = some v →
        ∃ b, (lo.zip hi)[j]? = some b ∧ b.1 ≤ v ∧ v ≤ b.2) := by
  have hpos : ∀ row ∈ (doStep cfg 0 1 (updateBest cfg.bs sw points losses) d0 d1).pos, ∀ y ∈ row, 0 ≤ y ∧ y ≤ 1 := by
    intro row hrow
    exact mem_zipWith_rows hrow
  unfold sampleBatch
  simp only [hne, if_false]
  refine ⟨hpos, ?_⟩
  intro row hrow j v hv
  unfold scale at hrow
  rw [List.mem_map] at hrow
  obtain ⟨prow, hprow, rfl⟩ := hrow
  exact zipWith_scale_between prow (lo.zip hi) (hpos prow hprow) hb j v hv

end Reach

/-! ### non-vacuity: a concrete two-particle swarm over ℚ -/
section Examples
/-- two particles, one parameter; the second call reads the two rows the swarm proposed first and improves both personal bests -/
example :
    let cfg : Cfg Rat := ⟨2, 1/2, 1/10, 1/10, false⟩
    let c0 : Call Rat Nat := ⟨[[1/4], [3/4]], [[1/2], [1/2]], [], []⟩
    let c1 : Call Rat Nat := ⟨[[1/2], [1/2]], [[1/2], [1/2]], [[1/4], [3/4]], [5, 3]⟩
    (runCalls cfg (1/2) (1000 : Nat) [0] [1] none [c0, c1]).map (fun s => (s.bestLoss, s.gid, s.bestPos)) =
      some ([5, 3], 1, [[1/4], [3/4]]) := by
  decide +kernel
end Examples

/-! ## the swarm after a failed batch (the sampler side of C11)

With the RL scheduler any sampler may be chosen after a swarm batch that failed: the rows the swarm then finds at its cursor are another sampler's, and
there may be fewer of them than its batch.  `_update_best` is total on such a history (the `zip` stops early), and a particle whose slot lies beyond
the end of the history keeps its personal best and its loss.  (A vectorised `_update_best` that indexes with a boolean mask of the wrong length raises
there: wave-12 seeded change, found by `pso_bookkeeping` and the RL line-up of `builtin_sampler_faults`.) -/
section AfterFailure
variable {α β : Type} [LinearOrder β]


theorem ownSlot_none_of_short (bs : Nat) (s : Swarm α β) (points : List (List α)) (losses : List β) (j : Nat)
    (h : points.length ≤ s.prevStart + j) : ownSlot bs s points losses j = none := by
  cases hs : ownSlot bs s points losses j with
  | none => rfl
  | some pl =>
    obtain ⟨p, l⟩ := pl
    have := (ownSlot_is_history_row bs s points losses j p l hs).2.1
    have hlt : s.prevStart + j < points.length := by
      by_contra hge
      rw [List.getElem?_eq_none (Nat.le_of_not_lt hge)] at this
      cases this
    omega

/-- a particle whose slot `prevStart + j` lies beyond the end of the history handed to the swarm keeps its personal-best loss and position -/
theorem updateBest_beyond_history_unchanged (bs : Nat) (s : Swarm α β) (points : List (List α)) (losses : List β) (j : Nat)
    (hwf : s.bestPos.length = s.bestLoss.length) (h : points.length ≤ s.prevStart + j) :
    (updateBest bs s points losses).bestLoss[j]? = s.bestLoss[j]? ∧ (updateBest bs s points losses).bestPos[j]? = s.bestPos[j]? := by
  have hl := updateBest_bestLoss bs s points losses j
  rw [ownSlot_none_of_short bs s points losses j h] at hl
  refine ⟨hl, ?_⟩
  rcases updateBest_personal_best_from_own_slot bs s points losses j hwf with h1 | ⟨p, l, bl, _, hp, _⟩
  · exact h1.1
  · exfalso
    have hlt : s.prevStart + j < points.length := by
      by_contra hge
      rw [List.getElem?_eq_none (Nat.le_of_not_lt hge)] at hp
      cases hp
    omega

/-- in particular: a failed batch (the same history handed again, so that NO slot is inside it) changes no personal best -/
theorem updateBest_after_failed_batch (bs : Nat) (s : Swarm α β) (points : List (List α)) (losses : List β)
    (hwf : s.bestPos.length = s.bestLoss.length) (h : points.length ≤ s.prevStart) (j : Nat) :
    (updateBest bs s points losses).bestLoss[j]? = s.bestLoss[j]? ∧ (updateBest bs s points losses).bestPos[j]? = s.bestPos[j]? :=
  updateBest_beyond_history_unchanged bs s points losses j hwf (by omega)

end AfterFailure

end BlackIt.Pso


/-!
## CORS: the radius schedule and the box/cube maps (`BlackIt/Model/Cors.lean`, radii tied bit for bit to `CORSSampler` by `harness/props/c16.py`)
-/
namespace BlackIt.Cors

/-- **the density-decay counter has no gaps and no repeats over the life of a sampler object**: the points proposed by calls
`0 … n-1` carry the indices `0 … n·bs - 1`, in order — whatever histories the calls were handed -/
theorem indices_concat (bs n : Nat) : (List.range n).flatMap (fun b => indices b bs) = List.range (n * bs) := by
  induction n with
  | zero => simp
  | succ n ih =>
    rw [List.range_succ, List.flatMap_append, ih]
    simp only [List.flatMap_cons, List.flatMap_nil, List.append_nil, indices]
    rw [Nat.succ_mul, List.range_add]

section Run
variable {α : Type} [Sub α] [Mul α] [Div α]

/-- what call number `c` of one object computes: radii for the indices `c·bs … c·bs + bs - 1` with the history length it is handed,
and `nSeed + j` distance constraints for its `j`-th minimisation -/
theorem run_call (o : Ops α) (cfg : Cfg α) (dims bs : Nat) (b0 : Nat) (ns : List Nat) (c : Nat) (n : Nat) (h : ns[c]? = some n) :
    (run o cfg dims bs b0 ns)[c]? =
      some ((indices (b0 + c) bs).map (radius o cfg (ballVolume o dims) dims n), (List.range bs).map (fun j => n + j)) := by
  induction ns generalizing b0 c with
  | nil => simp at h
  | cons m ns ih =>
    cases c with
    | zero =>
      simp only [List.getElem?_cons_zero, Option.some.injEq] at h
      subst h
      simp [run, sampleBatch]
    | succ c =>
      simp only [List.getElem?_cons_succ] at h
      simp only [run, List.getElem?_cons_succ, sampleBatch]
      rw [ih (b0 + 1) c h]
      have : b0 + 1 + c = b0 + (c + 1) := by omega
      rw [this]

end Run

section Maps
variable {α : Type} [Field α] [LinearOrder α] [IsStrictOrderedRing α]

/-- `cubetobox ∘ boxtocube` is the identity on every parameter whose bounds differ -/
theorem cubeToBox_boxToCube (lo hi row : List α) (hne : ∀ b ∈ lo.zip hi, b.1 ≠ b.2) (hlen : row.length ≤ (lo.zip hi).length) :
    cubeToBox lo hi (boxToCube lo hi row) = row := by
  unfold cubeToBox boxToCube
  generalize lo.zip hi = bnds at hne hlen
  induction row generalizing bnds with
  | nil => simp
  | cons x row ih =>
    cases bnds with
    | nil => simp at hlen
    | cons b bnds =>
      simp only [List.zipWith_cons_cons, List.cons.injEq]
      constructor
      · have hb : b.2 - b.1 ≠ 0 := sub_ne_zero.mpr (Ne.symm (hne b List.mem_cons_self))
        field_simp
        ring
      · exact ih bnds (fun c hc => hne c (List.mem_cons_of_mem _ hc)) (by simpa using hlen)

/-- a point of the unit cube is mapped into the declared bounds -/
theorem cubeToBox_in_bounds (lo hi row : List α) (hrow : ∀ y ∈ row, 0 ≤ y ∧ y ≤ 1) (hb : ∀ b ∈ lo.zip hi, b.1 ≤ b.2) (j : Nat) (v : α)
    (hv : (cubeToBox lo hi row)[j]? = some v) : ∃ b, (lo.zip hi)[j]? = some b ∧ b.1 ≤ v ∧ v ≤ b.2 :=
  BlackIt.Pso.zipWith_scale_between row (lo.zip hi) hrow hb j v hv

/-- while fewer than `max_samples - 1` points have been proposed, the radius is positive — for any `pow` that maps positive bases to
positive values (the contract of `**` on positive floats) -/
theorem radius_pos (o : Ops α) (cfg : Cfg α) (v1 : α) (dims nSeed k : Nat)
    (hof : ∀ n : Nat, o.ofNat n = (n : α)) (hpow : ∀ x y : α, 0 < x → 0 < o.pow x y)
    (hk : k + 1 < cfg.maxSamples) (hrho : 0 < cfg.rho0) (hv : 0 < v1) (hn : 0 < nSeed + k) :
    0 < radius o cfg v1 dims nSeed k := by
  unfold radius
  apply hpow
  rw [hof, hof, hof, hof]
  have h1 : (0 : α) < (cfg.maxSamples : α) - ((1 : Nat) : α) - (k : α) := by
    have : ((k + 1 : Nat) : α) < (cfg.maxSamples : α) := by exact_mod_cast hk
    push_cast at this ⊢
    linarith
  have h2 : (0 : α) < (cfg.maxSamples : α) - ((1 : Nat) : α) := by
    have : (0 : α) ≤ (k : α) := Nat.cast_nonneg k
    linarith
  have h3 : (0 : α) < ((nSeed + k : Nat) : α) := by exact_mod_cast hn
  exact div_pos (mul_pos hrho (hpow _ _ (div_pos h1 h2))) (mul_pos hv h3)

end Maps

/-! ### non-vacuity -/
example : indices 2 3 = [6, 7, 8] := by decide
example : (run (⟨fun n => (n : Rat), 3, fun x _ => x⟩ : Ops Rat) ⟨50, 1/2, 1⟩ 2 2 0 [5, 9]).map (·.2) = [[5, 6], [9, 10]] := by decide +kernel

end BlackIt.Cors
