import BlackIt.Model.Loss
import BlackIt.Model.Gsl
import Mathlib.Algebra.Order.Field.Basic
import Mathlib.Algebra.BigOperators.Group.List.Basic
import Mathlib.Algebra.Order.BigOperators.Group.List
import Mathlib.Algebra.Order.Ring.Abs
import Mathlib.Data.List.Perm.Basic
import Mathlib.Tactic.Linarith
import Mathlib.Tactic.Ring
import Mathlib.Tactic.FieldSimp
import Mathlib.Tactic.Positivity
set_option linter.unusedSectionVars false
set_option linter.unusedSimpArgs false
set_option linter.unusedVariables false

/-!
# C08 — The loss interface is pure, weight-linear and coordinate-symmetric

Model: `BlackIt/Model/Loss.lean`.  Theorems over any linearly ordered field (exact arithmetic); purity
(no modification of inputs, no dependence on earlier evaluations) is decided on the real objects by the
correspondence check — in the model every function is pure by construction.
-/
namespace BlackIt.Loss
variable {α : Type} [Field α] [LinearOrder α] [IsStrictOrderedRing α]

theorem foldl_add_eq (l : List α) (a : α) : l.foldl (· + ·) a = a + l.sum := by
  induction l generalizing a with
  | nil => simp
  | cons x xs ih => simp [ih, add_assoc]

theorem weightedSum_eq (terms : List (α × α)) (a : α) :
    weightedSum a terms = a + (terms.map (fun t => t.1 * t.2)).sum := by
  unfold weightedSum
  induction terms generalizing a with
  | nil => simp
  | cons t ts ih => simp [ih, add_assoc]

/-! ## the multi-coordinate value is the weighted sum of the single-coordinate values -/

/-- **linearity**: for an arbitrary single-coordinate loss, weights and filters of the right length, the value
is `Σ_i w_i · loss_1d(filter_i(sim_i), real_i)` -/
theorem computeLoss_linear (loss1d : List (List α) → List α → α) (ws : List α)
    (fs : List (Option (List α → List α))) (sim : List (List (List α))) (real : List (List α))
    (hw : ws.length = real.length) (hf : fs.length = real.length) :
    computeLoss (Nat.cast : Nat → α) loss1d (some ws) (some fs) sim real =
      .ok ((((List.zipWith filterCoord fs sim).zipWith loss1d real).zipWith (· * ·) ws).sum) := by
  simp only [computeLoss, checkWeights, checkFilters, hw, hf, if_true]
  congr 1
  rw [weightedSum_eq]
  simp only [Nat.cast_zero, zero_add]
  congr 1
  generalize (List.zipWith filterCoord fs sim).zipWith loss1d real = l1
  clear hw
  induction l1 generalizing ws with
  | nil => simp
  | cons x xs ih =>
    cases ws with
    | nil => simp
    | cons w ws => simp only [List.zip_cons_cons, List.map_cons, List.zipWith_cons_cons]; rw [ih ws]


/-- a coordinate as the loop sees it: ensemble members, real series, weight, filter -/
structure Coord (α : Type) where
  members : List (List α)
  real : List α
  w : α
  f : Option (List α → List α)

/-- the value as a function of the list of coordinates -/
def lossOfCoords (loss1d : List (List α) → List α → α) (cs : List (Coord α)) : α :=
  weightedSum 0 (cs.map (fun c => (loss1d (filterCoord c.f c.members) c.real, c.w)))

/-- **coordinate symmetry**: permuting the coordinates together with their weights and filters changes nothing -/
theorem lossOfCoords_perm (loss1d : List (List α) → List α → α) (cs cs' : List (Coord α)) (h : cs.Perm cs') :
    lossOfCoords loss1d cs = lossOfCoords loss1d cs' := by
  simp only [lossOfCoords, weightedSum_eq, List.map_map]
  congr 1
  exact (h.map _).sum_eq

/-- **a zero weight removes a coordinate** -/
theorem lossOfCoords_zero_weight (loss1d : List (List α) → List α → α) (cs1 cs2 : List (Coord α)) (c : Coord α)
    (hw : c.w = 0) : lossOfCoords loss1d (cs1 ++ c :: cs2) = lossOfCoords loss1d (cs1 ++ cs2) := by
  simp only [lossOfCoords, weightedSum_eq, List.map_append, List.map_cons, List.sum_append, List.sum_cons, hw]
  ring

/-- `compute_loss` is `lossOfCoords` of the zipped inputs -/
theorem computeLoss_eq_lossOfCoords (loss1d : List (List α) → List α → α) (cs : List (Coord α)) :
    computeLoss (Nat.cast : Nat → α) loss1d (some (cs.map (·.w))) (some (cs.map (·.f))) (cs.map (·.members)) (cs.map (·.real)) =
      .ok (lossOfCoords loss1d cs) := by
  rw [computeLoss_linear _ _ _ _ _ (by simp) (by simp)]
  congr 1
  simp only [lossOfCoords, weightedSum_eq, zero_add]
  congr 1
  induction cs with
  | nil => rfl
  | cons c cs ih => simp only [List.map_cons, List.zipWith_cons_cons]; rw [ih]

/-- **default weights**: without weights every coordinate counts `1/D`, i.e. the value is the mean of the
single-coordinate values -/
theorem computeLoss_default_weights (loss1d : List (List α) → List α → α)
    (fs : List (Option (List α → List α))) (sim : List (List (List α))) (real : List (List α))
    (hf : fs.length = real.length) (hs : sim.length = real.length) (hd : real ≠ []) :
    computeLoss (Nat.cast : Nat → α) loss1d none (some fs) sim real =
      .ok (((List.zipWith filterCoord fs sim).zipWith loss1d real).sum / (real.length : α)) := by
  simp only [computeLoss, checkWeights, checkFilters, hf, if_true]
  congr 1
  rw [weightedSum_eq]
  simp only [Nat.cast_zero, zero_add, Nat.cast_one]
  have hlen : ((List.zipWith filterCoord fs sim).zipWith loss1d real).length = real.length := by
    simp [hf, hs]
  generalize (List.zipWith filterCoord fs sim).zipWith loss1d real = l1 at hlen ⊢
  rw [← hlen]
  have : ∀ (l : List α) (n : Nat) (c : α), n = l.length → ((l.zip (List.replicate n c)).map (fun t => t.1 * t.2)).sum = l.sum * c := by
    intro l
    induction l with
    | nil => intro n c _; simp
    | cons x xs ih =>
      intro n c hn
      cases n with
      | zero => simp at hn
      | succ n => simp only [List.replicate_succ, List.zip_cons_cons, List.map_cons, List.sum_cons]; rw [ih n c (by simpa using hn)]; ring
  rw [this l1 l1.length _ rfl]
  ring

/-! ## validation of weight and filter lists -/

/-- a weight list of the wrong length is rejected (`ValueError`), and it is checked before the filters -/
theorem computeLoss_weights_error (loss1d : List (List α) → List α → α) (ws : List α)
    (f : Option (List (Option (List α → List α)))) (sim : List (List (List α))) (real : List (List α))
    (hw : ws.length ≠ real.length) :
    computeLoss (Nat.cast : Nat → α) loss1d (some ws) f sim real = .error (.weightsLength ws.length real.length) := by
  simp [computeLoss, checkWeights, hw]

/-- a filter list of the wrong length is rejected -/
theorem computeLoss_filters_error (loss1d : List (List α) → List α → α) (w : Option (List α))
    (fs : List (Option (List α → List α))) (sim : List (List (List α))) (real : List (List α))
    (hw : ∀ ws, w = some ws → ws.length = real.length) (hf : fs.length ≠ real.length) :
    computeLoss (Nat.cast : Nat → α) loss1d w (some fs) sim real = .error (.filtersLength fs.length real.length) := by
  cases w with
  | none => simp [computeLoss, checkWeights, checkFilters, hf]
  | some ws => simp [computeLoss, checkWeights, checkFilters, hf, hw ws rfl]

/-- lists of the right length (or none) are accepted -/
theorem computeLoss_accepts (loss1d : List (List α) → List α → α) (ws : List α)
    (fs : List (Option (List α → List α))) (sim : List (List (List α))) (real : List (List α))
    (hw : ws.length = real.length) (hf : fs.length = real.length) :
    ∃ v, computeLoss (Nat.cast : Nat → α) loss1d (some ws) (some fs) sim real = .ok v :=
  ⟨_, computeLoss_linear loss1d ws fs sim real hw hf⟩

/-! ## reordering ensemble members -/

theorem ensMean_perm (members members' : List (List α)) (len : Nat) (h : members.Perm members') :
    ensMean (Nat.cast : Nat → α) 0 members len = ensMean (Nat.cast : Nat → α) 0 members' len := by
  unfold ensMean
  apply List.map_congr_left
  intro t _
  rw [foldl_add_eq, foldl_add_eq, (h.map _).sum_eq, h.length_eq]

/-- **Minkowski** is unchanged by reordering ensemble members -/
theorem minkowski_ensemble_perm (p : Nat) (members members' : List (List α)) (real : List α) (h : members.Perm members') :
    minkowskiPowSum (Nat.cast : Nat → α) 0 (fun x => |x|) (fun x n => x ^ n) p members real =
    minkowskiPowSum (Nat.cast : Nat → α) 0 (fun x => |x|) (fun x n => x ^ n) p members' real := by
  unfold minkowskiPowSum; rw [ensMean_perm members members' _ h]

/-- **method of moments** (identity and inverse-variance weighting, any moment calculator) is unchanged by
reordering ensemble members -/
theorem msm_ensemble_perm (moments : List α → List α) (members members' : List (List α)) (real : List α)
    (h : members.Perm members') :
    msmIdentity (Nat.cast : Nat → α) 0 moments members real = msmIdentity (Nat.cast : Nat → α) 0 moments members' real ∧
    msmInverseVariance (Nat.cast : Nat → α) 0 moments members real = msmInverseVariance (Nat.cast : Nat → α) 0 moments members' real := by
  constructor
  · unfold msmIdentity; simp only; rw [ensMean_perm _ _ _ (h.map moments)]
  · unfold msmInverseVariance; simp only
    rw [ensMean_perm _ _ _ (h.map moments), ensMean_perm _ _ _ ((h.map moments).map _)]

/-! ## sign and zero -/

theorem mem_zipWith' {β γ δ : Type} (f : β → γ → δ) (l1 : List β) (l2 : List γ) (x : δ)
    (h : x ∈ List.zipWith f l1 l2) : ∃ a b, a ∈ l1 ∧ b ∈ l2 ∧ f a b = x := by
  induction l1 generalizing l2 with
  | nil => simp at h
  | cons a l1 ih =>
    cases l2 with
    | nil => simp at h
    | cons b l2 =>
      simp only [List.zipWith_cons_cons, List.mem_cons] at h
      rcases h with h | h
      · exact ⟨a, b, List.mem_cons_self, List.mem_cons_self, h.symm⟩
      · obtain ⟨a', b', ha, hb, hf⟩ := ih l2 h
        exact ⟨a', b', List.mem_cons_of_mem _ ha, List.mem_cons_of_mem _ hb, hf⟩

theorem mem_zipWith_self {β δ : Type} (f : β → β → δ) (l : List β) (x : δ)
    (h : x ∈ List.zipWith f l l) : ∃ a, a ∈ l ∧ f a a = x := by
  induction l with
  | nil => simp at h
  | cons a l ih =>
    simp only [List.zipWith_cons_cons, List.mem_cons] at h
    rcases h with h | h
    · exact ⟨a, List.mem_cons_self, h.symm⟩
    · obtain ⟨a', ha, hf⟩ := ih h
      exact ⟨a', List.mem_cons_of_mem _ ha, hf⟩

theorem sum_nonneg_of_forall (l : List α) (h : ∀ x ∈ l, 0 ≤ x) : 0 ≤ l.sum := List.sum_nonneg h

/-- Minkowski's `Σ|mean − real|^p` (whose `p`-th root is the loss) is non-negative -/
theorem minkowski_nonneg (p : Nat) (members : List (List α)) (real : List α) :
    0 ≤ minkowskiPowSum (Nat.cast : Nat → α) 0 (fun x => |x|) (fun x n => x ^ n) p members real := by
  unfold minkowskiPowSum
  rw [foldl_add_eq, zero_add]
  apply List.sum_nonneg
  intro x hx
  obtain ⟨m, r, _, _, rfl⟩ := mem_zipWith' _ _ _ _ hx
  positivity

/-- identity-weighted method of moments is a sum of squares -/
theorem msmIdentity_nonneg (moments : List α → List α) (members : List (List α)) (real : List α) :
    0 ≤ msmIdentity (Nat.cast : Nat → α) 0 moments members real := by
  unfold msmIdentity
  simp only
  rw [foldl_add_eq, zero_add]
  apply List.sum_nonneg
  intro x hx
  rw [List.mem_map] at hx
  obtain ⟨g, _, rfl⟩ := hx
  exact mul_self_nonneg g

/-- inverse-variance weighting is non-negative **when every moment has a positive spread** around the real
moment (`v_i > 0`); at `v_i = 0` the code divides by zero and returns NaN/inf — outside this guard -/
theorem msmInverseVariance_nonneg (moments : List α → List α) (members : List (List α)) (real : List α)
    (hv : ∀ v ∈ ensMean (Nat.cast : Nat → α) 0
        ((members.map moments).map (fun m => ((moments real).zipWith (· - ·) m).map (fun d => d * d))) (moments real).length, 0 < v) :
    0 ≤ msmInverseVariance (Nat.cast : Nat → α) 0 moments members real := by
  unfold msmInverseVariance
  simp only
  rw [foldl_add_eq, zero_add]
  apply List.sum_nonneg
  intro x hx
  obtain ⟨g, v, _, hvm, rfl⟩ := mem_zipWith' _ _ _ _ hx
  exact div_nonneg (mul_self_nonneg g) (hv v hvm).le

theorem ensMean_const (r : List α) (n : Nat) (hn : 0 < n) :
    ensMean (Nat.cast : Nat → α) 0 (List.replicate n r) r.length = r := by
  unfold ensMean
  apply List.ext_getElem (by simp)
  intro t h1 h2
  simp only [List.getElem_map, List.getElem_range, List.map_replicate, List.length_replicate]
  rw [foldl_add_eq, zero_add, List.sum_replicate]
  have hne : (n : α) ≠ 0 := by exact_mod_cast (Nat.pos_iff_ne_zero.mp hn)
  have : r.getD t 0 = r[t] := by simp [List.getD_eq_getElem?_getD, h2]
  rw [this, nsmul_eq_mul]
  field_simp

/-- Minkowski is zero when every simulated member equals the real data (`p ≥ 1`) -/
theorem minkowski_zero_at_real (p : Nat) (hp : 1 ≤ p) (real : List α) (n : Nat) (hn : 0 < n) :
    minkowskiPowSum (Nat.cast : Nat → α) 0 (fun x => |x|) (fun x n => x ^ n) p (List.replicate n real) real = 0 := by
  unfold minkowskiPowSum
  rw [ensMean_const real n hn, foldl_add_eq, zero_add]
  apply List.sum_eq_zero
  intro x hx
  obtain ⟨r, _, rfl⟩ := mem_zipWith_self _ _ _ hx
  simp only [sub_self, abs_zero]
  exact zero_pow (by omega)

/-- identity-weighted method of moments is zero when every simulated member equals the real data -/
theorem msmIdentity_zero_at_real (moments : List α → List α) (real : List α) (n : Nat) (hn : 0 < n) :
    msmIdentity (Nat.cast : Nat → α) 0 moments (List.replicate n real) real = 0 := by
  unfold msmIdentity
  simp only [List.map_replicate]
  rw [ensMean_const (moments real) n hn, foldl_add_eq, zero_add]
  apply List.sum_eq_zero
  intro x hx
  rw [List.mem_map] at hx
  obtain ⟨g, hg, rfl⟩ := hx
  obtain ⟨r, _, rfl⟩ := mem_zipWith_self _ _ _ hg
  simp

/-! ## the Fourier loss (any frequency filter, any transform) -/

/-- **Fourier** is unchanged by reordering ensemble members -/
theorem fourier_ensemble_perm (sqrt : α → α) (spec : List α → List α) (bins : Nat) (members members' : List (List α))
    (real : List α) (h : members.Perm members') :
    fourierLoss (Nat.cast : Nat → α) 0 sqrt spec bins members real =
    fourierLoss (Nat.cast : Nat → α) 0 sqrt spec bins members' real := by
  unfold fourierLoss fourierSq; rw [(msm_ensemble_perm spec members members' real h).1]

/-- the quantity under the square root is non-negative, so the loss is (for any `sqrt` that maps non-negative
numbers to non-negative numbers) -/
theorem fourier_nonneg (sqrt : α → α) (hs : ∀ x, 0 ≤ x → 0 ≤ sqrt x) (spec : List α → List α) (bins : Nat)
    (members : List (List α)) (real : List α) :
    0 ≤ fourierSq (Nat.cast : Nat → α) 0 spec bins members real ∧
    0 ≤ fourierLoss (Nat.cast : Nat → α) 0 sqrt spec bins members real := by
  have h : 0 ≤ fourierSq (Nat.cast : Nat → α) 0 spec bins members real := by
    unfold fourierSq; exact div_nonneg (msmIdentity_nonneg spec members real) (Nat.cast_nonneg bins)
  exact ⟨h, hs _ h⟩

/-- the Fourier loss is zero when every simulated member equals the real data -/
theorem fourier_zero_at_real (sqrt : α → α) (hs : sqrt 0 = 0) (spec : List α → List α) (bins : Nat)
    (real : List α) (n : Nat) (hn : 0 < n) :
    fourierLoss (Nat.cast : Nat → α) 0 sqrt spec bins (List.replicate n real) real = 0 := by
  unfold fourierLoss fourierSq; rw [msmIdentity_zero_at_real spec real n hn, zero_div, hs]

/-! ## GSL-div and the kernel likelihood: reordering ensemble members (and time steps) -/

/-- **GSL-div** (on the discretised series) is unchanged by reordering ensemble members -/
theorem gsl_ensemble_perm (log : α → α) (pow : α → Nat → α) (sims sims' : List (List Nat)) (obs : List Nat)
    (L nbValues tsLength : Nat) (h : sims.Perm sims') :
    BlackIt.Gsl.divEnsemble (Nat.cast : Nat → α) 0 log pow sims obs L nbValues tsLength =
    BlackIt.Gsl.divEnsemble (Nat.cast : Nat → α) 0 log pow sims' obs L nbValues tsLength := by
  unfold BlackIt.Gsl.divEnsemble
  rw [foldl_add_eq, foldl_add_eq, (h.map _).sum_eq, h.length_eq]

/-- the **kernel likelihood** is unchanged by reordering ensemble members -/
theorem likelihood_ensemble_perm (kern log : α → α) (dims : Nat) (sim sim' : List (List (List α))) (real : List (List α))
    (h : sim.Perm sim') :
    likelihood (Nat.cast : Nat → α) 0 kern log dims sim real = likelihood (Nat.cast : Nat → α) 0 kern log dims sim' real := by
  unfold likelihood
  rw [foldl_add_eq, foldl_add_eq, (h.map _).sum_eq, h.length_eq]

/-- … and by reordering the time steps of a simulated member (a kernel density estimate does not look at the
order of its sample) and of the real series -/
theorem likelihood_time_perm (kern log : α → α) (dims : Nat) (real real' : List (List α)) (m m' : List (List α))
    (hm : m.Perm m') (hr : real.Perm real') :
    logLikMember (Nat.cast : Nat → α) 0 kern log dims real m = logLikMember (Nat.cast : Nat → α) 0 kern log dims real' m' := by
  unfold logLikMember
  rw [foldl_add_eq, foldl_add_eq]
  have : (fun y => log (((m.map (fun x => kern (sqDist (Nat.cast : Nat → α) 0 dims x y))).foldl (· + ·) 0) / (m.length : α))) =
      (fun y => log (((m'.map (fun x => kern (sqDist (Nat.cast : Nat → α) 0 dims x y))).foldl (· + ·) 0) / (m'.length : α))) := by
    funext y
    rw [foldl_add_eq, foldl_add_eq, (hm.map _).sum_eq, hm.length_eq]
  rw [this, (hr.map _).sum_eq]

/-! ### non-vacuity -/
example : fourierSq (Nat.cast : Nat → ℚ) 0 (fun x => x.map (· * 2)) 2 [[1, 2], [3, 4]] [0, 0] = 26 := by
  decide +kernel
example : computeLoss (Nat.cast : Nat → ℚ) (fun m r => (m.headD []).headD 0 - r.headD 0) (some [2, 3]) none
    [[[5]], [[7]]] [[1], [1]] = .ok 26 := by
  simp [computeLoss, checkWeights, checkFilters, weightedSum, filterCoord]; norm_num
example : computeLoss (Nat.cast : Nat → ℚ) (fun _ _ => 1) (some [2, 3, 4]) none [[[5]], [[7]]] [[1], [1]] =
    .error (.weightsLength 3 2) := by simp [computeLoss, checkWeights]

end BlackIt.Loss
