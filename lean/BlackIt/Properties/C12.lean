import BlackIt.Lemmas.Dedup
set_option linter.unusedSectionVars false
set_option linter.unusedSimpArgs false

/-!
# C12 — Deduplication replaces only repeated points and gives up only after its passes

Model: `BlackIt/Model/Dedup.lean`.  All theorems hold for every history (repeats allowed), every scripted
generator `draw` that returns as many rows as it is asked for, every batch size and pass budget.
-/
namespace BlackIt.Dedup
variable {α : Type} [DecidableEq α]

/-! ## what `find_and_get_duplicates` reports -/

/-- a position is reported iff its row occurs more than once in history ++ batch -/
theorem mem_findDuplicates (le : α → α → Bool) (new existing : List α) (i : Nat) :
    i ∈ findDuplicates le new existing ↔ ∃ h : i < new.length, 1 < (existing ++ new).count new[i] := by
  rw [(findDuplicates_perm le new existing).mem_iff, mem_flagged]

/-- each position is reported once -/
theorem findDuplicates_nodup (le : α → α → Bool) (new existing : List α) :
    (findDuplicates le new existing).Nodup :=
  (findDuplicates_perm le new existing).nodup_iff.mpr (flagged_nodup new existing)

theorem findDuplicates_lt (le : α → α → Bool) (new existing : List α) :
    ∀ i ∈ findDuplicates le new existing, i < new.length := by
  intro i hi; exact ((mem_findDuplicates le new existing i).mp hi).1

/-- no position reported ⇔ the batch has no row that repeats the history or another row of the batch -/
theorem findDuplicates_eq_nil_iff (le : α → α → Bool) (new existing : List α) :
    findDuplicates le new existing = [] ↔ ∀ r ∈ new, (existing ++ new).count r = 1 := by
  rw [List.eq_nil_iff_forall_not_mem]
  constructor
  · intro h r hr
    obtain ⟨i, hi, rfl⟩ := List.getElem_of_mem hr
    have hn := h i
    rw [mem_findDuplicates] at hn
    have h1 : 1 ≤ (existing ++ new).count new[i] :=
      List.count_pos_iff.mpr (List.mem_append_right _ (List.getElem_mem _))
    have h2 : ¬ 1 < (existing ++ new).count new[i] := fun hlt => hn ⟨hi, hlt⟩
    omega
  · intro h i hi
    obtain ⟨hlt, hc⟩ := (mem_findDuplicates le new existing i).mp hi
    have := h new[i] (List.getElem_mem _)
    omega

/-! ## what a substitution changes -/

/-- positions that were not reported keep their row; position `d[k]` receives the `k`-th redrawn row -/
theorem substitute_spec (s : List α) (d : List Nat) (new : List α)
    (hd : d.Nodup) (hlen : new.length = d.length) (hlt : ∀ i ∈ d, i < s.length) :
    (substitute s d new).length = s.length ∧
    (∀ i, i ∉ d → (substitute s d new)[i]? = s[i]?) ∧
    (∀ k (hk : k < d.length), (substitute s d new)[d[k]]? = some (new[k]'(by omega))) :=
  ⟨substitute_length s d new,
   fun i hi => substitute_getElem?_of_not_mem s d new i hi,
   fun k hk => substitute_getElem?_of_mem s d new k hd hk (by omega) (hlt _ (List.getElem_mem _))⟩

/-! ## the loop: a trace characterisation -/

/-- the batch after `j` passes, starting from batch `s` when `n` calls of the generator have been made -/
def iter (le : α → α → Bool) (draw : Nat → Nat → List α) (existing : List α) (n : Nat) (s : List α) :
    Nat → List α
  | 0 => s
  | j + 1 =>
    let d := findDuplicates le s existing
    iter le draw existing (n + 1) (substitute s d (draw (n + 1) d.length)) j

theorem loop_trace (le : α → α → Bool) (draw : Nat → Nat → List α) (existing : List α)
    (n fuel : Nat) (s : List α) :
    let r := loop le draw existing n fuel s
    r.1 = iter le draw existing n s r.2.length ∧
    (∀ j (hj : j < r.2.length),
        r.2[j] = findDuplicates le (iter le draw existing n s j) existing ∧ r.2[j] ≠ []) ∧
    r.2.length ≤ fuel ∧
    (r.2.length < fuel → findDuplicates le r.1 existing = []) := by
  induction fuel generalizing n s with
  | zero => simp [loop, iter]
  | succ fuel ih =>
    simp only [loop]
    by_cases hd : (findDuplicates le s existing).length = 0
    · simp [hd, iter, List.eq_nil_of_length_eq_zero hd]
    · simp only [hd, if_false]
      obtain ⟨h1, h2, h3, h4⟩ := ih (n + 1)
        (substitute s (findDuplicates le s existing) (draw (n + 1) (findDuplicates le s existing).length))
      refine ⟨?_, ?_, ?_, ?_⟩
      · simpa [iter] using h1
      · intro j hj
        cases j with
        | zero =>
          simp only [List.getElem_cons_zero, iter, true_and]
          intro h; apply hd; simp [h]
        | succ j =>
          simp only [List.getElem_cons_succ, iter]
          exact h2 j (by simpa using hj)
      · simp only [List.length_cons]; omega
      · intro hlt
        apply h4
        simp only [List.length_cons] at hlt; omega

/-- **C12, trace form.**  `sample()` is: first draw, then pass after pass (find repeats / redraw exactly
that many / substitute at those positions); it stops at the first pass that finds no repeat, or after
`passes` passes; the sizes requested from the generator are the batch size followed by the sizes of the
duplicate sets. -/
theorem sample_trace (le : α → α → Bool) (draw : Nat → Nat → List α) (passes : Nat)
    (existing : List α) (b : Nat) :
    let r := sample le draw passes existing b
    let batch := iter le draw existing 0 (draw 0 b)
    r.samples = batch r.runs.length ∧
    (∀ j (hj : j < r.runs.length), r.runs[j] = findDuplicates le (batch j) existing ∧ r.runs[j] ≠ []) ∧
    r.requests = b :: r.runs.map List.length ∧
    r.runs.length ≤ passes ∧
    (r.runs.length < passes → findDuplicates le r.samples existing = []) := by
  obtain ⟨h1, h2, h3, h4⟩ := loop_trace le draw existing 0 passes (draw 0 b)
  exact ⟨h1, h2, rfl, h3, h4⟩

/-! ## corollaries in the words of the property -/

theorem iter_length (le : α → α → Bool) (draw : Nat → Nat → List α) (existing : List α)
    (n : Nat) (s : List α) (j : Nat) : (iter le draw existing n s j).length = s.length := by
  induction j generalizing n s with
  | zero => rfl
  | succ j ih => simp [iter, ih, substitute_length]

/-- the batch shape is preserved -/
theorem sample_length (le : α → α → Bool) (draw : Nat → Nat → List α) (passes : Nat)
    (existing : List α) (b : Nat) (hdraw : ∀ k m, (draw k m).length = m) :
    (sample le draw passes existing b).samples.length = b := by
  have := (sample_trace le draw passes existing b).1
  rw [this, iter_length, hdraw]

/-- a returned batch still containing a repeat means every one of the `passes` passes ran and each of
them still found (and redrew) at least one repeat -/
theorem sample_gives_up_late (le : α → α → Bool) (draw : Nat → Nat → List α) (passes : Nat)
    (existing : List α) (b : Nat)
    (h : findDuplicates le (sample le draw passes existing b).samples existing ≠ []) :
    (sample le draw passes existing b).runs.length = passes ∧
    ∀ d ∈ (sample le draw passes existing b).runs, d ≠ [] := by
  obtain ⟨_, h2, _, h4, h5⟩ := sample_trace le draw passes existing b
  refine ⟨?_, ?_⟩
  · by_contra hne
    exact h (h5 (by omega))
  · intro d hd
    obtain ⟨j, hj, rfl⟩ := List.getElem_of_mem hd
    exact (h2 j hj).2

/-- an early exit returns a batch without any repeat -/
theorem sample_clean_of_early_exit (le : α → α → Bool) (draw : Nat → Nat → List α) (passes : Nat)
    (existing : List α) (b : Nat)
    (h : (sample le draw passes existing b).runs.length < passes) :
    ∀ r ∈ (sample le draw passes existing b).samples,
      (existing ++ (sample le draw passes existing b).samples).count r = 1 :=
  (findDuplicates_eq_nil_iff le _ existing).mp ((sample_trace le draw passes existing b).2.2.2.2 h)

theorem iter_untouched (le : α → α → Bool) (draw : Nat → Nat → List α) (existing : List α)
    (n : Nat) (s : List α) (m : Nat) (i : Nat)
    (h : ∀ j < m, i ∉ findDuplicates le (iter le draw existing n s j) existing) :
    (iter le draw existing n s m)[i]? = s[i]? := by
  induction m generalizing n s with
  | zero => rfl
  | succ m ih =>
    simp only [iter]
    rw [ih]
    · exact substitute_getElem?_of_not_mem _ _ _ _ (h 0 (by omega))
    · intro j hj
      have := h (j + 1) (by omega)
      simpa [iter] using this

/-- a position that no pass reported keeps the row of the first draw -/
theorem sample_untouched (le : α → α → Bool) (draw : Nat → Nat → List α) (passes : Nat)
    (existing : List α) (b : Nat) (i : Nat)
    (h : ∀ d ∈ (sample le draw passes existing b).runs, i ∉ d) :
    (sample le draw passes existing b).samples[i]? = (draw 0 b)[i]? := by
  obtain ⟨h1, h2, _, _, _⟩ := sample_trace le draw passes existing b
  rw [h1]
  apply iter_untouched
  intro j hj
  rw [← (h2 j hj).1]
  exact h _ (List.getElem_mem _)

/-- with a zero pass budget the first draw is returned as it is -/
theorem sample_zero_passes (le : α → α → Bool) (draw : Nat → Nat → List α)
    (existing : List α) (b : Nat) :
    (sample le draw 0 existing b).samples = draw 0 b ∧ (sample le draw 0 existing b).requests = [b] := by
  simp [sample, loop]

/-! ### non-vacuity: a history with repeats, in-batch repeats, a redraw that repeats again -/
section Examples
def leN (a b : Nat) : Bool := a ≤ b
def script : List (List Nat) := [[1, 5, 5, 7], [1, 6, 9], [8]]
example : (sample leN (drawScript script) 5 [1, 1, 2] 4).samples = [8, 6, 9, 7] := by decide
example : (sample leN (drawScript script) 5 [1, 1, 2] 4).requests = [4, 3, 1] := by decide
example : (sample leN (drawScript script) 5 [1, 1, 2] 4).runs = [[0, 1, 2], [0]] := by decide
example : (sample leN (drawScript script) 1 [1, 1, 2] 4).samples = [1, 6, 9, 7] := by decide  -- gives up
example : (sample leN (drawScript script) 1 [1, 1, 2] 4).warned = true := by decide
end Examples

end BlackIt.Dedup
