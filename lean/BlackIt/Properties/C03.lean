import BlackIt.Model.Samplers
import BlackIt.Properties.C17
import BlackIt.Properties.C12
import BlackIt.Properties.C15
import BlackIt.Properties.C13
import BlackIt.Lemmas.Pso
set_option linter.unusedSectionVars false
set_option linter.unusedSimpArgs false
set_option linter.unusedVariables false

/-!
# C03 — Every proposed parameter vector belongs to the declared search space

Model: `BlackIt/Model/Samplers.lean` on top of `Snap` (C17), `Dedup` (C12) and `SearchSpace` (C15).
The random and ML parts of the samplers are arbitrary functions; the theorems hold for all of them.
-/
namespace BlackIt.Samplers
open BlackIt.Snap BlackIt.Dedup

section Snapping
variable {α β : Type} [LinearOrder α] [LinearOrder β]

/-- **the seven snapping samplers** (Halton, R-sequence, particle swarm, random forest, XGBoost, Gaussian
process, CORS, and best-batch after its repair): whatever raw proposal the sampler computed — any history,
any seed, any surrogate — every returned row has one coordinate per parameter and every coordinate is an
element of that parameter's grid; the batch has as many rows as the raw proposal -/
theorem snapBatch_onGrid (d : α → α → β) (grids : List (List α)) (raw : List (List α)) (dflt : α)
    (hne : ∀ g ∈ grids, g ≠ []) (hw : ∀ row ∈ raw, row.length = grids.length) :
    (snapBatch d grids raw dflt).length = raw.length ∧
    ∀ row ∈ snapBatch d grids raw dflt, OnGrid grids row := by
  refine ⟨digitize_length d grids raw dflt, ?_⟩
  intro row hrow
  refine ⟨digitize_row_length d grids raw dflt hw row hrow, ?_⟩
  intro j hj hg
  exact digitize_mem d grids raw dflt hne row hrow j hj hg

end Snapping

section Uniform
variable {α : Type}

/-- **random uniform**: values are drawn from the grid itself -/
theorem uniformBatch_onGrid (grids : List (List α)) (pick : Nat → Nat → Nat) (m : Nat) (dflt : α)
    (hne : ∀ g ∈ grids, g ≠ []) :
    (uniformBatch grids pick m dflt).length = m ∧
    ∀ row ∈ uniformBatch grids pick m dflt, OnGrid grids row := by
  refine ⟨by simp [uniformBatch], ?_⟩
  intro row hrow
  simp only [uniformBatch, List.mem_map, List.mem_range] at hrow
  obtain ⟨i, _, rfl⟩ := hrow
  refine ⟨by simp, ?_⟩
  intro j hj hg
  simp only [List.getElem_map, List.getElem_zipIdx]
  have hgne : grids[j] ≠ [] := hne _ (List.getElem_mem _)
  have hpos : 0 < grids[j].length := List.length_pos_iff.mpr hgne
  have hlt : pick (0 + j) i % grids[j].length < grids[j].length := Nat.mod_lt _ hpos
  rw [List.getD_eq_getElem?_getD, List.getElem?_eq_getElem hlt]
  exact List.getElem_mem _

end Uniform

/-! ## through the deduplication loop of `sample()` -/
section Dedup
variable {ρ : Type} [DecidableEq ρ]

theorem mem_substitute (s : List ρ) (d : List Nat) (new : List ρ) :
    ∀ r ∈ substitute s d new, r ∈ s ∨ r ∈ new := by
  induction d generalizing s new with
  | nil => intro r hr; simp [substitute] at hr; exact Or.inl hr
  | cons i d ih =>
    cases new with
    | nil => intro r hr; simp [substitute] at hr; exact Or.inl hr
    | cons x new =>
      intro r hr
      rw [substitute_cons] at hr
      rcases ih (s.set i x) new r hr with h | h
      · rcases List.mem_or_eq_of_mem_set h with h | h
        · exact Or.inl h
        · exact Or.inr (h ▸ List.mem_cons_self)
      · exact Or.inr (List.mem_cons_of_mem _ h)

theorem mem_iter (le : ρ → ρ → Bool) (draw : Nat → Nat → List ρ) (existing : List ρ) (P : ρ → Prop)
    (hdraw : ∀ k m, ∀ r ∈ draw k m, P r) (n : Nat) (s : List ρ) (hs : ∀ r ∈ s, P r) (j : Nat) :
    ∀ r ∈ iter le draw existing n s j, P r := by
  induction j generalizing n s with
  | zero => exact hs
  | succ j ih =>
    simp only [iter]
    apply ih
    intro r hr
    rcases mem_substitute _ _ _ r hr with h | h
    · exact hs r h
    · exact hdraw _ _ r h

/-- every row `sample()` returns was produced by some `sample_batch` call: a property all `sample_batch`
outputs have is inherited by the final batch, and the batch has `batch_size` rows -/
theorem sample_inherits (le : ρ → ρ → Bool) (draw : Nat → Nat → List ρ) (passes : Nat) (existing : List ρ) (b : Nat)
    (P : ρ → Prop) (hdraw : ∀ k m, ∀ r ∈ draw k m, P r) (hlen : ∀ k m, (draw k m).length = m) :
    (sample le draw passes existing b).samples.length = b ∧
    ∀ r ∈ (sample le draw passes existing b).samples, P r := by
  refine ⟨sample_length le draw passes existing b hlen, ?_⟩
  rw [(sample_trace le draw passes existing b).1]
  exact mem_iter le draw existing P hdraw 0 _ (hdraw 0 b) _

end Dedup

section Whole
variable {α β : Type} [LinearOrder α] [LinearOrder β]

/-- **C03 for a snapping sampler, through `sample()`**: for every grid, every history, every raw proposal
function (`raw k m` = what the sampler computes before snapping at its `k`-th call, `m` rows of `dims`
coordinates) and every pass budget, `sample()` returns `batch_size` rows, all on the grid -/
theorem sample_onGrid_snapping (d : α → α → β) (grids : List (List α)) (dflt : α) (le : List α → List α → Bool)
    (raw : Nat → Nat → List (List α)) (passes : Nat) (existing : List (List α)) (b : Nat)
    (hne : ∀ g ∈ grids, g ≠ [])
    (hraw : ∀ k m, (raw k m).length = m ∧ ∀ row ∈ raw k m, row.length = grids.length) :
    let out := (Dedup.sample le (fun k m => snapBatch d grids (raw k m) dflt) passes existing b).samples
    out.length = b ∧ ∀ row ∈ out, OnGrid grids row := by
  apply sample_inherits le _ passes existing b (OnGrid grids)
  · intro k m r hr
    exact (snapBatch_onGrid d grids (raw k m) dflt hne (hraw k m).2).2 r hr
  · intro k m
    rw [(snapBatch_onGrid d grids (raw k m) dflt hne (hraw k m).2).1, (hraw k m).1]

/-- the same for the random-uniform sampler -/
theorem sample_onGrid_uniform (grids : List (List α)) (dflt : α) (le : List α → List α → Bool)
    (pick : Nat → Nat → Nat → Nat) (passes : Nat) (existing : List (List α)) (b : Nat)
    (hne : ∀ g ∈ grids, g ≠ []) :
    let out := (Dedup.sample le (fun k m => uniformBatch grids (pick k) m dflt) passes existing b).samples
    out.length = b ∧ ∀ row ∈ out, OnGrid grids row := by
  apply sample_inherits le _ passes existing b (OnGrid grids)
  · intro k m r hr; exact (uniformBatch_onGrid grids (pick k) m dflt hne).2 r hr
  · intro k m; exact (uniformBatch_onGrid grids (pick k) m dflt hne).1

end Whole

/-! ## on the grid ⇒ inside the declared bounds (up to the end-point tolerance) -/
section Bounds
open BlackIt.SearchSpace
variable {α : Type} [Field α] [LinearOrder α] [IsStrictOrderedRing α] [FloorRing α]

/-- a coordinate on the grid of a well-formed parameter lies in `[lower, upper + tol)`: the user's model is
never simulated outside the space the user declared -/
theorem onGrid_within_bounds (tol lo hi p x : α) (hp : 0 < p) (hx : x ∈ grid exactOps tol lo hi p) :
    lo ≤ x ∧ x < hi + tol :=
  (grid_last tol lo hi p hp).1 x hx

end Bounds

/-! ## before snapping: the raw proposals of the quasi-random samplers already lie within the declared bounds

`HaltonSampler.sample_batch` and `RSequenceSampler.sample_batch` compute `p_bounds[0] + unit_cube_points * (p_bounds[1] - p_bounds[0])`
(the same expression as the swarm and CORS, `BlackIt.Pso.scale` / `BlackIt.Cors.cubeToBox`) on points of the unit cube. -/
section RawInBounds
open BlackIt.Halton
variable {α : Type} [Field α] [LinearOrder α] [IsStrictOrderedRing α]

/-- every Halton point, scaled, lies within the bounds — for every index, every list of bases ≥ 2 and all bounds `lo ≤ hi` -/
theorem halton_raw_within_bounds (bases : List Nat) (hb : ∀ b ∈ bases, 2 ≤ b) (lo hi : List α)
    (hbnd : ∀ b ∈ lo.zip hi, b.1 ≤ b.2) (n j : Nat) (v : α)
    (hv : (List.zipWith (fun x (b : α × α) => b.1 + x * (b.2 - b.1)) (haltonPoint (Nat.cast : Nat → α) bases n) (lo.zip hi))[j]? = some v) :
    ∃ b, (lo.zip hi)[j]? = some b ∧ b.1 ≤ v ∧ v ≤ b.2 := by
  refine BlackIt.Pso.zipWith_scale_between _ _ ?_ hbnd j v hv
  intro y hy
  unfold haltonPoint at hy
  rw [List.mem_map] at hy
  obtain ⟨b, hbm, rfl⟩ := hy
  have := radicalInverse_range (α := α) b (hb b hbm) n
  exact ⟨this.1, le_of_lt this.2⟩

/-- every R-sequence point, scaled, lies within the bounds — for every offset, step vector and index -/
theorem rseq_raw_within_bounds [FloorRing α] (start : α) (alphas : List α) (lo hi : List α)
    (hbnd : ∀ b ∈ lo.zip hi, b.1 ≤ b.2) (n j : Nat) (v : α)
    (hv : (List.zipWith (fun x (b : α × α) => b.1 + x * (b.2 - b.1)) (rPoint (Nat.cast : Nat → α) Int.fract start alphas n) (lo.zip hi))[j]? = some v) :
    ∃ b, (lo.zip hi)[j]? = some b ∧ b.1 ≤ v ∧ v ≤ b.2 := by
  refine BlackIt.Pso.zipWith_scale_between _ _ ?_ hbnd j v hv
  intro y hy
  unfold rPoint at hy
  rw [List.mem_map] at hy
  obtain ⟨a, _, rfl⟩ := hy
  have := rCoord_range (α := α) start a n
  exact ⟨this.1, le_of_lt this.2⟩

end RawInBounds

/-! ## the defect that was repaired in `BestBatchSampler`: clipping alone does not land on the grid -/
section BestBatch
/-- bounds [0, 10], precision 3 (grid 0,3,6,9): parent 9 shocked by +1 step gives 12, clipped to the bound 10,
which is not a grid point; snapping afterwards (the repair) gives 9 -/
theorem bestBatch_clip_only_off_grid :
    let grid : List Int := [0, 3, 6, 9]
    let row := applyShocks (fun n => (n : Int)) [3] [0] [10] 0 [9] [⟨0, 1, true⟩]
    row = [10] ∧ (10 : Int) ∉ grid ∧
    snapBatch (fun v g => |v - g|) [grid] [row] 0 = [[9]] := by decide
end BestBatch

end BlackIt.Samplers
