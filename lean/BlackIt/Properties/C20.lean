import BlackIt.Model.TimeSeries
import Mathlib.LinearAlgebra.Matrix.PosDef
import Mathlib.Algebra.Order.Star.Real
import Mathlib.LinearAlgebra.Matrix.NonsingularInverse
import Mathlib.Algebra.BigOperators.Group.List.Basic
import Mathlib.Algebra.Order.Field.Basic
import Mathlib.Tactic.FieldSimp
import Mathlib.Tactic.Ring
import Mathlib.Tactic.Linarith
set_option linter.unusedSectionVars false
set_option linter.unusedSimpArgs false
set_option linter.unusedVariables false

/-!
# C20 — Time-series filters and the moment summary equal their definitions

Hodrick–Prescott: the trend is *the* solution of `(I + λ KᵀK) trend = y` — the system matrix is positive
definite for every `λ > 0` and every second-difference operator `K` (indeed any real matrix `K`), hence
invertible, so the optimality condition determines the trend uniquely and `cycle = y − trend` sums with it to
`y`.  That `spsolve` returns that solution up to rounding is checked numerically (residual bound, exact
rational solve on small dyadic inputs).  The derived filters and the finiteness of the 18 moments are
definitional / case analyses.
-/
namespace BlackIt.TimeSeries
open Matrix

/-- the HP system matrix `I + λ KᵀK` is positive definite for `λ > 0`, whatever `K` -/
theorem hp_system_posdef {m n : Type} [Fintype m] [Fintype n] [DecidableEq n] (K : Matrix m n ℝ) (lam : ℝ) (hl : 0 < lam) :
    (1 + lam • (Kᴴ * K)).PosDef :=
  Matrix.PosDef.one.add_posSemidef ((Matrix.posSemidef_conjTranspose_mul_self K).smul hl.le)

/-- hence it is invertible -/
theorem hp_system_det_ne_zero {m n : Type} [Fintype m] [Fintype n] [DecidableEq n] (K : Matrix m n ℝ) (lam : ℝ) (hl : 0 < lam) :
    (1 + lam • (Kᴴ * K)).det ≠ 0 := by
  have hu : IsUnit (1 + lam • (Kᴴ * K)) := Matrix.PosDef.isUnit (hp_system_posdef K lam hl)
  exact ((Matrix.isUnit_iff_isUnit_det _).mp hu).ne_zero

/-- **uniqueness of the trend**: for every series `y` (any length — in particular every length ≥ 3) and
every `λ > 0` there is exactly one `trend` with `(I + λ KᵀK) trend = y` -/
theorem hp_trend_unique {m n : Type} [Fintype m] [Fintype n] [DecidableEq n] (K : Matrix m n ℝ) (lam : ℝ) (hl : 0 < lam)
    (y : n → ℝ) : ∃! t : n → ℝ, (1 + lam • (Kᴴ * K)) *ᵥ t = y := by
  have hdet : IsUnit (1 + lam • (Kᴴ * K)).det := isUnit_iff_ne_zero.mpr (hp_system_det_ne_zero K lam hl)
  refine ⟨(1 + lam • (Kᴴ * K))⁻¹ *ᵥ y, ?_, ?_⟩
  · simp only [Matrix.mulVec_mulVec]
    rw [Matrix.mul_nonsing_inv _ hdet, Matrix.one_mulVec]
  · intro t ht
    have := congrArg (fun v => (1 + lam • (Kᴴ * K))⁻¹ *ᵥ v) ht
    simp only [Matrix.mulVec_mulVec] at this
    rw [Matrix.nonsing_inv_mul _ hdet, Matrix.one_mulVec] at this
    exact this

/-- cycle and trend sum to the input -/
theorem hp_cycle_plus_trend {n : Type} (y trend : n → ℝ) : (y - trend) + trend = y := sub_add_cancel y trend

/-! ## what the optimality condition means: the trend minimises the Hodrick–Prescott objective -/

/-- the second-difference operator the code builds (`dia_matrix` with offsets 0, 1, 2 and data 1, −2, 1, shape `(nobs − 2, nobs)`) for a series of length `n + 2` -/
def secondDiff (n : Nat) : Matrix (Fin n) (Fin (n + 2)) ℝ := fun r c =>
  (if c = ⟨r.val, by omega⟩ then 1 else 0) + (if c = ⟨r.val + 1, by omega⟩ then -2 else 0) + (if c = ⟨r.val + 2, by omega⟩ then 1 else 0)

/-- row `r` of `K·t` is the second difference `t_r − 2 t_{r+1} + t_{r+2}` -/
theorem secondDiff_mulVec (n : Nat) (t : Fin (n + 2) → ℝ) (r : Fin n) :
    (secondDiff n *ᵥ t) r = t ⟨r.val, by omega⟩ - 2 * t ⟨r.val + 1, by omega⟩ + t ⟨r.val + 2, by omega⟩ := by
  simp only [Matrix.mulVec, dotProduct, secondDiff, add_mul, ite_mul, one_mul, zero_mul, Finset.sum_add_distrib,
    Finset.sum_ite_eq', Finset.mem_univ, if_true, neg_mul]
  ring

/-- the Hodrick–Prescott objective: squared deviation from the series plus `λ` times the squared second differences of the trend -/
def hpObjective {m n : Type} [Fintype m] [Fintype n] (K : Matrix m n ℝ) (lam : ℝ) (y t : n → ℝ) : ℝ :=
  (y - t) ⬝ᵥ (y - t) + lam * ((K *ᵥ t) ⬝ᵥ (K *ᵥ t))

theorem hp_system_apply {m n : Type} [Fintype m] [Fintype n] [DecidableEq n] (K : Matrix m n ℝ) (lam : ℝ) (t : n → ℝ) :
    (1 + lam • (Kᴴ * K)) *ᵥ t = t + lam • (Kᵀ *ᵥ (K *ᵥ t)) := by
  rw [Matrix.add_mulVec, Matrix.one_mulVec, Matrix.smul_mulVec, ← Matrix.mulVec_mulVec, Matrix.conjTranspose_eq_transpose_of_trivial]

/-- **the optimality condition characterises the minimiser**: the trend that solves `(I + λKᵀK)·trend = y` makes the HP objective
strictly smaller than any other candidate — for every `K` (in particular `secondDiff`), every `λ > 0` and every series -/
theorem hp_trend_minimises {m n : Type} [Fintype m] [Fintype n] [DecidableEq n] (K : Matrix m n ℝ) (lam : ℝ) (hl : 0 < lam)
    (y t : n → ℝ) (hopt : (1 + lam • (Kᴴ * K)) *ᵥ t = y) (t' : n → ℝ) :
    hpObjective K lam y t' = hpObjective K lam y t + ((t' - t) ⬝ᵥ (t' - t) + lam * ((K *ᵥ (t' - t)) ⬝ᵥ (K *ᵥ (t' - t)))) ∧
    (t' ≠ t → hpObjective K lam y t < hpObjective K lam y t') := by
  rw [hp_system_apply] at hopt
  set h := t' - t with hh
  have ht' : t' = t + h := by rw [hh]; abel
  have key : (y - t) ⬝ᵥ h = lam * ((K *ᵥ t) ⬝ᵥ (K *ᵥ h)) := by
    have : y - t = lam • (Kᵀ *ᵥ (K *ᵥ t)) := by rw [← hopt]; abel
    rw [this, smul_dotProduct, smul_eq_mul]
    congr 1
    rw [Matrix.mulVec_transpose, ← Matrix.dotProduct_mulVec]
  have eq1 : hpObjective K lam y t' = hpObjective K lam y t + (h ⬝ᵥ h + lam * ((K *ᵥ h) ⬝ᵥ (K *ᵥ h))) := by
    unfold hpObjective
    rw [ht']
    have e1 : y - (t + h) = (y - t) - h := by abel
    rw [e1, Matrix.mulVec_add]
    have key' : y ⬝ᵥ h - t ⬝ᵥ h = lam * ((K *ᵥ t) ⬝ᵥ (K *ᵥ h)) := by rw [← sub_dotProduct]; exact key
    simp only [sub_dotProduct, dotProduct_sub, add_dotProduct, dotProduct_add]
    rw [dotProduct_comm h y, dotProduct_comm h t, dotProduct_comm (K *ᵥ h) (K *ᵥ t)]
    linarith [key']
  refine ⟨eq1, ?_⟩
  intro hne
  have hh0 : h ≠ 0 := by
    intro h0; apply hne; rw [ht', h0, add_zero]
  have hpos : 0 < h ⬝ᵥ h := by
    have := dotProduct_self_star_pos_iff (v := h)
    simp only [star_trivial] at this
    exact this.mpr hh0
  have hnn : 0 ≤ (K *ᵥ h) ⬝ᵥ (K *ᵥ h) := by
    have := dotProduct_star_self_nonneg (K *ᵥ h)
    simpa using this
  rw [eq1]
  have : 0 ≤ lam * ((K *ᵥ h) ⬝ᵥ (K *ᵥ h)) := mul_nonneg hl.le hnn
  linarith

/-- non-vacuity: the shortest admissible series (length 3) has one second difference -/
example : (secondDiff 1 *ᵥ ![1, 2, 4]) 0 = 1 := by
  rw [secondDiff_mulVec]
  norm_num [Matrix.cons_val_zero]

/-! ## de-meaned first difference -/
section Demean
variable {α : Type} [Field α] [LinearOrder α] [IsStrictOrderedRing α]

theorem diffPrepend_length (l : List α) : (diffPrepend l).length = l.length := by
  cases l with
  | nil => rfl
  | cons x xs => simp [diffPrepend]

theorem foldl_add_eq' (l : List α) (a : α) : l.foldl (· + ·) a = a + l.sum := by
  induction l generalizing a with
  | nil => simp
  | cons x xs ih => simp [ih, add_assoc]

/-- the de-meaned series has the same length and zero sum (zero mean) -/
theorem demean_spec (l : List α) (hl : l ≠ []) :
    (demean (Nat.cast : Nat → α) 0 l).length = l.length ∧ (demean (Nat.cast : Nat → α) 0 l).sum = 0 := by
  refine ⟨by simp [demean], ?_⟩
  simp only [demean, foldl_add_eq', zero_add]
  have hn : (l.length : α) ≠ 0 := by
    have : 0 < l.length := List.length_pos_iff.mpr hl
    exact_mod_cast (Nat.pos_iff_ne_zero.mp this)
  have key : ∀ (xs : List α) (c : α), (xs.map (· - c)).sum = xs.sum - xs.length * c := by
    intro xs c
    induction xs with
    | nil => simp
    | cons x xs ih => simp only [List.map_cons, List.sum_cons, ih, List.length_cons]; push_cast; ring
  rw [key]
  field_simp
  ring

/-- `diff_log_demean_filter` keeps the length of its input and returns a zero-mean series -/
theorem diff_demean_spec (l : List α) (hl : l ≠ []) :
    (demean (Nat.cast : Nat → α) 0 (diffPrepend l)).length = l.length ∧
    (demean (Nat.cast : Nat → α) 0 (diffPrepend l)).sum = 0 := by
  have hne : diffPrepend l ≠ [] := by
    intro h; have := congrArg List.length h; rw [diffPrepend_length] at this
    exact hl (List.length_eq_zero_iff.mp this)
  obtain ⟨h1, h2⟩ := demean_spec (diffPrepend l) hne
  exact ⟨by rw [h1, diffPrepend_length], h2⟩

end Demean

/-! ## the moment summary is finite -/

/-- whatever the 18 intermediate values are (finite, NaN, ±inf — e.g. skewness of a constant series is NaN),
after `nan_to_num` each entry is one of: the finite value itself, 0, or ± the largest finite double -/
theorem nanToNum_finite {α : Type} (zero big negBig : α) (v : Ext α) :
    (∃ x, v = .fin x ∧ nanToNum zero big negBig v = x) ∨ nanToNum zero big negBig v = zero ∨
    nanToNum zero big negBig v = big ∨ nanToNum zero big negBig v = negBig := by
  cases v with
  | fin x => left; exact ⟨x, rfl, rfl⟩
  | nan => right; left; rfl
  | posInf => right; right; left; rfl
  | negInf => right; right; right; rfl

/-- in particular the whole summary vector contains no NaN / inf marker -/
theorem summary_finite {α : Type} (zero big negBig : α) (vs : List (Ext α)) :
    ∀ y ∈ vs.map (nanToNum zero big negBig), ∃ v ∈ vs, y = nanToNum zero big negBig v := by
  intro y hy
  obtain ⟨v, hv, rfl⟩ := List.mem_map.mp hy
  exact ⟨v, hv, rfl⟩

/-! ### non-vacuity -/
example : diffPrepend ([1, 4, 9] : List ℚ) = [0, 3, 5] := by simp [diffPrepend]; norm_num
example : demean (Nat.cast : Nat → ℚ) 0 [0, 3, 6] = [-3, 0, 3] := by simp [demean]; norm_num

end BlackIt.TimeSeries
