import BlackIt.Model.Halton
import Mathlib.Data.Nat.Digits.Defs
import Mathlib.Data.Nat.Prime.Basic
import Mathlib.Algebra.Order.Field.Basic
import Mathlib.Algebra.Order.Floor.Ring
import Mathlib.Algebra.BigOperators.Group.List.Basic
import Mathlib.Tactic.Linarith
import Mathlib.Tactic.Ring
import Mathlib.Tactic.FieldSimp
import Mathlib.Tactic.NormNum.Prime
set_option linter.unusedSectionVars false
set_option linter.unusedSimpArgs false

/-!
# C13 — Quasi-random samplers emit the true Halton and R sequences, without gaps

Model: `BlackIt/Model/Halton.lean`.
-/
namespace BlackIt.Halton

section RadicalInverse
variable {α : Type} [Field α] [LinearOrder α] [IsStrictOrderedRing α]

/-- the radical inverse of a digit list (least significant first), Horner form:
`0.d₀d₁d₂…` in base `b` = `(d₀ + (d₁ + (d₂ + …)/b)/b)/b` -/
def reflect (b : Nat) : List Nat → α
  | [] => 0
  | d :: ds => ((d : α) + reflect b ds) / (b : α)

/-- the same as an explicit sum `Σ dⱼ / b^(j+1)` -/
theorem reflect_eq_sum (b : Nat) (hb : 2 ≤ b) (ds : List Nat) (k : Nat) :
    (reflect b ds : α) / (b : α) ^ k =
      ((ds.zipIdx k).map (fun p => (p.1 : α) / (b : α) ^ (p.2 + 1))).sum := by
  have hb0 : (b : α) ≠ 0 := by exact_mod_cast (by omega : b ≠ 0)
  induction ds generalizing k with
  | nil => simp [reflect]
  | cons d ds ih =>
    simp only [reflect, List.zipIdx_cons, List.map_cons, List.sum_cons]
    rw [← ih (k + 1)]
    field_simp
    ring

/-- the code's loop computes `x + reflect(digits i)/denom` -/
theorem radInvAux_eq (b : Nat) (hb : 2 ≤ b) (fuel i : Nat) (denom x : α) (hf : i ≤ fuel) (hd : denom ≠ 0) :
    radInvAux (Nat.cast : Nat → α) b fuel i denom x = x + reflect b (Nat.digits b i) / denom := by
  have hb0 : (b : α) ≠ 0 := by exact_mod_cast (by omega : b ≠ 0)
  induction fuel generalizing i denom x with
  | zero =>
    have : i = 0 := by omega
    subst this; simp [radInvAux, reflect]
  | succ fuel ih =>
    unfold radInvAux
    by_cases hi : i = 0
    · subst hi; simp [reflect]
    · simp only [hi, if_false]
      have hlt : i / b < i := Nat.div_lt_self (by omega) (by omega)
      rw [ih (i / b) (denom * (b : α)) _ (Nat.le_of_lt_succ (lt_of_lt_of_le hlt hf)) (mul_ne_zero hd hb0)]
      rw [Nat.digits_def' (b := b) (n := i) (by omega) (by omega)]
      simp only [reflect]
      field_simp
      ring

/-- **Halton, value.**  For every base `b ≥ 2` and every index `n` the loop of `halton()` returns the radical
inverse of `n`: the base-`b` digits of `n` reflected about the radix point, `Σ dⱼ b^-(j+1)`. -/
theorem radicalInverse_eq_digits (b : Nat) (hb : 2 ≤ b) (n : Nat) :
    radicalInverse (Nat.cast : Nat → α) b n =
      (((Nat.digits b n).zipIdx 0).map (fun p => (p.1 : α) / (b : α) ^ (p.2 + 1))).sum := by
  unfold radicalInverse
  rw [radInvAux_eq b hb n n _ _ le_rfl (by simp)]
  have := reflect_eq_sum (α := α) b hb (Nat.digits b n) 0
  simpa using this

theorem reflect_bounds (b : Nat) (hb : 2 ≤ b) (ds : List Nat) (hds : ∀ d ∈ ds, d < b) :
    0 ≤ (reflect b ds : α) ∧ (reflect b ds : α) < 1 := by
  have hb0 : (0 : α) < (b : α) := by exact_mod_cast (by omega : 0 < b)
  induction ds with
  | nil => simp [reflect]
  | cons d ds ih =>
    obtain ⟨h0, h1⟩ := ih (fun x hx => hds x (List.mem_cons_of_mem _ hx))
    have hd : (d : α) + 1 ≤ (b : α) := by exact_mod_cast (hds d List.mem_cons_self)
    simp only [reflect]
    constructor
    · exact div_nonneg (add_nonneg (Nat.cast_nonneg d) h0) hb0.le
    · rw [div_lt_one hb0]; linarith

/-- every Halton coordinate lies in [0, 1) -/
theorem radicalInverse_range (b : Nat) (hb : 2 ≤ b) (n : Nat) :
    0 ≤ radicalInverse (Nat.cast : Nat → α) b n ∧ radicalInverse (Nat.cast : Nat → α) b n < 1 := by
  unfold radicalInverse
  rw [radInvAux_eq b hb n n _ _ le_rfl (by simp)]
  have := reflect_bounds (α := α) b hb (Nat.digits b n) (fun d hd => Nat.digits_lt_base (by omega) hd)
  simpa using this

end RadicalInverse

/-! ## the cursor: batches continue the sequence without gaps -/
section Cursor
variable {β : Type}

/-- the `k`-th point (0-based) of a batch drawn at cursor `s` is point `s + offset + k` of the sequence -/
theorem drawBatch_kth (point : Nat → β) (offset s n k : Nat) (hk : k < n) :
    (drawBatch point offset s n).1[k]? = some (point (s + offset + k)) ∧
    (drawBatch point offset s n).2 = s + n := by
  simp [drawBatch, hk]

theorem range_append_map (f : Nat → β) (a b : Nat) :
    (List.range a).map f ++ (List.range b).map (fun i => f (a + i)) = (List.range (a + b)).map f := by
  rw [List.range_add, List.map_append, List.map_map]
  rfl

/-- **no gaps.**  Any list of batch sizes drawn in sequence on one sampler object yields, concatenated,
exactly one batch of the total size; the cursor advances by the total. -/
theorem batches_concat (point : Nat → β) (offset s : Nat) (sizes : List Nat) :
    (drawMany point offset s sizes).1.flatten = (drawBatch point offset s sizes.sum).1 ∧
    (drawMany point offset s sizes).2 = s + sizes.sum := by
  induction sizes generalizing s with
  | nil => simp [drawMany, drawBatch]
  | cons k ks ih =>
    obtain ⟨h1, h2⟩ := ih (s + k)
    simp only [drawMany, drawBatch, List.flatten_cons, List.sum_cons] at h1 h2 ⊢
    refine ⟨?_, by rw [h2]; omega⟩
    rw [h1]
    have := range_append_map (fun i => point (s + offset + i)) k ks.sum
    rw [← this]
    congr 1
    apply List.map_congr_left
    intro i _
    congr 1
    omega

/-- two batches of `n` equal one batch of `2n` -/
theorem two_batches_eq_one (point : Nat → β) (offset s n : Nat) :
    (drawMany point offset s [n, n]).1.flatten = (drawBatch point offset s (2 * n)).1 := by
  have := (batches_concat point offset s [n, n]).1
  simpa [two_mul] using this

end Cursor

/-- `halton(k, bases, s)` is the cursor batch with offset 1 of the Halton point sequence -/
theorem halton_eq_drawBatch {α : Type} [Add α] [Mul α] [Div α] (ofNat : Nat → α) (k : Nat) (bases : List Nat) (s : Nat) :
    halton ofNat k bases s = (drawBatch (haltonPoint ofNat bases) 1 s k).1 := by
  simp [halton, drawBatch]

/-! ## R-sequence -/
section RSeq
variable {α : Type} [Field α] [LinearOrder α] [IsStrictOrderedRing α] [FloorRing α]

/-- consecutive points advance by `α` modulo 1 -/
theorem rCoord_step (start a : α) (n : Nat) :
    rCoord (Nat.cast : Nat → α) Int.fract start a (n + 1) =
      Int.fract (rCoord (Nat.cast : Nat → α) Int.fract start a n + a) := by
  unfold rCoord
  push_cast
  rw [Int.fract_eq_fract]
  refine ⟨⌊start + (n : α) * a⌋, ?_⟩
  have := Int.self_sub_floor (start + (n : α) * a)
  rw [Int.fract] 
  ring

/-- every coordinate lies in [0,1) -/
theorem rCoord_range (start a : α) (n : Nat) :
    0 ≤ rCoord (Nat.cast : Nat → α) Int.fract start a n ∧ rCoord (Nat.cast : Nat → α) Int.fract start a n < 1 :=
  ⟨Int.fract_nonneg _, Int.fract_lt_one _⟩

end RSeq

/-! ### the generalised golden ratio (`compute_phi`) and the step vector `alpha` -/
section Phi
variable {α : Type} [Field α] [LinearOrder α] [IsStrictOrderedRing α]

/-- the `while old_phi != phi` loop can only stop at a fixed point of `phi ↦ pow(1 + phi, 1/(d+1))`, and every iterate stays
non-negative — for any `root` that returns non-negative values on non-negative arguments -/
theorem phiLoop_fixed [BEq α] [LawfulBEq α] (root : α → α) (hroot : ∀ y, 0 ≤ y → 0 ≤ root y) (fuel : Nat) (x p : α) (hx : 0 ≤ x)
    (h : phiLoop (1 : α) root fuel x = some p) : root (1 + p) = p ∧ 0 ≤ p := by
  induction fuel generalizing x with
  | zero => simp [phiLoop] at h
  | succ fuel ih =>
    simp only [phiLoop] at h
    have hnn : 0 ≤ root (1 + x) := hroot _ (by linarith)
    split at h
    · rename_i heq
      have heq' : root (1 + x) = x := by simpa using heq
      cases h
      constructor
      · rw [heq', heq']
      · exact hnn
    · exact ih _ hnn h

/-- **`compute_phi` returns the generalised golden ratio**: if `pow(y, 1/(d+1))` is the exact `(d+1)`-th root (the contract of `pow`
in exact arithmetic), the value at which the loop stops satisfies `phi^(d+1) = phi + 1` -/
theorem phi_is_generalised_golden_ratio [BEq α] [LawfulBEq α] (d : Nat) (root : α → α)
    (hroot : ∀ y, 0 ≤ y → 0 ≤ root y ∧ (root y) ^ (d + 1) = y) (fuel : Nat) (p : α)
    (h : phiLoop (1 : α) root fuel 2 = some p) : 0 ≤ p ∧ p ^ (d + 1) = p + 1 := by
  obtain ⟨hfix, hp⟩ := phiLoop_fixed root (fun y hy => (hroot y hy).1) fuel 2 p (by norm_num) h
  refine ⟨hp, ?_⟩
  have := (hroot (1 + p) (by linarith)).2
  rw [hfix] at this
  rw [this]; ring

theorem golden_gt_one (n : Nat) (x : α) (hx : 0 ≤ x) (h : x ^ (n + 2) = x + 1) : 1 < x := by
  by_contra hle
  have hle : x ≤ 1 := not_lt.mp hle
  have h1 : x ^ (n + 2) ≤ 1 := pow_le_one₀ hx hle
  have h2 : x ≤ 0 := by linarith
  have h3 : x = 0 := le_antisymm h2 hx
  rw [h3] at h
  simp at h

/-- the equation `x^(d+1) = x + 1` (`d ≥ 1`) has at most one non-negative solution: the loop cannot stop anywhere else -/
theorem golden_unique (n : Nat) (x y : α) (hx : 0 ≤ x) (hy : 0 ≤ y) (h1 : x ^ (n + 2) = x + 1) (h2 : y ^ (n + 2) = y + 1) : x = y := by
  have key : ∀ a b : α, 0 ≤ a → a ^ (n + 2) = a + 1 → b ^ (n + 2) = b + 1 → a < b → False := by
    intro a b ha e1 e2 hab
    have ha1 : 1 < a := golden_gt_one n a ha e1
    have hb1 : 1 < b := lt_trans ha1 hab
    have hpow : a ^ (n + 1) < b ^ (n + 1) := pow_lt_pow_left₀ hab ha (by omega)
    have hapos : 0 < a ^ (n + 1) - 1 := by
      have : 1 < a ^ (n + 1) := one_lt_pow₀ ha1 (by omega)
      linarith
    have hlt : a * (a ^ (n + 1) - 1) < b * (b ^ (n + 1) - 1) :=
      mul_lt_mul'' hab (by linarith) ha (le_of_lt hapos)
    have ea : a * (a ^ (n + 1) - 1) = 1 := by
      have : a * a ^ (n + 1) = a ^ (n + 2) := by ring
      rw [mul_sub, this, e1]; ring
    have eb : b * (b ^ (n + 1) - 1) = 1 := by
      have : b * b ^ (n + 1) = b ^ (n + 2) := by ring
      rw [mul_sub, this, e2]; ring
    rw [ea, eb] at hlt
    exact lt_irrefl _ hlt
  rcases lt_trichotomy x y with h | h | h
  · exact (key x y hx h1 h2 h).elim
  · exact h
  · exact (key y x hy h2 h1 h).elim

/-- the step vector `alpha_j = (1/phi)^j`, `j = 1..d`: every component lies strictly between 0 and 1, they decrease, and the
last one closes the defining identity `alpha_d · (1 + alpha_1) = 1` -/
theorem alphas_spec (d : Nat) (phi : α) (hp : 0 ≤ phi) (hphi : phi ^ (d + 2) = phi + 1) :
    alphas (1 : α) (fun x k => x ^ k) phi (d + 1) = (List.range (d + 1)).map (fun j => (1 / phi) ^ (j + 1)) ∧
    (∀ j, 0 < (1 / phi) ^ (j + 1) ∧ (1 / phi) ^ (j + 1) < 1 ∧ (1 / phi) ^ (j + 2) < (1 / phi) ^ (j + 1)) ∧
    (1 / phi) ^ (d + 1) * (1 + (1 / phi) ^ 1) = 1 := by
  have h1 : 1 < phi := golden_gt_one d phi hp hphi
  have hpos : 0 < phi := by linarith
  have hinv0 : 0 < 1 / phi := by positivity
  have hinv1 : 1 / phi < 1 := by rw [div_lt_one hpos]; exact h1
  refine ⟨rfl, ?_, ?_⟩
  · intro j
    refine ⟨by positivity, pow_lt_one₀ (le_of_lt hinv0) hinv1 (by omega), ?_⟩
    have : (1 / phi) ^ (j + 2) = (1 / phi) ^ (j + 1) * (1 / phi) := by ring
    rw [this]
    have hq : 0 < (1 / phi) ^ (j + 1) := by positivity
    nlinarith
  · have hne : phi ≠ 0 := ne_of_gt hpos
    have hqp : (1 / phi) * phi = 1 := by field_simp
    have e1 : (1 / phi) ^ (d + 2) * phi ^ (d + 2) = 1 := by rw [← mul_pow, hqp, one_pow]
    rw [hphi] at e1
    have e2 : (1 / phi) ^ (d + 1) * (1 + (1 / phi) ^ 1) = (1 / phi) ^ (d + 2) * (phi + 1) := by
      have : (1 / phi) ^ (d + 2) * (phi + 1) = (1 / phi) ^ (d + 1) * ((1 / phi) * phi) + (1 / phi) ^ (d + 1) * (1 / phi) := by ring
      rw [this, hqp]; ring
    rw [e2]; exact e1

end Phi

/-! ## primes -/

/-- the sieve model reproduces the prime table used for dimensions 1–40 -/
theorem getNPrimes_40 : getNPrimes 40 =
    [2, 3, 5, 7, 11, 13, 17, 19, 23, 29, 31, 37, 41, 43, 47, 53, 59, 61, 67, 71, 73, 79, 83, 89, 97, 101, 103,
     107, 109, 113, 127, 131, 137, 139, 149, 151, 157, 163, 167, 173] := by decide +kernel

/-- for every dimension `d ≤ 40` the bases are a prefix of that table -/
theorem getNPrimes_prefix : ∀ d ≤ 40, getNPrimes d = (getNPrimes 40).take d := by decide +kernel

/-- the table is exactly the set of primes up to 173, in increasing order: the first 40 primes -/
theorem table_is_primes : ∀ n ≤ 173, (n ∈ getNPrimes 40 ↔ Nat.Prime n) := by
  rw [getNPrimes_40]; decide +kernel

theorem table_sorted : (getNPrimes 40).Pairwise (· < ·) := by rw [getNPrimes_40]; decide

/-! ### non-vacuity -/
example : radicalInverse (Nat.cast : Nat → ℚ) 2 6 = 3/8 := by
  simp [radicalInverse, radInvAux]; norm_num
example : radicalInverse (Nat.cast : Nat → ℚ) 3 5 = 7/9 := by
  simp [radicalInverse, radInvAux]; norm_num
example : (drawMany (fun n => n) 1 20 [2, 3]).1 = [[21, 22], [23, 24, 25]] := by decide

end BlackIt.Halton
