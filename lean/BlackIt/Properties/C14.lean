import BlackIt.Lemmas.Calibrator
import Mathlib.Algebra.Order.Floor.Ring
import Mathlib.Algebra.Order.Field.Basic
import Mathlib.Algebra.Order.AbsoluteValue.Basic
import Mathlib.Tactic.Linarith
import Mathlib.Tactic.Ring
import Mathlib.Tactic.Push
import Mathlib.Tactic.NormNum
import Mathlib.Data.Rat.Floor
set_option linter.unusedSectionVars false
set_option linter.unusedSimpArgs false
set_option linter.unusedVariables false

/-!
# C14 — Early stopping happens exactly when the best loss rounds to zero

Model: `BlackIt/Model/Calibrator.lean` (`calLoop`, `converged`, `stepState`).
-/
namespace BlackIt.Calibrator
variable {Θ S L σ : Type}

/-- one completed batch with its bookkeeping (no convergence test) -/
def okStep (c : Comp Θ S L σ) (s : State Θ S L σ) : State Θ S L σ :=
  stepState s (runBatch c s.table s.core).1

/-- the state after `j` completed batches -/
def iter (c : Comp Θ S L σ) : Nat → State Θ S L σ → State Θ S L σ
  | 0, s => s
  | j + 1, s => iter c j (okStep c s)

theorem iter_succ' (c : Comp Θ S L σ) (j : Nat) (s : State Θ S L σ) :
    iter c (j + 1) s = okStep c (iter c j s) := by
  induction j generalizing s with
  | zero => rfl
  | succ j ih => simp only [iter] at ih ⊢; rw [ih]

/-- the batch run from the state after `j` batches does not raise -/
def BatchFine (c : Comp Θ S L σ) (s : State Θ S L σ) (j : Nat) : Prop :=
  (runBatch c (iter c j s).table (iter c j s).core).2 = none

/-- **C14, exactness.**  When no component raises, a `calibrate` loop asked for `n` batches runs exactly `m`
batches where `m` is the first batch (counted from 1 within the call) after which the smallest loss so far
rounds to zero at the configured precision, and `m = n` if there is none: it stops immediately after that
batch (`m < n → converged after m`) and not before (`not converged after any j < m`). -/
theorem calLoop_stops_exactly (c : Comp Θ S L σ) (n : Nat) (s : State Θ S L σ)
    (hfine : ∀ j < n, BatchFine c s j) :
    ∃ m ≤ n, calLoop c n s = (iter c m s, none) ∧
      (∀ j, 0 < j → j < m → converged c (iter c j s).core = false) ∧
      (m < n → 0 < m ∧ converged c (iter c m s).core = true) := by
  induction n generalizing s with
  | zero => exact ⟨0, le_refl _, rfl, by intro j h1 h2; omega, by intro h; omega⟩
  | succ n ih =>
    have h0 : (runBatch c s.table s.core).2 = none := hfine 0 (by omega)
    rcases hrb : runBatch c s.table s.core with ⟨k, f⟩
    rw [hrb] at h0
    simp only at h0
    subst h0
    have hstep : okStep c s = stepState s k := by simp [okStep, hrb]
    rw [calLoop_succ_ok c n s k hrb]
    by_cases hc : converged c k = true
    · rw [if_pos hc]
      refine ⟨1, by omega, by simp [iter, hstep], by intro j h1 h2; omega, ?_⟩
      intro _
      exact ⟨by omega, by simpa [iter, hstep, stepState] using hc⟩
    · rw [if_neg hc]
      have hfine' : ∀ j < n, BatchFine c (stepState s k) j := by
        intro j hj
        have := hfine (j + 1) (by omega)
        simpa [BatchFine, iter, hstep] using this
      obtain ⟨m, hm, heq, hbefore, hafter⟩ := ih (stepState s k) hfine'
      refine ⟨m + 1, by omega, by simpa [iter, hstep] using heq, ?_, ?_⟩
      · intro j h1 h2
        cases j with
        | zero => omega
        | succ j =>
          simp only [iter, hstep]
          by_cases hj0 : j = 0
          · subst hj0; simpa [iter, stepState] using hc
          · exact hbefore j (by omega) (by omega)
      · intro hlt
        obtain ⟨_, h2⟩ := hafter (by omega)
        exact ⟨by omega, by simpa [iter, hstep] using h2⟩

theorem runBatch_cfg (c : Comp Θ S L σ) (t : List (Nat × Nat)) (k : Core Θ S L σ) :
    (runBatch c t k).1.cfg = k.cfg := by
  cases hf : (runBatch c t k).2 with
  | none => exact (runBatch_ok c t k hf).cfg
  | some f => exact (runBatch_fault c t k f hf).2.2.2.1

theorem iter_cfg (c : Comp Θ S L σ) (j : Nat) (s : State Θ S L σ) :
    (iter c j s).core.cfg = s.core.cfg := by
  induction j generalizing s with
  | zero => rfl
  | succ j ih => simp only [iter]; rw [ih]; simp [okStep, stepState, runBatch_cfg]

/-- **without a convergence precision** the loop runs exactly the requested number of batches -/
theorem calLoop_no_precision (c : Comp Θ S L σ) (n : Nat) (s : State Θ S L σ)
    (hp : s.core.cfg.convPrec = none) (hfine : ∀ j < n, BatchFine c s j) :
    calLoop c n s = (iter c n s, none) := by
  obtain ⟨m, hm, heq, _, hafter⟩ := calLoop_stops_exactly c n s hfine
  by_cases hmn : m = n
  · rw [heq, hmn]
  · obtain ⟨_, hc⟩ := hafter (by omega)
    have : (iter c m s).core.cfg.convPrec = none := by rw [iter_cfg]; exact hp
    simp [converged, this] at hc

theorem batchIdx_okStep (c : Comp Θ S L σ) (s : State Θ S L σ)
    (h : (runBatch c s.table s.core).2 = none) :
    (okStep c s).core.batchIdx = s.core.batchIdx + 1 := by
  simpa [okStep, stepState] using (runBatch_ok c s.table s.core h).batchIdx

/-- the number of completed batches after `j` fine batches is exactly `j` more -/
theorem iter_batchIdx (c : Comp Θ S L σ) (j : Nat) (s : State Θ S L σ) (hfine : ∀ i < j, BatchFine c s i) :
    (iter c j s).core.batchIdx = s.core.batchIdx + j := by
  induction j with
  | zero => rfl
  | succ j ih =>
    rw [iter_succ', batchIdx_okStep c _ (hfine j (by omega)), ih (fun i hi => hfine i (by omega))]
    omega

/-- the test itself: the smallest recorded loss, at the configured precision -/
theorem converged_spec (c : Comp Θ S L σ) (k : Core Θ S L σ) :
    converged c k = true ↔ ∃ p m, k.cfg.convPrec = some p ∧ minLoss c.lt k.losses = some m ∧ c.conv m p = true := by
  unfold converged
  cases k.cfg.convPrec with
  | none => simp
  | some p =>
    cases minLoss c.lt k.losses with
    | none => simp
    | some m => simp

/-- **the stop rule reads the calibrator's history and its precision, nothing else**: two calibrator states with the same
recorded losses and the same precision take the same decision — whatever their line-ups, scheduler objects, generator
positions or counters are -/
theorem converged_depends_only_on_history (c : Comp Θ S L σ) (k k' : Core Θ S L σ)
    (hl : k.losses = k'.losses) (hp : k.cfg.convPrec = k'.cfg.convPrec) : converged c k = converged c k' := by
  unfold converged; rw [hl, hp]

/-- replacing the line-up or the scheduler between two `calibrate()` calls does not change the decision the next batch
meets: a history whose smallest loss already rounds to zero still stops the run, an unconverged one still does not -/
theorem converged_setScheduler (c : Comp Θ S L σ) (samplers : List (Smp σ)) (sched : Sched) (s : State Θ S L σ) :
    converged c (setScheduler samplers sched s).core = converged c s.core :=
  converged_depends_only_on_history c _ _ rfl rfl

theorem converged_setSamplers (c : Comp Θ S L σ) (samplers : List (Smp σ)) (s : State Θ S L σ) :
    converged c (setSamplers samplers s).core = converged c s.core :=
  converged_depends_only_on_history c _ _ rfl rfl

/-- a calibrator that starts with an empty history never stops before its first recorded loss: nothing a scheduler
object went through earlier can end a new calibration -/
theorem not_converged_on_empty_history (c : Comp Θ S L σ) (k : Core Θ S L σ) (h : k.losses = []) :
    converged c k = false := by
  unfold converged
  cases k.cfg.convPrec with
  | none => rfl
  | some p => simp [h, minLoss]

/-- `minLoss` returns an element of the list that no element is smaller than — it really is the smallest loss
found so far — for any strict weak order `<` (irreflexive, transitive, incomparability transitive) -/
theorem minLoss_spec (lt : L → L → Bool) (hirr : ∀ a, lt a a = false)
    (htr : ∀ a b d, lt a b = true → lt b d = true → lt a d = true)
    (hneg : ∀ a b d, lt a b = false → lt b d = false → lt a d = false)
    (l : List L) (m : L) (h : minLoss lt l = some m) : m ∈ l ∧ ∀ x ∈ l, lt x m = false := by
  cases l with
  | nil => simp [minLoss] at h
  | cons x xs =>
    simp only [minLoss, Option.some.injEq] at h
    have key : ∀ (ys : List L) (a : L),
        (ys.foldl (fun m y => if lt y m then y else m) a = a ∨
          ys.foldl (fun m y => if lt y m then y else m) a ∈ ys) ∧
        lt a (ys.foldl (fun m y => if lt y m then y else m) a) = false ∧
        ∀ y ∈ ys, lt y (ys.foldl (fun m y => if lt y m then y else m) a) = false := by
      intro ys
      induction ys with
      | nil => intro a; exact ⟨Or.inl rfl, hirr a, by intro y hy; cases hy⟩
      | cons y ys ih =>
        intro a
        simp only [List.foldl_cons]
        obtain ⟨hm, ha, hall⟩ := ih (if lt y a then y else a)
        by_cases hya : lt y a = true
        · simp only [hya, if_true] at hm ha hall ⊢
          refine ⟨?_, ?_, ?_⟩
          · rcases hm with h1 | h1
            · right; rw [h1]; exact List.mem_cons_self
            · right; exact List.mem_cons_of_mem _ h1
          · cases hlt : lt a (ys.foldl (fun m y => if lt y m then y else m) y) with
            | false => rfl
            | true => rw [htr _ _ _ hya hlt] at ha; cases ha
          · intro z hz
            rcases List.mem_cons.mp hz with rfl | hz
            · exact ha
            · exact hall z hz
        · have hya' : lt y a = false := by simpa using hya
          simp only [hya', Bool.false_eq_true, if_false] at hm ha hall ⊢
          refine ⟨?_, ha, ?_⟩
          · rcases hm with h1 | h1
            · left; exact h1
            · right; exact List.mem_cons_of_mem _ h1
          · intro z hz
            rcases List.mem_cons.mp hz with rfl | hz
            · exact hneg _ _ _ hya' ha
            · exact hall z hz
    obtain ⟨hm, ha, hall⟩ := key xs x
    rw [h] at hm ha hall
    refine ⟨?_, ?_⟩
    · rcases hm with h1 | h1
      · rw [h1]; exact List.mem_cons_self
      · exact List.mem_cons_of_mem _ h1
    · intro z hz
      rcases List.mem_cons.mp hz with rfl | hz
      · exact ha
      · exact hall z hz

/-- **independence of verbosity** (and of the number of jobs and of the saving folder): two calibrators that
differ only in those settings run the same batches, stop at the same batch and end the same way -/
theorem independent_of_verbose (c : Comp Θ S L σ) (n : Nat) (s s' : State Θ S L σ)
    (ht : s.table = s'.table) (hc : s.core.strip = s'.core.strip) :
    (calLoop c n s).1.core.strip = (calLoop c n s').1.core.strip ∧ (calLoop c n s).2 = (calLoop c n s').2 := by
  obtain ⟨h1, h2, _⟩ := calLoop_strip c n s s' ht hc
  exact ⟨h1, h2⟩

/-! ## the triggering batch is in the history and in the checkpoint -/

/-- with a saving folder, whenever the loop returns normally after at least one batch, the folder holds
exactly the state the loop returned with (in particular the batch that triggered an early stop) -/
theorem checkpoint_is_returned_state (c : Comp Θ S L σ) (n : Nat) (s : State Θ S L σ)
    (hfolder : s.core.cfg.folder = true) (hn : 0 < n) (hret : (calLoop c n s).2 = none) :
    (calLoop c n s).1.disk = some (calLoop c n s).1.core := by
  induction n generalizing s with
  | zero => omega
  | succ n ih =>
    revert hret
    apply calLoop_cases c n s (fun r => r.2 = none → r.1.disk = some r.1.core)
    · intro k f _ h; cases h
    · intro k heq _ _
      have : k.cfg.folder = true := by
        have := runBatch_cfg c s.table s.core; rw [heq] at this; simp only at this; rw [this]; exact hfolder
      simp [stepState, this]
    · intro k heq _ hret
      have hk : k.cfg.folder = true := by
        have := runBatch_cfg c s.table s.core; rw [heq] at this; simp only at this; rw [this]; exact hfolder
      by_cases hn0 : n = 0
      · subst hn0; simp [calLoop, stepState, hk]
      · exact ih (stepState s k) (by simpa [stepState] using hk) (by omega) hret

end BlackIt.Calibrator

namespace BlackIt.Calibrator
/-! ### non-vacuity: a scripted run that converges at its second batch -/
section Example
def exComp : Comp Nat Nat Nat Nat where
  model th _ _ := th
  loss ens := ens.headD 9
  sample smp _ _ := (smp.st + 1, [smp.st])
  reseed _ _ st := st
  tape k := k
  lt a b := a < b
  conv x _ := x == 0
  action _ := 0
  fault _ _ := false
def exState : State Nat Nat Nat Nat :=
  init ⟨1, 3, some 2, false, 1, true⟩ [⟨0, 1, 5⟩, ⟨1, 1, 0⟩] (.rr 0)
example : (calLoop exComp 5 exState).1.core.batchIdx = 2 := by decide
example : (calLoop exComp 5 exState).1.core.losses = [5, 0] := by decide
example : (calLoop exComp 5 exState).1.disk.map (·.batchIdx) = some 2 := by decide
end Example
end BlackIt.Calibrator


/-! ## what "rounds to zero" means

The calibrator model takes the convergence test as a parameter (`Comp.conv`); the instance the driver runs is `|x * 10^p| ≤ 0.5`.  This section shows that this
is `round(x, p) == 0` for half-to-even rounding. -/
namespace BlackIt.Round
variable {K : Type} [Field K] [LinearOrder K] [IsStrictOrderedRing K] [FloorRing K]

/-- round half to even, as `np.round` / Python's `round` do on the scaled value -/
def roundHalfEven (y : K) : ℤ :=
  if y - ⌊y⌋ < 1 / 2 then ⌊y⌋ else if 1 / 2 < y - ⌊y⌋ then ⌊y⌋ + 1 else if ⌊y⌋ % 2 = 0 then ⌊y⌋ else ⌊y⌋ + 1

theorem roundHalfEven_eq_zero_iff (y : K) : roundHalfEven y = 0 ↔ |y| ≤ 1 / 2 := by
  have hlo : ((⌊y⌋ : ℤ) : K) ≤ y := Int.floor_le y
  have hhi : y < ((⌊y⌋ : ℤ) : K) + 1 := Int.lt_floor_add_one y
  unfold roundHalfEven
  constructor
  · intro h
    rw [abs_le]
    split_ifs at h with h1 h2 h3
    · rw [h] at h1 hlo; simp only [Int.cast_zero, sub_zero] at h1 hlo
      constructor <;> linarith
    · have hf : (⌊y⌋ : ℤ) = -1 := by omega
      rw [hf] at h2 hhi; simp only [Int.cast_neg, Int.cast_one] at h2 hhi
      constructor <;> linarith
    · rw [h] at h1 h2; simp only [Int.cast_zero, sub_zero] at h1 h2
      constructor <;> linarith
    · have hf : (⌊y⌋ : ℤ) = -1 := by omega
      rw [hf] at h1 h2; simp only [Int.cast_neg, Int.cast_one] at h1 h2
      constructor <;> linarith
  · intro h
    rw [abs_le] at h
    obtain ⟨ha, hb⟩ := h
    have hf0 : (⌊y⌋ : ℤ) < 1 := by
      have : ((⌊y⌋ : ℤ) : K) < ((1 : ℤ) : K) := by push_cast; linarith
      exact_mod_cast this
    have hf1 : (-2 : ℤ) < ⌊y⌋ := by
      have : ((-2 : ℤ) : K) < ((⌊y⌋ : ℤ) : K) := by push_cast; linarith
      exact_mod_cast this
    have hcase : (⌊y⌋ : ℤ) = 0 ∨ (⌊y⌋ : ℤ) = -1 := by omega
    rcases hcase with hf | hf
    · rw [hf]; simp only [Int.cast_zero, sub_zero]
      split_ifs with h1 h2 h3 <;> first | rfl | (exfalso; linarith) | (exfalso; omega)
    · rw [hf]; simp only [Int.cast_neg, Int.cast_one]
      split_ifs with h1 h2 h3 <;> first | rfl | (exfalso; linarith) | (exfalso; omega)

/-- the convergence test of the model instance (`Drv/Cal.lean`: `|x * 10^p| ≤ 0.5`) is "round(x, p) == 0" with numpy's half-to-even rounding of the
scaled value (exact arithmetic; the binary64 instance is compared with `np.round` on the real calibrator in `harness/props/c14.py`) -/
theorem rounds_to_zero_iff (x : K) (p : ℕ) : roundHalfEven (x * 10 ^ p) = 0 ↔ |x * 10 ^ p| ≤ 1 / 2 :=
  roundHalfEven_eq_zero_iff _

/-- a best loss below `-0.5 * 10^-p` does NOT round to zero: a negative loss (a log-likelihood) never stops a calibration early. (A test
`round(best, p) <= 0` instead of `== 0` stops there at once: wave-13 seeded change `C14-convergence-threshold-option-leq-instead-of-eq-zero`.) -/
theorem negative_loss_does_not_round_to_zero (x : K) (p : ℕ) (h : x * 10 ^ p < -(1 / 2)) : roundHalfEven (x * 10 ^ p) ≠ 0 := by
  intro h0
  have := (rounds_to_zero_iff x p).mp h0
  rw [abs_le] at this
  linarith [this.1]

example : roundHalfEven ((1 : ℚ) / 2) = 0 ∧ roundHalfEven ((3 : ℚ) / 2) = 2 ∧ roundHalfEven (-(1 : ℚ) / 2) = 0 ∧ roundHalfEven ((5 : ℚ) / 2) = 2 := by
  refine ⟨?_, ?_, ?_, ?_⟩ <;> (unfold roundHalfEven; norm_num [Int.floor_eq_iff])

end BlackIt.Round
