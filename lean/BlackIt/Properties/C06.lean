import BlackIt.Model.Checkpoint
import Mathlib.Data.List.Basic
import Mathlib.Tactic.IntervalCases
set_option linter.unusedSectionVars false
set_option linter.unusedSimpArgs false

/-!
# C06 — An interrupted checkpoint save is never restored as a silent hybrid

Model: crash part of `BlackIt/Model/Checkpoint.lean`.

* SQLite back-end: proved — a save that fails at any statement leaves the previous checkpoint loadable, and
  what can be loaded is always one complete checkpoint.
* JSON/CSV/HDF5 back-end: the full statement is **false** for the code as it is (five files rewritten one
  after the other, no cross-file check on load).  Lean computes the classification of every crash prefix;
  `json_partial` characterises the crash points that are *not* hybrids, `json_hybrid_points` lists the ones
  that are (recorded as known findings), and `json_full_statement_false` is the negation of the full statement
  with a concrete witness.
-/
namespace BlackIt.Checkpoint

/-! ## SQLite -/

/-- **a failed save keeps the previous checkpoint**: whichever of the statements raises, after the rollback
the table is exactly what it was and no transaction is left open -/
theorem sqlite_failed_save_keeps_prev {R : Type} (prev : List R) (row : R) (i : Nat)
    (hi : i < (sqlSaveStmts row).length) :
    (sqlRun ⟨prev, none⟩ (sqlSaveStmts row) (some i)).committed = prev ∧
    (sqlRun ⟨prev, none⟩ (sqlSaveStmts row) (some i)).pending = none := by
  refine ⟨?_, rfl⟩
  simp only [sqlSaveStmts, List.length_cons, List.length_nil] at hi
  interval_cases i <;> rfl

/-- a save that does not fail installs exactly the new row -/
theorem sqlite_save_ok {R : Type} (prev : List R) (row : R) :
    (sqlRun ⟨prev, none⟩ (sqlSaveStmts row) none).committed = [row] ∧
    (sqlRun ⟨prev, none⟩ (sqlSaveStmts row) none).pending = none := ⟨rfl, rfl⟩

/-- **never a hybrid**: after a save attempt — failed anywhere or not — the table is the previous one or
exactly the new row -/
theorem sqlite_never_hybrid {R : Type} (prev : List R) (row : R) (failAt : Option Nat)
    (hi : ∀ i, failAt = some i → i < (sqlSaveStmts row).length) :
    (sqlRun ⟨prev, none⟩ (sqlSaveStmts row) failAt).committed = prev ∨
    (sqlRun ⟨prev, none⟩ (sqlSaveStmts row) failAt).committed = [row] := by
  cases failAt with
  | none => right; rfl
  | some i => left; exact (sqlite_failed_save_keeps_prev prev row i (hi i rfl)).1

/-- the defect that was repaired: with the DELETE committed on its own (through `executescript`) before the
INSERT transaction, a failure at the INSERT loses the previous checkpoint -/
theorem sqlite_delete_outside_transaction_loses_prev :
    let stmtsOld : List (SqlStmt Nat) := [.ddl, .delete, .commit, .insert 2, .commit]
    (sqlRun ⟨[1], none⟩ stmtsOld (some 3)).committed = [] := by decide

/-! ## JSON / CSV / HDF5 -/

/-- **partial statement (what does hold).**  A folder left by a crash is restored as an error, as the previous
checkpoint or as the new one — i.e. not as a hybrid — exactly when some file is rejected by its loader, or no
file was touched yet, or all files are complete. -/
theorem json_partial (fs : List FileState) :
    restoreOutcome fs ≠ .hybrid ↔
      (fs.any (· == .broken) = true ∨ fs.all (fun f => f == .prev || f == .same) = true ∨
        fs.all (fun f => f == .done || f == .same) = true) := by
  unfold restoreOutcome
  by_cases h1 : fs.any (· == .broken) = true
  · simp [h1]
  · by_cases h2 : fs.all (fun f => f == .prev || f == .same) = true
    · simp [h1, h2]
    · by_cases h3 : fs.all (fun f => f == .done || f == .same) = true
      · simp [h1, h2, h3]
      · simp [h1, h2, h3]

/-- classification of every crash prefix of the five-file save: crashing "between two files" (the next file
not yet opened) or with a cut-but-parseable results table / not-yet-visible series rows is a hybrid; a file
caught truncated or half-written in a format its loader rejects is an error -/
theorem json_hybrid_points :
    (∀ i, 1 ≤ i → i ≤ 4 → restoreOutcome (crashState 5 i .prev) = .hybrid) ∧       -- between files
    (∀ i, i ≤ 4 → restoreOutcome (crashState 5 i .broken) = .error) ∧               -- truncated / unparsable
    restoreOutcome (crashState 5 3 .cut) = .hybrid ∧                                -- results.csv cut
    restoreOutcome (crashState 5 4 .cut) = .hybrid ∧                                -- series rows not visible yet
    restoreOutcome (crashState 5 0 .prev) = .equalsPrev ∧
    restoreOutcome (crashState 5 5 .prev) = .equalsNew := by
  refine ⟨?_, ?_, by decide, by decide, by decide, by decide⟩
  · intro i h1 h2; interval_cases i <;> decide
  · intro i h2; interval_cases i <;> decide

/-- **the full statement is false for the five-file back-end**: there is a crash point whose restore is a
silent hybrid (new configuration/counters with the old results table) -/
theorem json_full_statement_false : ∃ i mid, restoreOutcome (crashState 5 i mid) = .hybrid :=
  ⟨1, .prev, by decide⟩

/-- making each *file* atomic (write to a temporary name, rename over the old file) does not help, it makes
things worse: a file is then never `broken` or `cut`, so no crash inside the save is ever reported as an error —
every crash point strictly inside the save (at least one file replaced and at least one not, with different
contents) is restored as a silent hybrid.  (This is the seeded change `C06-json-tempfile-rename`.) -/
theorem atomic_files_all_hybrid (i : Nat) (h1 : 1 ≤ i) (h2 : i ≤ 4) :
    restoreOutcome (crashState 5 i .prev) = .hybrid ∧ restoreOutcome (crashState 5 i .done) = .hybrid ∨
    restoreOutcome (crashState 5 i .prev) = .hybrid ∧ i = 4 := by
  interval_cases i <;> decide

theorem atomic_files_never_error (fs : List FileState) (h : ∀ f ∈ fs, f ≠ .broken) :
    restoreOutcome fs ≠ .error := by
  unfold restoreOutcome
  have : fs.any (· == .broken) = false := by
    rw [List.any_eq_false]; intro f hf; simpa using h f hf
  rw [this]
  simp only [Bool.false_eq_true, if_false]
  split <;> [simp; (split <;> simp)]

/-- what would make it true: a commit record written last and checked by the loader turns every incomplete
save into "previous or error" — modelled as: the loader rejects any folder whose files are not all of one
generation -/
def restoreOutcomeChecked (fs : List FileState) : Outcome :=
  if fs.all (fun f => f == .prev || f == .same) then .equalsPrev
  else if fs.all (fun f => f == .done || f == .same) then .equalsNew else .error

theorem checked_never_hybrid (fs : List FileState) : restoreOutcomeChecked fs ≠ .hybrid := by
  unfold restoreOutcomeChecked; split <;> [simp; (split <;> simp)]

/-! ## SQLite, the process dies (not an exception): rollback journal -/
namespace Journal

/-- **a killed SQLite save is never restored as a mixture**: at whatever file operation of the transaction the process
dies, a loader that opens the database normally returns the previous checkpoint — or the new one, exactly when the
journal had already been deleted -/
theorem killed_save_prev_or_new (j n k : Nat) :
    (load j n true (crashAt j n k) = .new ↔ j + n + 1 ≤ k) ∧
    (load j n true (crashAt j n k) = .prev ↔ k < j + n + 1) := by
  unfold load crashAt
  by_cases hk : j + n + 1 ≤ k
  · simp [hk]
  · simp only [hk, decide_false, Bool.false_eq_true, if_false]
    by_cases hp : min (k - j) n = 0
    · simp [hp]; omega
    · have hj : min k j = j := by omega
      simp [hp, hj]; omega

theorem killed_save_never_mixture (j n k : Nat) : load j n true (crashAt j n k) ≠ .mixture := by
  rcases Nat.lt_or_ge k (j + n + 1) with h | h
  · rw [((killed_save_prev_or_new j n k).2).mpr h]; decide
  · rw [((killed_save_prev_or_new j n k).1).mpr h]; decide

/-- a failed (killed) save leaves the previous checkpoint loadable: every kill point before the commit gives exactly it -/
theorem killed_before_commit_keeps_prev (j n k : Nat) (h : k ≤ j + n) : load j n true (crashAt j n k) = .prev :=
  ((killed_save_prev_or_new j n k).2).mpr (by omega)

/-- **a loader that does not honour the journal reads mixtures** (database opened `immutable`, or nothing to roll back because
no journal is kept): as soon as the transaction rewrites two pages there is a kill point at which it returns neither
checkpoint -/
theorem loader_ignoring_journal_mixture (j n : Nat) (hn : 2 ≤ n) : load j n false (crashAt j n (j + 1)) = .mixture := by
  unfold load crashAt
  have h1 : ¬ (j + n + 1 ≤ j + 1) := by omega
  have h2 : min (j + 1 - j) n = 1 := by omega
  have h3 : ¬ n = 0 := by omega
  have h4 : ¬ n ≤ 1 := by omega
  simp [h1, h2, h3, h4]

example : (List.range 7).map (fun k => load 2 3 true (crashAt 2 3 k)) = [.prev, .prev, .prev, .prev, .prev, .prev, .new] := by decide
example : (List.range 7).map (fun k => load 2 3 false (crashAt 2 3 k)) = [.prev, .prev, .prev, .mixture, .mixture, .new, .new] := by decide

end Journal

end BlackIt.Checkpoint
