import BlackIt.Model.Checkpoint
import Mathlib.Data.List.Basic
import Mathlib.Tactic.IntervalCases
set_option linter.unusedSectionVars false
set_option linter.unusedSimpArgs false

/-!
# C06 — An interrupted checkpoint save is never restored as a silent hybrid

Model: crash part of `BlackIt/Model/Checkpoint.lean`.

* SQLite back-end: proved — a save that fails at any statement leaves the previous checkpoint loadable, and
  what can be loaded is always one complete checkpoint.
* JSON/CSV/HDF5 back-end: the full statement is **false** for the code as it is (five files rewritten one
  after the other, no cross-file check on load).  Lean computes the classification of every crash prefix;
  `json_partial` characterises the crash points that are *not* hybrids, `json_hybrid_points` lists the ones
  that are (recorded as known findings), and `json_full_statement_false` is the negation of the full statement
  with a concrete witness.
-/
namespace BlackIt.Checkpoint

/-! ## SQLite -/

/-- **a failed save keeps the previous checkpoint**: whichever of the statements raises, after the rollback
the table is exactly what it was and no transaction is left open -/
theorem sqlite_failed_save_keeps_prev {R : Type} (prev : List R) (row : R) (i : Nat)
    (hi : i < (sqlSaveStmts row).length) :
    (sqlRun ⟨prev, none⟩ (sqlSaveStmts row) (some i)).committed = prev ∧
    (sqlRun ⟨prev, none⟩ (sqlSaveStmts row) (some i)).pending = none := by
  refine ⟨?_, rfl⟩
  simp only [sqlSaveStmts, List.length_cons, List.length_nil] at hi
  interval_cases i <;> rfl

/-- a save that does not fail installs exactly the new row -/
theorem sqlite_save_ok {R : Type} (prev : List R) (row : R) :
    (sqlRun ⟨prev, none⟩ (sqlSaveStmts row) none).committed = [row] ∧
    (sqlRun ⟨prev, none⟩ (sqlSaveStmts row) none).pending = none := ⟨rfl, rfl⟩

/-- **never a hybrid**: after a save attempt — failed anywhere or not — the table is the previous one or
exactly the new row -/
theorem sqlite_never_hybrid {R : Type} (prev : List R) (row : R) (failAt : Option Nat)
    (hi : ∀ i, failAt = some i → i < (sqlSaveStmts row).length) :
    (sqlRun ⟨prev, none⟩ (sqlSaveStmts row) failAt).committed = prev ∨
    (sqlRun ⟨prev, none⟩ (sqlSaveStmts row) failAt).committed = [row] := by
  cases failAt with
  | none => right; rfl
  | some i => left; exact (sqlite_failed_save_keeps_prev prev row i (hi i rfl)).1

/-- the defect that was repaired: with the DELETE committed on its own (through `executescript`) before the
INSERT transaction, a failure at the INSERT loses the previous checkpoint -/
theorem sqlite_delete_outside_transaction_loses_prev :
    let stmtsOld : List (SqlStmt Nat) := [.ddl, .delete, .commit, .insert 2, .commit]
    (sqlRun ⟨[1], none⟩ stmtsOld (some 3)).committed = [] := by decide

/-! ### the transaction discipline, for any body

The four-statement enumeration above is one instance of a general fact: as long as nothing between the start of the save and its final `commit`
commits, a failure ANYWHERE - at any statement, however many statements the body has, however often a failing statement is tried again before
the save gives up (a "sticky" failure: `harness/props/c06.py` fails the same statement every time it is executed) - rolls back to the previous
table.  A body that commits in the middle (`executescript` after the `DELETE`, as in `sqlite_delete_outside_transaction_loses_prev`) is exactly
what the hypothesis excludes. -/

def SqlStmt.isCommit {R : Type} : SqlStmt R → Bool
  | .commit => true
  | .script => true
  | _ => false

/-- statements before the transaction: they change no row, and with nothing pending a script's implicit commit commits nothing -/
def SqlStmt.isPreamble {R : Type} : SqlStmt R → Bool
  | .ddl => true
  | .script => true
  | _ => false

theorem sqlStep_committed_of_not_commit {R : Type} (db : Db R) (st : SqlStmt R) (h : st.isCommit = false) :
    (sqlStep db st).committed = db.committed := by
  cases st <;> first | rfl | (simp [SqlStmt.isCommit] at h)

theorem foldl_committed_of_no_commit {R : Type} (stmts : List (SqlStmt R)) (db : Db R) (h : ∀ st ∈ stmts, st.isCommit = false) :
    (stmts.foldl sqlStep db).committed = db.committed := by
  induction stmts generalizing db with
  | nil => rfl
  | cons st rest ih =>
    rw [List.foldl_cons, ih _ (fun x hx => h x (List.mem_cons_of_mem _ hx)), sqlStep_committed_of_not_commit db st (h st List.mem_cons_self)]

theorem foldl_preamble {R : Type} (pre : List (SqlStmt R)) (prev : List R) (h : ∀ st ∈ pre, st.isPreamble = true) :
    pre.foldl sqlStep ⟨prev, none⟩ = ⟨prev, none⟩ := by
  induction pre with
  | nil => rfl
  | cons st rest ih =>
    have hst := h st List.mem_cons_self
    have hstep : sqlStep ⟨prev, none⟩ st = ⟨prev, none⟩ := by
      cases st <;> first | rfl | (simp [SqlStmt.isPreamble] at hst)
    rw [List.foldl_cons, hstep]
    exact ih (fun x hx => h x (List.mem_cons_of_mem _ hx))

/-- **atomicity of the save for any body.**  A preamble outside any transaction, statements that do not commit, then `commit`: a failure at any
index (of the preamble, of the body or at the commit itself) leaves the previous table. -/
theorem sqlite_transaction_atomic {R : Type} (prev : List R) (pre body : List (SqlStmt R)) (hpre : ∀ st ∈ pre, st.isPreamble = true)
    (h : ∀ st ∈ body, st.isCommit = false) (i : Nat) (hi : i ≤ pre.length + body.length) :
    (sqlRun ⟨prev, none⟩ (pre ++ body ++ [.commit]) (some i)).committed = prev ∧
    (sqlRun ⟨prev, none⟩ (pre ++ body ++ [.commit]) (some i)).pending = none := by
  refine ⟨?_, rfl⟩
  unfold sqlRun
  dsimp only
  have hmin : min i (pre ++ body ++ [SqlStmt.commit]).length = i := by
    simp only [List.length_append, List.length_singleton]; omega
  have hle : i ≤ (pre ++ body).length := by rw [List.length_append]; exact hi
  rw [hmin, List.take_append_of_le_length hle, List.take_append, List.foldl_append, foldl_preamble _ prev (fun st hst => hpre st (List.mem_of_mem_take hst))]
  exact foldl_committed_of_no_commit _ _ (fun st hst => h st (List.mem_of_mem_take hst))

/-- ... and without failure the same body installs what its statements built -/
theorem sqlite_transaction_commits {R : Type} (prev : List R) (body : List (SqlStmt R)) :
    (sqlRun ⟨prev, none⟩ (body ++ [.commit]) none).pending = none := by
  unfold sqlRun
  dsimp only
  rw [List.take_length, List.foldl_append]
  rfl

/-- the save of the code under test is such a sequence; so is the same save with its INSERT tried `k + 1` times -/
theorem sqlite_save_with_retries_atomic {R : Type} (prev : List R) (row : R) (k i : Nat) (hi : i ≤ 2 + (1 + (k + 1))) :
    (sqlRun ⟨prev, none⟩ ([.ddl, .script] ++ ([.delete] ++ List.replicate (k + 1) (.insert row)) ++ [.commit]) (some i)).committed = prev := by
  refine (sqlite_transaction_atomic prev [.ddl, .script] _ ?_ ?_ i ?_).1
  · intro st hst
    simp only [List.mem_cons, List.not_mem_nil, or_false] at hst
    rcases hst with rfl | rfl <;> rfl
  · intro st hst
    rcases List.mem_append.mp hst with h | h
    · simp only [List.mem_cons, List.not_mem_nil, or_false] at h
      rw [h]; rfl
    · rw [List.eq_of_mem_replicate h]; rfl
  · simp only [List.length_append, List.length_cons, List.length_nil, List.length_replicate]; omega

example : sqlSaveStmts (7 : Nat) = [.ddl, .script] ++ ([.delete] ++ List.replicate 1 (.insert 7)) ++ [.commit] := rfl

/-- what the harness sends is what the model's save is: the codes of the statements observed on the real save -/
example : sqlOfCodes (7 : Nat) [0, 4, 1, 2, 3] = sqlSaveStmts 7 := rfl

/-- the wave-12 seeded change in the model: the retry path runs a committing script between the failed and the repeated INSERT; with a failure that
persists, the previous checkpoint is gone (`commit` in the body: the hypothesis of `sqlite_transaction_atomic` fails) -/
theorem sqlite_retry_through_committing_script_loses_prev :
    -- PRAGMA, DDL script, DELETE, (the INSERT that raised is not executed,) DROP, DDL script again, INSERT again - which fails too
    let stmts : List (SqlStmt Nat) := [.ddl, .script, .delete, .delete, .script, .insert 2, .commit]
    (sqlRun ⟨[1], none⟩ stmts (some 5)).committed = [] ∧ ¬ (∀ st ∈ (stmts.drop 2).dropLast, st.isCommit = false) := by decide

/-! ## JSON / CSV / HDF5 -/

/-- **partial statement (what does hold).**  A folder left by a crash is restored as an error, as the previous
checkpoint or as the new one — i.e. not as a hybrid — exactly when some file is rejected by its loader, or no
file was touched yet, or all files are complete. -/
theorem json_partial (fs : List FileState) :
    restoreOutcome fs ≠ .hybrid ↔
      (fs.any (· == .broken) = true ∨ fs.all (fun f => f == .prev || f == .same) = true ∨
        fs.all (fun f => f == .done || f == .same) = true) := by
  unfold restoreOutcome
  by_cases h1 : fs.any (· == .broken) = true
  · simp [h1]
  · by_cases h2 : fs.all (fun f => f == .prev || f == .same) = true
    · simp [h1, h2]
    · by_cases h3 : fs.all (fun f => f == .done || f == .same) = true
      · simp [h1, h2, h3]
      · simp [h1, h2, h3]

/-- classification of every crash prefix of the five-file save: crashing "between two files" (the next file
not yet opened) or with a cut-but-parseable results table / not-yet-visible series rows is a hybrid; a file
caught truncated or half-written in a format its loader rejects is an error -/
theorem json_hybrid_points :
    (∀ i, 1 ≤ i → i ≤ 4 → restoreOutcome (crashState 5 i .prev) = .hybrid) ∧       -- between files
    (∀ i, i ≤ 4 → restoreOutcome (crashState 5 i .broken) = .error) ∧               -- truncated / unparsable
    restoreOutcome (crashState 5 3 .cut) = .hybrid ∧                                -- results.csv cut
    restoreOutcome (crashState 5 4 .cut) = .hybrid ∧                                -- series rows not visible yet
    restoreOutcome (crashState 5 0 .prev) = .equalsPrev ∧
    restoreOutcome (crashState 5 5 .prev) = .equalsNew := by
  refine ⟨?_, ?_, by decide, by decide, by decide, by decide⟩
  · intro i h1 h2; interval_cases i <;> decide
  · intro i h2; interval_cases i <;> decide

/-- **the full statement is false for the five-file back-end**: there is a crash point whose restore is a
silent hybrid (new configuration/counters with the old results table) -/
theorem json_full_statement_false : ∃ i mid, restoreOutcome (crashState 5 i mid) = .hybrid :=
  ⟨1, .prev, by decide⟩

/-- making each *file* atomic (write to a temporary name, rename over the old file) does not help, it makes
things worse: a file is then never `broken` or `cut`, so no crash inside the save is ever reported as an error —
every crash point strictly inside the save (at least one file replaced and at least one not, with different
contents) is restored as a silent hybrid.  (This is the seeded change `C06-json-tempfile-rename`.) -/
theorem atomic_files_all_hybrid (i : Nat) (h1 : 1 ≤ i) (h2 : i ≤ 4) :
    restoreOutcome (crashState 5 i .prev) = .hybrid ∧ restoreOutcome (crashState 5 i .done) = .hybrid ∨
    restoreOutcome (crashState 5 i .prev) = .hybrid ∧ i = 4 := by
  interval_cases i <;> decide

theorem atomic_files_never_error (fs : List FileState) (h : ∀ f ∈ fs, f ≠ .broken) :
    restoreOutcome fs ≠ .error := by
  unfold restoreOutcome
  have : fs.any (· == .broken) = false := by
    rw [List.any_eq_false]; intro f hf; simpa using h f hf
  rw [this]
  simp only [Bool.false_eq_true, if_false]
  split <;> [simp; (split <;> simp)]

/-- what would make it true: a commit record written last and checked by the loader turns every incomplete
save into "previous or error" — modelled as: the loader rejects any folder whose files are not all of one
generation -/
def restoreOutcomeChecked (fs : List FileState) : Outcome :=
  if fs.all (fun f => f == .prev || f == .same) then .equalsPrev
  else if fs.all (fun f => f == .done || f == .same) then .equalsNew else .error

theorem checked_never_hybrid (fs : List FileState) : restoreOutcomeChecked fs ≠ .hybrid := by
  unfold restoreOutcomeChecked; split <;> [simp; (split <;> simp)]

/-! ## SQLite, the process dies (not an exception): rollback journal -/
namespace Journal

/-- **a killed SQLite save is never restored as a mixture**: at whatever file operation of the transaction the process
dies, a loader that opens the database normally returns the previous checkpoint — or the new one, exactly when the
journal had already been deleted -/
theorem killed_save_prev_or_new (j n k : Nat) :
    (load j n true (crashAt j n k) = .new ↔ j + n + 1 ≤ k) ∧
    (load j n true (crashAt j n k) = .prev ↔ k < j + n + 1) := by
  unfold load crashAt
  by_cases hk : j + n + 1 ≤ k
  · simp [hk]
  · simp only [hk, decide_false, Bool.false_eq_true, if_false]
    by_cases hp : min (k - j) n = 0
    · simp [hp]; omega
    · have hj : min k j = j := by omega
      simp [hp, hj]; omega

theorem killed_save_never_mixture (j n k : Nat) : load j n true (crashAt j n k) ≠ .mixture := by
  rcases Nat.lt_or_ge k (j + n + 1) with h | h
  · rw [((killed_save_prev_or_new j n k).2).mpr h]; decide
  · rw [((killed_save_prev_or_new j n k).1).mpr h]; decide

/-- a failed (killed) save leaves the previous checkpoint loadable: every kill point before the commit gives exactly it -/
theorem killed_before_commit_keeps_prev (j n k : Nat) (h : k ≤ j + n) : load j n true (crashAt j n k) = .prev :=
  ((killed_save_prev_or_new j n k).2).mpr (by omega)

/-- **a loader that does not honour the journal reads mixtures** (database opened `immutable`, or nothing to roll back because
no journal is kept): as soon as the transaction rewrites two pages there is a kill point at which it returns neither
checkpoint -/
theorem loader_ignoring_journal_mixture (j n : Nat) (hn : 2 ≤ n) : load j n false (crashAt j n (j + 1)) = .mixture := by
  unfold load crashAt
  have h1 : ¬ (j + n + 1 ≤ j + 1) := by omega
  have h2 : min (j + 1 - j) n = 1 := by omega
  have h3 : ¬ n = 0 := by omega
  have h4 : ¬ n ≤ 1 := by omega
  simp [h1, h2, h3, h4]

example : (List.range 7).map (fun k => load 2 3 true (crashAt 2 3 k)) = [.prev, .prev, .prev, .prev, .prev, .prev, .new] := by decide
example : (List.range 7).map (fun k => load 2 3 false (crashAt 2 3 k)) = [.prev, .prev, .prev, .mixture, .mixture, .new, .new] := by decide

end Journal

end BlackIt.Checkpoint
