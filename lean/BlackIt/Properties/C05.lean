import BlackIt.Properties.C14
set_option linter.unusedSectionVars false
set_option linter.unusedSimpArgs false
set_option linter.unusedVariables false

/-!
# C05 — Resuming from a checkpoint equals never having stopped

Model: `BlackIt/Model/Calibrator.lean`.  The serialisers are perfect in the model (`restore ∘ checkpoint`
returns the saved core); that they are in reality is C04, checked on the real code.  Early stopping is C14;
here the configuration has no convergence precision, as in C01/C05's quantifier.
-/
namespace BlackIt.Calibrator
variable {Θ S L σ : Type}

theorem stepState_cfg (s : State Θ S L σ) (k : Core Θ S L σ) : (stepState s k).core.cfg = k.cfg := rfl

theorem converged_of_noPrec (c : Comp Θ S L σ) (k : Core Θ S L σ) (h : k.cfg.convPrec = none) :
    converged c k = false := by simp [converged, h]

theorem calLoop_cfg (c : Comp Θ S L σ) (n : Nat) (s : State Θ S L σ) :
    (calLoop c n s).1.core.cfg = s.core.cfg := by
  induction n generalizing s with
  | zero => rfl
  | succ n ih =>
    have hb := runBatch_cfg c s.table s.core
    apply calLoop_cases c n s (fun r => r.1.core.cfg = s.core.cfg)
    · intro k f heq; rw [heq] at hb; exact hb
    · intro k heq _; rw [heq] at hb; exact hb
    · intro k heq _; rw [heq] at hb; rw [ih]; exact hb

/-- **splitting a loop**: asking for `a + b` batches is asking for `a` and then, unless that raised, for `b` -/
theorem calLoop_add (c : Comp Θ S L σ) (a b : Nat) (s : State Θ S L σ) (hp : s.core.cfg.convPrec = none) :
    calLoop c (a + b) s =
      match calLoop c a s with
      | (s1, none) => calLoop c b s1
      | (s1, some f) => (s1, some f) := by
  induction a generalizing s with
  | zero => simp [calLoop]
  | succ a ih =>
    rw [Nat.succ_add]
    rcases hrb : runBatch c s.table s.core with ⟨k, _ | f⟩
    · have hk : k.cfg.convPrec = none := by
        have := runBatch_cfg c s.table s.core; rw [hrb] at this; simp only at this; rw [this]; exact hp
      rw [calLoop_succ_ok c (a + b) s k hrb, calLoop_succ_ok c a s k hrb, converged_of_noPrec c k hk]
      simp only [Bool.false_eq_true, if_false]
      exact ih (stepState s k) (by rw [stepState_cfg]; exact hk)
    · rw [calLoop_succ_fault c (a + b) s k f hrb, calLoop_succ_fault c a s k f hrb]

theorem calLoop_batchIdx_pos (c : Comp Θ S L σ) (n : Nat) (s : State Θ S L σ) (hn : 0 < n)
    (h : (calLoop c n s).2 = none) : 0 < (calLoop c n s).1.core.batchIdx := by
  induction n generalizing s with
  | zero => omega
  | succ n ih =>
    revert h
    apply calLoop_cases c n s (fun r => r.2 = none → 0 < r.1.core.batchIdx)
    · intro k f _ h; cases h
    · intro k heq _ _
      have := (runBatch_ok c s.table s.core (by rw [heq])).batchIdx
      rw [heq] at this; simp only at this
      simp [stepState, this]
    · intro k heq _ h
      have hk := (runBatch_ok c s.table s.core (by rw [heq])).batchIdx
      rw [heq] at hk; simp only at hk
      by_cases hn0 : n = 0
      · subst hn0; simp [calLoop, stepState, hk]
      · exact ih (stepState s k) (by omega) h

/-- **C05, live split.**  Two consecutive `calibrate()` calls on a live object (`a > 0` batches that all
complete, then `b`) give exactly the state of one call for `a + b` batches. -/
theorem calibrate_split (c : Comp Θ S L σ) (a b : Nat) (s : State Θ S L σ)
    (hp : s.core.cfg.convPrec = none) (ha : 0 < a) (hok : (calibrate c a s).2 = none) :
    calibrate c (a + b) s = calibrate c b (calibrate c a s).1 := by
  have key : ∀ s0 : State Θ S L σ, s0.core.cfg.convPrec = none → (calLoop c a s0).2 = none →
      calLoop c (a + b) s0 = calibrate c b (calLoop c a s0).1 := by
    intro s0 hp0 hok0
    rw [calLoop_add c a b s0 hp0]
    have hpos := calLoop_batchIdx_pos c a s0 ha hok0
    rcases hr : calLoop c a s0 with ⟨s1, _ | f⟩
    · rw [hr] at hpos
      simp only [calibrate]
      rw [if_neg (by simpa using Nat.pos_iff_ne_zero.mp hpos)]
    · rw [hr] at hok0; cases hok0
  unfold calibrate at hok ⊢
  by_cases h0 : s.core.batchIdx = 0
  · simp only [h0, if_true] at hok ⊢
    exact key _ hp hok
  · simp only [h0, if_false] at hok ⊢
    exact key _ hp hok

/-- `restore` after `create_checkpoint` gives back the saved core **and** the saved id table -/
theorem restore_checkpoint (s : State Θ S L σ) :
    restore (checkpoint s) =
      some { core := s.core, table := s.table, disk := some s.core, diskTable := some s.table } := rfl

/-- states that agree on core and table behave alike, whatever the folder holds -/
theorem calLoop_disk_irrelevant (c : Comp Θ S L σ) (n : Nat) (s s' : State Θ S L σ)
    (hc : s.core = s'.core) (ht : s.table = s'.table) :
    (calLoop c n s).1.core = (calLoop c n s').1.core ∧ (calLoop c n s).2 = (calLoop c n s').2 := by
  obtain ⟨h1, h2, _⟩ := calLoop_strip c n s s' ht (by rw [hc])
  refine ⟨?_, h2⟩
  have hcfg : (calLoop c n s).1.core.cfg = (calLoop c n s').1.core.cfg := by
    rw [calLoop_cfg, calLoop_cfg, hc]
  -- equal after stripping, equal configuration ⇒ equal
  have : ∀ k k' : Core Θ S L σ, k.strip = k'.strip → k.cfg = k'.cfg → k = k' := by
    intro k k' hs hcf
    cases k; cases k'
    simp only [Core.strip, Core.mk.injEq] at hs
    simp only at hcf
    simp only [Core.mk.injEq]
    tauto
  exact this _ _ h1 hcfg

theorem calibrate_disk_irrelevant (c : Comp Θ S L σ) (n : Nat) (s s' : State Θ S L σ)
    (hc : s.core = s'.core) (ht : s.table = s'.table) :
    (calibrate c n s).1.core = (calibrate c n s').1.core ∧ (calibrate c n s).2 = (calibrate c n s').2 := by
  unfold calibrate
  rw [hc]
  split
  · exact calLoop_disk_irrelevant c n _ _ (by simp [hc]) ht
  · exact calLoop_disk_irrelevant c n _ _ hc ht

/-- **C05, stop / restore / continue.**  Stopping after `a > 0` completed batches, restoring from the
checkpoint and continuing for `b` batches gives the same history (the same whole core) as the uninterrupted
run of `a + b` batches. -/
theorem resume_eq (c : Comp Θ S L σ) (a b : Nat) (s : State Θ S L σ)
    (hp : s.core.cfg.convPrec = none) (ha : 0 < a) (hok : (calibrate c a s).2 = none) :
    ∃ r, restore (checkpoint (calibrate c a s).1) = some r ∧
      (calibrate c b r).1.core = (calibrate c (a + b) s).1.core ∧
      (calibrate c b r).2 = (calibrate c (a + b) s).2 := by
  refine ⟨_, restore_checkpoint _, ?_⟩
  rw [calibrate_split c a b s hp ha hok]
  exact calibrate_disk_irrelevant c b _ _ rfl rfl

/-- the checkpoint `calibrate()` itself leaves in the saving folder restores to the returned state as well:
with a folder set, `restore` after a call that ran at least one batch returns the returned core and table -/
theorem restore_after_calibrate (c : Comp Θ S L σ) (n : Nat) (s : State Θ S L σ)
    (hfolder : s.core.cfg.folder = true) (hn : 0 < n) (hret : (calLoop c n s).2 = none) :
    (restore (calLoop c n s).1).map (fun r => (r.core, r.table)) =
      some ((calLoop c n s).1.core, (calLoop c n s).1.table) := by
  have hd := checkpoint_is_returned_state c n s hfolder hn hret
  have ht : (calLoop c n s).1.diskTable = some (calLoop c n s).1.table := by
    clear hd
    induction n generalizing s with
    | zero => omega
    | succ n ih =>
      revert hret
      apply calLoop_cases c n s (fun r => r.2 = none → r.1.diskTable = some r.1.table)
      · intro k f _ h; cases h
      · intro k heq _ _
        have : k.cfg.folder = true := by
          have := runBatch_cfg c s.table s.core; rw [heq] at this; simp only at this; rw [this]; exact hfolder
        simp [stepState, this]
      · intro k heq _ hret
        have hk : k.cfg.folder = true := by
          have := runBatch_cfg c s.table s.core; rw [heq] at this; simp only at this; rw [this]; exact hfolder
        by_cases hn0 : n = 0
        · subst hn0; simp [calLoop, stepState, hk]
        · exact ih (stepState s k) (by simpa [stepState] using hk) (by omega) hret
  simp [restore, hd, ht]

/-! ### non-vacuity: 3 = 1 + 2 on a scripted run -/
section Example
example : (calibrate exComp 3 { exState with core := { exState.core with cfg := { exState.core.cfg with convPrec := none } } }).1.core.params =
    (calibrate exComp 2 (calibrate exComp 1 { exState with core := { exState.core with cfg := { exState.core.cfg with convPrec := none } } }).1).1.core.params := by
  decide
end Example

end BlackIt.Calibrator
