import BlackIt.Properties.C14
import BlackIt.Properties.C10
set_option linter.unusedSectionVars false
set_option linter.unusedSimpArgs false
set_option linter.unusedVariables false

/-!
# C05 — Resuming from a checkpoint equals never having stopped

Model: `BlackIt/Model/Calibrator.lean`.  The serialisers are perfect in the model (`restore ∘ checkpoint`
returns the saved core); that they are in reality is C04, checked on the real code.  Early stopping is C14;
here the configuration has no convergence precision, as in C01/C05's quantifier.
-/
namespace BlackIt.Calibrator
variable {Θ S L σ : Type}

theorem stepState_cfg (s : State Θ S L σ) (k : Core Θ S L σ) : (stepState s k).core.cfg = k.cfg := rfl

theorem converged_of_noPrec (c : Comp Θ S L σ) (k : Core Θ S L σ) (h : k.cfg.convPrec = none) :
    converged c k = false := by simp [converged, h]

theorem calLoop_cfg (c : Comp Θ S L σ) (n : Nat) (s : State Θ S L σ) :
    (calLoop c n s).1.core.cfg = s.core.cfg := by
  induction n generalizing s with
  | zero => rfl
  | succ n ih =>
    have hb := runBatch_cfg c s.table s.core
    apply calLoop_cases c n s (fun r => r.1.core.cfg = s.core.cfg)
    · intro k f heq; rw [heq] at hb; exact hb
    · intro k heq _; rw [heq] at hb; exact hb
    · intro k heq _; rw [heq] at hb; rw [ih]; exact hb

/-- **splitting a loop**: asking for `a + b` batches is asking for `a` and then, unless that raised, for `b` -/
theorem calLoop_add (c : Comp Θ S L σ) (a b : Nat) (s : State Θ S L σ) (hp : s.core.cfg.convPrec = none) :
    calLoop c (a + b) s =
      match calLoop c a s with
      | (s1, none) => calLoop c b s1
      | (s1, some f) => (s1, some f) := by
  induction a generalizing s with
  | zero => simp [calLoop]
  | succ a ih =>
    rw [Nat.succ_add]
    rcases hrb : runBatch c s.table s.core with ⟨k, _ | f⟩
    · have hk : k.cfg.convPrec = none := by
        have := runBatch_cfg c s.table s.core; rw [hrb] at this; simp only at this; rw [this]; exact hp
      rw [calLoop_succ_ok c (a + b) s k hrb, calLoop_succ_ok c a s k hrb, converged_of_noPrec c k hk]
      simp only [Bool.false_eq_true, if_false]
      exact ih (stepState s k) (by rw [stepState_cfg]; exact hk)
    · rw [calLoop_succ_fault c (a + b) s k f hrb, calLoop_succ_fault c a s k f hrb]

theorem calLoop_batchIdx_pos (c : Comp Θ S L σ) (n : Nat) (s : State Θ S L σ) (hn : 0 < n)
    (h : (calLoop c n s).2 = none) : 0 < (calLoop c n s).1.core.batchIdx := by
  induction n generalizing s with
  | zero => omega
  | succ n ih =>
    revert h
    apply calLoop_cases c n s (fun r => r.2 = none → 0 < r.1.core.batchIdx)
    · intro k f _ h; cases h
    · intro k heq _ _
      have := (runBatch_ok c s.table s.core (by rw [heq])).batchIdx
      rw [heq] at this; simp only at this
      simp [stepState, this]
    · intro k heq _ h
      have hk := (runBatch_ok c s.table s.core (by rw [heq])).batchIdx
      rw [heq] at hk; simp only at hk
      by_cases hn0 : n = 0
      · subst hn0; simp [calLoop, stepState, hk]
      · exact ih (stepState s k) (by omega) h

/-- **C05, live split.**  Two consecutive `calibrate()` calls on a live object (`a > 0` batches that all
complete, then `b`) give exactly the state of one call for `a + b` batches. -/
theorem calibrate_split (c : Comp Θ S L σ) (a b : Nat) (s : State Θ S L σ)
    (hp : s.core.cfg.convPrec = none) (ha : 0 < a) (hok : (calibrate c a s).2 = none) :
    calibrate c (a + b) s = calibrate c b (calibrate c a s).1 := by
  have key : ∀ s0 : State Θ S L σ, s0.core.cfg.convPrec = none → (calLoop c a s0).2 = none →
      calLoop c (a + b) s0 = calibrate c b (calLoop c a s0).1 := by
    intro s0 hp0 hok0
    rw [calLoop_add c a b s0 hp0]
    have hpos := calLoop_batchIdx_pos c a s0 ha hok0
    rcases hr : calLoop c a s0 with ⟨s1, _ | f⟩
    · rw [hr] at hpos
      simp only [calibrate]
      rw [if_neg (by simpa using Nat.pos_iff_ne_zero.mp hpos)]
    · rw [hr] at hok0; cases hok0
  unfold calibrate at hok ⊢
  by_cases h0 : s.core.batchIdx = 0
  · simp only [h0, if_true] at hok ⊢
    exact key _ hp hok
  · simp only [h0, if_false] at hok ⊢
    exact key _ hp hok

/-- `restore` after `create_checkpoint` gives back the saved core **and** the saved id table -/
theorem restore_checkpoint (s : State Θ S L σ) :
    restore (checkpoint s) =
      some { core := s.core, table := s.table, disk := some s.core, diskTable := some s.table } := rfl

/-- states that agree on core and table behave alike, whatever the folder holds -/
theorem calLoop_disk_irrelevant (c : Comp Θ S L σ) (n : Nat) (s s' : State Θ S L σ)
    (hc : s.core = s'.core) (ht : s.table = s'.table) :
    (calLoop c n s).1.core = (calLoop c n s').1.core ∧ (calLoop c n s).2 = (calLoop c n s').2 := by
  obtain ⟨h1, h2, _⟩ := calLoop_strip c n s s' ht (by rw [hc])
  refine ⟨?_, h2⟩
  have hcfg : (calLoop c n s).1.core.cfg = (calLoop c n s').1.core.cfg := by
    rw [calLoop_cfg, calLoop_cfg, hc]
  -- equal after stripping, equal configuration ⇒ equal
  have : ∀ k k' : Core Θ S L σ, k.strip = k'.strip → k.cfg = k'.cfg → k = k' := by
    intro k k' hs hcf
    cases k; cases k'
    simp only [Core.strip, Core.mk.injEq] at hs
    simp only at hcf
    simp only [Core.mk.injEq]
    tauto
  exact this _ _ h1 hcfg

theorem calibrate_disk_irrelevant (c : Comp Θ S L σ) (n : Nat) (s s' : State Θ S L σ)
    (hc : s.core = s'.core) (ht : s.table = s'.table) :
    (calibrate c n s).1.core = (calibrate c n s').1.core ∧ (calibrate c n s).2 = (calibrate c n s').2 := by
  unfold calibrate
  rw [hc]
  split
  · exact calLoop_disk_irrelevant c n _ _ (by simp [hc]) ht
  · exact calLoop_disk_irrelevant c n _ _ hc ht

/-- **C05, stop / restore / continue.**  Stopping after `a > 0` completed batches, restoring from the
checkpoint and continuing for `b` batches gives the same history (the same whole core) as the uninterrupted
run of `a + b` batches. -/
theorem resume_eq (c : Comp Θ S L σ) (a b : Nat) (s : State Θ S L σ)
    (hp : s.core.cfg.convPrec = none) (ha : 0 < a) (hok : (calibrate c a s).2 = none) :
    ∃ r, restore (checkpoint (calibrate c a s).1) = some r ∧
      (calibrate c b r).1.core = (calibrate c (a + b) s).1.core ∧
      (calibrate c b r).2 = (calibrate c (a + b) s).2 := by
  refine ⟨_, restore_checkpoint _, ?_⟩
  rw [calibrate_split c a b s hp ha hok]
  exact calibrate_disk_irrelevant c b _ _ rfl rfl

/-- the checkpoint `calibrate()` itself leaves in the saving folder restores to the returned state as well:
with a folder set, `restore` after a call that ran at least one batch returns the returned core and table -/
theorem restore_after_calibrate (c : Comp Θ S L σ) (n : Nat) (s : State Θ S L σ)
    (hfolder : s.core.cfg.folder = true) (hn : 0 < n) (hret : (calLoop c n s).2 = none) :
    (restore (calLoop c n s).1).map (fun r => (r.core, r.table)) =
      some ((calLoop c n s).1.core, (calLoop c n s).1.table) := by
  have hd := checkpoint_is_returned_state c n s hfolder hn hret
  have ht : (calLoop c n s).1.diskTable = some (calLoop c n s).1.table := by
    clear hd
    induction n generalizing s with
    | zero => omega
    | succ n ih =>
      revert hret
      apply calLoop_cases c n s (fun r => r.2 = none → r.1.diskTable = some r.1.table)
      · intro k f _ h; cases h
      · intro k heq _ _
        have : k.cfg.folder = true := by
          have := runBatch_cfg c s.table s.core; rw [heq] at this; simp only at this; rw [this]; exact hfolder
        simp [stepState, this]
      · intro k heq _ hret
        have hk : k.cfg.folder = true := by
          have := runBatch_cfg c s.table s.core; rw [heq] at this; simp only at this; rw [this]; exact hfolder
        by_cases hn0 : n = 0
        · subst hn0; simp [calLoop, stepState, hk]
        · exact ih (stepState s k) (by simpa [stepState] using hk) (by omega) hret
  simp [restore, hd, ht]

/-! ### the RL scheduler: why the property's quantifier says "RL: single session"

The property quantifies over "configurations as in C01", and C01 admits the RL scheduler for a *single session*
only, i.e. for one `calibrate()` call: cuts are quantified for round-robin line-ups.  The theorems below record
why that restriction is needed — an observation about the code, outside the property, not a finding.

In `calibrate_split` and `resume_eq` the component `c.action` is the sequence of actions the calibrator
*consumes*; the theorems say that the calibrator itself adds no dependence on where a run is cut.  For the
round-robin scheduler nothing else is involved (`nextIdx` does not read `c.action`).  For the RL scheduler the
consumed actions come from the agent thread, and every `calibrate()` call is one session of the exchange
modelled in `BlackIt/Model/RLProtocol.lean`: at the end of a session the action the agent has already chosen
for the next batch is dropped, and the next session asks `policy` again.  An agent whose answer depends on its
own history (every learning agent, every agent that draws random numbers) therefore hands over different
actions when the same batches are split over two calls. -/
end BlackIt.Calibrator

namespace BlackIt.RL

/-- an agent whose action is the parity of the number of `policy` calls it has answered so far -/
def parityAgent (h : List AgEv) : Nat :=
  (h.filter (fun e => match e with | .chose _ => true | .learnt _ _ => false)).length % 2

def oneCall : List Bool := [true, true, true, false, false, true, true, false, false, false, false, true, true, true, true,
  false, false, false, false, false, true, true]
def twoCalls : List Bool := [true, true, true, true, true, false, false, false, true, true, true, false, false, true, true,
  false, false, false, false, true, true, true, true, false, false, false, false, false, true, true]

/-- **outside the quantifier: an RL run that is cut is a different run** (witness, replayed on the real code by
the check and recorded in the evidence as an observation): three batches in one `calibrate()` call execute the
agent's actions 0, 1 in batches 2, 3; the same three batches split 1 + 2 execute 1, 0 — for *every* thread
interleaving of either run. -/
theorem rl_split_not_transparent (σ1 σ2 : List Bool) (e1 e2 : DSt)
    (h1 : drun parityAgent { sessions := [(3, false)] } σ1 = some e1) (t1 : terminal parityAgent e1 = true)
    (h2 : drun parityAgent { sessions := [(1, false), (2, false)] } σ2 = some e2) (t2 : terminal parityAgent e2 = true) :
    e1.s.executed = [(2, 0), (3, 1)] ∧ e2.s.executed = [(2, 1), (3, 0)] := by
  have w1 : (drun parityAgent { sessions := [(3, false)] } oneCall).map
      (fun d => (d.s.executed, terminal parityAgent d)) = some ([(2, 0), (3, 1)], true) := by decide
  have w2 : (drun parityAgent { sessions := [(1, false), (2, false)] } twoCalls).map
      (fun d => (d.s.executed, terminal parityAgent d)) = some ([(2, 1), (3, 0)], true) := by decide
  cases hd1 : drun parityAgent { sessions := [(3, false)] } oneCall with
  | none => simp [hd1] at w1
  | some d1 =>
    cases hd2 : drun parityAgent { sessions := [(1, false), (2, false)] } twoCalls with
    | none => simp [hd2] at w2
    | some d2 =>
      simp only [hd1, hd2, Option.map_some, Option.some.injEq, Prod.mk.injEq] at w1 w2
      have a := schedule_independent_init parityAgent _ σ1 oneCall e1 d1 h1 t1 hd1 w1.2
      have b := schedule_independent_init parityAgent _ σ2 twoCalls e2 d2 h2 t2 hd2 w2.2
      exact ⟨a.1.trans w1.1, b.1.trans w2.1⟩

/-- what does hold for the RL scheduler: within one session the executed actions are exactly the
agent's choices in order, each learned once — `learned_eq_executed`, `schedule_independent` (C10); across a
cut only the calibrator-side statement `Calibrator.calibrate_split` (same consumed actions ⇒ same history). -/
theorem rl_split_partial (f : List AgEv → Nat) (script : List (Nat × Bool)) (σ1 σ2 : List Bool) (e1 e2 : DSt)
    (h1 : drun f { sessions := script } σ1 = some e1) (t1 : terminal f e1 = true)
    (h2 : drun f { sessions := script } σ2 = some e2) (t2 : terminal f e2 = true) :
    e1.s.executed = e2.s.executed := (schedule_independent_init f script σ1 σ2 e1 e2 h1 t1 h2 t2).1

end BlackIt.RL

namespace BlackIt.Calibrator
variable {Θ S L σ : Type}

/-- **C05, live split, round-robin scheduler — the full statement**: no component of the run other than the
pure ones is involved (`nextIdx` ignores the agent) -/
theorem nextIdx_rr_ignores_agent (c c' : Comp Θ S L σ) (k : Core Θ S L σ) (b : Nat) (h : k.sched = .rr b) :
    nextIdx c k = nextIdx c' k := by
  simp [nextIdx, h]

/-! ### non-vacuity: 3 = 1 + 2 on a scripted run -/
section Example
example : (calibrate exComp 3 { exState with core := { exState.core with cfg := { exState.core.cfg with convPrec := none } } }).1.core.params =
    (calibrate exComp 2 (calibrate exComp 1 { exState with core := { exState.core with cfg := { exState.core.cfg with convPrec := none } } }).1).1.core.params := by
  decide
end Example

end BlackIt.Calibrator
