import BlackIt.Model.Samplers
import BlackIt.Properties.C09
import BlackIt.Properties.C02
set_option linter.unusedSectionVars false
set_option linter.unusedSimpArgs false
set_option linter.unusedVariables false

/-!
# C11 — A failing batch leaves the calibrator consistent and reusable

Model: `BlackIt/Model/Calibrator.lean` with a fault plan (`Comp.fault kind k` = the `k`-th invocation of the
sampler / model / loss raises).  This file covers the calibration-thread side (history, counters, scheduler
position, propagation); the agent thread of the RL scheduler is covered by the protocol model of C10.
-/
namespace BlackIt.Calibrator
variable {Θ S L σ : Type}

/-- the same components with no fault ever -/
def Comp.faultFree (c : Comp Θ S L σ) : Comp Θ S L σ := { c with fault := fun _ _ => false }

theorem firstFault_false (start n : Nat) : firstFault (fun _ => false) start n = none := by
  induction n with
  | zero => rfl
  | succ n ih => simp [firstFault, ih]

/-- a batch that does not raise is the batch of the fault-free run -/
theorem runBatch_eq_faultFree (c : Comp Θ S L σ) (t : List (Nat × Nat)) (k : Core Θ S L σ)
    (h : (runBatch c t k).2 = none) : runBatch c.faultFree t k = runBatch c t k := by
  unfold runBatch at h ⊢
  have hn : nextIdx c.faultFree k = nextIdx c k := rfl
  simp only [hn]
  cases hs : k.samplers[nextIdx c k]? with
  | none => simp [hs] at h
  | some smp =>
    simp only [hs] at h ⊢
    by_cases hf : c.fault .sampler k.callsS = true
    · simp [hf] at h
    · simp only [hf] at h ⊢
      have h0 : c.faultFree.fault .sampler k.callsS = false := rfl
      simp only [h0, Bool.false_eq_true, if_false]
      have hsm : c.faultFree.sample = c.sample := rfl
      have hmf : c.faultFree.fault .model = fun _ => false := rfl
      have hlf : c.faultFree.fault .loss = fun _ => false := rfl
      simp only [hsm, hmf, hlf, firstFault_false]
      cases hm : firstFault (c.fault .model) k.callsM
          ((c.sample smp k.params k.losses).2.length * k.cfg.ensemble) with
      | some j => simp [hm] at h
      | none =>
        simp only [hm] at h ⊢
        cases hl : firstFault (c.fault .loss) k.callsL (c.sample smp k.params k.losses).2.length with
        | some j => simp [hl] at h
        | none => rfl

theorem converged_faultFree (c : Comp Θ S L σ) (k : Core Θ S L σ) : converged c.faultFree k = converged c k := rfl

/-- **C11, propagation and prefix.**  Whatever the fault plan: either `calibrate`'s loop completes and is
exactly the fault-free run, or it raises the exception of the failing component and the history it leaves is
the history of the fault-free run after the `j` batches completed before the failure (`j < n`). -/
theorem fault_history_is_prefix (c : Comp Θ S L σ) (n : Nat) (s : State Θ S L σ) :
    ((calLoop c n s).2 = none ∧ calLoop c n s = calLoop c.faultFree n s) ∨
    (∃ f j, (calLoop c n s).2 = some f ∧ j < n ∧ (calLoop c.faultFree j s).2 = none ∧
        (calLoop c n s).1.core.hist = (calLoop c.faultFree j s).1.core.hist ∧
        (calLoop c n s).1.table = s.table) := by
  induction n generalizing s with
  | zero => left; exact ⟨rfl, rfl⟩
  | succ n ih =>
    rcases hrb : runBatch c s.table s.core with ⟨k, _ | f⟩
    · have hff : runBatch c.faultFree s.table s.core = (k, none) := by
        rw [runBatch_eq_faultFree c s.table s.core (by rw [hrb]), hrb]
      rw [calLoop_succ_ok c n s k hrb, calLoop_succ_ok c.faultFree n s k hff, converged_faultFree]
      by_cases hc : converged c k = true
      · left; simp [hc]
      · simp only [hc, if_false]
        rcases ih (stepState s k) with h | ⟨f, j, h1, h2, h3, h4, h5⟩
        · left; exact h
        · right
          refine ⟨f, j + 1, h1, by omega, ?_, ?_, h5⟩
          · rw [calLoop_succ_ok c.faultFree j s k hff, converged_faultFree]; simp [hc, h3]
          · rw [calLoop_succ_ok c.faultFree j s k hff, converged_faultFree]; simp [hc, h4]
    · right
      rw [calLoop_succ_fault c n s k f hrb]
      refine ⟨f, 0, rfl, by omega, rfl, ?_, rfl⟩
      have := (runBatch_fault c s.table s.core f (by rw [hrb])).1
      rw [hrb] at this
      simpa [calLoop] using this

/-- **counters.**  The failed batch changes neither the number of completed batches, the sample counter, nor
the round-robin position -/
theorem fault_counters (c : Comp Θ S L σ) (t : List (Nat × Nat)) (k : Core Θ S L σ) (f : FaultKind)
    (h : (runBatch c t k).2 = some f) :
    (runBatch c t k).1.batchIdx = k.batchIdx ∧ (runBatch c t k).1.nSampled = k.nSampled ∧
    (∀ b, k.sched = .rr b → (runBatch c t k).1.sched = .rr b) := by
  obtain ⟨hh, _, _, _, hs, _⟩ := runBatch_fault c t k f h
  simp only [Core.hist, Hist.mk.injEq] at hh
  refine ⟨hh.2.2.2.2.2.2, hh.2.2.2.2.2.1, ?_⟩
  intro b hb
  rcases hs with h1 | h1
  · rw [h1, hb]
  · rw [h1, hb]; rfl

/-- **consistency after a failure** (corollary of C02 and C09, whose invariants are proved for raising calls
too): after any sequence of calls, failed or not, the history is truthful and labelled, and a round-robin
scheduler still points at `completed batches mod n` — so a subsequent `calibrate()` is an ordinary call. -/
theorem consistent_after_failures (c : Comp Θ S L σ) (cfg : Cfg) (samplers : List (Smp σ)) (ns : List Nat) :
    let s := calibrates c ns (init cfg samplers (.rr 0))
    Inv c s ∧ s.core.sched = .rr s.core.batchIdx := by
  refine ⟨inv_calibrates c cfg samplers (.rr 0) ns, ?_⟩
  have hfold : ∀ s0 : State Θ S L σ, (ns.map Op.calibrate).foldl (applyOp c) s0 = calibrates c ns s0 := by
    unfold calibrates
    induction ns with
    | nil => intro s0; rfl
    | cons n ns ih => intro s0; simp only [List.map_cons, List.foldl_cons]; exact ih _
  have := roundRobin_batch_i c cfg samplers (ns.map Op.calibrate)
  rw [hfold] at this
  exact this.1

/-! ### the particle swarm after a failed batch ("a subsequent calibrate() on the same object works")

The only built-in sampler with state that refers to the history by *position* is the particle swarm.  `_update_best`
takes `argmin` of the losses it is given — an error on an empty array — so a swarm that proposed a batch which then
failed (nothing recorded) must not "update" from an empty history at its next call. -/
namespace PsoProps
open BlackIt.Samplers

/-- **C11, swarm side.**  Whatever state the sampler object is in and whatever history lengths it is handed afterwards
(failed batches hand the same length again, including 0), `_update_best` is never run on an empty history. -/
theorem pso_argmin_never_on_empty (bs : Nat) (p : Pso) (ns : List Nat) :
    ∀ n lo hi, PsoAct.update n lo hi ∈ Pso.run (Pso.sampleBatch bs) p ns → 0 < n := by
  induction ns generalizing p with
  | nil => intro n lo hi h; simp [Pso.run] at h
  | cons m ms ih =>
    intro n lo hi h
    simp only [Pso.run, List.mem_cons] at h
    rcases h with h | h
    · unfold Pso.sampleBatch at h
      split at h
      · cases h
      · rename_i hc
        simp only [Bool.or_eq_true, Bool.not_eq_true', beq_iff_eq, not_or] at hc
        injection h with h1 _ _
        omega
    · exact ih _ n lo hi h

/-- after a call, the object is set up and remembers the length it was handed (both versions) -/
theorem pso_state_after_call (bs : Nat) (p : Pso) (n : Nat) :
    (Pso.sampleBatch bs p n).1 = ⟨true, n⟩ := by
  unfold Pso.sampleBatch; split <;> rfl

/-- when the batch proposed at history length `n` was recorded (the next call sees at least `n + bs` rows), the rows the
swarm reads as its particles' outcomes are exactly that batch: rows `n … n+bs-1`, all present -/
theorem pso_reads_its_own_batch (bs : Nat) (p : Pso) (n n' : Nat) (hn : 0 < n') (hrec : n + bs ≤ n') :
    (Pso.sampleBatch bs (Pso.sampleBatch bs p n).1 n').2 = .update n' n (n + bs) ∧ n + bs ≤ n' := by
  rw [pso_state_after_call]
  unfold Pso.sampleBatch
  have : ¬ ((!true || n' == 0) = true) := by simp; omega
  simp only [this, if_false]
  exact ⟨rfl, hrec⟩

/-- **witness for the pinned commit** (repaired in `/repo`, `fix:` f993eb2): a swarm that is first in the line-up and
whose first batch fails is handed the empty history again and runs `argmin` on it -/
theorem pso_pinned_argmin_on_empty :
    PsoAct.update 0 0 3 ∈ Pso.run (Pso.sampleBatchPinned 3) Pso.init [0, 0] := by decide

/-- the repaired code on the same calls starts the swarm again -/
example : Pso.run (Pso.sampleBatch 3) Pso.init [0, 0, 3, 3, 9] = [.start, .start, .update 3 0 3, .update 3 3 6, .update 9 3 6] := by decide

end PsoProps

/-! ### non-vacuity: the third model invocation raises in the second batch -/
section Example
def fComp : Comp Nat Nat Nat Nat where
  model th _ _ := th
  loss ens := ens.headD 9
  sample smp _ _ := (smp.st + 1, [smp.st, smp.st + 10])
  reseed _ _ st := st
  tape k := k
  lt a b := a < b
  conv _ _ := false
  action _ := 0
  fault kind k := kind == .model && k == 2
def fState : State Nat Nat Nat Nat := init ⟨1, 3, none, false, 1, false⟩ [⟨0, 2, 5⟩] (.rr 0)
example : (calLoop fComp 4 fState).2 = some .model := by decide
example : (calLoop fComp 4 fState).1.core.params = [5, 15] := by decide
example : (calLoop fComp 4 fState).1.core.batchIdx = 1 := by decide
example : (calLoop fComp.faultFree 1 fState).1.core.params = [5, 15] := by decide
end Example

end BlackIt.Calibrator

