import BlackIt.Model.SearchSpace
import Mathlib.Algebra.Order.Floor.Ring
import Mathlib.Algebra.Order.Floor.Semiring
import Mathlib.Data.Rat.Floor
import Mathlib.Tactic.NormNum
import Mathlib.Algebra.Order.Field.Basic
import Mathlib.Algebra.BigOperators.Group.List.Basic
import Mathlib.Tactic.Linarith
import Mathlib.Tactic.Ring
import Mathlib.Tactic.FieldSimp

/-!
# C15 — Search-space specifications are validated and discretised as documented

Model: `BlackIt/Model/SearchSpace.lean`.  Validation theorems hold over any linear order with subtraction;
grid theorems over any linearly ordered field with a ceiling function (exact arithmetic).
-/
namespace BlackIt.SearchSpace

/-! ## Validation: first failing condition, in the documented order -/
section Validation
variable {α : Type} [LinearOrder α] [Sub α]

/-- a parameter passes the four per-parameter checks -/
def ParamOk (zero lo hi p : α) : Prop := lo < hi ∧ p ≠ zero ∧ p ≤ hi - lo

theorem checkParam_ok_iff (zero : α) (i : Nat) (lo hi p : α) :
    checkParam zero i lo hi p = .ok () ↔ ParamOk zero lo hi p := by
  unfold checkParam ParamOk
  by_cases h1 : lo = hi
  · simp [h1]
  · by_cases h2 : hi < lo
    · simp [h1, h2]; intro h; exact absurd h (not_lt.mpr h2.le)
    · have hlt : lo < hi := lt_of_le_of_ne (not_lt.mp h2) h1
      by_cases h3 : p = zero
      · simp [h1, h2, h3]
      · by_cases h4 : hi - lo < p
        · simp [h1, h2, h3, h4]
        · simp [h1, h2, h3, h4, hlt]; exact not_lt.mp h4

/-- precedence inside one parameter: equal bounds, then inverted bounds, then zero precision, then
precision larger than the range; each error carries the parameter index and the offending values -/
theorem checkParam_error_iff (zero : α) (i : Nat) (lo hi p : α) (e : SSErr α) :
    checkParam zero i lo hi p = .error e ↔
      (lo = hi ∧ .sameLowerAndUpper i lo = e) ∨
      (hi < lo ∧ .lowerGreaterThanUpper i lo hi = e) ∨
      (lo < hi ∧ p = zero ∧ .precisionZero i = e) ∨
      (lo < hi ∧ p ≠ zero ∧ hi - lo < p ∧ .precisionGreaterThanRange i lo hi p = e) := by
  unfold checkParam
  by_cases h1 : lo = hi
  · subst h1; simp
  · by_cases h2 : hi < lo
    · have : ¬ lo < hi := not_lt.mpr h2.le
      simp [h1, h2, this]
    · have hlt : lo < hi := lt_of_le_of_ne (not_lt.mp h2) h1
      by_cases h3 : p = zero
      · simp [h1, h2, h3, hlt]
      · by_cases h4 : hi - lo < p
        · simp [h1, h2, h3, h4, hlt]
        · simp [h1, h2, h3, h4]

/-- the loop reports the error of the first parameter (in index order) that fails -/
theorem checkLoop_error_iff (zero : α) (k : Nat) (l : List (α × α × α)) (e : SSErr α) :
    checkLoop zero k l = .error e ↔
      ∃ j, ∃ hj : j < l.length,
        (∀ j' (hj' : j' < l.length), j' < j → ParamOk zero l[j'].1 l[j'].2.1 l[j'].2.2) ∧
        checkParam zero (k + j) l[j].1 l[j].2.1 l[j].2.2 = .error e := by
  induction l generalizing k with
  | nil => simp [checkLoop]
  | cons x xs ih =>
    obtain ⟨lo, hi, p⟩ := x
    unfold checkLoop
    cases hc : checkParam zero k lo hi p with
    | error e' =>
      simp only
      constructor
      · intro h
        refine ⟨0, by simp, ?_, ?_⟩
        · intro j' _ hlt; omega
        · simpa [hc] using h
      · rintro ⟨j, hj, hall, herr⟩
        cases j with
        | zero => simpa [hc] using herr
        | succ j =>
          have := hall 0 (by simp) (by omega)
          have hok := (checkParam_ok_iff zero k lo hi p).mpr (by simpa using this)
          rw [hc] at hok; cases hok
    | ok u =>
      cases u
      simp only
      rw [ih]
      have hok : ParamOk zero lo hi p := (checkParam_ok_iff zero k lo hi p).mp hc
      constructor
      · rintro ⟨j, hj, hall, herr⟩
        refine ⟨j + 1, by simpa using hj, ?_, ?_⟩
        · intro j' hj' hlt
          cases j' with
          | zero => simpa using hok
          | succ j' => simpa using hall j' (by simpa using hj') (by omega)
        · simpa [Nat.add_assoc, Nat.add_comm 1 j] using herr
      · rintro ⟨j, hj, hall, herr⟩
        cases j with
        | zero => simp [hc] at herr
        | succ j =>
          refine ⟨j, by simpa using hj, ?_, ?_⟩
          · intro j' hj' hlt
            have := hall (j' + 1) (by simpa using hj') (by omega)
            simp only [List.getElem_cons_succ] at this
            exact this
          · simpa [Nat.add_assoc, Nat.add_comm 1 j] using herr

theorem checkLoop_ok_iff (zero : α) (k : Nat) (l : List (α × α × α)) :
    checkLoop zero k l = .ok () ↔ ∀ x ∈ l, ParamOk zero x.1 x.2.1 x.2.2 := by
  induction l generalizing k with
  | nil => simp [checkLoop]
  | cons x xs ih =>
    obtain ⟨lo, hi, p⟩ := x
    unfold checkLoop
    cases hc : checkParam zero k lo hi p with
    | error e' =>
      have : ¬ ParamOk zero lo hi p := by
        intro h; rw [(checkParam_ok_iff zero k lo hi p).mpr h] at hc; cases hc
      simp [this]
    | ok u =>
      cases u
      have : ParamOk zero lo hi p := (checkParam_ok_iff zero k lo hi p).mp hc
      simp [ih, this]

/-- C15 validation, shape errors: the three length checks come first, in this order -/
theorem checkBounds_shape (zero : α) (bounds : List (List α)) (prec : List α) :
    (bounds.length ≠ 2 → checkBounds zero bounds prec = .error (.boundsNotOfSizeTwo bounds.length)) ∧
    (∀ lower upper, bounds = [lower, upper] → lower.length ≠ upper.length →
        checkBounds zero bounds prec = .error (.boundsOfDifferentLength lower.length upper.length)) ∧
    (∀ lower upper, bounds = [lower, upper] → lower.length = upper.length → prec.length ≠ lower.length →
        checkBounds zero bounds prec = .error (.badPrecisionLength prec.length lower.length)) := by
  refine ⟨?_, ?_, ?_⟩
  · intro h
    match bounds, h with
    | [], _ => rfl
    | [_], _ => rfl
    | [_, _], h => simp at h
    | _ :: _ :: _ :: _, _ => rfl
  · rintro lower upper rfl h; simp [checkBounds, h]
  · rintro lower upper rfl h1 h2
    simp only [checkBounds]
    rw [if_neg (not_not.mpr h1), if_pos h2]

/-- C15 validation, well-shaped input: the result is exactly the per-parameter loop -/
theorem checkBounds_wellshaped (zero : α) (lower upper prec : List α)
    (h1 : lower.length = upper.length) (h2 : prec.length = lower.length) :
    checkBounds zero [lower, upper] prec = checkLoop zero 0 (lower.zip (upper.zip prec)) := by
  simp only [checkBounds]
  rw [if_neg (not_not.mpr h1), if_neg (not_not.mpr h2)]

/-- C15 validation: a specification is accepted iff it is well-formed -/
theorem checkBounds_ok_iff (zero : α) (bounds : List (List α)) (prec : List α) :
    checkBounds zero bounds prec = .ok () ↔
      ∃ lower upper, bounds = [lower, upper] ∧ lower.length = upper.length ∧ prec.length = lower.length ∧
        ∀ x ∈ lower.zip (upper.zip prec), ParamOk zero x.1 x.2.1 x.2.2 := by
  constructor
  · intro h
    match bounds, h with
    | [lower, upper], h =>
      by_cases h1 : lower.length = upper.length
      · by_cases h2 : prec.length = lower.length
        · rw [checkBounds_wellshaped zero _ _ _ h1 h2, checkLoop_ok_iff] at h
          exact ⟨lower, upper, rfl, h1, h2, h⟩
        · simp only [checkBounds] at h
          rw [if_neg (not_not.mpr h1), if_pos h2] at h; cases h
      · simp only [checkBounds] at h
        rw [if_pos h1] at h; cases h
    | [], h => simp [checkBounds] at h
    | [_], h => simp [checkBounds] at h
    | _ :: _ :: _ :: _, h => simp [checkBounds] at h
  · rintro ⟨lower, upper, rfl, h1, h2, hall⟩
    rw [checkBounds_wellshaped zero _ _ _ h1 h2, checkLoop_ok_iff]; exact hall

end Validation

/-! ## Discretisation over exact arithmetic -/
section Grid
variable {α : Type} [Field α] [LinearOrder α] [IsStrictOrderedRing α] [FloorRing α]

/-- exact-arithmetic instance of the number operations -/
def exactOps : Ops α := ⟨Nat.cast, Nat.ceil, 0, 1 / 2, fun _ _ => 0⟩

/-- the grid is `lower, lower+precision, lower+2·precision, …` -/
theorem grid_eq_map (tol lo hi p : α) :
    grid exactOps tol lo hi p =
      (List.range ⌈(hi + tol - lo) / p⌉₊).map (fun i : ℕ => lo + (i : α) * p) := by
  unfold grid arange
  simp only [exactOps]
  apply List.map_congr_left
  intro i _
  by_cases h0 : i = 0
  · simp [h0]
  · by_cases h1 : i = 1
    · simp [h1]
    · simp [h0, h1]

/-- membership: exactly the multiples of the precision above `lower` that stay below `upper + tol` -/
theorem mem_grid_iff (tol lo hi p x : α) (hp : 0 < p) :
    x ∈ grid exactOps tol lo hi p ↔ ∃ i : ℕ, x = lo + (i : α) * p ∧ lo + (i : α) * p < hi + tol := by
  rw [grid_eq_map]
  simp only [List.mem_map, List.mem_range, Nat.lt_ceil, lt_div_iff₀ hp]
  constructor
  · rintro ⟨i, hi', rfl⟩; exact ⟨i, rfl, by linarith⟩
  · rintro ⟨i, rfl, hi'⟩; exact ⟨i, by linarith, rfl⟩

theorem grid_length (tol lo hi p : α) :
    (grid exactOps tol lo hi p).length = ⌈(hi + tol - lo) / p⌉₊ := by
  rw [grid_eq_map]; simp

theorem grid_getElem (tol lo hi p : α) (i : ℕ) (h : i < (grid exactOps tol lo hi p).length) :
    (grid exactOps tol lo hi p)[i] = lo + (i : α) * p := by
  simp [grid_eq_map]

/-- evenly spaced and strictly increasing -/
theorem grid_sorted (tol lo hi p : α) (hp : 0 < p) :
    (grid exactOps tol lo hi p).Pairwise (· < ·) := by
  rw [grid_eq_map, List.pairwise_map]
  refine List.Pairwise.imp_of_mem ?_ (List.pairwise_lt_range)
  intro a b _ _ hab
  have : (a : α) < b := by exact_mod_cast hab
  nlinarith

/-- a well-formed parameter has a non-empty grid starting at the lower bound -/
theorem grid_head (tol lo hi p : α) (hp : 0 < p) (hlt : lo < hi) (ht : 0 ≤ tol) :
    (grid exactOps tol lo hi p).head? = some lo := by
  have hpos : 0 < ⌈(hi + tol - lo) / p⌉₊ := Nat.ceil_pos.mpr (div_pos (by linarith) hp)
  rw [grid_eq_map]
  obtain ⟨n, hn⟩ := Nat.exists_eq_succ_of_ne_zero (Nat.pos_iff_ne_zero.mp hpos)
  rw [hn, List.range_succ_eq_map]
  simp

/-- every grid element is below `upper + tol`, and the next step after the last element is not -/
theorem grid_last (tol lo hi p : α) (hp : 0 < p) :
    (∀ x ∈ grid exactOps tol lo hi p, lo ≤ x ∧ x < hi + tol) ∧
    (∀ n, (grid exactOps tol lo hi p).length = n → hi + tol ≤ lo + (n : α) * p) := by
  constructor
  · intro x hx
    obtain ⟨i, rfl, hi'⟩ := (mem_grid_iff tol lo hi p _ hp).mp hx
    refine ⟨?_, hi'⟩
    have : (0 : α) ≤ (i : α) * p := mul_nonneg (Nat.cast_nonneg i) hp.le
    linarith
  · intro n hn
    rw [grid_length] at hn
    have := Nat.le_ceil ((hi + tol - lo) / p)
    rw [hn, div_le_iff₀ hp] at this
    linarith

/-- when the range is a multiple of the precision and the end-point tolerance is smaller than one step,
the grid has exactly `m+1` points and ends at the upper bound itself -/
theorem grid_hits_bound (tol lo hi p : α) (m : ℕ) (hp : 0 < p) (hm : hi - lo = (m : α) * p)
    (ht0 : 0 < tol) (ht : tol ≤ p) :
    (grid exactOps tol lo hi p).length = m + 1 ∧
    (grid exactOps tol lo hi p).getLast? = some hi := by
  have hlen : ⌈(hi + tol - lo) / p⌉₊ = m + 1 := by
    rw [Nat.ceil_eq_iff (by omega)]
    constructor
    · rw [lt_div_iff₀ hp]
      rw [Nat.add_sub_cancel]; linarith
    · rw [div_le_iff₀ hp]; push_cast; linarith
  refine ⟨by rw [grid_length, hlen], ?_⟩
  rw [grid_eq_map, hlen, List.range_succ]
  simp only [List.map_append, List.map_cons, List.map_nil]
  rw [List.getLast?_append]
  simp
  linarith

/-- `space_size` is the product of the grid lengths -/
theorem spaceSize_eq_prod {β : Type} (gs : List (List β)) :
    spaceSize gs = (gs.map List.length).prod := by
  unfold spaceSize
  have : ∀ (acc : ℕ), gs.foldl (fun acc g => acc * g.length) acc = acc * (gs.map List.length).prod := by
    induction gs with
    | nil => simp
    | cons g gs ih => intro acc; simp [ih, Nat.mul_assoc]
  simpa using this 1

/-- the code's end-point tolerance is positive and at most half a step (exact arithmetic: spacing 0) -/
theorem codeTol_bounds (tolMax lo hi p : α) (ht : 0 < tolMax) (hp : 0 < p) :
    0 < codeTol exactOps tolMax lo hi p ∧ codeTol exactOps tolMax lo hi p ≤ p / 2 ∧ codeTol exactOps tolMax lo hi p ≤ tolMax := by
  unfold codeTol
  have hh : (exactOps : Ops α).half = 1 / 2 := rfl
  have hs : (exactOps : Ops α).spacing2 lo hi = 0 := rfl
  simp only [hs]
  rw [if_neg (not_lt.mpr ht.le)]
  by_cases h : (exactOps : Ops α).half * p < tolMax
  · rw [if_pos h]; rw [hh] at h ⊢; exact ⟨by positivity, by linarith, h.le⟩
  · rw [if_neg h]; rw [hh] at h; push_neg at h; exact ⟨ht, by linarith, le_refl _⟩

/-- for **any** spacing term (binary64: twice the gap between adjacent numbers at the magnitude of the bounds) the
tolerance stays positive and at most half a step — so the "ends at the bound" theorem below applies to it as well -/
theorem codeTol_bounds_any (ops : Ops α) (hhalf : ops.half = 1 / 2) (tolMax lo hi p : α) (ht : 0 < tolMax) (hp : 0 < p) :
    0 < codeTol ops tolMax lo hi p ∧ codeTol ops tolMax lo hi p ≤ p / 2 := by
  unfold codeTol
  simp only
  have ht' : 0 < (if tolMax < ops.spacing2 lo hi then ops.spacing2 lo hi else tolMax) := by
    by_cases h : tolMax < ops.spacing2 lo hi
    · rw [if_pos h]; linarith
    · rw [if_neg h]; exact ht
  by_cases h : ops.half * p < (if tolMax < ops.spacing2 lo hi then ops.spacing2 lo hi else tolMax)
  · rw [if_pos h]; rw [hhalf]; exact ⟨by positivity, by linarith⟩
  · rw [if_neg h]; rw [hhalf] at h; push_neg at h; exact ⟨ht', by linarith⟩

/-- **the grid the code builds**, for every positive precision: when the
range is a multiple of the precision it has exactly `m + 1` points and ends at the upper bound itself -/
theorem code_grid_hits_bound (tolMax lo hi p : α) (m : ℕ) (ht : 0 < tolMax) (hp : 0 < p) (hm : hi - lo = (m : α) * p) :
    (grid exactOps (codeTol exactOps tolMax lo hi p) lo hi p).length = m + 1 ∧
    (grid exactOps (codeTol exactOps tolMax lo hi p) lo hi p).getLast? = some hi := by
  obtain ⟨h0, h1, _⟩ := codeTol_bounds tolMax lo hi p ht hp
  exact grid_hits_bound _ lo hi p m hp hm h0 (by linarith)

/-- in general it ends at the last step not beyond the upper bound, up to the tolerance: every element is below
`upper + min(tolMax, precision/2)`, and one more step would not be -/
theorem code_grid_last (tolMax lo hi p : α) (ht : 0 < tolMax) (hp : 0 < p) :
    (∀ x ∈ grid exactOps (codeTol exactOps tolMax lo hi p) lo hi p, lo ≤ x ∧ x < hi + tolMax ∧ x < hi + p / 2) ∧
    (∀ n, (grid exactOps (codeTol exactOps tolMax lo hi p) lo hi p).length = n → hi < lo + (n : α) * p) := by
  obtain ⟨h0, h1, h2⟩ := codeTol_bounds tolMax lo hi p ht hp
  obtain ⟨ha, hb⟩ := grid_last (codeTol exactOps tolMax lo hi p) lo hi p hp
  refine ⟨fun x hx => ?_, fun n hn => ?_⟩
  · obtain ⟨a, b⟩ := ha x hx; exact ⟨a, by linarith, by linarith⟩
  · have := hb n hn; linarith

/-- **repaired defect**: with the pinned code's *absolute* tolerance 1e-7 the "ends at the upper bound" clause
needed `tol ≤ precision`; for a precision below the tolerance the grid overshot the bound by more than one step.
With the code's tolerance the same specification ends at the bound. -/
theorem grid_overshoots_small_precision :
    let g := grid (α := ℚ) exactOps (1/10000000) 0 (1/1000000) (1/40000000)
    g.length = 44 ∧ g.getLast? = some (43/40000000) ∧ (1/1000000 : ℚ) + 1/40000000 < 43/40000000 := by
  have hc : ⌈((1/1000000 : ℚ) + 1/10000000 - 0) / (1/40000000)⌉₊ = 44 := by
    have : ((1/1000000 : ℚ) + 1/10000000 - 0) / (1/40000000) = ((44 : ℕ) : ℚ) := by norm_num
    rw [this, Nat.ceil_natCast]
  refine ⟨?_, ?_, by norm_num⟩
  · rw [grid_length, hc]
  · rw [grid_eq_map, hc, List.range_succ]
    simp only [List.map_append, List.map_cons, List.map_nil]
    rw [List.getLast?_append]
    norm_num

theorem small_precision_repaired :
    let g := grid (α := ℚ) exactOps (codeTol exactOps (1/10000000) 0 (1/1000000) (1/40000000)) 0 (1/1000000) (1/40000000)
    g.length = 41 ∧ g.getLast? = some (1/1000000) :=
  code_grid_hits_bound (α := ℚ) (1/10000000) 0 (1/1000000) (1/40000000) 40 (by norm_num) (by norm_num) (by norm_num)

/-! ### non-vacuity -/
example : checkBounds (0 : ℤ) [[0, 0], [1, 2]] [1, 2] = .ok () := by decide
example : checkBounds (0 : ℤ) [[0, 3], [1, 2]] [0, 1] = .error (.precisionZero 0) := by decide
example : checkBounds (0 : ℤ) [[0, 3], [1, 3]] [0, 1] = .error (.precisionZero 0) := by decide
example : checkBounds (0 : ℤ) [[0, 3], [1, 3]] [1, 1] = .error (.sameLowerAndUpper 1 3) := by decide
example : checkBounds (0 : ℤ) [[0, 3], [1, 2]] [1, 1] = .error (.lowerGreaterThanUpper 1 3 2) := by decide
example : checkBounds (0 : ℤ) [[0], [1]] [3] = .error (.precisionGreaterThanRange 0 0 1 3) := by decide
example : checkBounds (0 : ℤ) [[0], [1, 2]] [3, 4, 5] = .error (.boundsOfDifferentLength 1 2) := by decide

end Grid
end BlackIt.SearchSpace
