import BlackIt.Model.Bandit
import Mathlib.Algebra.Order.Field.Basic
import Mathlib.Algebra.BigOperators.Group.List.Basic
import Mathlib.Tactic.Linarith
import Mathlib.Tactic.Ring
import Mathlib.Tactic.FieldSimp
set_option linter.unusedSectionVars false
set_option linter.unusedSimpArgs false

/-!
# C19 — The bandit agent and reward follow their published update rules

Model: `BlackIt/Model/Bandit.lean`.  Theorems over any linearly ordered field (exact arithmetic).
-/
namespace BlackIt.Bandit
variable {α : Type} [Field α] [LinearOrder α] [IsStrictOrderedRing α]

/-! ## reward -/

/-- relative improvement when the best loss decreased, and the reference moves to the new best -/
theorem reward_improving (cur new : α) (h : new < cur) :
    getReward 0 cur new = ((cur - new) / cur, new) := by
  simp [getReward, h]

/-- zero otherwise, reference unchanged -/
theorem reward_not_improving (cur new : α) (h : ¬ new < cur) :
    getReward 0 cur new = (0, cur) := by
  simp [getReward, h]

/-- the reference best never increases, and it is the minimum of the old reference and the new loss -/
theorem reward_reference (cur new : α) : (getReward 0 cur new).2 = min cur new := by
  unfold getReward
  split
  · next h => simp [min_eq_right h.le]
  · next h => simp [min_eq_left (not_lt.mp h)]

/-- for a positive reference the reward lies in [0, 1] when losses are non-negative -/
theorem reward_range (cur new : α) (hc : 0 < cur) (hn : 0 ≤ new) :
    0 ≤ (getReward 0 cur new).1 ∧ (getReward 0 cur new).1 ≤ 1 := by
  unfold getReward
  split
  · next h =>
    simp only
    constructor
    · exact div_nonneg (by linarith) hc.le
    · rw [div_le_one hc]; linarith
  · simp

/-- the rule at a NEGATIVE reference (losses such as a negative log-likelihood): the formula is the same, its value is then negative - the reward
of an improvement is below zero - and the reference still moves.  (`harness/props/c19.py` scripts negative references; a variant of the code that
rewards only positive relative improvements leaves the reference behind there.) -/
theorem reward_negative_reference (cur new : α) (hc : cur < 0) (h : new < cur) :
    (getReward 0 cur new).1 < 0 ∧ (getReward 0 cur new).2 = new := by
  rw [reward_improving cur new h]
  exact ⟨div_neg_of_pos_of_neg (by linarith) hc, rfl⟩

/-- the reference moves exactly when the best loss decreased, whatever the signs -/
theorem reward_reference_moves_iff (cur new : α) : (getReward 0 cur new).2 ≠ cur ↔ new < cur := by
  unfold getReward
  split
  · next h => simp [h, h.ne]
  · next h => simp [h]

/-! ## learning -/

/-- the step size: `1/count` in the sample-average setting (sentinel −1), the learning rate otherwise -/
theorem stepSize_spec (alpha : α) (count : Nat) :
    stepSize (Nat.cast : Nat → α) alpha count = if alpha = -1 then 1 / (count : α) else alpha := by
  simp [stepSize]

/-- the estimate of the rewarded action moves by `step · (reward − estimate)`; its counter is incremented;
every other estimate and counter is unchanged -/
theorem learn_spec (a : Agent α) (action : Nat) (r : α) (h : action < a.q.length) (hc : action < a.counts.length) :
    let a' := learn (Nat.cast : Nat → α) a action r
    a'.q[action]? = some (a.q[action] + stepSize Nat.cast a.alpha (a.counts[action] + 1) * (r - a.q[action])) ∧
    a'.counts[action]? = some (a.counts[action] + 1) ∧
    (∀ j, j ≠ action → a'.q[j]? = a.q[j]? ∧ a'.counts[j]? = a.counts[j]?) ∧
    a'.q.length = a.q.length ∧ a'.counts.length = a.counts.length ∧ a'.alpha = a.alpha ∧ a'.eps = a.eps := by
  simp only [learn]
  refine ⟨?_, ?_, ?_, by simp, by simp, by trivial, by trivial⟩
  · simp [List.getElem?_set, h, List.getD_eq_getElem?_getD, List.getElem?_eq_getElem hc,
      List.getElem?_eq_getElem h]
  · simp [List.getElem?_set, hc, List.getD_eq_getElem?_getD, List.getElem?_eq_getElem hc]
  · intro j hj
    simp [List.getElem?_set, Ne.symm hj]

/-! ## sample average = arithmetic mean -/

/-- rewards attributed to action `k` in a list of (action, reward) steps -/
def rewardsOf (k : Nat) (steps : List (Nat × α)) : List α :=
  (steps.filter (fun s => s.1 = k)).map (·.2)

/-- invariant of the sample-average agent: counter = number of rewards received, and
estimate × counter = sum of those rewards -/
def MeanInv (a : Agent α) (hist : List (Nat × α)) : Prop :=
  a.q.length = a.counts.length ∧
  ∀ k (hk : k < a.q.length) (hk' : k < a.counts.length),
    a.counts[k] = (rewardsOf k hist).length ∧
    (0 < a.counts[k] → a.q[k] * (a.counts[k] : α) = (rewardsOf k hist).sum)

theorem meanInv_init (n : Nat) (eps q0 : α) : MeanInv (Agent.init n (-1) eps q0) [] := by
  refine ⟨by simp [Agent.init], ?_⟩
  intro k hk hk'
  simp [Agent.init, rewardsOf]

theorem meanInv_learn (a : Agent α) (hist : List (Nat × α)) (action : Nat) (r : α)
    (halpha : a.alpha = -1) (hact : action < a.q.length) (h : MeanInv a hist) :
    MeanInv (learn (Nat.cast : Nat → α) a action r) (hist ++ [(action, r)]) := by
  obtain ⟨hlen, hinv⟩ := h
  have hact' : action < a.counts.length := hlen ▸ hact
  refine ⟨by simp [learn, hlen], ?_⟩
  intro k hk hk'
  have hkq : k < a.q.length := by simpa [learn] using hk
  have hkc : k < a.counts.length := by simpa [learn] using hk'
  obtain ⟨hcnt, hsum⟩ := hinv k hkq hkc
  by_cases hka : k = action
  · subst hka
    have hq : (learn (Nat.cast : Nat → α) a k r).q[k] =
        a.q[k] + (1 / ((a.counts[k] + 1 : ℕ) : α)) * (r - a.q[k]) := by
      simp [learn, stepSize, halpha, List.getD_eq_getElem?_getD, hkq, hkc]
    have hc : (learn (Nat.cast : Nat → α) a k r).counts[k] = a.counts[k] + 1 := by
      simp [learn, List.getD_eq_getElem?_getD, hkc]
    refine ⟨?_, ?_⟩
    · rw [hc, hcnt]; simp [rewardsOf, List.filter_append]
    · intro _
      rw [hq, hc]
      have hne : ((a.counts[k] + 1 : ℕ) : α) ≠ 0 := by push_cast; exact Nat.cast_add_one_ne_zero _
      have hrs : (rewardsOf k (hist ++ [(k, r)])).sum = (rewardsOf k hist).sum + r := by
        simp [rewardsOf, List.filter_append]
      rw [hrs]
      by_cases h0 : a.counts[k] = 0
      · have : (rewardsOf k hist) = [] := List.eq_nil_of_length_eq_zero (by omega)
        rw [this]; simp [h0]
      · have hs := hsum (Nat.pos_of_ne_zero h0)
        rw [← hs]
        field_simp
        push_cast
        ring
  · have hq : (learn (Nat.cast : Nat → α) a action r).q[k] = a.q[k] := by
      simp [learn, List.getElem_set, Ne.symm hka]
    have hc : (learn (Nat.cast : Nat → α) a action r).counts[k] = a.counts[k] := by
      simp [learn, List.getElem_set, Ne.symm hka]
    have hrs : rewardsOf k (hist ++ [(action, r)]) = rewardsOf k hist := by
      simp [rewardsOf, List.filter_append, Ne.symm hka]
    rw [hq, hc, hrs]
    exact ⟨hcnt, hsum⟩

theorem learnAll_alpha (a : Agent α) (steps : List (Nat × α)) :
    (learnAll (Nat.cast : Nat → α) a steps).alpha = a.alpha ∧
    (learnAll (Nat.cast : Nat → α) a steps).q.length = a.q.length := by
  induction steps generalizing a with
  | nil => simp [learnAll]
  | cons s ss ih =>
    have := ih (learn Nat.cast a s.1 s.2)
    simp only [learnAll, List.foldl_cons] at this ⊢
    simpa [learn] using this

theorem meanInv_learnAll (a : Agent α) (hist steps : List (Nat × α))
    (halpha : a.alpha = -1) (hact : ∀ s ∈ steps, s.1 < a.q.length) (h : MeanInv a hist) :
    MeanInv (learnAll (Nat.cast : Nat → α) a steps) (hist ++ steps) := by
  induction steps generalizing a hist with
  | nil => simpa [learnAll] using h
  | cons s ss ih =>
    have h1 := meanInv_learn a hist s.1 s.2 halpha (hact s List.mem_cons_self) h
    have := ih (learn Nat.cast a s.1 s.2) (hist ++ [s]) (by simpa [learn] using halpha)
      (by intro t ht; simpa [learn] using hact t (List.mem_cons_of_mem _ ht)) h1
    simpa [learnAll] using this

/-- **sample average**: with the sentinel learning rate, after any sequence of (action, reward)
observations the estimate of every action that was rewarded at least once is the arithmetic mean of the
rewards it received — whatever the initial value -/
theorem sample_average_is_mean (n : Nat) (eps q0 : α) (steps : List (Nat × α))
    (hact : ∀ s ∈ steps, s.1 < n) (k : Nat) (hk : k < n) (hpos : rewardsOf k steps ≠ []) :
    (learnAll (Nat.cast : Nat → α) (Agent.init n (-1) eps q0) steps).q[k]? =
      some ((rewardsOf k steps).sum / ((rewardsOf k steps).length : α)) := by
  have hinv := meanInv_learnAll (Agent.init n (-1) eps q0) [] steps rfl
    (by intro s hs; simpa [Agent.init] using hact s hs) (meanInv_init n eps q0)
  obtain ⟨hlen, hall⟩ := hinv
  have hql : (learnAll (Nat.cast : Nat → α) (Agent.init n (-1) eps q0) steps).q.length = n := by
    rw [(learnAll_alpha _ _).2]; simp [Agent.init]
  have hk1 : k < (learnAll (Nat.cast : Nat → α) (Agent.init n (-1) eps q0) steps).q.length := by omega
  obtain ⟨hc, hs⟩ := hall k hk1 (hlen ▸ hk1)
  simp only [List.nil_append] at hc hs
  have hposlen : 0 < (rewardsOf k steps).length := List.length_pos_iff.mpr hpos
  rw [List.getElem?_eq_getElem hk1]
  congr 1
  have := hs (by omega)
  rw [hc] at this
  have hne : ((rewardsOf k steps).length : α) ≠ 0 := by exact_mod_cast (Nat.pos_iff_ne_zero.mp hposlen)
  field_simp
  exact this

/-! ## policy -/

theorem argmaxAux_spec (xs : List α) (i : Nat) (bv : α) (best : Nat) (pre : List α)
    (hi : i = pre.length) (hb : best < pre.length) (hbv : pre[best]? = some bv)
    (hmax : ∀ x ∈ pre, x ≤ bv) :
    let r := argmaxAux xs i bv best
    r < (pre ++ xs).length ∧ ∀ dflt, ∀ x ∈ pre ++ xs, x ≤ ((pre ++ xs)[r]?).getD dflt := by
  induction xs generalizing i bv best pre with
  | nil =>
    simp only [argmaxAux, List.append_nil]
    exact ⟨hb, by intro dflt x hx; simp [hbv]; exact hmax x hx⟩
  | cons y ys ih =>
    simp only [argmaxAux]
    split
    · next hlt =>
      have := ih (i + 1) y i (pre ++ [y]) (by simp [hi]) (by simp [hi]) (by simp [hi])
        (by intro x hx
            rcases List.mem_append.mp hx with h | h
            · exact (hmax x h).trans hlt.le
            · simp at h; rw [h])
      simpa using this
    · next hnlt =>
      have := ih (i + 1) bv best (pre ++ [y]) (by simp [hi]) (by simp; omega)
        (by rw [List.getElem?_append_left hb]; exact hbv)
        (by intro x hx
            rcases List.mem_append.mp hx with h | h
            · exact hmax x h
            · simp at h; rw [h]; exact not_lt.mp hnlt)
      simpa using this

/-- `argmax` returns a valid index holding a maximal estimate -/
theorem argmax_spec (q : List α) (hne : q ≠ []) :
    ∃ h : argmax q < q.length, ∀ x ∈ q, x ≤ q[argmax q] := by
  cases q with
  | nil => exact absurd rfl hne
  | cons x xs =>
    have := argmaxAux_spec xs 1 x 0 [x] rfl (by simp) (by simp) (by simp)
    simp only [List.singleton_append] at this
    obtain ⟨h1, h2⟩ := this
    refine ⟨h1, ?_⟩
    intro y hy
    have := h2 x y hy
    simpa [argmax, List.getElem?_eq_getElem h1] using this

/-- with epsilon 0 (and any draw `u ≥ 0`) the agent picks an action of maximal estimate -/
theorem policy_greedy (a : Agent α) (u : α) (choice : Nat) (heps : a.eps = 0) (hu : 0 ≤ u)
    (hne : a.q ≠ []) :
    ∃ h : policy a u choice < a.q.length, ∀ x ∈ a.q, x ≤ a.q[policy a u choice] := by
  have : ¬ u < a.eps := by rw [heps]; exact not_lt.mpr hu
  simp only [policy, this, not_false_eq_true, if_true]
  exact argmax_spec a.q hne

/-- the agent only ever returns valid action indices -/
theorem policy_valid (a : Agent α) (u : α) (choice : Nat) (hne : a.q ≠ []) (hc : choice < a.q.length) :
    policy a u choice < a.q.length := by
  unfold policy
  split
  · exact (argmax_spec a.q hne).1
  · exact hc

/-! ## the scheduler → environment chain over a run (used by C10: "the reward is computed from that very batch's outcome") -/

/-- **every reward is the published rule applied to that batch's own outcome**: with the reference set by the
bootstrap batch, the reward the environment computes for the k-th agent-chosen batch — from the scheduler's running
best handed over after that batch, against the environment's own reference — is the relative improvement of that
batch's minimum loss over the best loss of all earlier batches, and zero when it does not improve.  The two
references (scheduler's `_best_loss`, environment's `_curr_best_loss`) never drift apart. -/
theorem runRewards_eq_rule (boot : α) (losses : List α) :
    runRewards 0 boot losses = rewardsByRule 0 boot losses := by
  induction losses generalizing boot with
  | nil => rfl
  | cons l ls ih =>
    unfold runRewards at ih ⊢
    by_cases h : l < boot
    · simp only [schedBests, h, if_true, envRewards, getReward, rewardsByRule]
      rw [ih l]
    · simp only [schedBests, h, if_false, envRewards, getReward, lt_irrefl, rewardsByRule]
      rw [ih boot]

/-- one reward per batch -/
theorem runRewards_length (boot : α) (losses : List α) : (runRewards 0 boot losses).length = losses.length := by
  rw [runRewards_eq_rule]
  induction losses generalizing boot with
  | nil => rfl
  | cons l ls ih => unfold rewardsByRule; split <;> simp [ih]

/-! ### non-vacuity -/
example : runRewards (0 : ℚ) 4 [5, 2, 2, 1] = [0, 1/2, 0, 1/2] := by
  simp [runRewards, schedBests, envRewards, getReward]; norm_num
example : (learnAll (Nat.cast : Nat → ℚ) (Agent.init 2 (-1) 0 5) [(0, 1), (1, 7), (0, 3)]).q = [2, 7] := by
  simp [learnAll, learn, stepSize, Agent.init]; norm_num
example : getReward (0 : ℚ) 4 3 = (1/4, 3) := by simp [getReward]; norm_num
example : getReward (0 : ℚ) 4 4 = (0, 4) := by simp [getReward]

end BlackIt.Bandit
