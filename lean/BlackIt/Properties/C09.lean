import BlackIt.Lemmas.Calibrator
set_option linter.unusedSectionVars false
set_option linter.unusedSimpArgs false
set_option linter.unusedVariables false

/-!
# C09 — Samplers are scheduled exactly as the chosen scheduler prescribes

Model: `BlackIt/Model/Calibrator.lean` (scheduler part).
-/
namespace BlackIt.Calibrator
variable {Θ S L σ : Type}

/-- what identifies a sampler of a line-up for scheduling purposes: class and batch size -/
def sig (m : Smp σ) : Nat × Nat := (m.cls, m.batchSize)

/-- round-robin invariant of a core: the scheduler position is the number of completed batches, the line-up
shape is fixed, and completed batch `i` was produced by position `i mod n` with that sampler's batch size -/
structure RRCore (shape : List (Nat × Nat)) (k : Core Θ S L σ) : Prop where
  sched : k.sched = .rr k.batchIdx
  lineup : k.samplers.map sig = shape
  log_len : k.log.length = k.batchIdx
  log : ∀ i r, k.log[i]? = some r → r.idx = i % shape.length ∧
          shape[i % shape.length]? = some (r.cls, r.size)

/-- the same for the live object and for what the saving folder holds -/
def RRState (shape : List (Nat × Nat)) (s : State Θ S L σ) : Prop :=
  RRCore shape s.core ∧ ∀ d, s.disk = some d → RRCore shape d

theorem rrCore_runBatch (c : Comp Θ S L σ) (t : List (Nat × Nat)) (shape : List (Nat × Nat))
    (k : Core Θ S L σ) (h : RRCore shape k) : RRCore shape (runBatch c t k).1 := by
  have hlen : k.samplers.length = shape.length := by rw [← h.lineup]; simp
  cases hf : (runBatch c t k).2 with
  | none =>
    have hb := runBatch_ok c t k hf
    obtain ⟨smp, hsmp, _, _, _, _, _, _, _, _, hsamp, hlog⟩ := hb.smp_ex
    have hidx : nextIdx c k = k.batchIdx % shape.length := by
      simp [nextIdx, h.sched, hlen]
    refine ⟨?_, ?_, ?_, ?_⟩
    · rw [hb.sched, hb.batchIdx, h.sched]; rfl
    · rw [hsamp, ← h.lineup]
      have hlt : nextIdx c k < k.samplers.length := by
        by_contra hge; rw [List.getElem?_eq_none (by omega)] at hsmp; cases hsmp
      apply List.ext_getElem (by simp)
      intro i h1 h2
      simp only [List.getElem_map, List.getElem_set]
      split
      · next heq =>
        have : k.samplers[i]'(by simpa using h2) = smp := by
          have := List.getElem?_eq_getElem hlt
          rw [hsmp] at this
          subst heq; exact (Option.some.inj this).symm
        simp [sig, this]
      · rfl
    · rw [hlog, hb.batchIdx, List.length_append, h.log_len]; rfl
    · intro i r hi
      rw [hlog] at hi
      by_cases hlt : i < k.log.length
      · rw [List.getElem?_append_left hlt] at hi; exact h.log i r hi
      · rw [List.getElem?_append_right (by omega)] at hi
        have hieq : i = k.log.length := by
          by_contra hne
          have : 1 ≤ i - k.log.length := by omega
          rw [List.getElem?_eq_none (by simpa using this)] at hi; cases hi
        subst hieq
        simp only [Nat.sub_self, List.getElem?_cons_zero, Option.some.injEq] at hi
        subst hi
        simp only
        rw [h.log_len, ← hidx]
        refine ⟨rfl, ?_⟩
        rw [← h.lineup, List.getElem?_map, hsmp]; rfl
  | some f =>
    obtain ⟨hh, _, hl, _, hs, hsl⟩ := runBatch_fault c t k f hf
    simp only [Core.hist, Hist.mk.injEq] at hh
    obtain ⟨_, _, _, _, _, _, hbi⟩ := hh
    have hsched : (runBatch c t k).1.sched = .rr k.batchIdx := by
      rcases hs with h1 | h1
      · rw [h1, h.sched]
      · rw [h1, h.sched]; rfl
    -- line-up of the faulted state: only internal sampler state may have changed
    have hline : (runBatch c t k).1.samplers.map sig = shape := by
      unfold runBatch
      cases hsm : k.samplers[nextIdx c k]? with
      | none => simpa [hsm] using h.lineup
      | some smp =>
        simp only [hsm]
        have hlt : nextIdx c k < k.samplers.length := by
          by_contra hge; rw [List.getElem?_eq_none (by omega)] at hsm; cases hsm
        have hset : ∀ st', (k.samplers.set (nextIdx c k) { smp with st := st' }).map sig = shape := by
          intro st'
          rw [← h.lineup]
          apply List.ext_getElem (by simp)
          intro i h1 h2
          simp only [List.getElem_map, List.getElem_set]
          split
          · next heq =>
            have : k.samplers[i]'(by simpa using h2) = smp := by
              have := List.getElem?_eq_getElem hlt
              rw [hsm] at this
              subst heq; exact (Option.some.inj this).symm
            simp [sig, this]
          · rfl
        split
        · simpa using h.lineup
        · split
          · exact hset _
          · split
            · exact hset _
            · exact hset _
    exact ⟨by rw [hsched, hbi], hline, by rw [hl, hbi]; exact h.log_len, by rw [hl]; exact h.log⟩

theorem rrState_calLoop (c : Comp Θ S L σ) (shape : List (Nat × Nat)) (n : Nat) (s : State Θ S L σ)
    (h : RRState shape s) : RRState shape (calLoop c n s).1 := by
  induction n generalizing s with
  | zero => exact h
  | succ n ih =>
    have hb := rrCore_runBatch c s.table shape s.core h.1
    have hstep : ∀ k, RRCore shape k → RRState shape (stepState s k) := by
      intro k hk
      refine ⟨hk, ?_⟩
      intro d hd
      simp only [stepState] at hd
      split at hd
      · cases hd; exact hk
      · exact h.2 d hd
    apply calLoop_cases c n s (fun r => RRState shape r.1)
    · intro k f heq; rw [heq] at hb; exact ⟨hb, h.2⟩
    · intro k heq _; rw [heq] at hb; exact hstep k hb
    · intro k heq _; rw [heq] at hb; exact ih _ (hstep k hb)

theorem rrCore_setSeeds (c : Comp Θ S L σ) (shape : List (Nat × Nat)) (k : Core Θ S L σ)
    (h : RRCore shape k) : RRCore shape (setSeeds c k) := by
  refine ⟨h.sched, ?_, h.log_len, h.log⟩
  rw [← h.lineup]
  simp only [setSeeds]
  apply List.ext_getElem (by simp)
  intro i h1 h2
  simp [sig]

/-- the operations C09 quantifies over for a list of samplers -/
inductive Op where
  | calibrate (n : Nat)
  | checkpoint
  | restore

def applyOp (c : Comp Θ S L σ) (s : State Θ S L σ) : Op → State Θ S L σ
  | .calibrate n => (calibrate c n s).1
  | .checkpoint => checkpoint s
  | .restore => (restore s).getD s

theorem rrState_applyOp (c : Comp Θ S L σ) (shape : List (Nat × Nat)) (s : State Θ S L σ) (op : Op)
    (h : RRState shape s) : RRState shape (applyOp c s op) := by
  cases op with
  | calibrate n =>
    simp only [applyOp, calibrate]
    split
    · exact rrState_calLoop c shape n _ ⟨rrCore_setSeeds c shape _ h.1, h.2⟩
    · exact rrState_calLoop c shape n _ h
  | checkpoint =>
    refine ⟨h.1, ?_⟩
    intro d hd
    simp only [applyOp, checkpoint] at hd
    cases hd; exact h.1
  | restore =>
    simp only [applyOp, restore]
    cases hd : s.disk with
    | none => simpa [hd] using h
    | some d =>
      simp only [Option.map_some, Option.getD_some]
      exact ⟨h.2 d hd, fun d' hd' => h.2 d' (hd ▸ hd')⟩

/-- **C09, round-robin.**  With a list of samplers, after any sequence of `calibrate(n)` calls, explicit
checkpoints and restores (calls may also raise), batch `i` of the calibration — counted over its whole life —
was produced by sampler `i mod n` of the line-up and has that sampler's batch size; and the scheduler will
designate sampler `(number of completed batches) mod n` next. -/
theorem roundRobin_batch_i (c : Comp Θ S L σ) (cfg : Cfg) (samplers : List (Smp σ)) (ops : List Op) :
    let s := ops.foldl (applyOp c) (init cfg samplers (.rr 0))
    s.core.sched = .rr s.core.batchIdx ∧ s.core.log.length = s.core.batchIdx ∧
    ∀ i r, s.core.log[i]? = some r →
      r.idx = i % samplers.length ∧
      (samplers.map sig)[i % samplers.length]? = some (r.cls, r.size) := by
  have h0 : RRState (samplers.map sig) (init cfg samplers (.rr 0) : State Θ S L σ) :=
    ⟨⟨rfl, rfl, rfl, by intro i r h; simp [init] at h⟩, by intro d hd; simp [init] at hd⟩
  have : ∀ (s : State Θ S L σ), RRState (samplers.map sig) s →
      RRState (samplers.map sig) (ops.foldl (applyOp c) s) := by
    induction ops with
    | nil => intro s h; exact h
    | cons op ops ih => intro s h; exact ih _ (rrState_applyOp c _ s op h)
  obtain ⟨⟨h1, _, h3, h4⟩, _⟩ := this _ h0
  refine ⟨h1, h3, ?_⟩
  intro i r hi
  have := h4 i r hi
  simpa using this

/-- `set_samplers` keeps the scheduler position (and changes `n`) -/
theorem setSamplers_keeps_position (samplers : List (Smp σ)) (s : State Θ S L σ) :
    (setSamplers samplers s).core.sched = s.core.sched ∧
    (setSamplers samplers s).core.batchIdx = s.core.batchIdx := ⟨rfl, rfl⟩

/-! ## RL scheduler (calibration-thread view) -/

/-- every completed batch used a sampler of the line-up the scheduler holds -/
theorem designated_in_lineup (c : Comp Θ S L σ) (t : List (Nat × Nat)) (k : Core Θ S L σ)
    (h : (runBatch c t k).2 = none) : nextIdx c k < k.samplers.length := by
  obtain ⟨smp, hsmp, _⟩ := (runBatch_ok c t k h).smp_ex
  by_contra hge
  rw [List.getElem?_eq_none (by omega)] at hsmp; cases hsmp

/-- the first batch is produced by the bootstrap sampler, every later one by the sampler whose index the
agent handed over -/
theorem rl_next (c : Comp Θ S L σ) (k : Core Θ S L σ) (boot n : Nat) :
    (k.sched = .rl boot false n → nextIdx c k = boot) ∧
    (k.sched = .rl boot true n → nextIdx c k = c.action n) := by
  constructor <;> intro h <;> simp [nextIdx, h]

/-- after the first completed batch the scheduler is in "agent" mode for good -/
theorem rl_started_after_batch (c : Comp Θ S L σ) (t : List (Nat × Nat)) (k : Core Θ S L σ) (boot : Nat) (st : Bool) (n : Nat)
    (hs : k.sched = .rl boot st n) (h : (runBatch c t k).2 = none) :
    ∃ n', (runBatch c t k).1.sched = .rl boot true n' := by
  have := (runBatch_ok c t k h).sched
  rw [this, hs]
  cases st <;> simp [afterGet, afterUpdate]

/-- the bootstrap sampler is a Halton sampler of the supplied set when there is one (the last such), otherwise
a Halton sampler appended behind the supplied set, which is left unchanged -/
theorem addOrGetBootstrap_spec (isHalton : Nat → Bool) (nh : Smp σ) (hnh : isHalton nh.cls = true)
    (samplers : List (Smp σ)) :
    let r := addOrGetBootstrap isHalton nh samplers
    (∃ m, r.1[r.2]? = some m ∧ isHalton m.cls = true) ∧
    ((∃ m ∈ samplers, isHalton m.cls = true) → r.1 = samplers) ∧
    ((∀ m ∈ samplers, isHalton m.cls = false) → r = (samplers ++ [nh], samplers.length)) := by
  simp only [addOrGetBootstrap]
  cases hl : (samplers.zipIdx.filter (fun p => isHalton p.1.cls)).getLast? with
  | none =>
    have hnil : samplers.zipIdx.filter (fun p => isHalton p.1.cls) = [] := by
      simpa [List.getLast?_eq_none_iff] using hl
    have hall : ∀ m ∈ samplers, isHalton m.cls = false := by
      intro m hm
      obtain ⟨i, hi, rfl⟩ := List.getElem_of_mem hm
      have hmem : (samplers[i], i) ∈ samplers.zipIdx := by
        rw [List.mem_zipIdx_iff_getElem?]; simp [hi]
      have := List.filter_eq_nil_iff.mp hnil (samplers[i], i) hmem
      simpa using this
    refine ⟨⟨nh, by simp, hnh⟩, ?_, fun _ => rfl⟩
    rintro ⟨m, hm, hmh⟩
    rw [hall m hm] at hmh; cases hmh
  | some p =>
    have hp := List.mem_of_getLast? hl
    rw [List.mem_filter] at hp
    obtain ⟨hpz, hph⟩ := hp
    have hget : samplers[p.2]? = some p.1 := by
      have := (List.mem_zipIdx_iff_getElem? (x := p)).mp hpz
      simpa using this
    refine ⟨⟨p.1, hget, by simpa using hph⟩, fun _ => rfl, ?_⟩
    intro hall
    have hmem : p.1 ∈ samplers := List.mem_of_getElem? hget
    rw [hall p.1 hmem] at hph; simp at hph

/-- the constructor accepts exactly one of a sampler list or a scheduler -/
theorem ctorRejects_iff (a b : Bool) : ctorRejects a b = true ↔ ((a = true ∧ b = true) ∨ (a = false ∧ b = false)) := by
  cases a <;> cases b <;> simp [ctorRejects]

/-! ### non-vacuity -/
example : (addOrGetBootstrap (fun c => c == 6) (⟨6, 1, ()⟩ : Smp Unit) [⟨0, 2, ()⟩, ⟨6, 3, ()⟩, ⟨1, 1, ()⟩, ⟨6, 4, ()⟩]).2 = 3 := by decide
example : (addOrGetBootstrap (fun c => c == 6) (⟨6, 1, ()⟩ : Smp Unit) [⟨0, 2, ()⟩]).2 = 1 := by decide

end BlackIt.Calibrator
