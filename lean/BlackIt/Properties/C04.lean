import BlackIt.Model.Checkpoint
import BlackIt.Properties.C05
set_option linter.unusedSectionVars false
set_option linter.unusedSimpArgs false
set_option linter.unusedVariables false

/-!
# C04 — A checkpoint restores the calibrator state exactly

Model: `BlackIt/Model/Checkpoint.lean` (folder of five files, SQLite single-row table) and the `disk` field of
the calibrator model.  The serialisers are parameters with the contract `dec (enc x) = some x`; the contract
is validated on the real libraries by the correspondence check (that is where the CSV float defect showed).
-/
namespace BlackIt.Checkpoint
variable {P Sc Lo Row Ser PJ ScB LoB RowT SerT : Type}

/-- the serialiser contracts -/
structure Faithful (cd : Codec P Sc Lo Row Ser PJ ScB LoB RowT SerT) : Prop where
  p : ∀ x, cd.decP (cd.encP x) = some x
  sc : ∀ x, cd.decSc (cd.encSc x) = some x
  lo : ∀ x, cd.decLo (cd.encLo x) = some x
  row : ∀ x, cd.decRow (cd.encRow x) = some x
  ser : ∀ x, cd.decSer (cd.encSer x) = some x

theorem mapM_dec_enc {α β : Type} (enc : α → β) (dec : β → Option α) (h : ∀ x, dec (enc x) = some x) (l : List α) :
    (l.map enc).mapM dec = some l := by
  induction l with
  | nil => rfl
  | cons x xs ih => simp [List.mapM_cons, h, ih]

/-- what the series file holds after a save, whatever it held before: exactly the encoded current series -/
theorem save_series [BEq SerT] [LawfulBEq SerT] (cd : Codec P Sc Lo Row Ser PJ ScB LoB RowT SerT) (f : Folder PJ ScB LoB RowT SerT)
    (s : Snap P Sc Lo Row Ser) :
    (save cd f s).seriesH5 = some (s.series.map cd.encSer) := by
  simp only [save]
  cases hf : f.seriesH5 with
  | none => rfl
  | some old =>
    simp only
    split
    · next hpre =>
      rw [List.isPrefixOf_iff_prefix] at hpre
      obtain ⟨t, ht⟩ := hpre
      congr 1
      have : (s.series.drop old.length).map cd.encSer = t := by
        rw [List.map_drop, ← ht]; simp
      rw [this, ht]
    · rfl

/-- **C04 (JSON/CSV/HDF5 back-end).**  Whatever the folder held before — nothing, an earlier checkpoint of the
same run, a checkpoint of a different run — loading what `save` wrote returns exactly the saved state:
configuration/counters/generator record, scheduler, loss, results table and all series. -/
theorem load_save [BEq SerT] [LawfulBEq SerT] (cd : Codec P Sc Lo Row Ser PJ ScB LoB RowT SerT) (hc : Faithful cd)
    (f : Folder PJ ScB LoB RowT SerT) (s : Snap P Sc Lo Row Ser) :
    load cd (save cd f s) = some s := by
  have hser := save_series cd f s
  simp only [load, save] at hser ⊢
  simp only [hser]
  simp [Option.bind, hc.p, hc.sc, hc.lo, mapM_dec_enc _ _ hc.row, mapM_dec_enc _ _ hc.ser]

/-- the append path is really taken in the normal life of a run: when the folder holds an earlier checkpoint of
the same run, the rows on disk are kept and only the new ones are written behind them -/
theorem save_appends [BEq SerT] [LawfulBEq SerT] (cd : Codec P Sc Lo Row Ser PJ ScB LoB RowT SerT)
    (s1 s2 : Snap P Sc Lo Row Ser) (hgrow : s1.series <+: s2.series) :
    (save cd (save cd Folder.empty s1) s2).seriesH5 =
      some (s1.series.map cd.encSer ++ (s2.series.drop s1.series.length).map cd.encSer) := by
  have h1 : (save cd Folder.empty s1).seriesH5 = some (s1.series.map cd.encSer) := rfl
  simp only [save, Folder.empty]
  have hp : (s1.series.map cd.encSer).isPrefixOf (s2.series.map cd.encSer) = true := by
    rw [List.isPrefixOf_iff_prefix]
    obtain ⟨t, ht⟩ := hgrow
    exact ⟨t.map cd.encSer, by rw [← ht]; simp⟩
  simp [hp]

/-- two saves in a row, of any two states -/
theorem load_save_save [BEq SerT] [LawfulBEq SerT] (cd : Codec P Sc Lo Row Ser PJ ScB LoB RowT SerT) (hc : Faithful cd)
    (s1 s2 : Snap P Sc Lo Row Ser) :
    load cd (save cd (save cd Folder.empty s1) s2) = some s2 :=
  load_save cd hc _ s2

/-- **repaired defect** — the pinned code kept whatever rows the series file held (`saveUnchecked`): on a folder
holding the checkpoint of a *different* run the old rows stayed.  Witness with identity codecs: old run has
series `[7, 8, 9]`, the new run saves `[1]`; the unchecked save restores the stale `[7, 8, 9]`, the current one `[1]`. -/
theorem stale_series_rows :
    let cd : Codec Nat Nat Nat Nat Nat Nat Nat Nat Nat Nat := ⟨id, some, id, some, id, some, id, some, id, some⟩
    let old : Snap Nat Nat Nat Nat Nat := ⟨0, 0, 0, [70, 80, 90], [7, 8, 9]⟩
    let new : Snap Nat Nat Nat Nat Nat := ⟨1, 1, 1, [10], [1]⟩
    (load cd (saveUnchecked cd (save cd Folder.empty old) new)).map (·.series) = some [7, 8, 9] ∧
    (load cd (save cd (save cd Folder.empty old) new)).map (·.series) = some [1] := by decide

/-- **C04 (SQLite back-end).**  Loading after a save returns the saved row, whatever the table held. -/
theorem sqlite_load_save {R : Type} (table : List R) (row : R) : sqlLoad (sqlSave table row) = some row := rfl

end BlackIt.Checkpoint

namespace BlackIt.Calibrator
variable {Θ S L σ : Type}

/-- at calibrator level: restoring the checkpoint of any state gives back its whole core (history, counters,
generator position, scheduler and sampler states, configuration); the id table is rebuilt from the line-up -/
theorem restore_checkpoint_core (s : State Θ S L σ) :
    (restore (checkpoint s)).map (·.core) = some s.core := rfl

/-- whenever `calibrate()` returns normally with a saving folder set (and ran at least one batch), the folder
holds the state it returned with (re-export of the C14 theorem, which covers early stops) -/
theorem folder_after_calibrate (c : Comp Θ S L σ) (n : Nat) (s : State Θ S L σ)
    (hfolder : s.core.cfg.folder = true) (hn : 0 < n) (hret : (calLoop c n s).2 = none) :
    (calLoop c n s).1.disk = some (calLoop c n s).1.core :=
  checkpoint_is_returned_state c n s hfolder hn hret

end BlackIt.Calibrator

/-! ## the folder as a directory: only the named files count -/
namespace BlackIt.Checkpoint.Dir
variable {B S : Type}

theorem get_put_same (d : Dir B) (n : String) (b : B) : get (put d n b) n = some b := by
  simp [get, put]

theorem get_put_other (d : Dir B) (n m : String) (b : B) (h : m ≠ n) : get (put d n b) m = get d m := by
  unfold get put
  have h1 : ((n, b).1 == m) = false := by simpa using Ne.symm h
  rw [List.find?_cons_of_neg (by simpa using h1)]
  congr 1
  induction d with
  | nil => rfl
  | cons e d ih =>
    by_cases he : e.1 = n
    · have : (e.1 == m) = false := by rw [he]; simpa using Ne.symm h
      simp only [List.filter_cons, he, bne_self_eq_false, Bool.false_eq_true, if_false]
      rw [List.find?_cons_of_neg (by simpa using this), ih]
    · have : (e.1 != n) = true := by simpa using he
      simp only [List.filter_cons, this, if_true]
      by_cases hm : e.1 = m
      · rw [List.find?_cons_of_pos (by simpa using hm), List.find?_cons_of_pos (by simpa using hm)]
      · rw [List.find?_cons_of_neg (by simpa using hm), List.find?_cons_of_neg (by simpa using hm), ih]

/-- **a file the library does not name is never looked at**: adding, replacing or removing it changes nothing a restore returns -/
theorem load_ignores_foreign_file (decode : List B → Option S) (d : Dir B) (name : String) (b : B) (h : name ∉ fileNames) :
    load decode (put d name b) = load decode d := by
  unfold load
  have key : ∀ ns : List String, (∀ n ∈ ns, n ∈ fileNames) → ns.mapM (get (put d name b)) = ns.mapM (get d) := by
    intro ns
    induction ns with
    | nil => intro _; rfl
    | cons n ns ih =>
      intro hns
      simp only [List.mapM_cons]
      rw [get_put_other d name n b (fun e => h (e ▸ hns n List.mem_cons_self)), ih (fun m hm => hns m (List.mem_cons_of_mem _ hm))]
  rw [key fileNames (fun _ hn => hn)]

theorem foldl_put_other (contents : String → Option B → B) (d0 : Dir B) (names : List String) (acc : Dir B) (m : String) (h : m ∉ names) :
    get (names.foldl (fun acc n => put acc n (contents n (get d0 n))) acc) m = get acc m := by
  induction names generalizing acc with
  | nil => rfl
  | cons n ns ih =>
    simp only [List.foldl_cons]
    rw [ih _ (fun hm => h (List.mem_cons_of_mem _ hm))]
    exact get_put_other acc n m _ (fun e => h (e ▸ List.mem_cons_self))

/-- **a save leaves every other file of the folder as it was** -/
theorem save_keeps_foreign_files (contents : String → Option B → B) (d : Dir B) (m : String) (h : m ∉ fileNames) :
    get (save contents d) m = get d m :=
  foldl_put_other contents d fileNames d m h

example : "samplers_pickled.pickle" ∉ fileNames := by decide
example : load (S := Nat) (fun fs => some fs.length) (save (fun _ _ => (0 : Nat)) []) = some 5 := by decide

end BlackIt.Checkpoint.Dir
