import BlackIt.Lemmas.Snap

/-!
# C17 — Grid snapping maps every value to a nearest grid element

Model: `BlackIt/Model/Snap.lean` (`get_closest`, `digitize_data` of `black_it/utils/base.py`).
All theorems hold for every non-empty sorted grid (any length, uniform or not) and every value.
-/
namespace BlackIt.Snap
variable {α β : Type} [LinearOrder α] [LinearOrder β]

/-- the snapped value is an element of the grid -/
theorem getClosest_mem (d : α → α → β) (a : List α) (v dflt : α) (hne : a ≠ []) :
    getClosest d a v dflt ∈ a := by
  unfold getClosest
  rw [getD_get _ _ _ (getClosestIdx_lt d a v dflt hne)]
  exact List.getElem_mem _

/-- the snapped value is at minimal distance among all grid elements -/
theorem getClosest_nearest (d : α → α → β) (hd : Unimodal d) (a : List α) (v dflt : α)
    (hs : a.Pairwise (· ≤ ·)) (hne : a ≠ []) :
    ∀ g ∈ a, d v (getClosest d a v dflt) ≤ d v g := by
  have hpos : 0 < a.length := List.length_pos_iff.mpr hne
  have hle := ssLeft_le a v
  intro g hg
  obtain ⟨k, hk, rfl⟩ := List.getElem_of_mem hg
  have hmono := sorted_mono a hs
  unfold getClosest
  set idx := ssLeft a v with hidx
  by_cases hn : idx = a.length
  · have hr : getClosestIdx d a v dflt = a.length - 1 := by
      unfold getClosestIdx; simp [← hidx, hn]
    rw [hr, getD_get _ _ _ (by omega)]
    have hlast : a[a.length - 1] < v := lt_of_lt_ssLeft a v hs _ (by omega) (by omega)
    exact hd.left v _ _ (hmono k (a.length - 1) hk (by omega) (by omega)) hlast.le
  · have hlt : idx < a.length := by omega
    have hcur_ge : v ≤ a[idx] := ge_of_ge_ssLeft a v hs idx le_rfl hlt
    have hmin : min idx (a.length - 1) = idx := by omega
    by_cases h0 : idx = 0
    · have hr : getClosestIdx d a v dflt = 0 := by
        unfold getClosestIdx; simp [← hidx, h0]
      rw [hr, getD_get _ _ _ hpos]
      have : v ≤ a[0] := by simpa [h0] using hcur_ge
      exact hd.right v _ _ this (hmono 0 k hpos hk (by omega))
    · have hprev_lt : a[idx - 1] < v := lt_of_lt_ssLeft a v hs _ (by omega) (by omega)
      have hgcase : d v a[idx - 1] ≤ d v a[k] ∨ d v a[idx] ≤ d v a[k] := by
        by_cases hki : k < idx
        · left; exact hd.left v _ _ (hmono k (idx - 1) hk (by omega) (by omega)) hprev_lt.le
        · right; exact hd.right v _ _ hcur_ge (hmono idx k hlt hk (by omega))
      unfold getClosestIdx
      simp only [← hidx, hmin, hn, false_or]
      rw [getD_get _ _ _ (by omega : idx - 1 < a.length), getD_get _ _ _ hlt]
      split
      · next hlt' =>
        rw [getD_get _ _ _ (by omega : idx - 1 < a.length)]
        rcases hgcase with h | h
        · exact h
        · exact le_trans hlt'.le h
      · next hnlt =>
        rw [getD_get _ _ _ hlt]
        rcases hgcase with h | h
        · exact le_trans (not_lt.mp hnlt) h
        · exact h

/-- grid elements are fixed points -/
theorem getClosest_of_mem (d : α → α → β) (hd : Unimodal d) (a : List α) (v dflt : α)
    (hs : a.Pairwise (· ≤ ·)) (hv : v ∈ a) : getClosest d a v dflt = v := by
  have hne : a ≠ [] := List.ne_nil_of_mem hv
  have hpos : 0 < a.length := List.length_pos_iff.mpr hne
  obtain ⟨k, hk, hkv⟩ := List.getElem_of_mem hv
  have hmono := sorted_mono a hs
  have hle := ssLeft_le a v
  -- idx ≤ k since a[k] = v is not < v
  have hidx_le : ssLeft a v ≤ k := by
    by_contra h
    push Not at h
    have := lt_of_lt_ssLeft a v hs k h hk
    rw [hkv] at this
    exact lt_irrefl _ this
  have hlt : ssLeft a v < a.length := by omega
  have hge : v ≤ a[ssLeft a v] := ge_of_ge_ssLeft a v hs _ le_rfl hlt
  have hle' : a[ssLeft a v] ≤ v := le_of_le_of_eq (hmono _ _ hlt hk hidx_le) hkv
  have heq : a[ssLeft a v] = v := le_antisymm hle' hge
  have hmin : min (ssLeft a v) (a.length - 1) = ssLeft a v := by omega
  unfold getClosest getClosestIdx
  simp only [hmin]
  rw [getD_get _ _ _ hlt, heq]
  have hnot : ¬ (ssLeft a v = a.length ∨ d v (a.getD (ssLeft a v - 1) dflt) < d v v) := by
    rintro (h | h)
    · omega
    · by_cases h0 : ssLeft a v = 0
      · have h00 : ssLeft a v - 1 = 0 := by omega
        rw [h00, getD_get _ _ _ hpos] at h
        have : a[0] = v := by simpa [h0] using heq
        rw [this] at h; exact lt_irrefl _ h
      · rw [getD_get _ _ _ (by omega)] at h
        have hp : a[ssLeft a v - 1] ≤ v := (lt_of_lt_ssLeft a v hs _ (by omega) (by omega)).le
        exact absurd (hd.left v _ v hp le_rfl) (not_le.mpr h)
  rw [if_neg hnot, getD_get _ _ _ hlt, heq]

/-- snapping is idempotent -/
theorem getClosest_idem (d : α → α → β) (hd : Unimodal d) (a : List α) (v dflt : α)
    (hs : a.Pairwise (· ≤ ·)) (hne : a ≠ []) :
    getClosest d a (getClosest d a v dflt) dflt = getClosest d a v dflt :=
  getClosest_of_mem d hd a _ dflt hs (getClosest_mem d a v dflt hne)

/-- exact distance `|v - g|` over any linearly ordered additive group is unimodal -/
theorem abs_unimodal {γ : Type} [AddCommGroup γ] [LinearOrder γ] [IsOrderedAddMonoid γ] :
    Unimodal (fun (v g : γ) => |v - g|) where
  left := by
    intro v g g' h1 h2
    rw [abs_of_nonneg (sub_nonneg.mpr h2), abs_of_nonneg (sub_nonneg.mpr (le_trans h1 h2))]
    exact sub_le_sub_left h1 v
  right := by
    intro v g g' h1 h2
    rw [abs_of_nonpos (sub_nonpos.mpr h1), abs_of_nonpos (sub_nonpos.mpr (le_trans h1 h2))]
    simp only [neg_sub]
    exact sub_le_sub_right h2 v

/-- C17 for exact arithmetic: nearest under the true distance -/
theorem getClosest_nearest_abs {γ : Type} [AddCommGroup γ] [LinearOrder γ] [IsOrderedAddMonoid γ]
    (a : List γ) (v dflt : γ) (hs : a.Pairwise (· ≤ ·)) (hne : a ≠ []) :
    ∀ g ∈ a, |v - getClosest (fun v g => |v - g|) a v dflt| ≤ |v - g| :=
  getClosest_nearest _ abs_unimodal a v dflt hs hne

/-! ### element-wise / column-wise action of `digitize_data` -/

theorem digitize_length (d : α → α → β) (grids : List (List α)) (data : List (List α)) (dflt : α) :
    (digitize d grids data dflt).length = data.length := by
  simp [digitize]

theorem digitize_row_length (d : α → α → β) (grids : List (List α)) (data : List (List α)) (dflt : α)
    (hw : ∀ row ∈ data, row.length = grids.length) :
    ∀ row ∈ digitize d grids data dflt, row.length = grids.length := by
  intro row hrow
  simp only [digitize, List.mem_map] at hrow
  obtain ⟨r, hr, rfl⟩ := hrow
  simp [hw r hr]

/-- entry (i,j) of the output is the snap of entry (i,j) of the input on grid j, and of nothing else -/
theorem digitize_entry (d : α → α → β) (grids : List (List α)) (data : List (List α)) (dflt : α)
    (i j : Nat) (hi : i < data.length) (hj : j < data[i].length) (hg : j < grids.length) :
    ((digitize d grids data dflt)[i]'(by simpa [digitize] using hi))[j]'(by simp [digitize]; omega)
      = getClosest d grids[j] (data[i][j]) dflt := by
  simp [digitize]

/-- every entry of the output is a member of its column's grid -/
theorem digitize_mem (d : α → α → β) (grids : List (List α)) (data : List (List α)) (dflt : α)
    (hne : ∀ g ∈ grids, g ≠ []) :
    ∀ row ∈ digitize d grids data dflt, ∀ j (hj : j < row.length) (hg : j < grids.length),
      row[j] ∈ grids[j] := by
  intro row hrow j hj hg
  simp only [digitize, List.mem_map] at hrow
  obtain ⟨r, hr, rfl⟩ := hrow
  simp only [List.getElem_map, List.getElem_zip]
  exact getClosest_mem d _ _ dflt (hne _ (List.getElem_mem _))

/-! ### non-vacuity: concrete grids meet the hypotheses and hit the corner cases -/
section Examples
def di (v g : Int) : Int := |v - g|
example : getClosest di [5] 100 0 = 5 := by decide            -- 1-element grid, value right of range
example : getClosest di [0, 10, 20] (-7) 0 = 0 := by decide    -- left of range
example : getClosest di [0, 10, 20] 15 0 = 20 := by decide     -- exact mid-point: upper neighbour wins
example : getClosest di [0, 10, 20] 14 0 = 10 := by decide
example : getClosest di [0, 10, 20] 99 0 = 20 := by decide     -- idx = len
example : ([0, 10, 20] : List Int).Pairwise (· ≤ ·) ∧ ([0, 10, 20] : List Int) ≠ [] := by decide
end Examples

end BlackIt.Snap
