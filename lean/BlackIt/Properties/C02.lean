import BlackIt.Lemmas.Calibrator
set_option linter.unusedSectionVars false
set_option linter.unusedSimpArgs false
set_option linter.unusedVariables false

/-!
# C02 — The recorded history is aligned, truthful and append-only

Model: `BlackIt/Model/Calibrator.lean`.  The theorems hold for arbitrary model, loss, samplers, PRNG stream,
fault plan (`Comp`), every configuration and every sequence of `calibrate(n)` calls.
-/
namespace BlackIt.Calibrator
variable {Θ S L σ : Type}

/-- **truthful and aligned**: all per-sample records have length `nSampled`; row `i` holds the series obtained
by running the model on exactly `params[i]` with the configured length, once per ensemble member (one seed
each); its loss is the loss function applied to exactly those series. -/
structure Truthful (c : Comp Θ S L σ) (k : Core Θ S L σ) : Prop where
  len_params : k.params.length = k.nSampled
  len_seeds : k.seeds.length = k.nSampled
  series_eq : k.series = List.zipWith (fun th sd => sd.map (c.model th k.cfg.simLen)) k.params k.seeds
  losses_eq : k.losses = k.series.map c.loss
  ens : ∀ sd ∈ k.seeds, sd.length = k.cfg.ensemble

/-- **labels**: batch `b` (zero-based, consecutive) contributes `size` copies of `b` and of the id of the
sampler the scheduler designated for it -/
structure Labelled (t : List (Nat × Nat)) (k : Core Θ S L σ) : Prop where
  log_len : k.log.length = k.batchIdx
  batchNum_eq : k.batchNum = (k.log.zipIdx.map (fun p => List.replicate p.1.size p.2)).flatten
  method_eq : k.method = (k.log.map (fun r => List.replicate r.size ((lookup t r.cls).getD 0))).flatten
  nSampled_eq : k.nSampled = (k.log.map (·.rows)).sum

theorem Truthful.len_series {c : Comp Θ S L σ} {k : Core Θ S L σ} (h : Truthful c k) :
    k.series.length = k.nSampled := by
  rw [h.series_eq, List.length_zipWith, h.len_params, h.len_seeds]; simp

theorem Truthful.len_losses {c : Comp Θ S L σ} {k : Core Θ S L σ} (h : Truthful c k) :
    k.losses.length = k.nSampled := by
  rw [h.losses_eq, List.length_map, h.len_series]

theorem batchSeeds_length (tape : Nat → Nat) (gen rows ens : Nat) :
    (batchSeeds tape gen rows ens).length = rows := by simp [batchSeeds]

theorem batchSeeds_ens (tape : Nat → Nat) (gen rows ens : Nat) :
    ∀ sd ∈ batchSeeds tape gen rows ens, sd.length = ens := by
  intro sd h; simp only [batchSeeds, List.mem_map] at h; obtain ⟨i, _, rfl⟩ := h; simp

/-- a successful batch preserves truthfulness -/
theorem truthful_batch (c : Comp Θ S L σ) (t : List (Nat × Nat)) (k k' : Core Θ S L σ)
    (hb : BatchOk c t k k') (h : Truthful c k) : Truthful c k' := by
  obtain ⟨smp, _, hp, hl, hs, hsd, _, _, hn, _, _, _⟩ := hb.smp_ex
  have hcfg := hb.cfg
  refine ⟨?_, ?_, ?_, ?_, ?_⟩
  · rw [hp, hn, List.length_append, h.len_params]
  · rw [hsd, hn, List.length_append, h.len_seeds, batchSeeds_length]
  · rw [hs, hp, hsd, hcfg, List.zipWith_append (by rw [h.len_params, h.len_seeds]), ← h.series_eq]
  · rw [hl, hs, List.map_append, ← h.losses_eq]
  · intro sd hsd'
    rw [hsd, List.mem_append] at hsd'
    rw [hcfg]
    rcases hsd' with h1 | h1
    · exact h.ens sd h1
    · exact batchSeeds_ens _ _ _ _ sd h1

theorem labelled_batch (c : Comp Θ S L σ) (t : List (Nat × Nat)) (k k' : Core Θ S L σ)
    (hb : BatchOk c t k k') (h : Labelled t k) : Labelled t k' := by
  obtain ⟨smp, _, _, _, _, _, hbn, hm, hn, _, _, hlog⟩ := hb.smp_ex
  refine ⟨?_, ?_, ?_, ?_⟩
  · rw [hlog, hb.batchIdx, List.length_append, h.log_len]; rfl
  · rw [hbn, hlog, List.zipIdx_append, List.map_append, List.flatten_append, ← h.batchNum_eq]
    simp [h.log_len]
  · rw [hm, hlog, List.map_append, List.flatten_append, ← h.method_eq]; simp
  · rw [hn, hlog, List.map_append, List.sum_append, ← h.nSampled_eq]; simp

/-- the invariant of C02 -/
def Inv (c : Comp Θ S L σ) (s : State Θ S L σ) : Prop := Truthful c s.core ∧ Labelled s.table s.core

theorem truthful_of_hist_eq (c : Comp Θ S L σ) (k k' : Core Θ S L σ)
    (hh : k'.hist = k.hist) (hs : k'.seeds = k.seeds) (hc : k'.cfg = k.cfg) (h : Truthful c k) :
    Truthful c k' := by
  have e : k'.params = k.params ∧ k'.losses = k.losses ∧ k'.series = k.series ∧ k'.nSampled = k.nSampled := by
    simp only [Core.hist, Hist.mk.injEq] at hh; tauto
  obtain ⟨e1, e2, e3, e4⟩ := e
  exact ⟨by rw [e1, e4]; exact h.len_params, by rw [hs, e4]; exact h.len_seeds,
    by rw [e3, e1, hs, hc]; exact h.series_eq, by rw [e2, e3]; exact h.losses_eq,
    by rw [hs, hc]; exact h.ens⟩

theorem labelled_of_hist_eq (t : List (Nat × Nat)) (k k' : Core Θ S L σ)
    (hh : k'.hist = k.hist) (hl : k'.log = k.log) (h : Labelled t k) : Labelled t k' := by
  have e : k'.batchNum = k.batchNum ∧ k'.method = k.method ∧ k'.nSampled = k.nSampled ∧ k'.batchIdx = k.batchIdx := by
    simp only [Core.hist, Hist.mk.injEq] at hh; tauto
  obtain ⟨e1, e2, e3, e4⟩ := e
  exact ⟨by rw [hl, e4]; exact h.log_len, by rw [e1, hl]; exact h.batchNum_eq,
    by rw [e2, hl]; exact h.method_eq, by rw [e3, hl]; exact h.nSampled_eq⟩

/-- one loop iteration (successful or raising) preserves the invariant -/
theorem inv_runBatch (c : Comp Θ S L σ) (t : List (Nat × Nat)) (k : Core Θ S L σ)
    (h1 : Truthful c k) (h2 : Labelled t k) :
    Truthful c (runBatch c t k).1 ∧ Labelled t (runBatch c t k).1 := by
  cases hf : (runBatch c t k).2 with
  | none =>
    have hb := runBatch_ok c t k hf
    exact ⟨truthful_batch c t k _ hb h1, labelled_batch c t k _ hb h2⟩
  | some f =>
    obtain ⟨hh, hs, hl, hc, _, _⟩ := runBatch_fault c t k f hf
    exact ⟨truthful_of_hist_eq c k _ hh hs hc h1, labelled_of_hist_eq t k _ hh hl h2⟩

theorem calLoop_table (c : Comp Θ S L σ) (n : Nat) (s : State Θ S L σ) :
    (calLoop c n s).1.table = s.table := by
  induction n generalizing s with
  | zero => rfl
  | succ n ih =>
    apply calLoop_cases c n s (fun r => r.1.table = s.table)
    · intro k f _; rfl
    · intro k _ _; rfl
    · intro k _ _; exact ih _

theorem inv_calLoop (c : Comp Θ S L σ) (n : Nat) (s : State Θ S L σ) (h : Inv c s) :
    Inv c (calLoop c n s).1 := by
  induction n generalizing s with
  | zero => exact h
  | succ n ih =>
    have hb := inv_runBatch c s.table s.core h.1 h.2
    apply calLoop_cases c n s (fun r => Inv c r.1)
    · intro k f heq; rw [heq] at hb; exact hb
    · intro k heq _; rw [heq] at hb; exact hb
    · intro k heq _; rw [heq] at hb; exact ih _ hb

theorem inv_init (c : Comp Θ S L σ) (cfg : Cfg) (samplers : List (Smp σ)) (sched : Sched) :
    Inv c (init cfg samplers sched : State Θ S L σ) := by
  constructor
  · exact ⟨rfl, rfl, rfl, rfl, by intro sd h; simp [init] at h⟩
  · exact ⟨rfl, rfl, rfl, rfl⟩

theorem inv_setSeeds (c : Comp Θ S L σ) (s : State Θ S L σ) (h : Inv c s) :
    Inv c { s with core := setSeeds c s.core } := by
  obtain ⟨h1, h2⟩ := h
  exact ⟨⟨h1.len_params, h1.len_seeds, h1.series_eq, h1.losses_eq, h1.ens⟩,
         ⟨h2.log_len, h2.batchNum_eq, h2.method_eq, h2.nSampled_eq⟩⟩

/-- `calibrate(n)` preserves the invariant, whether it returns or raises -/
theorem inv_calibrate (c : Comp Θ S L σ) (n : Nat) (s : State Θ S L σ) (h : Inv c s) :
    Inv c (calibrate c n s).1 := by
  unfold calibrate
  split
  · exact inv_calLoop c n _ (inv_setSeeds c s h)
  · exact inv_calLoop c n _ h

/-- the state after a sequence of `calibrate` calls -/
def calibrates (c : Comp Θ S L σ) (ns : List Nat) (s : State Θ S L σ) : State Θ S L σ :=
  ns.foldl (fun s n => (calibrate c n s).1) s

/-- **C02, invariant.**  After any sequence of `calibrate()` calls on a fresh calibrator — whatever the
components, the configuration, and whether calls returned or raised — the history is truthful and labelled. -/
theorem inv_calibrates (c : Comp Θ S L σ) (cfg : Cfg) (samplers : List (Smp σ)) (sched : Sched) (ns : List Nat) :
    Inv c (calibrates c ns (init cfg samplers sched)) := by
  unfold calibrates
  have : ∀ s : State Θ S L σ, Inv c s → Inv c (ns.foldl (fun s n => (calibrate c n s).1) s) := by
    induction ns with
    | nil => intro s h; exact h
    | cons n ns ih => intro s h; exact ih _ (inv_calibrate c n s h)
  exact this _ (inv_init c cfg samplers sched)

/-- under the sampler contract "`sample()` returns `batch_size` rows" the two label records are aligned with
the others: all five have length `nSampled` -/
theorem labels_aligned (t : List (Nat × Nat)) (k : Core Θ S L σ) (h : Labelled t k)
    (hrows : ∀ r ∈ k.log, r.rows = r.size) :
    k.batchNum.length = k.nSampled ∧ k.method.length = k.nSampled := by
  have key : ∀ (l : List BatchRec) (j : Nat), (∀ r ∈ l, r.rows = r.size) →
      ((l.zipIdx j).map (fun p => List.replicate p.1.size p.2)).flatten.length = (l.map (·.rows)).sum ∧
      (l.map (fun r => List.replicate r.size ((lookup t r.cls).getD 0))).flatten.length = (l.map (·.rows)).sum := by
    intro l
    induction l with
    | nil => intro j _; simp
    | cons r l ih =>
      intro j hr
      have := ih (j + 1) (fun x hx => hr x (List.mem_cons_of_mem _ hx))
      have hr0 := hr r List.mem_cons_self
      simp only [List.zipIdx_cons, List.map_cons, List.flatten_cons, List.length_append,
        List.length_replicate, List.sum_cons]
      omega
  rw [h.batchNum_eq, h.method_eq, h.nSampled_eq]
  exact key k.log 0 hrows

/-! ## append-only -/

/-- every record of `k` is a prefix of the corresponding record of `k'` -/
def HistPrefix (k k' : Core Θ S L σ) : Prop :=
  k.params <+: k'.params ∧ k.losses <+: k'.losses ∧ k.series <+: k'.series ∧
  k.batchNum <+: k'.batchNum ∧ k.method <+: k'.method

theorem histPrefix_refl (k : Core Θ S L σ) : HistPrefix k k :=
  ⟨List.prefix_refl _, List.prefix_refl _, List.prefix_refl _, List.prefix_refl _, List.prefix_refl _⟩

theorem histPrefix_trans {a b d : Core Θ S L σ} (h1 : HistPrefix a b) (h2 : HistPrefix b d) : HistPrefix a d :=
  ⟨h1.1.trans h2.1, h1.2.1.trans h2.2.1, h1.2.2.1.trans h2.2.2.1, h1.2.2.2.1.trans h2.2.2.2.1,
   h1.2.2.2.2.trans h2.2.2.2.2⟩

theorem histPrefix_runBatch (c : Comp Θ S L σ) (t : List (Nat × Nat)) (k : Core Θ S L σ) :
    HistPrefix k (runBatch c t k).1 := by
  cases hf : (runBatch c t k).2 with
  | none =>
    obtain ⟨smp, _, hp, hl, hs, _, hbn, hm, _, _, _, _⟩ := (runBatch_ok c t k hf).smp_ex
    exact ⟨hp ▸ List.prefix_append _ _, hl ▸ List.prefix_append _ _, hs ▸ List.prefix_append _ _,
           hbn ▸ List.prefix_append _ _, hm ▸ List.prefix_append _ _⟩
  | some f =>
    obtain ⟨hh, _⟩ := runBatch_fault c t k f hf
    simp only [Core.hist, Hist.mk.injEq] at hh
    obtain ⟨e1, e2, e3, e4, e5, _⟩ := hh
    exact ⟨e1 ▸ List.prefix_refl _, e2 ▸ List.prefix_refl _, e3 ▸ List.prefix_refl _,
           e4 ▸ List.prefix_refl _, e5 ▸ List.prefix_refl _⟩

theorem histPrefix_calLoop (c : Comp Θ S L σ) (n : Nat) (s : State Θ S L σ) :
    HistPrefix s.core (calLoop c n s).1.core := by
  induction n generalizing s with
  | zero => exact histPrefix_refl _
  | succ n ih =>
    have hb := histPrefix_runBatch c s.table s.core
    apply calLoop_cases c n s (fun r => HistPrefix s.core r.1.core)
    · intro k f heq; rw [heq] at hb; exact hb
    · intro k heq _; rw [heq] at hb; exact hb
    · intro k heq _; rw [heq] at hb; exact histPrefix_trans hb (ih (stepState s k))

/-- **C02, append-only.**  Rows once recorded never change: the history before a `calibrate()` call is a
prefix of the history after it (also when the call raises). -/
theorem append_only (c : Comp Θ S L σ) (n : Nat) (s : State Θ S L σ) :
    HistPrefix s.core (calibrate c n s).1.core := by
  unfold calibrate
  split
  · exact histPrefix_calLoop c n { s with core := setSeeds c s.core }
  · exact histPrefix_calLoop c n s

/-! ## the return value -/

theorem insertBy_perm {β : Type} (le : β → β → Bool) (x : β) (l : List β) : (insertBy le x l).Perm (x :: l) := by
  induction l with
  | nil => exact List.Perm.refl _
  | cons y ys ih =>
    unfold insertBy
    split
    · exact List.Perm.refl _
    · exact (List.Perm.cons y ih).trans (List.Perm.swap x y ys)

theorem isort_perm {β : Type} (le : β → β → Bool) (l : List β) : (isort le l).Perm l := by
  induction l with
  | nil => exact List.Perm.refl _
  | cons x xs ih => exact (insertBy_perm le x _).trans (List.Perm.cons x ih)

theorem insertBy_sorted {β : Type} (le : β → β → Bool)
    (htot : ∀ a b, le a b = true ∨ le b a = true) (htr : ∀ a b d, le a b = true → le b d = true → le a d = true)
    (x : β) (l : List β) (hl : l.Pairwise (fun a b => le a b = true)) :
    (insertBy le x l).Pairwise (fun a b => le a b = true) := by
  induction l with
  | nil => simp [insertBy]
  | cons y ys ih =>
    rw [List.pairwise_cons] at hl
    unfold insertBy
    split
    · next hxy =>
      refine List.Pairwise.cons ?_ (List.Pairwise.cons hl.1 hl.2)
      intro z hz
      rcases List.mem_cons.mp hz with rfl | hz
      · exact hxy
      · exact htr _ _ _ hxy (hl.1 z hz)
    · next hxy =>
      have hyx : le y x = true := by rcases htot x y with h | h; exact absurd h hxy; exact h
      refine List.Pairwise.cons ?_ (ih hl.2)
      intro z hz
      rcases List.mem_cons.mp ((insertBy_perm le x ys).mem_iff.mp hz) with rfl | hz
      · exact hyx
      · exact hl.1 z hz

/-- **C02, return value.**  `calibrate()` returns precisely the recorded (parameter, loss) pairs — a
permutation of them — and, for an order on losses that is total and transitive, sorted by increasing loss. -/
theorem result_perm_sorted (c : Comp Θ S L σ) (k : Core Θ S L σ) :
    (result c k).Perm (k.params.zip k.losses) ∧
    ((∀ a b : L, (!c.lt b a) = true ∨ (!c.lt a b) = true) →
     (∀ a b d : L, (!c.lt b a) = true → (!c.lt d b) = true → (!c.lt d a) = true) →
     (result c k).Pairwise (fun p q => c.lt q.2 p.2 = false)) := by
  refine ⟨isort_perm _ _, ?_⟩
  intro htot htr
  have hs : ∀ l : List (Θ × L), (isort (fun a b => !c.lt b.2 a.2) l).Pairwise
      (fun a b => (!c.lt b.2 a.2) = true) := by
    intro l
    induction l with
    | nil => simp [isort]
    | cons x xs ih =>
      exact insertBy_sorted _ (fun a b => htot a.2 b.2) (fun a b d h1 h2 => htr a.2 b.2 d.2 h1 h2) x _ ih
  exact (hs _).imp (by intro a b h; simpa using h)

/-- **a call that runs no batch** (`calibrate(0)`, first, in between or last): nothing is recorded, nothing fails — and what it returns is,
as for every call, the recorded pairs sorted by increasing loss (`result_perm_sorted` holds for the state it leaves) -/
theorem calibrate_zero (c : Comp Θ S L σ) (s : State Θ S L σ) :
    (calibrate c 0 s).2 = none ∧ (calibrate c 0 s).1.core.hist = s.core.hist ∧
    (result c (calibrate c 0 s).1.core).Perm (s.core.params.zip s.core.losses) := by
  have h : (calibrate c 0 s).2 = none ∧ (calibrate c 0 s).1.core.hist = s.core.hist := by
    unfold calibrate
    by_cases hb : s.core.batchIdx = 0
    · simp [hb, calLoop, setSeeds, Core.hist]
    · simp [hb, calLoop]
  refine ⟨h.1, h.2, ?_⟩
  have hp := (result_perm_sorted c (calibrate c 0 s).1.core).1
  have hh := h.2
  simp only [Core.hist, Hist.mk.injEq] at hh
  rw [hh.1, hh.2.1] at hp
  exact hp

end BlackIt.Calibrator
