import BlackIt.Lemmas.RLProtocol
import BlackIt.Lemmas.RLTermination
import BlackIt.Properties.C19
set_option linter.unusedSectionVars false
set_option linter.unusedSimpArgs false
set_option linter.unusedVariables false
set_option maxHeartbeats 1000000

/-!
# C10 — The RL scheduler–agent exchange is correct under every thread interleaving

Model: `BlackIt/Model/RLProtocol.lean`; invariant `Inv` and its inductiveness (`inv_step`) in
`BlackIt/Lemmas/RLProtocol.lean`.  `Choice` sequences range over every script of sessions and batches, every
failure point, every agent and every interleaving of the two threads, so an invariant of `step` holds for all
of them at once.
-/
namespace BlackIt.RL

/-- every state reachable by any sequence of choices satisfies the invariant -/
theorem inv_run (cs : List Choice) (s s' : St) (h : Inv s) (hr : run s cs = some s') : Inv s' := by
  induction cs generalizing s with
  | nil => simp only [run, Option.some.injEq] at hr; exact hr ▸ h
  | cons c cs ih =>
    simp only [run] at hr
    cases hc : step s c with
    | none => simp [hc] at hr
    | some s1 => rw [hc] at hr; exact ih s1 (inv_step s s1 c h hc) hr

theorem inv_reachable (cs : List Choice) (s : St) (hr : run init cs = some s) : Inv s :=
  inv_run cs init s inv_init hr

/-- **learns exactly once per chosen batch, from that batch's own outcome, attributed to the sampler that ran,
and never from an action that was not executed**: in every reachable state the list of `learn` calls
(batch, action) is the list of completed agent-chosen batches (batch, action) — identical, or lacking exactly
the last one while its outcome is in flight. -/
theorem learned_eq_executed (cs : List Choice) (s : St) (hr : run init cs = some s) :
    s.learned = s.executed ∨ ∃ a, s.executed = s.learned ++ [(s.batchNo, a)] := by
  have h := inv_reachable cs s hr
  rcases s with ⟨mpc, apc, aq, oq, boot, bn, ch, ex, le⟩
  rcases mpc with _|_|(_|am)|_|_|_ <;> rcases apc with _|_|_|a|_ <;> simp_all [Inv, tail]
  all_goals (try (rcases h with ⟨_, _, h | h | h⟩ <;> simp_all))
  all_goals (try (rcases h with ⟨_, h | h | h⟩ <;> simp_all))

/-- **no message is left over and no thread is alive when a session has ended** -/
theorem session_end_clean (cs : List Choice) (s : St) (hr : run init cs = some s) (hidle : s.mpc = .idle) :
    s.apc = .dead ∧ s.actionQ = [] ∧ s.outcomeQ = [] ∧ s.learned = s.executed := by
  have h := inv_reachable cs s hr
  rcases s with ⟨mpc, apc, aq, oq, boot, bn, ch, ex, le⟩
  simp only at hidle
  subst hidle
  rcases apc with _|_|_|_|_ <;> simp_all [Inv]

/-- the calibration thread can be blocked only on the action queue (at `get_next_sampler`) or on the join -/
def mainBlocked (s : St) : Prop :=
  (s.mpc = .loopHead ∧ s.boot = false ∧ s.actionQ = []) ∨ (s.mpc = .endJoin ∧ s.apc ≠ .dead)

/-- the agent thread can be blocked only on the outcome queue -/
def agentBlocked (s : St) : Prop := ∃ a, s.apc = .get a ∧ s.outcomeQ = []

/-- **no deadlock**: in no reachable state are both threads blocked; and when the calibration thread waits for
an action or for the agent to exit, the agent thread can move -/
theorem deadlock_free (cs : List Choice) (s : St) (hr : run init cs = some s) :
    ¬ (mainBlocked s ∧ agentBlocked s) ∧
    (mainBlocked s → ∃ p s', step s (.aStep p) = some s') := by
  have h := inv_reachable cs s hr
  rcases s with ⟨mpc, apc, aq, oq, boot, bn, ch, ex, le⟩
  constructor
  · rintro ⟨hm, a, ha, ho⟩
    simp only at ha ho
    subst ha ho
    rcases hm with ⟨h1, h2, h3⟩ | ⟨h1, h2⟩ <;> simp only at h1 <;> subst h1 <;> simp_all [Inv, tail]
  · intro hm
    rcases hm with ⟨h1, h2, h3⟩ | ⟨h1, h2⟩ <;> simp only at h1 <;> subst h1
    · rcases apc with _|_|_|a|_ <;> simp_all [Inv, tail, step]
    · rcases apc with _|_|_|a|_ <;> simp_all [Inv, tail, step]
      obtain ⟨_, h | h | h⟩ := h <;> simp_all


/-! ## the sequence of samplers does not depend on thread timing -/

/-- **schedule independence.**  For a given script of sessions (batches per session, failure or not) and a
given agent — any function of its own local history — every complete execution, whatever the interleaving of
the two threads, ends in the same final state: the same executed (batch, sampler) sequence, the same `learn`
calls, the same agent history, empty queues. -/
theorem schedule_independent (f : List AgEv → Nat) (d : DSt) (hinv : Inv d.s) (σ1 σ2 : List Bool) (e1 e2 : DSt)
    (h1 : drun f d σ1 = some e1) (t1 : terminal f e1 = true)
    (h2 : drun f d σ2 = some e2) (t2 : terminal f e2 = true) : e1 = e2 := by
  induction σ1 generalizing d σ2 with
  | nil =>
    simp only [drun, Option.some.injEq] at h1
    subst h1
    cases σ2 with
    | nil => simp only [drun, Option.some.injEq] at h2; exact h2
    | cons t ts =>
      rw [drun_cons] at h2
      simp only [terminal, Bool.and_eq_true, Option.isNone_iff_eq_none] at t1
      cases t <;> simp [stepT, t1.1, t1.2] at h2
  | cons t σ1 ih =>
    rw [drun_cons] at h1
    cases hd : stepT f t d with
    | none => simp [hd] at h1
    | some d1 =>
      simp only [hd, Option.bind_some] at h1
      obtain ⟨σ2', _, h2'⟩ := strip f σ2 d e2 d1 t hinv h2 t2 hd
      exact ih d1 (inv_stepT f t d d1 hinv hd) σ2' h1 h2'

/-- in particular for executions of a whole script from the initial state -/
theorem schedule_independent_init (f : List AgEv → Nat) (script : List (Nat × Bool)) (σ1 σ2 : List Bool) (e1 e2 : DSt)
    (h1 : drun f { sessions := script } σ1 = some e1) (t1 : terminal f e1 = true)
    (h2 : drun f { sessions := script } σ2 = some e2) (t2 : terminal f e2 = true) :
    e1.s.executed = e2.s.executed ∧ e1.s.learned = e2.s.learned ∧ e1.hist = e2.hist := by
  have := schedule_independent f { sessions := script } inv_init σ1 σ2 e1 e2 h1 t1 h2 t2
  subst this; exact ⟨rfl, rfl, rfl⟩

/-- a terminal state of the scripted system is a *finished* one: the script is used up, no session is open, no
thread is alive, the queues are empty — the exchange cannot get stuck half-way (no deadlock), whatever the
interleaving -/
theorem terminal_is_finished (f : List AgEv → Nat) (d : DSt) (hinv : Inv d.s) (ht : terminal f d = true) :
    d.s.mpc = .idle ∧ d.sessions = [] ∧ d.s.apc = .dead ∧ d.s.actionQ = [] ∧ d.s.outcomeQ = [] ∧
    d.s.learned = d.s.executed := by
  simp only [terminal, Bool.and_eq_true, Option.isNone_iff_eq_none] at ht
  obtain ⟨hm, ha⟩ := ht
  rcases d with ⟨⟨mpc, apc, aq, oq, boot, bn, ch, ex, le⟩, sess, left, fn, hist⟩
  rcases mpc with _|_|(_|am)|_|_|_ <;> rcases apc with _|_|_|a|_ <;>
    rcases oq with _|⟨(_|b), oq⟩ <;> rcases aq with _|⟨x, aq⟩ <;> rcases sess with _|⟨⟨n, fl⟩, sess⟩ <;>
    simp_all [Inv, tail, stepM, stepA, step]
  all_goals (first | ((repeat' split at hm) <;> simp_all) | skip)

/-! ## termination -/

theorem inv_drun (f : List AgEv → Nat) (σ : List Bool) (d e : DSt) (hinv : Inv d.s) (h : drun f d σ = some e) : Inv e.s := by
  induction σ generalizing d with
  | nil => simp only [drun, Option.some.injEq] at h; exact h ▸ hinv
  | cons t σ ih =>
    rw [drun_cons] at h
    cases hd : stepT f t d with
    | none => simp [hd] at h
    | some d1 => simp only [hd, Option.bind_some] at h; exact ih d1 (inv_stepT f t d d1 hinv hd) h

theorem drun_append (f : List AgEv → Nat) (σ τ : List Bool) (d e e' : DSt)
    (h : drun f d σ = some e) (h' : drun f e τ = some e') : drun f d (σ ++ τ) = some e' := by
  induction σ generalizing d with
  | nil => simp only [drun, Option.some.injEq] at h; subst h; simpa using h'
  | cons t σ ih =>
    rw [drun_cons] at h
    cases hd : stepT f t d with
    | none => simp [hd] at h
    | some d1 =>
      simp only [hd, Option.bind_some] at h
      rw [List.cons_append, drun_cons, hd]; exact ih d1 h

/-- **the exchange terminates**: for a finite script of sessions and any agent, every execution — whatever the
interleaving — is at most `rank` moves long (no livelock: neither thread can spin), -/
theorem terminates (f : List AgEv → Nat) (script : List (Nat × Bool)) (σ : List Bool) (e : DSt)
    (h : drun f { sessions := script } σ = some e) : σ.length ≤ rank { sessions := script } := by
  have := drun_length_le f σ _ e h; omega

/-- **and it cannot stop half-way**: every partial execution can be continued to a complete one, every complete
one is *finished* (script used up, no session open, agent thread dead, both queues empty, every executed action
learned exactly once), and all complete ones end in the same state.  Together with `terminates`: every maximal
execution is finite and finished. -/
theorem every_run_completes (f : List AgEv → Nat) (script : List (Nat × Bool)) (σ : List Bool) (d : DSt)
    (h : drun f { sessions := script } σ = some d) :
    ∃ τ e, drun f { sessions := script } (σ ++ τ) = some e ∧ terminal f e = true ∧
      e.s.mpc = .idle ∧ e.sessions = [] ∧ e.s.apc = .dead ∧ e.s.actionQ = [] ∧ e.s.outcomeQ = [] ∧
      e.s.learned = e.s.executed ∧
      ∀ σ' e', drun f { sessions := script } σ' = some e' → terminal f e' = true → e' = e := by
  obtain ⟨τ, e, hr, ht⟩ := complete_run_exists f d
  have hfull := drun_append f σ τ _ d e h hr
  have hinv : Inv e.s := inv_drun f _ _ e inv_init hfull
  obtain ⟨a, b, c, d', e'', g⟩ := terminal_is_finished f e hinv ht
  refine ⟨τ, e, hfull, ht, a, b, c, d', e'', g, ?_⟩
  intro σ' e' h' t'
  exact schedule_independent f { sessions := script } inv_init σ' (σ ++ τ) e' e h' t' hfull ht

/-! ## the reward is computed from that very batch's outcome -/

/-- `learned_eq_executed` says the outcomes reach the environment one at a time, in batch order, exactly once; over such a
sequence the reward chain (scheduler's running best → environment's reward against its own reference) is, for every
bootstrap loss and every sequence of per-batch minimum losses, the published rule applied to each batch's own outcome
(re-export of `Bandit.runRewards_eq_rule`, so that it is audited with this property). -/
theorem reward_from_own_outcome {α : Type} [Field α] [LinearOrder α] [IsStrictOrderedRing α] (boot : α) (losses : List α) :
    Bandit.runRewards 0 boot losses = Bandit.rewardsByRule 0 boot losses :=
  Bandit.runRewards_eq_rule boot losses

/-! ### non-vacuity: two sessions, a failure, two different interleavings, same result -/
section Example
def exAgent (h : List AgEv) : Nat := h.length % 2
def exScript : List (Nat × Bool) := [(2, false), (1, true)]
/-- a main-first and an agent-first complete schedule of this script (computed by running the model) -/
def schedM : List Bool := [true, true, true, false, false, true, true, true, true, false, false, false, false, false, true, true, true, false,
  false, true, true, false, false, false, false, true, true, true, false, true, true]
def schedA : List Bool := [true, false, false, true, true, true, true, false, false, false, false, true, true, false, true, true, true, false,
  false, true, true, false, false, false, false, true, true, true, false, true, true]
example : (drun exAgent { sessions := exScript } schedM).map (fun d => d.s.executed) = some [(2, 0), (3, 1)] := by decide
example : (drun exAgent { sessions := exScript } schedA).map (fun d => d.s.executed) = some [(2, 0), (3, 1)] := by decide
example : (drun exAgent { sessions := exScript } schedA).map (fun d => d.s.learned) = some [(2, 0), (3, 1)] := by decide
example : (drun exAgent { sessions := exScript } schedA).map (fun d => terminal exAgent d) = some true := by decide
example : (drun exAgent { sessions := exScript } schedM).map (fun d => terminal exAgent d) = some true := by decide
example : rank { sessions := exScript } = 105 := by decide
example : schedM.length = 31 := by decide
end Example

end BlackIt.RL
