import BlackIt.Properties.C02
import Mathlib.Data.List.Nodup
set_option linter.unusedSectionVars false
set_option linter.unusedSimpArgs false
set_option linter.unusedVariables false

/-!
# C18 — Sampler labels in a history can always be mapped back to sampler names

Model: the sampler-id table of `BlackIt/Model/Calibrator.lean` (`constructTable`, `updateTable`, `lookup`).
-/
namespace BlackIt.Calibrator
variable {Θ S L σ : Type}

/-! ## the table only grows -/

theorem addClasses_prefix (t : List (Nat × Nat)) (next : Nat) (cs : List Nat) : t <+: addClasses t next cs := by
  induction cs generalizing t next with
  | nil => exact List.prefix_refl _
  | cons c cs ih =>
    unfold addClasses
    split
    · exact ih t next
    · exact (List.prefix_append t _).trans (ih _ _)

theorem lookup_append_of_some (t e : List (Nat × Nat)) (c i : Nat) (h : lookup t c = some i) :
    lookup (t ++ e) c = some i := by
  unfold lookup at h ⊢
  rw [List.find?_append]
  cases hf : t.find? (·.1 == c) with
  | none => simp [hf] at h
  | some p => simpa [hf] using h

/-- an id, once assigned to a class, is never reassigned by later additions -/
theorem lookup_stable (t t' : List (Nat × Nat)) (hp : t <+: t') (c i : Nat) (h : lookup t c = some i) :
    lookup t' c = some i := by
  obtain ⟨e, rfl⟩ := hp
  exact lookup_append_of_some t e c i h

theorem lookup_isSome_iff (t : List (Nat × Nat)) (c : Nat) : (lookup t c).isSome ↔ c ∈ t.map (·.1) := by
  unfold lookup
  rw [Option.isSome_map, List.find?_isSome]
  simp only [List.mem_map]
  constructor
  · rintro ⟨p, hp, hc⟩; exact ⟨p, hp, by simpa using hc⟩
  · rintro ⟨p, hp, hc⟩; exact ⟨p, hp, by simpa using hc⟩

/-- every class of the list is in the table afterwards -/
theorem addClasses_covers (t : List (Nat × Nat)) (next : Nat) (cs : List Nat) :
    ∀ c ∈ cs, (lookup (addClasses t next cs) c).isSome := by
  induction cs generalizing t next with
  | nil => intro c h; cases h
  | cons d cs ih =>
    intro c hc
    unfold addClasses
    rcases List.mem_cons.mp hc with rfl | hc
    · split
      · next hs =>
        obtain ⟨i, hi⟩ := Option.isSome_iff_exists.mp hs
        rw [lookup_stable t _ (addClasses_prefix t next cs) c i hi]; rfl
      · next hs =>
        have : lookup (t ++ [(c, next)]) c = some next := by
          unfold lookup
          rw [List.find?_append]
          have : t.find? (·.1 == c) = none := by
            cases hf : t.find? (·.1 == c) with
            | none => rfl
            | some p => exfalso; apply hs; simp [lookup, hf]
          simp [this]
        rw [lookup_stable _ _ (addClasses_prefix _ (next + 1) cs) c next this]; rfl
    · split
      · exact ih t next c hc
      · exact ih _ _ c hc

/-- well-formed table: one entry per class, one class per id, all ids below the next free id -/
structure TableOk (t : List (Nat × Nat)) (next : Nat) : Prop where
  keys : (t.map (·.1)).Nodup
  ids : (t.map (·.2)).Nodup
  fresh : ∀ p ∈ t, p.2 < next

theorem addClasses_ok (t : List (Nat × Nat)) (next : Nat) (cs : List Nat) (h : TableOk t next) :
    ∃ next', TableOk (addClasses t next cs) next' := by
  induction cs generalizing t next with
  | nil => exact ⟨next, h⟩
  | cons c cs ih =>
    unfold addClasses
    split
    · exact ih t next h
    · next hs =>
      apply ih
      have hnot : c ∉ t.map (·.1) := by
        intro hc; apply hs; exact (lookup_isSome_iff t c).mpr hc
      refine ⟨?_, ?_, ?_⟩
      · rw [List.map_append, List.nodup_append]
        refine ⟨h.keys, by simp, ?_⟩
        intro a ha b hb
        simp at hb; subst hb
        intro hab; subst hab; exact hnot ha
      · rw [List.map_append, List.nodup_append]
        refine ⟨h.ids, by simp, ?_⟩
        intro a ha b hb
        simp at hb; subst hb
        obtain ⟨p, hp, rfl⟩ := List.mem_map.mp ha
        have := h.fresh p hp
        omega
      · intro p hp
        rcases List.mem_append.mp hp with hp | hp
        · have := h.fresh p hp; omega
        · simp at hp; subst hp; simp

theorem foldl_max_ge (l : List Nat) (a : Nat) : a ≤ l.foldl max a ∧ ∀ x ∈ l, x ≤ l.foldl max a := by
  induction l generalizing a with
  | nil => exact ⟨le_refl _, by intro x h; cases h⟩
  | cons y ys ih =>
    obtain ⟨h1, h2⟩ := ih (max a y)
    simp only [List.foldl_cons]
    refine ⟨le_trans (le_max_left a y) h1, ?_⟩
    intro x hx
    rcases List.mem_cons.mp hx with rfl | hx
    · exact le_trans (le_max_right a x) h1
    · exact h2 x hx

/-- **C18, ids are unique and never reassigned** by `update_samplers_id_table`: the old table is a prefix of
the new one, every class of the new line-up is covered, and the result is again a well-formed table -/
theorem updateTable_spec (t : List (Nat × Nat)) (classes : List Nat) (n : Nat) (h : TableOk t n) :
    t <+: updateTable t classes ∧
    (∀ c ∈ classes, (lookup (updateTable t classes) c).isSome) ∧
    ∃ n', TableOk (updateTable t classes) n' := by
  refine ⟨addClasses_prefix _ _ _, addClasses_covers _ _ _, ?_⟩
  apply addClasses_ok
  refine ⟨h.keys, h.ids, ?_⟩
  intro p hp
  have := (foldl_max_ge (t.map (·.2)) 0).2 p.2 (List.mem_map_of_mem hp)
  omega

theorem constructTable_spec (classes : List Nat) :
    (∀ c ∈ classes, (lookup (constructTable classes) c).isSome) ∧ ∃ n', TableOk (constructTable classes) n' :=
  ⟨addClasses_covers _ _ _, addClasses_ok [] 0 classes ⟨by simp, by simp, by intro p h; cases h⟩⟩

/-- a well-formed table maps an id back to exactly one class -/
theorem id_identifies_class (t : List (Nat × Nat)) (n : Nat) (h : TableOk t n) (c c' i : Nat)
    (h1 : lookup t c = some i) (h2 : lookup t c' = some i) : c = c' := by
  unfold lookup at h1 h2
  obtain ⟨p, hp, hpi⟩ := Option.map_eq_some_iff.mp h1
  obtain ⟨q, hq, hqi⟩ := Option.map_eq_some_iff.mp h2
  have hpm := List.mem_of_find?_eq_some hp
  have hqm := List.mem_of_find?_eq_some hq
  have hpc : p.1 = c := by simpa using List.find?_some hp
  have hqc : q.1 = c' := by simpa using List.find?_some hq
  have : p = q := by
    have hinj := List.inj_on_of_nodup_map h.ids
    exact hinj hpm hqm (by rw [hpi, hqi])
  rw [← hpc, ← hqc, this]

/-! ## over operation sequences (everything but `restore`) -/

inductive TOp (σ : Type) where
  | calibrate (n : Nat)
  | checkpoint
  | setSamplers (ss : List (Smp σ))
  | setScheduler (ss : List (Smp σ)) (sched : Sched)

def applyTOp (c : Comp Θ S L σ) (s : State Θ S L σ) : TOp σ → State Θ S L σ
  | .calibrate n => (calibrate c n s).1
  | .checkpoint => checkpoint s
  | .setSamplers ss => setSamplers ss s
  | .setScheduler ss sc => setScheduler ss sc s

/-- invariant: well-formed table that covers the current line-up and every class that ever produced a batch;
labels of the history are the table's ids of those classes -/
structure TInv (c : Comp Θ S L σ) (s : State Θ S L σ) : Prop where
  ok : ∃ n, TableOk s.table n
  cov : ∀ m ∈ s.core.samplers, (lookup s.table m.cls).isSome
  logcov : ∀ r ∈ s.core.log, (lookup s.table r.cls).isSome
  lab : Labelled s.table s.core

theorem runBatch_samplers_cls (c : Comp Θ S L σ) (t : List (Nat × Nat)) (k : Core Θ S L σ) :
    ∀ m ∈ (runBatch c t k).1.samplers, ∃ m' ∈ k.samplers, m'.cls = m.cls := by
  intro m hm
  unfold runBatch at hm
  cases hsm : k.samplers[nextIdx c k]? with
  | none => simp only [hsm] at hm; exact ⟨m, hm, rfl⟩
  | some smp =>
    simp only [hsm] at hm
    have hset : ∀ st', m ∈ k.samplers.set (nextIdx c k) { smp with st := st' } → ∃ m' ∈ k.samplers, m'.cls = m.cls := by
      intro st' h
      rcases List.mem_or_eq_of_mem_set h with h | h
      · exact ⟨m, h, rfl⟩
      · exact ⟨smp, List.mem_of_getElem? hsm, by rw [h]⟩
    split at hm
    · exact ⟨m, hm, rfl⟩
    · split at hm
      · exact hset _ hm
      · split at hm
        · exact hset _ hm
        · exact hset _ hm

theorem tinv_runBatch (c : Comp Θ S L σ) (s : State Θ S L σ) (h : TInv c s) :
    (∀ m ∈ (runBatch c s.table s.core).1.samplers, (lookup s.table m.cls).isSome) ∧
    (∀ r ∈ (runBatch c s.table s.core).1.log, (lookup s.table r.cls).isSome) ∧
    Labelled s.table (runBatch c s.table s.core).1 := by
  refine ⟨?_, ?_, ?_⟩
  · intro m hm
    obtain ⟨m', hm', hc⟩ := runBatch_samplers_cls c s.table s.core m hm
    rw [← hc]; exact h.cov m' hm'
  · cases hf : (runBatch c s.table s.core).2 with
    | none =>
      obtain ⟨smp, hsmp, _, _, _, _, _, _, _, _, _, hlog⟩ := (runBatch_ok c s.table s.core hf).smp_ex
      intro r hr
      rw [hlog] at hr
      rcases List.mem_append.mp hr with hr | hr
      · exact h.logcov r hr
      · simp at hr; subst hr; exact h.cov smp (List.mem_of_getElem? hsmp)
    | some f =>
      obtain ⟨_, _, hl, _⟩ := runBatch_fault c s.table s.core f hf
      rw [hl]; exact h.logcov
  · cases hf : (runBatch c s.table s.core).2 with
    | none => exact labelled_batch c s.table s.core _ (runBatch_ok c s.table s.core hf) h.lab
    | some f =>
      obtain ⟨hh, _, hl, _⟩ := runBatch_fault c s.table s.core f hf
      exact labelled_of_hist_eq s.table s.core _ hh hl h.lab


theorem tinv_calLoop (c : Comp Θ S L σ) (n : Nat) (s : State Θ S L σ) (h : TInv c s) :
    TInv c (calLoop c n s).1 := by
  induction n generalizing s with
  | zero => exact h
  | succ n ih =>
    obtain ⟨h1, h2, h3⟩ := tinv_runBatch c s h
    apply calLoop_cases c n s (fun r => TInv c r.1)
    · intro k f heq; rw [heq] at h1 h2 h3; exact ⟨h.ok, h1, h2, h3⟩
    · intro k heq _; rw [heq] at h1 h2 h3; exact ⟨h.ok, h1, h2, h3⟩
    · intro k heq _; rw [heq] at h1 h2 h3; exact ih _ ⟨h.ok, h1, h2, h3⟩

theorem tinv_setSeeds (c : Comp Θ S L σ) (s : State Θ S L σ) (h : TInv c s) :
    TInv c { s with core := setSeeds c s.core } := by
  refine ⟨h.ok, ?_, h.logcov, ⟨h.lab.log_len, h.lab.batchNum_eq, h.lab.method_eq, h.lab.nSampled_eq⟩⟩
  intro m hm
  simp only [setSeeds, List.mem_map] at hm
  obtain ⟨p, hp, rfl⟩ := hm
  have : p.1 ∈ s.core.samplers := by
    have := (List.mem_zipIdx_iff_getElem? (x := p)).mp hp
    exact List.mem_of_getElem? this
  exact h.cov p.1 this

/-- labels stay correct when the table grows (ids are never reassigned) -/
theorem labelled_mono (t t' : List (Nat × Nat)) (k : Core Θ S L σ) (hp : t <+: t')
    (hcov : ∀ r ∈ k.log, (lookup t r.cls).isSome) (h : Labelled t k) : Labelled t' k := by
  refine ⟨h.log_len, h.batchNum_eq, ?_, h.nSampled_eq⟩
  rw [h.method_eq]
  congr 1
  apply List.map_congr_left
  intro r hr
  obtain ⟨i, hi⟩ := Option.isSome_iff_exists.mp (hcov r hr)
  rw [hi, lookup_stable t t' hp r.cls i hi]

theorem tinv_setLineup (c : Comp Θ S L σ) (s : State Θ S L σ) (ss : List (Smp σ)) (sched : Sched)
    (h : TInv c s) :
    TInv c { s with core := { s.core with samplers := ss, sched := sched },
                    table := updateTable s.table (classes ss) } := by
  obtain ⟨n, hok⟩ := h.ok
  obtain ⟨hpre, hcov, hok'⟩ := updateTable_spec s.table (classes ss) n hok
  refine ⟨hok', ?_, ?_, ?_⟩
  · intro m hm; exact hcov m.cls (List.mem_map_of_mem hm)
  · intro r hr
    obtain ⟨i, hi⟩ := Option.isSome_iff_exists.mp (h.logcov r hr)
    simp only
    rw [lookup_stable _ _ hpre r.cls i hi]; rfl
  · have := labelled_mono s.table (updateTable s.table (classes ss)) s.core hpre h.logcov h.lab
    exact ⟨this.log_len, this.batchNum_eq, this.method_eq, this.nSampled_eq⟩

theorem tinv_applyTOp (c : Comp Θ S L σ) (s : State Θ S L σ) (op : TOp σ) (h : TInv c s) :
    TInv c (applyTOp c s op) := by
  cases op with
  | calibrate n =>
    simp only [applyTOp, calibrate]
    split
    · exact tinv_calLoop c n _ (tinv_setSeeds c s h)
    · exact tinv_calLoop c n _ h
  | checkpoint => exact ⟨h.ok, h.cov, h.logcov, h.lab⟩
  | setSamplers ss =>
    have := tinv_setLineup c s ss s.core.sched h
    exact ⟨this.ok, this.cov, this.logcov, this.lab⟩
  | setScheduler ss sc => exact tinv_setLineup c s ss sc h

theorem table_mono_applyTOp (c : Comp Θ S L σ) (s : State Θ S L σ) (op : TOp σ) :
    s.table <+: (applyTOp c s op).table := by
  cases op with
  | calibrate n =>
    simp only [applyTOp, calibrate]
    split
    · rw [calLoop_table]; exact List.prefix_refl _
    · rw [calLoop_table]; exact List.prefix_refl _
  | checkpoint => exact List.prefix_refl _
  | setSamplers ss => exact addClasses_prefix _ _ _
  | setScheduler ss sc => exact addClasses_prefix _ _ _

/-- **C18.**  For every line-up (repeated classes included) and every sequence of `calibrate` /
`create_checkpoint` / `set_samplers` / `set_scheduler`: the id table is well formed (one id per class, one
class per id), covers the current line-up and every class that ever produced a batch, and the id stored with
every sample is — in the *current* table — the id of the class of the sampler that produced it. -/
theorem labels_identify_class (c : Comp Θ S L σ) (cfg : Cfg) (samplers : List (Smp σ)) (sched : Sched)
    (ops : List (TOp σ)) : TInv c (ops.foldl (applyTOp c) (init cfg samplers sched)) := by
  have h0 : TInv c (init cfg samplers sched : State Θ S L σ) := by
    obtain ⟨hcov, hok⟩ := constructTable_spec (classes samplers)
    exact ⟨hok, fun m hm => hcov m.cls (List.mem_map_of_mem hm), by intro r hr; simp [init] at hr,
           ⟨rfl, rfl, rfl, rfl⟩⟩
  have : ∀ s : State Θ S L σ, TInv c s → TInv c (ops.foldl (applyTOp c) s) := by
    induction ops with
    | nil => intro s h; exact h
    | cons op ops ih => intro s h; exact ih _ (tinv_applyTOp c s op h)
  exact this _ h0

/-- **never reassigned**: along any such sequence the table of an earlier state is a prefix of every later one -/
theorem table_monotone (c : Comp Θ S L σ) (s : State Θ S L σ) (ops : List (TOp σ)) :
    s.table <+: (ops.foldl (applyTOp c) s).table := by
  induction ops generalizing s with
  | nil => exact List.prefix_refl _
  | cons op ops ih => exact (table_mono_applyTOp c s op).trans (ih _)

/-! ## `restore`: the table stored with the checkpoint comes back -/

/-- what the saving folder holds satisfies the same invariant as a live object: the stored table is well
formed, covers the stored line-up and every class in the stored history, and the stored labels are its ids -/
structure DiskInv (c : Comp Θ S L σ) (s : State Θ S L σ) : Prop where
  both : s.disk.isSome → s.diskTable.isSome
  inv : ∀ d t, s.disk = some d → s.diskTable = some t →
    TInv c ({ core := d, table := t, disk := s.disk, diskTable := s.diskTable } : State Θ S L σ)

theorem tinv_congr (c : Comp Θ S L σ) {s s' : State Θ S L σ} (h : TInv c s) (hc : s.core = s'.core) (ht : s.table = s'.table) :
    TInv c s' := by
  obtain ⟨h1, h2, h3, h4⟩ := h
  exact ⟨ht ▸ h1, by rw [← hc, ← ht]; exact h2, by rw [← hc, ← ht]; exact h3, by rw [← hc, ← ht]; exact h4⟩

theorem diskInv_stepState (c : Comp Θ S L σ) (s : State Θ S L σ) (k : Core Θ S L σ) (hd : DiskInv c s)
    (hk : TInv c ({ s with core := k } : State Θ S L σ)) : DiskInv c (stepState s k) := by
  unfold stepState
  by_cases hf : k.cfg.folder = true
  · simp only [hf, if_true]
    refine ⟨fun _ => rfl, ?_⟩
    intro d t hd' ht'
    simp only [Option.some.injEq] at hd' ht'
    subst hd' ht'
    exact tinv_congr c hk rfl rfl
  · simp only [hf, if_false]
    refine ⟨hd.both, ?_⟩
    intro d t hd' ht'
    exact tinv_congr c (hd.inv d t hd' ht') rfl rfl

theorem inv_calLoop_disk (c : Comp Θ S L σ) (n : Nat) (s : State Θ S L σ) (h : TInv c s) (hd : DiskInv c s) :
    TInv c (calLoop c n s).1 ∧ DiskInv c (calLoop c n s).1 := by
  induction n generalizing s with
  | zero => exact ⟨h, hd⟩
  | succ n ih =>
    obtain ⟨h1, h2, h3⟩ := tinv_runBatch c s h
    apply calLoop_cases c n s (fun r => TInv c r.1 ∧ DiskInv c r.1)
    · intro k f heq; rw [heq] at h1 h2 h3
      exact ⟨⟨h.ok, h1, h2, h3⟩, ⟨hd.both, fun d t a b => tinv_congr c (hd.inv d t a b) rfl rfl⟩⟩
    · intro k heq _; rw [heq] at h1 h2 h3
      have hk : TInv c ({ s with core := k } : State Θ S L σ) := ⟨h.ok, h1, h2, h3⟩
      exact ⟨tinv_congr c hk rfl rfl, diskInv_stepState c s k hd hk⟩
    · intro k heq _; rw [heq] at h1 h2 h3
      have hk : TInv c ({ s with core := k } : State Θ S L σ) := ⟨h.ok, h1, h2, h3⟩
      exact ih _ (tinv_congr c hk rfl rfl) (diskInv_stepState c s k hd hk)

/-- all operations, `restore` included -/
inductive ROp (σ : Type) where
  | op (o : TOp σ)
  | restore

def applyROp (c : Comp Θ S L σ) (s : State Θ S L σ) : ROp σ → State Θ S L σ
  | .op o => applyTOp c s o
  | .restore => (restore s).getD s

theorem inv_applyROp (c : Comp Θ S L σ) (s : State Θ S L σ) (op : ROp σ) (h : TInv c s) (hd : DiskInv c s) :
    TInv c (applyROp c s op) ∧ DiskInv c (applyROp c s op) := by
  cases op with
  | restore =>
    simp only [applyROp, restore]
    cases hdk : s.disk with
    | none => simpa [hdk] using And.intro h hd
    | some d =>
      obtain ⟨t, ht⟩ := Option.isSome_iff_exists.mp (hd.both (by simp [hdk]))
      simp only [Option.map_some, Option.getD_some, ht]
      have := hd.inv d t hdk ht
      refine ⟨tinv_congr c this rfl rfl, ⟨fun _ => by simp [ht], ?_⟩⟩
      intro d' t' a b
      simp only at a b
      exact tinv_congr c (hd.inv d' t' (hdk ▸ a) (ht ▸ b)) rfl rfl
  | op o =>
    cases o with
    | calibrate n =>
      simp only [applyROp, applyTOp, calibrate]
      split
      · exact inv_calLoop_disk c n _ (tinv_setSeeds c s h)
          ⟨hd.both, fun d t a b => tinv_congr c (hd.inv d t a b) rfl rfl⟩
      · exact inv_calLoop_disk c n _ h hd
    | checkpoint =>
      simp only [applyROp, applyTOp, checkpoint]
      refine ⟨⟨h.ok, h.cov, h.logcov, h.lab⟩, ⟨fun _ => rfl, ?_⟩⟩
      intro d t a b
      simp only [Option.some.injEq] at a b
      subst a b
      exact ⟨h.ok, h.cov, h.logcov, h.lab⟩
    | setSamplers ss =>
      have := tinv_setLineup c s ss s.core.sched h
      exact ⟨⟨this.ok, this.cov, this.logcov, this.lab⟩,
             ⟨hd.both, fun d t a b => tinv_congr c (hd.inv d t a b) rfl rfl⟩⟩
    | setScheduler ss sc =>
      exact ⟨tinv_setLineup c s ss sc h,
             ⟨hd.both, fun d t a b => tinv_congr c (hd.inv d t a b) rfl rfl⟩⟩

/-- **C18 with restore.**  For every sequence of `calibrate` / `create_checkpoint` / `set_samplers` /
`set_scheduler` / `restore_from_checkpoint`, in the state reached — and in what any checkpoint holds — the id
table is well formed, covers the line-up and every class in the history, and every stored label is the table's
id of the class that produced the row: the id-to-name table is recoverable from every checkpoint the
calibrator writes. -/
theorem labels_identify_class_with_restore (c : Comp Θ S L σ) (cfg : Cfg) (samplers : List (Smp σ)) (sched : Sched)
    (ops : List (ROp σ)) :
    TInv c (ops.foldl (applyROp c) (init cfg samplers sched)) ∧
    DiskInv c (ops.foldl (applyROp c) (init cfg samplers sched)) := by
  have h0 := labels_identify_class c cfg samplers sched []
  have hd0 : DiskInv c (init cfg samplers sched : State Θ S L σ) :=
    ⟨by simp [init], by intro d t a; simp [init] at a⟩
  have : ∀ s : State Θ S L σ, TInv c s → DiskInv c s →
      TInv c (ops.foldl (applyROp c) s) ∧ DiskInv c (ops.foldl (applyROp c) s) := by
    induction ops with
    | nil => intro s h hd; exact ⟨h, hd⟩
    | cons op ops ih => intro s h hd; obtain ⟨a, b⟩ := inv_applyROp c s op h hd; exact ih _ a b
  exact this _ (by simpa using h0) hd0

/-- restoring the checkpoint of a state gives back its table exactly -/
theorem restore_checkpoint_table (s : State Θ S L σ) :
    (restore (checkpoint s)).map (·.table) = some s.table := rfl

/-- the defect that was repaired: rebuilding the table from the current line-up (what `restore` and the
plotting lookup used to do) reassigns ids after `set_samplers` — class 1 had id 1, a rebuilt table gives it 0 -/
theorem rebuilt_table_reassigns_ids :
    let t0 := constructTable [0]
    let t1 := updateTable t0 [1]
    let tR := constructTable [1]
    lookup t1 1 = some 1 ∧ lookup tR 1 = some 0 ∧ lookup t1 0 = some 0 ∧ lookup tR 0 = none := by decide

/-! ### non-vacuity -/
example : constructTable [3, 5, 3, 7] = [(3, 0), (5, 1), (7, 2)] := by decide
example : updateTable [(3, 0), (5, 1), (7, 2)] [5, 9, 9, 4] = [(3, 0), (5, 1), (7, 2), (9, 3), (4, 4)] := by decide

end BlackIt.Calibrator
