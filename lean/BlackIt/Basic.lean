def hello := "world"
