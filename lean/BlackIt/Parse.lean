import BlackIt.Wire
/-
A tiny token-stream parser for driver requests: `P α = StateT (List String) Option α`.
-/
namespace BlackIt.Parse
open BlackIt.Wire

abbrev P := StateT (List String) Option

def tok : P String := fun ts => match ts with
  | [] => none
  | t :: r => some (t, r)

def nat : P Nat := do let t ← tok; match t.toNat? with | some n => pure n | none => failure
def int : P Int := do let t ← tok; match t.toInt? with | some n => pure n | none => failure
def flt : P Float := do let t ← tok; match parseFloat? t with | some n => pure n | none => failure
def rat : P Rat := do let t ← tok; match parseRat? t with | some n => pure n | none => failure
def bool : P Bool := do let t ← tok; match t with | "1" => pure true | "0" => pure false | _ => failure

def rep {α} (p : P α) : Nat → P (List α)
  | 0 => pure []
  | n + 1 => do let x ← p; let xs ← rep p n; pure (x :: xs)

/-- length-prefixed list -/
def list {α} (p : P α) : P (List α) := do let n ← nat; rep p n

def eof : P Unit := fun ts => match ts with | [] => some ((), []) | _ => none

def run {α} (p : P α) (ts : List String) : Option α :=
  match (do let x ← p; eof; pure x : P α) ts with
  | some (x, _) => some x
  | none => none

end BlackIt.Parse
