import BlackIt.Model.RLProtocol
import Mathlib.Data.List.Basic
import Mathlib.Tactic.Linarith
set_option linter.unusedSectionVars false
set_option linter.unusedSimpArgs false
set_option linter.unusedVariables false
set_option maxHeartbeats 4000000

/-! The inductive invariant of the RL exchange and the confluence lemmas (helpers for C10). -/
namespace BlackIt.RL

/-- what the outcome queue holds behind a possible outcome: the end marker once it has been put -/
def tail (m : MPc) : List (Option Nat) := if m = .endJoin then [none] else []

/-- **the inductive invariant** ("one token circulates"): the agent holds the token (choosing, putting), or its
action sits in the action queue, or the batch it chose is running, or the outcome sits in the outcome queue.
`learned` always equals `executed`, except for the one outcome that is in flight. -/
def Inv (s : St) : Prop :=
  (s.boot = true → s.executed = []) ∧ (s.mpc = .running none → s.boot = true) ∧
  (∀ a, s.mpc = .running (some a) → s.boot = false) ∧
  (match s.apc, s.mpc with
   | .dead, .idle => s.actionQ = [] ∧ s.outcomeQ = [] ∧ s.learned = s.executed
   | .dead, .endJoin => s.outcomeQ = [] ∧ s.learned = s.executed ∧ s.actionQ.length ≤ 1
   | .dead, .endDrain => s.outcomeQ = [] ∧ s.learned = s.executed ∧ s.actionQ.length ≤ 1
   | .dead, _ => False
   | _, .idle => False
   | _, .endDrain => False
   | .policy, .running (some _) => False
   | .policy, m => s.actionQ = [] ∧ s.learned = s.executed ∧ s.outcomeQ = tail m
   | .put _, .running (some _) => False
   | .put _, m => s.actionQ = [] ∧ s.learned = s.executed ∧ s.outcomeQ = tail m
   | .get a, .running (some a') => a' = a ∧ s.actionQ = [] ∧ s.outcomeQ = [] ∧ s.learned = s.executed
   | .get a, m =>
        (s.actionQ = [a] ∧ s.learned = s.executed ∧ s.outcomeQ = tail m) ∨
        (s.actionQ = [] ∧ s.executed = s.learned ++ [(s.batchNo, a)] ∧ s.outcomeQ = some s.batchNo :: tail m ∧
           m ≠ .running none) ∨
        (s.actionQ = [] ∧ (m = .endPut ∨ m = .endJoin) ∧ s.learned = s.executed ∧ s.outcomeQ = tail m)
   | .learn a b, .running (some _) => False
   | .learn a b, m => s.actionQ = [] ∧ b = s.batchNo ∧ s.executed = s.learned ++ [(b, a)] ∧ s.outcomeQ = tail m ∧
        m ≠ .running none)

theorem inv_init : Inv init := by simp [Inv, init]

theorem inv_step (s s' : St) (c : Choice) (h : Inv s) (hs : step s c = some s') : Inv s' := by
  rcases s with ⟨mpc, apc, aq, oq, boot, bn, ch, ex, le⟩
  cases c <;> simp only [step] at hs
  all_goals (
    rcases mpc with _|_|(_|am)|_|_|_ <;> rcases apc with _|_|_|_|_ <;>
      simp only [reduceCtorEq] at hs <;> (try (split at hs)) <;> (try (split at hs)) <;>
      (try (simp only [Option.some.injEq, reduceCtorEq] at hs)) <;> (try subst hs) <;>
      simp_all [Inv, tail] <;> (try grind) <;>
      (try (rcases h with ⟨h1, h2 | h2⟩ <;> simp_all)))


/-- the move of thread `t` (`true` = calibration thread) -/
def stepT (f : List AgEv → Nat) (t : Bool) (d : DSt) : Option DSt := if t then stepM d else stepA f d

theorem drun_cons (f : List AgEv → Nat) (d : DSt) (t : Bool) (ts : List Bool) :
    drun f d (t :: ts) = (stepT f t d).bind (fun d' => drun f d' ts) := by
  simp only [drun, stepT]
  cases (if t = true then stepM d else stepA f d) <;> rfl

/-- **diamond**: in a state satisfying the invariant, a move of the calibration thread and a move of the agent
thread commute -/
theorem diamond (f : List AgEv → Nat) (d d1 d2 : DSt) (hinv : Inv d.s)
    (hm : stepM d = some d1) (ha : stepA f d = some d2) :
    ∃ d3, stepA f d1 = some d3 ∧ stepM d2 = some d3 := by
  rcases d with ⟨⟨mpc, apc, aq, oq, boot, bn, ch, ex, le⟩, sess, left, fn, hist⟩
  rcases mpc with _|_|(_|am)|_|_|_ <;> rcases apc with _|_|_|a|_ <;>
    rcases oq with _|⟨(_|b), oq⟩ <;> rcases aq with _|⟨x, aq⟩ <;>
    simp_all [Inv, tail, stepM, stepA, step]
  all_goals (
    (try subst ha)
    (repeat' split at hm) <;> (try (simp only [Option.some.injEq, reduceCtorEq] at hm)) <;> (try subst hm) <;>
      (try (simp_all [stepM, stepA, step])) <;>
      (try (exfalso; have := hinv.1; simp_all)))

/-- every move of either thread is a `step` of the protocol, so the invariant is preserved -/
theorem stepM_is_step (d d' : DSt) (h : stepM d = some d') : ∃ c, step d.s c = some d'.s := by
  unfold stepM at h
  split at h
  · split at h
    · cases h
    · simp only [Option.map_eq_some_iff] at h; obtain ⟨s', hs, rfl⟩ := h; exact ⟨_, hs⟩
  · split at h <;> (simp only [Option.map_eq_some_iff] at h; obtain ⟨s', hs, rfl⟩ := h; exact ⟨_, hs⟩)
  · split at h <;> (simp only [Option.map_eq_some_iff] at h; obtain ⟨s', hs, rfl⟩ := h; exact ⟨_, hs⟩)
  · simp only [Option.map_eq_some_iff] at h; obtain ⟨s', hs, rfl⟩ := h; exact ⟨_, hs⟩

theorem stepA_is_step (f : List AgEv → Nat) (d d' : DSt) (h : stepA f d = some d') :
    ∃ c, step d.s c = some d'.s := by
  unfold stepA at h
  split at h <;> (simp only [Option.map_eq_some_iff] at h; obtain ⟨s', hs, rfl⟩ := h; exact ⟨_, hs⟩)

theorem inv_stepT (f : List AgEv → Nat) (t : Bool) (d d' : DSt) (hinv : Inv d.s) (h : stepT f t d = some d') :
    Inv d'.s := by
  unfold stepT at h
  split at h
  · obtain ⟨c, hc⟩ := stepM_is_step d d' h; exact inv_step _ _ c hinv hc
  · obtain ⟨c, hc⟩ := stepA_is_step f d d' h; exact inv_step _ _ c hinv hc

theorem diamondT (f : List AgEv → Nat) (t t' : Bool) (hne : t ≠ t') (d d1 d2 : DSt) (hinv : Inv d.s)
    (h1 : stepT f t d = some d1) (h2 : stepT f t' d = some d2) :
    ∃ d3, stepT f t' d1 = some d3 ∧ stepT f t d2 = some d3 := by
  cases t <;> cases t' <;> simp only [stepT, Bool.false_eq_true, if_true, if_false] at h1 h2 ⊢
  · exact absurd rfl hne
  · obtain ⟨d3, h3, h4⟩ := diamond f d d2 d1 hinv h2 h1; exact ⟨d3, h4, h3⟩
  · exact diamond f d d1 d2 hinv h1 h2
  · exact absurd rfl hne

/-- a thread that can move in `d` can be made to move first: any complete run from `d` can be rearranged into a
run of the same length that starts with that move -/
theorem strip (f : List AgEv → Nat) (σ : List Bool) (d e d1 : DSt) (t : Bool) (hinv : Inv d.s)
    (hrun : drun f d σ = some e) (hterm : terminal f e = true) (ht : stepT f t d = some d1) :
    ∃ σ', σ'.length + 1 = σ.length ∧ drun f d1 σ' = some e := by
  induction σ generalizing d d1 with
  | nil =>
    simp only [drun, Option.some.injEq] at hrun
    subst hrun
    simp only [terminal, Bool.and_eq_true, Option.isNone_iff_eq_none] at hterm
    cases t <;> simp only [stepT, Bool.false_eq_true, if_true, if_false] at ht
    · rw [hterm.2] at ht; cases ht
    · rw [hterm.1] at ht; cases ht
  | cons t' σ ih =>
    rw [drun_cons] at hrun
    cases h2 : stepT f t' d with
    | none => simp [h2] at hrun
    | some d2 =>
      simp only [h2, Option.bind_some] at hrun
      by_cases hteq : t = t'
      · subst hteq
        rw [ht] at h2; cases h2
        exact ⟨σ, rfl, hrun⟩
      · obtain ⟨d3, h3, h4⟩ := diamondT f t t' hteq d d1 d2 hinv ht h2
        obtain ⟨σ'', hl, hr⟩ := ih d2 d3 (inv_stepT f t' d d2 hinv h2) hrun h4
        refine ⟨t' :: σ'', by simp [hl], ?_⟩
        rw [drun_cons, h3]; exact hr

end BlackIt.RL
