import BlackIt.Model.Pso
import Mathlib.Algebra.Order.Field.Basic
import Mathlib.Tactic.Linarith
import Mathlib.Tactic.Ring
set_option linter.unusedSectionVars false
set_option linter.unusedSimpArgs false
set_option linter.unusedVariables false

/-!
Helper lemmas for the particle-swarm model (`BlackIt/Model/Pso.lean`).
-/
namespace BlackIt.Pso
open BlackIt.Samplers

/-! ### clipping and scaling (positions in an ordered field) -/
section Field
variable {α β : Type} [Field α] [LinearOrder α] [IsStrictOrderedRing α]

theorem clip_between (x lo hi : α) (h : lo ≤ hi) : lo ≤ clip x lo hi ∧ clip x lo hi ≤ hi := by
  unfold clip
  split
  · exact ⟨le_refl _, h⟩
  · split
    · exact ⟨h, le_refl _⟩
    · constructor <;> [exact not_lt.mp ‹_›; exact not_lt.mp ‹_›]

theorem mem_zipWith_clip {x v : List α} {y : α} (h : y ∈ List.zipWith (fun xi vi => clip (xi + vi) (0 : α) 1) x v) :
    0 ≤ y ∧ y ≤ 1 := by
  induction x generalizing v with
  | nil => simp at h
  | cons a x ih =>
    cases v with
    | nil => simp at h
    | cons b v =>
      simp only [List.zipWith_cons_cons, List.mem_cons] at h
      rcases h with h | h
      · subst h; exact clip_between _ _ _ zero_le_one
      · exact ih h

theorem mem_zipWith_rows {X V : List (List α)} {row : List α}
    (h : row ∈ List.zipWith (fun x v => List.zipWith (fun xi vi => clip (xi + vi) (0 : α) 1) x v) X V) :
    ∀ y ∈ row, 0 ≤ y ∧ y ≤ 1 := by
  induction X generalizing V with
  | nil => simp at h
  | cons a X ih =>
    cases V with
    | nil => simp at h
    | cons b V =>
      simp only [List.zipWith_cons_cons, List.mem_cons] at h
      rcases h with h | h
      · subst h; intro y hy; exact mem_zipWith_clip hy
      · exact ih h

/-- a position in `[0, 1]` is mapped between the two bounds -/
theorem scale_between (x l h : α) (hx0 : 0 ≤ x) (hx1 : x ≤ 1) (hb : l ≤ h) : l ≤ l + x * (h - l) ∧ l + x * (h - l) ≤ h := by
  have hd : 0 ≤ h - l := sub_nonneg.mpr hb
  constructor
  · have := mul_nonneg hx0 hd; linarith
  · have : x * (h - l) ≤ 1 * (h - l) := mul_le_mul_of_nonneg_right hx1 hd
    linarith

theorem zipWith_scale_between (row : List α) (bnds : List (α × α))
    (hrow : ∀ y ∈ row, 0 ≤ y ∧ y ≤ 1) (hb : ∀ b ∈ bnds, b.1 ≤ b.2) (j : Nat) (v : α)
    (hv : (List.zipWith (fun x (b : α × α) => b.1 + x * (b.2 - b.1)) row bnds)[j]? = some v) :
    ∃ b, bnds[j]? = some b ∧ b.1 ≤ v ∧ v ≤ b.2 := by
  rw [List.getElem?_zipWith] at hv
  cases hx : row[j]? with
  | none => simp [hx] at hv
  | some x =>
    cases hbj : bnds[j]? with
    | none => simp [hx, hbj] at hv
    | some b =>
      simp only [hx, hbj, Option.some.injEq] at hv
      subst hv
      have hxm : x ∈ row := List.mem_of_getElem? hx
      have hbm : b ∈ bnds := List.mem_of_getElem? hbj
      exact ⟨b, rfl, scale_between x b.1 b.2 (hrow x hxm).1 (hrow x hxm).2 (hb b hbm)⟩

end Field

/-! ### `_update_best`: what one iteration and the whole loop do to the personal bests -/
section Order
variable {α β : Type} [LinearOrder β]

@[simp] theorem updateOne_len (s : Swarm α β) (pid : Nat) (p : List α) (l : β) :
    (updateOne s pid p l).bestLoss.length = s.bestLoss.length ∧ (updateOne s pid p l).bestPos.length = s.bestPos.length := by
  unfold updateOne
  split
  · exact ⟨rfl, rfl⟩
  · split
    · dsimp only
      split <;> [split; skip] <;> simp
    · exact ⟨rfl, rfl⟩

theorem updateOne_other (s : Swarm α β) (pid : Nat) (p : List α) (l : β) :
    (updateOne s pid p l).pos = s.pos ∧ (updateOne s pid p l).vel = s.vel ∧ (updateOne s pid p l).bestPoint = s.bestPoint ∧
    (updateOne s pid p l).prevStart = s.prevStart ∧ (updateOne s pid p l).aliased = s.aliased := by
  unfold updateOne
  split
  · simp
  · split
    · dsimp only
      split <;> [split; skip] <;> simp
    · simp

/-- the personal-best losses after one iteration: entry `pid` becomes `min`, every other entry is untouched -/
theorem updateOne_bestLoss (s : Swarm α β) (pid : Nat) (p : List α) (l : β) (j : Nat) :
    (updateOne s pid p l).bestLoss[j]? =
      if j = pid then (s.bestLoss[j]?).map (fun bl => min bl l) else s.bestLoss[j]? := by
  unfold updateOne
  split
  · rename_i hnone
    split
    · subst ‹j = pid›; simp [hnone]
    · rfl
  · rename_i bl hbl
    have hpid : pid < s.bestLoss.length := by
      rcases Nat.lt_or_ge pid s.bestLoss.length with h | h
      · exact h
      · simp [List.getElem?_eq_none h] at hbl
    split
    · rename_i hlt
      have hset : ((s.bestLoss.set pid l)[j]? = if j = pid then some l else s.bestLoss[j]?) := by
        by_cases hj : j = pid
        · subst hj; simp [hpid]
        · simp [hj, List.getElem?_set_ne (Ne.symm hj)]
      dsimp only
      have : ∀ (t : Swarm α β), t.bestLoss = s.bestLoss.set pid l →
          t.bestLoss[j]? = if j = pid then (s.bestLoss[j]?).map (fun bl => min bl l) else s.bestLoss[j]? := by
        intro t ht
        rw [ht, hset]
        by_cases hj : j = pid
        · subst hj; simp [hbl, min_eq_right (le_of_lt hlt)]
        · simp [hj]
      split
      · split <;> exact this _ rfl
      · exact this _ rfl
    · rename_i hnlt
      by_cases hj : j = pid
      · subst hj; simp [hbl, min_eq_left (not_lt.mp hnlt)]
      · simp [hj]

/-- the personal-best positions after one iteration: entry `pid` becomes the evaluated point exactly when its loss
improved, every other entry is untouched -/
theorem updateOne_bestPos (s : Swarm α β) (pid : Nat) (p : List α) (l : β) (j : Nat) :
    (updateOne s pid p l).bestPos[j]? =
      if j = pid ∧ (∃ bl, s.bestLoss[pid]? = some bl ∧ l < bl) ∧ pid < s.bestPos.length then some p else s.bestPos[j]? := by
  unfold updateOne
  split
  · rename_i hnone
    simp [hnone]
  · rename_i bl hbl
    split
    · rename_i hlt
      have hset : ((s.bestPos.set pid p)[j]? = if j = pid ∧ pid < s.bestPos.length then some p else s.bestPos[j]?) := by
        by_cases hj : j = pid
        · subst hj
          by_cases hl : j < s.bestPos.length
          · simp [hl]
          · simp [hl, List.getElem?_eq_none (not_lt.mp hl)]
        · simp [hj, List.getElem?_set_ne (Ne.symm hj)]
      have hex : (∃ bl', s.bestLoss[pid]? = some bl' ∧ l < bl') := ⟨bl, hbl, hlt⟩
      dsimp only
      have : ∀ (t : Swarm α β), t.bestPos = s.bestPos.set pid p →
          t.bestPos[j]? = if j = pid ∧ (∃ bl, s.bestLoss[pid]? = some bl ∧ l < bl) ∧ pid < s.bestPos.length then some p else s.bestPos[j]? := by
        intro t ht
        rw [ht, hset]
        simp only [hex, true_and]
      split
      · split <;> exact this _ rfl
      · exact this _ rfl
    · rename_i hnlt
      have : ¬ (∃ bl', s.bestLoss[pid]? = some bl' ∧ l < bl') := by
        rintro ⟨bl', h1, h2⟩
        rw [hbl] at h1; cases h1; exact hnlt h2
      simp [this]

/-- what the whole loop of `_update_best` does to the personal-best losses: particle `j` of the slice gets `min` with its own loss -/
theorem updateLoop_bestLoss (s : Swarm α β) (i : Nat) (pairs : List (List α × β)) (j : Nat) :
    (updateLoop s i pairs).bestLoss[j]? =
      match (if i ≤ j then pairs[j - i]? else none) with
      | some pl => (s.bestLoss[j]?).map (fun bl => min bl pl.2)
      | none => s.bestLoss[j]? := by
  induction pairs generalizing s i with
  | nil => simp [updateLoop]
  | cons pl rest ih =>
    obtain ⟨p, l⟩ := pl
    simp only [updateLoop]
    rw [ih]
    rcases Nat.lt_trichotomy j i with h | h | h
    · have h1 : ¬ (i + 1 ≤ j) := by omega
      have h2 : ¬ (i ≤ j) := by omega
      have h3 : j ≠ i := by omega
      simp [h1, h2, updateOne_bestLoss, h3]
    · subst h
      have h1 : ¬ (j + 1 ≤ j) := by omega
      simp [h1, updateOne_bestLoss]
    · have h1 : i + 1 ≤ j := by omega
      have h2 : i ≤ j := by omega
      have h3 : j ≠ i := by omega
      have h4 : j - i = (j - (i + 1)) + 1 := by omega
      simp only [h1, h2, if_true, updateOne_bestLoss, h3, if_false]
      rw [h4, List.getElem?_cons_succ]

theorem updateLoop_len (s : Swarm α β) (i : Nat) (pairs : List (List α × β)) :
    (updateLoop s i pairs).bestLoss.length = s.bestLoss.length ∧ (updateLoop s i pairs).bestPos.length = s.bestPos.length := by
  induction pairs generalizing s i with
  | nil => simp [updateLoop]
  | cons pl rest ih =>
    obtain ⟨p, l⟩ := pl
    simp only [updateLoop]
    rw [(ih _ _).1, (ih _ _).2]
    exact updateOne_len s i p l

theorem updateLoop_other (s : Swarm α β) (i : Nat) (pairs : List (List α × β)) :
    (updateLoop s i pairs).pos = s.pos ∧ (updateLoop s i pairs).vel = s.vel ∧ (updateLoop s i pairs).bestPoint = s.bestPoint ∧
    (updateLoop s i pairs).prevStart = s.prevStart ∧ (updateLoop s i pairs).aliased = s.aliased := by
  induction pairs generalizing s i with
  | nil => simp [updateLoop]
  | cons pl rest ih =>
    obtain ⟨p, l⟩ := pl
    simp only [updateLoop]
    obtain ⟨a, b, c, d, e⟩ := ih (updateOne s i p l) (i + 1)
    obtain ⟨a', b', c', d', e'⟩ := updateOne_other s i p l
    exact ⟨a.trans a', b.trans b', c.trans c', d.trans d', e.trans e'⟩

/-- what the whole loop does to the personal-best positions: particle `j` of the slice receives its own evaluated point
exactly when that point's loss is strictly below its personal best so far -/
theorem updateLoop_bestPos (s : Swarm α β) (i : Nat) (pairs : List (List α × β)) (j : Nat) :
    (updateLoop s i pairs).bestPos[j]? =
      match (if i ≤ j then pairs[j - i]? else none) with
      | some pl => if (∃ bl, s.bestLoss[j]? = some bl ∧ pl.2 < bl) ∧ j < s.bestPos.length then some pl.1 else s.bestPos[j]?
      | none => s.bestPos[j]? := by
  induction pairs generalizing s i with
  | nil => simp [updateLoop]
  | cons pl rest ih =>
    obtain ⟨p, l⟩ := pl
    simp only [updateLoop]
    rw [ih]
    rcases Nat.lt_trichotomy j i with h | h | h
    · have h1 : ¬ (i + 1 ≤ j) := by omega
      have h2 : ¬ (i ≤ j) := by omega
      have h3 : j ≠ i := by omega
      simp [h1, h2, updateOne_bestPos, h3]
    · subst h
      have h1 : ¬ (j + 1 ≤ j) := by omega
      simp [h1, updateOne_bestPos]
    · have h1 : i + 1 ≤ j := by omega
      have h2 : i ≤ j := by omega
      have h3 : j ≠ i := by omega
      have h4 : j - i = (j - (i + 1)) + 1 := by omega
      simp only [h1, h2, if_true, updateOne_bestPos, updateOne_bestLoss, h3, if_false, false_and, (updateOne_len s i p l).2]
      rw [h4, List.getElem?_cons_succ]

/-! ### the global-best index points at a smallest personal-best loss -/

/-- `_global_best_particle_id` is a valid index and no personal-best loss is below the one it points at -/
def GInv (s : Swarm α β) : Prop :=
  ∃ g : β, s.bestLoss[s.gid]? = some g ∧ ∀ (j : Nat) (bl : β), s.bestLoss[j]? = some bl → g ≤ bl

theorem updateOne_ginv (s : Swarm α β) (pid : Nat) (p : List α) (l : β) (h : GInv s) : GInv (updateOne s pid p l) := by
  obtain ⟨g, hg, hall⟩ := h
  have hgid : s.gid < s.bestLoss.length := by
    rcases Nat.lt_or_ge s.gid s.bestLoss.length with h | h
    · exact h
    · simp [List.getElem?_eq_none h] at hg
  unfold updateOne
  split
  · exact ⟨g, hg, hall⟩
  · rename_i bl hbl
    have hpid : pid < s.bestLoss.length := by
      rcases Nat.lt_or_ge pid s.bestLoss.length with h | h
      · exact h
      · simp [List.getElem?_eq_none h] at hbl
    split
    · rename_i hlt
      dsimp only
      have hgbl : g ≤ bl := hall pid bl hbl
      have hsetj : ∀ j, (s.bestLoss.set pid l)[j]? = if j = pid then some l else s.bestLoss[j]? := by
        intro j
        by_cases hj : j = pid
        · subst hj; simp [hpid]
        · simp [hj, List.getElem?_set_ne (Ne.symm hj)]
      by_cases hpg : s.gid = pid
      · -- the global best itself improved
        have hg' : (s.bestLoss.set pid l)[s.gid]? = some l := by rw [hsetj]; simp [hpg]
        rw [hg']
        simp only [lt_self_iff_false, if_false]
        refine ⟨l, hg', ?_⟩
        intro j bj hj
        rw [hsetj] at hj
        split at hj
        · cases hj; exact le_refl _
        · have := hall j bj hj
          rw [hpg, hbl] at hg; cases hg
          exact le_trans (le_of_lt hlt) this
      · have hg' : (s.bestLoss.set pid l)[s.gid]? = some g := by rw [hsetj]; simp [hpg, hg]
        rw [hg']
        dsimp only
        split
        · rename_i hlg
          refine ⟨l, by simp [hsetj], ?_⟩
          intro j bj hj
          dsimp only at hj
          rw [hsetj] at hj
          split at hj
          · cases hj; exact le_refl _
          · exact le_trans (le_of_lt hlg) (hall j bj hj)
        · rename_i hnlg
          refine ⟨g, hg', ?_⟩
          intro j bj hj
          dsimp only at hj
          rw [hsetj] at hj
          split at hj
          · cases hj; exact not_lt.mp hnlg
          · exact hall j bj hj
    · exact ⟨g, hg, hall⟩

theorem updateLoop_ginv (s : Swarm α β) (i : Nat) (pairs : List (List α × β)) (h : GInv s) : GInv (updateLoop s i pairs) := by
  induction pairs generalizing s i with
  | nil => simpa [updateLoop] using h
  | cons pl rest ih =>
    obtain ⟨p, l⟩ := pl
    simp only [updateLoop]
    exact ih _ _ (updateOne_ginv s i p l h)

theorem setUp_ginv [Sub α] (bs : Nat) (hbs : 0 < bs) (half : α) (top : β) (u0 u1 : List (List α)) (n : Nat) (old : Option (List α)) :
    GInv (setUp bs half top u0 u1 n old) := by
  refine ⟨top, by simp [setUp, hbs], ?_⟩
  intro j bl hj
  simp only [setUp, List.getElem?_replicate] at hj
  split at hj
  · cases hj; exact le_refl _
  · cases hj

/-! ### `np.argmin` -/

theorem argminFrom_spec (pre xs : List β) (bi : Nat) (bv : β) (hbi : pre[bi]? = some bv)
    (hmin : ∀ (j : Nat) (v : β), pre[j]? = some v → bv ≤ v) (hfirst : ∀ (j : Nat) (v : β), j < bi → pre[j]? = some v → bv < v) :
    ∃ rv, (pre ++ xs)[argminFrom pre.length bi bv xs]? = some rv ∧ (∀ (j : Nat) (v : β), (pre ++ xs)[j]? = some v → rv ≤ v) ∧
      (∀ (j : Nat) (v : β), j < argminFrom pre.length bi bv xs → (pre ++ xs)[j]? = some v → rv < v) := by
  induction xs generalizing pre bi bv with
  | nil =>
    simp only [argminFrom, List.append_nil]
    exact ⟨bv, hbi, hmin, hfirst⟩
  | cons x xs ih =>
    have hbil : bi < pre.length := by
      rcases Nat.lt_or_ge bi pre.length with h | h
      · exact h
      · simp [List.getElem?_eq_none h] at hbi
    have hget : ∀ (j : Nat) (v : β), (pre ++ [x])[j]? = some v → (j < pre.length ∧ pre[j]? = some v) ∨ (j = pre.length ∧ v = x) := by
      intro j v hv
      rcases Nat.lt_trichotomy j pre.length with h | h | h
      · left; rw [List.getElem?_append_left h] at hv; exact ⟨h, hv⟩
      · right; subst h; simp at hv; exact ⟨rfl, hv.symm⟩
      · have : (pre ++ [x])[j]? = none := by
          apply List.getElem?_eq_none; simp; omega
        rw [this] at hv; cases hv
    have hassoc : pre ++ x :: xs = (pre ++ [x]) ++ xs := by simp
    have hlen : (pre ++ [x]).length = pre.length + 1 := by simp
    simp only [argminFrom]
    split
    · rename_i hlt
      have := ih (pre ++ [x]) pre.length x (by simp)
        (by
          intro j v hv
          rcases hget j v hv with ⟨_, h⟩ | ⟨_, h⟩
          · exact le_trans (le_of_lt hlt) (hmin j v h)
          · rw [h])
        (by
          intro j v hj hv
          rcases hget j v hv with ⟨_, h⟩ | ⟨h, _⟩
          · exact lt_of_lt_of_le hlt (hmin j v h)
          · omega)
      rw [hlen] at this
      rw [hassoc]; exact this
    · rename_i hnlt
      have := ih (pre ++ [x]) bi bv (by rw [List.getElem?_append_left hbil]; exact hbi)
        (by
          intro j v hv
          rcases hget j v hv with ⟨_, h⟩ | ⟨_, h⟩
          · exact hmin j v h
          · rw [h]; exact not_lt.mp hnlt)
        (by
          intro j v hj hv
          rcases hget j v hv with ⟨_, h⟩ | ⟨h, _⟩
          · exact hfirst j v hj h
          · omega)
      rw [hlen] at this
      rw [hassoc]; exact this

/-- `argmin` returns the first index holding a smallest element -/
theorem argmin_spec (l : List β) (hne : l ≠ []) :
    ∃ rv, l[argmin l]? = some rv ∧ (∀ (j : Nat) (v : β), l[j]? = some v → rv ≤ v) ∧
      (∀ (j : Nat) (v : β), j < argmin l → l[j]? = some v → rv < v) := by
  cases l with
  | nil => exact absurd rfl hne
  | cons x xs =>
    have := argminFrom_spec [x] xs 0 x (by simp)
      (by intro j v hv; cases j with
          | zero => simp at hv; rw [hv]
          | succ j => simp at hv)
      (by intro j v hj; omega)
    simpa [argmin] using this

end Order
end BlackIt.Pso
