import BlackIt.Model.Dedup
import Mathlib.Data.List.Basic
import Mathlib.Data.List.Nodup
import Mathlib.Data.List.Range
import Mathlib.Data.List.Perm.Basic

/-! Helper lemmas for C12 (deduplication). -/
namespace BlackIt.Dedup
variable {α : Type} [DecidableEq α]

theorem mem_flagged (new existing : List α) (i : Nat) :
    i ∈ flagged new existing ↔ ∃ h : i < new.length, 1 < (existing ++ new).count new[i] := by
  unfold flagged
  simp only [List.mem_filter, List.mem_range]
  constructor
  · rintro ⟨hi, h⟩
    refine ⟨hi, ?_⟩
    simpa [List.getElem?_eq_getElem hi] using h
  · rintro ⟨hi, h⟩
    refine ⟨hi, ?_⟩
    simpa [List.getElem?_eq_getElem hi] using h

theorem flagged_nodup (new existing : List α) : (flagged new existing).Nodup :=
  List.Nodup.filter _ List.nodup_range

omit [DecidableEq α] in
theorem insertBy_perm (le : Nat → Nat → Bool) (x : Nat) (l : List Nat) :
    (insertBy le x l).Perm (x :: l) := by
  induction l with
  | nil => exact List.Perm.refl _
  | cons y ys ih =>
    unfold insertBy
    split
    · exact List.Perm.refl _
    · exact ((List.Perm.cons y ih).trans (List.Perm.swap x y ys))

omit [DecidableEq α] in
theorem isort_perm (le : Nat → Nat → Bool) (l : List Nat) : (isort le l).Perm l := by
  induction l with
  | nil => exact List.Perm.refl _
  | cons x xs ih => exact (insertBy_perm le x _).trans (List.Perm.cons x ih)

theorem findDuplicates_perm (le : α → α → Bool) (new existing : List α) :
    (findDuplicates le new existing).Perm (flagged new existing) :=
  isort_perm _ _

theorem substitute_length (s : List α) (d : List Nat) (new : List α) :
    (substitute s d new).length = s.length := by
  unfold substitute
  induction d generalizing s new with
  | nil => simp
  | cons i d ih =>
    cases new with
    | nil => simp
    | cons r new => simpa using ih (s.set i r) new

theorem substitute_cons (s : List α) (i : Nat) (d : List Nat) (r : α) (new : List α) :
    substitute s (i :: d) (r :: new) = substitute (s.set i r) d new := by
  simp [substitute]

theorem substitute_getElem?_of_not_mem (s : List α) (d : List Nat) (new : List α) (i : Nat)
    (hi : i ∉ d) : (substitute s d new)[i]? = s[i]? := by
  induction d generalizing s new with
  | nil => simp [substitute]
  | cons j d ih =>
    cases new with
    | nil => simp [substitute]
    | cons r new =>
      rw [substitute_cons, ih _ _ (fun h => hi (List.mem_cons_of_mem _ h))]
      have : j ≠ i := fun h => hi (h ▸ List.mem_cons_self)
      simp [List.getElem?_set, this]

theorem substitute_getElem?_of_mem (s : List α) (d : List Nat) (new : List α) (k : Nat)
    (hd : d.Nodup) (hk : k < d.length) (hk' : k < new.length) (hs : d[k] < s.length) :
    (substitute s d new)[d[k]]? = some new[k] := by
  induction d generalizing s new k with
  | nil => simp at hk
  | cons j d ih =>
    cases new with
    | nil => simp at hk'
    | cons r new =>
      rw [substitute_cons]
      rw [List.nodup_cons] at hd
      cases k with
      | zero =>
        simp only [List.getElem_cons_zero]
        rw [substitute_getElem?_of_not_mem _ _ _ _ hd.1]
        simp at hs
        simp [hs]
      | succ k =>
        simp only [List.getElem_cons_succ]
        exact ih (s.set j r) new k hd.2 (by simpa using hk) (by simpa using hk') (by simpa using hs)

end BlackIt.Dedup
