import BlackIt.Lemmas.RLProtocol
set_option linter.unusedSectionVars false
set_option linter.unusedSimpArgs false
set_option linter.unusedVariables false
set_option maxHeartbeats 4000000

/-! A ranking function for the scripted scheduler–agent exchange: every move of either thread strictly decreases
it, so every execution of a finite script is finite, whatever the interleaving (helper for C10). -/
namespace BlackIt.RL

/-- remaining statements of the calibration thread for one session of `n` batches (`f`: the next one raises) -/
def endCost (f : Bool) : Nat := if f then 2 else 1
def sessCost : List (Nat × Bool) → Nat
  | [] => 0
  | (n, f) :: r => 2 * n + endCost f + 4 + sessCost r
/-- messages the calibration thread will still put on the outcome queue (an upper bound) -/
def sessOut : List (Nat × Bool) → Nat
  | [] => 0
  | (n, _) :: r => n + 1 + sessOut r

def mainCost (d : DSt) : Nat :=
  (match d.s.mpc with
   | .idle => 0
   | .loopHead => 2 * d.left + endCost d.failNext + 3
   | .running _ => if d.left = 0 then 4 else 2 * d.left + endCost d.failNext + 2
   | .endPut => 3
   | .endJoin => 2
   | .endDrain => 1) + sessCost d.sessions

def mainOut (d : DSt) : Nat :=
  (match d.s.mpc with
   | .idle => 0
   | .loopHead => d.left + 1
   | .running _ => d.left + 1
   | .endPut => 1
   | .endJoin => 0
   | .endDrain => 0) + sessOut d.sessions

def agentCost : APc → Nat
  | .dead => 0
  | .policy => 4
  | .put _ => 3
  | .get _ => 2
  | .learn _ _ => 5

/-- the ranking function -/
def rank (d : DSt) : Nat := 5 * mainCost d + agentCost d.s.apc + 4 * d.s.outcomeQ.length + 4 * mainOut d

theorem rank_stepM (d d' : DSt) (h : stepM d = some d') : rank d' < rank d := by
  rcases d with ⟨⟨mpc, apc, aq, oq, boot, bn, ch, ex, le⟩, sess, left, fn, hist⟩
  rcases mpc with _|_|(_|am)|_|_|_ <;> rcases sess with _|⟨⟨n, fl⟩, sess⟩ <;>
    simp only [stepM, step] at h
  all_goals (
    (repeat' split at h) <;> (try (simp only [Option.map_some, Option.map_none, Option.some.injEq, reduceCtorEq] at h)) <;>
      (try subst h) <;>
      (rcases apc with _|_|_|_|_ <;> simp_all [rank, mainCost, mainOut, agentCost, sessCost, sessOut, endCost] <;>
        (first | omega | (cases fn <;> simp_all <;> (first | omega | (split <;> omega))) | grind)))

theorem rank_stepA (f : List AgEv → Nat) (d d' : DSt) (h : stepA f d = some d') : rank d' < rank d := by
  rcases d with ⟨⟨mpc, apc, aq, oq, boot, bn, ch, ex, le⟩, sess, left, fn, hist⟩
  rcases apc with _|_|_|_|_ <;> rcases oq with _|⟨(_|b), oq⟩ <;> simp only [stepA, step] at h <;>
    (try (simp only [Option.map_some, Option.map_none, Option.some.injEq, reduceCtorEq] at h)) <;>
    (try subst h) <;> (try (cases h)) <;>
    simp_all [rank, mainCost, mainOut, agentCost] <;> omega

theorem rank_stepT (f : List AgEv → Nat) (t : Bool) (d d' : DSt) (h : stepT f t d = some d') : rank d' < rank d := by
  unfold stepT at h
  split at h
  · exact rank_stepM d d' h
  · exact rank_stepA f d d' h

/-- every execution is at most `rank` moves long -/
theorem drun_length_le (f : List AgEv → Nat) (σ : List Bool) (d e : DSt) (h : drun f d σ = some e) :
    σ.length + rank e ≤ rank d := by
  induction σ generalizing d with
  | nil => simp only [drun, Option.some.injEq] at h; subst h; simp
  | cons t σ ih =>
    rw [drun_cons] at h
    cases hd : stepT f t d with
    | none => simp [hd] at h
    | some d1 =>
      simp only [hd, Option.bind_some] at h
      have := ih d1 h
      have := rank_stepT f t d d1 hd
      simp only [List.length_cons]; omega

/-- from every state some complete execution exists (keep moving whichever thread can move) -/
theorem complete_run_exists (f : List AgEv → Nat) (d : DSt) : ∃ σ e, drun f d σ = some e ∧ terminal f e = true := by
  induction hn : rank d using Nat.strong_induction_on generalizing d with
  | _ n ih =>
    by_cases ht : terminal f d = true
    · exact ⟨[], d, rfl, ht⟩
    · simp only [terminal, Bool.and_eq_true, Option.isNone_iff_eq_none, not_and_or] at ht
      have : ∃ t d1, stepT f t d = some d1 := by
        rcases ht with h | h
        · obtain ⟨d1, h1⟩ := Option.ne_none_iff_exists'.mp h; exact ⟨true, d1, by simp [stepT, h1]⟩
        · obtain ⟨d1, h1⟩ := Option.ne_none_iff_exists'.mp h; exact ⟨false, d1, by simp [stepT, h1]⟩
      obtain ⟨t, d1, h1⟩ := this
      obtain ⟨σ, e, hr, he⟩ := ih (rank d1) (by have := rank_stepT f t d d1 h1; omega) d1 rfl
      exact ⟨t :: σ, e, by rw [drun_cons, h1]; exact hr, he⟩

end BlackIt.RL
