import BlackIt.Model.Calibrator
import Mathlib.Data.List.Basic
import Mathlib.Data.List.Perm.Basic
import Mathlib.Tactic.Linarith
set_option linter.unusedSectionVars false
set_option linter.unusedSimpArgs false
set_option linter.unusedVariables false

/-! Shared lemmas about the calibrator model (used by C01 C02 C05 C09 C11 C14 C18). -/
namespace BlackIt.Calibrator
variable {Θ S L σ : Type}

/-- the history part of a state -/
structure Hist (Θ S L : Type) where
  params : List Θ
  losses : List L
  series : List (List S)
  batchNum : List Nat
  method : List Nat
  nSampled : Nat
  batchIdx : Nat

def Core.hist (k : Core Θ S L σ) : Hist Θ S L :=
  ⟨k.params, k.losses, k.series, k.batchNum, k.method, k.nSampled, k.batchIdx⟩

/-- what a successful batch does, field by field -/
structure BatchOk (c : Comp Θ S L σ) (t : List (Nat × Nat)) (k k' : Core Θ S L σ) : Prop where
  smp_ex : ∃ smp, k.samplers[nextIdx c k]? = some smp ∧
    let rows := (c.sample smp k.params k.losses).2
    let seeds := batchSeeds c.tape k.gen rows.length k.cfg.ensemble
    let series := List.zipWith (fun th sd => sd.map (c.model th k.cfg.simLen)) rows seeds
    k'.params = k.params ++ rows ∧
    k'.losses = k.losses ++ series.map c.loss ∧
    k'.series = k.series ++ series ∧
    k'.seeds = k.seeds ++ seeds ∧
    k'.batchNum = k.batchNum ++ List.replicate smp.batchSize k.batchIdx ∧
    k'.method = k.method ++ List.replicate smp.batchSize ((lookup t smp.cls).getD 0) ∧
    k'.nSampled = k.nSampled + rows.length ∧
    k'.gen = k.gen + rows.length * k.cfg.ensemble ∧
    k'.samplers = k.samplers.set (nextIdx c k) { smp with st := (c.sample smp k.params k.losses).1 } ∧
    k'.log = k.log ++ [{ idx := nextIdx c k, cls := smp.cls, size := smp.batchSize, rows := rows.length }]
  batchIdx : k'.batchIdx = k.batchIdx + 1
  sched : k'.sched = afterUpdate (afterGet k.sched)
  cfg : k'.cfg = k.cfg

theorem runBatch_ok (c : Comp Θ S L σ) (t : List (Nat × Nat)) (k : Core Θ S L σ)
    (h : (runBatch c t k).2 = none) : BatchOk c t k (runBatch c t k).1 := by
  unfold runBatch at h ⊢
  cases hs : k.samplers[nextIdx c k]? with
  | none => simp [hs] at h
  | some smp =>
    simp only [hs] at h ⊢
    by_cases hf : c.fault .sampler k.callsS = true
    · simp [hf] at h
    · simp only [hf] at h ⊢
      cases hm : firstFault (c.fault .model) k.callsM
          ((c.sample smp k.params k.losses).2.length * k.cfg.ensemble) with
      | some j => simp [hm] at h
      | none =>
        simp only [hm] at h ⊢
        cases hl : firstFault (c.fault .loss) k.callsL (c.sample smp k.params k.losses).2.length with
        | some j => simp [hl] at h
        | none =>
          simp only [hl]
          exact ⟨⟨smp, hs, rfl, rfl, rfl, rfl, rfl, rfl, rfl, rfl, rfl, rfl⟩, rfl, rfl, rfl⟩

/-- a batch that raises leaves every history field, the counters and the round-robin position untouched -/
theorem runBatch_fault (c : Comp Θ S L σ) (t : List (Nat × Nat)) (k : Core Θ S L σ) (f : FaultKind)
    (h : (runBatch c t k).2 = some f) :
    (runBatch c t k).1.hist = k.hist ∧ (runBatch c t k).1.seeds = k.seeds ∧
    (runBatch c t k).1.log = k.log ∧ (runBatch c t k).1.cfg = k.cfg ∧
    ((runBatch c t k).1.sched = k.sched ∨ (runBatch c t k).1.sched = afterGet k.sched) ∧
    (runBatch c t k).1.samplers.length = k.samplers.length := by
  unfold runBatch at h ⊢
  cases hs : k.samplers[nextIdx c k]? with
  | none => simp [hs, Core.hist]
  | some smp =>
    simp only [hs] at h ⊢
    by_cases hf : c.fault .sampler k.callsS = true
    · simp [hf, Core.hist]
    · simp only [hf] at h ⊢
      cases hm : firstFault (c.fault .model) k.callsM
          ((c.sample smp k.params k.losses).2.length * k.cfg.ensemble) with
      | some j => simp [hm, Core.hist]
      | none =>
        simp only [hm] at h ⊢
        cases hl : firstFault (c.fault .loss) k.callsL (c.sample smp k.params k.losses).2.length with
        | some j => simp [hl, Core.hist]
        | none => simp [hl] at h

theorem calLoop_succ_fault (c : Comp Θ S L σ) (n : Nat) (s : State Θ S L σ) (k : Core Θ S L σ) (f : FaultKind)
    (h : runBatch c s.table s.core = (k, some f)) :
    calLoop c (n + 1) s = ({ s with core := k }, some f) := by
  simp [calLoop, h]

theorem calLoop_succ_ok (c : Comp Θ S L σ) (n : Nat) (s : State Θ S L σ) (k : Core Θ S L σ)
    (h : runBatch c s.table s.core = (k, none)) :
    calLoop c (n + 1) s =
      if converged c k then (stepState s k, none) else calLoop c n (stepState s k) := by
  simp [calLoop, h]

/-- case analysis for one iteration of the calibration loop -/
theorem calLoop_cases (c : Comp Θ S L σ) (n : Nat) (s : State Θ S L σ)
    (P : State Θ S L σ × Option FaultKind → Prop)
    (hfault : ∀ k f, runBatch c s.table s.core = (k, some f) → P ({ s with core := k }, some f))
    (hconv : ∀ k, runBatch c s.table s.core = (k, none) → converged c k = true → P (stepState s k, none))
    (hgo : ∀ k, runBatch c s.table s.core = (k, none) → converged c k = false → P (calLoop c n (stepState s k))) :
    P (calLoop c (n + 1) s) := by
  rcases hrb : runBatch c s.table s.core with ⟨k, _ | f⟩
  · rw [calLoop_succ_ok c n s k hrb]
    by_cases hc : converged c k = true
    · rw [if_pos hc]; exact hconv k hrb hc
    · rw [if_neg hc]; exact hgo k hrb (by simpa using hc)
  · rw [calLoop_succ_fault c n s k f hrb]; exact hfault k f hrb

theorem afterGet_rr (b : Nat) : afterGet (.rr b) = .rr b := rfl

end BlackIt.Calibrator

namespace BlackIt.Calibrator
variable {Θ S L σ : Type}

/-- forget the nuisance part of the configuration: verbosity, number of jobs, whether a folder is set -/
def Cfg.strip (g : Cfg) : Cfg := { g with verbose := false, nJobs := 0, folder := false }

def Core.strip (k : Core Θ S L σ) : Core Θ S L σ := { k with cfg := k.cfg.strip }

theorem nextIdx_strip (c : Comp Θ S L σ) (k : Core Θ S L σ) : nextIdx c k.strip = nextIdx c k := rfl

/-- a batch does not look at the nuisance configuration -/
theorem runBatch_strip (c : Comp Θ S L σ) (t : List (Nat × Nat)) (k : Core Θ S L σ) :
    runBatch c t k.strip = ((runBatch c t k).1.strip, (runBatch c t k).2) := by
  unfold runBatch
  simp only [nextIdx_strip]
  cases hs : k.samplers[nextIdx c k]? with
  | none => simp [Core.strip, hs]
  | some smp =>
    have hs' : k.strip.samplers[nextIdx c k]? = some smp := hs
    simp only [hs']
    by_cases hf : c.fault .sampler k.callsS = true
    · have hf' : c.fault .sampler k.strip.callsS = true := hf
      simp [hf, hf', Core.strip]
    · have hf' : ¬ c.fault .sampler k.strip.callsS = true := hf
      simp only [hf, hf', if_false]
      have e1 : k.strip.params = k.params := rfl
      have e2 : k.strip.losses = k.losses := rfl
      have e3 : k.strip.cfg.ensemble = k.cfg.ensemble := rfl
      have e4 : k.strip.callsM = k.callsM := rfl
      have e5 : k.strip.callsL = k.callsL := rfl
      simp only [e1, e2, e3, e4, e5]
      cases hm : firstFault (c.fault .model) k.callsM
          ((c.sample smp k.params k.losses).2.length * k.cfg.ensemble) with
      | some j => simp [Core.strip]
      | none =>
        simp only
        cases hl : firstFault (c.fault .loss) k.callsL (c.sample smp k.params k.losses).2.length with
        | some j => simp [Core.strip]
        | none => simp [Core.strip, Cfg.strip]

theorem converged_strip (c : Comp Θ S L σ) (k : Core Θ S L σ) : converged c k.strip = converged c k := rfl

end BlackIt.Calibrator

namespace BlackIt.Calibrator
variable {Θ S L σ : Type}

theorem runBatch_strip_congr (c : Comp Θ S L σ) (t : List (Nat × Nat)) (k k' : Core Θ S L σ)
    (h : k.strip = k'.strip) :
    (runBatch c t k).1.strip = (runBatch c t k').1.strip ∧ (runBatch c t k).2 = (runBatch c t k').2 := by
  have h1 := runBatch_strip c t k
  have h2 := runBatch_strip c t k'
  rw [h] at h1
  rw [h1] at h2
  exact ⟨(Prod.mk.inj h2).1, (Prod.mk.inj h2).2⟩

/-- the whole loop: two calibrators that differ only in verbosity, number of jobs, saving folder (and in what
that folder holds) go through the same states, up to those settings, and end the same way -/
theorem calLoop_strip (c : Comp Θ S L σ) (n : Nat) (s s' : State Θ S L σ)
    (ht : s.table = s'.table) (hc : s.core.strip = s'.core.strip) :
    (calLoop c n s).1.core.strip = (calLoop c n s').1.core.strip ∧
    (calLoop c n s).2 = (calLoop c n s').2 ∧ (calLoop c n s).1.table = (calLoop c n s').1.table := by
  induction n generalizing s s' with
  | zero => exact ⟨hc, rfl, ht⟩
  | succ n ih =>
    obtain ⟨e1, e2⟩ := runBatch_strip_congr c s.table s.core s'.core hc
    rcases hrb : runBatch c s.table s.core with ⟨k, f⟩
    rcases hrb'' : runBatch c s'.table s'.core with ⟨k', f'⟩
    have hrb' : runBatch c s.table s'.core = (k', f') := by rw [ht]; exact hrb''
    rw [hrb, hrb'] at e1 e2
    simp only at e1 e2
    subst e2
    cases f with
    | some f =>
      rw [calLoop_succ_fault c n s k f hrb, calLoop_succ_fault c n s' k' f hrb'']
      exact ⟨e1, rfl, ht⟩
    | none =>
      rw [calLoop_succ_ok c n s k hrb, calLoop_succ_ok c n s' k' hrb'']
      have hcv : converged c k = converged c k' := by
        rw [← converged_strip c k, ← converged_strip c k', e1]
      rw [hcv]
      by_cases hc' : converged c k' = true
      · simp only [hc', if_true]; exact ⟨e1, trivial, ht⟩
      · simp only [hc', if_false]
        exact ih (stepState s k) (stepState s' k') ht e1

end BlackIt.Calibrator
