import BlackIt.Model.Snap
import Mathlib.Order.Basic
import Mathlib.Order.Defs.LinearOrder
import Mathlib.Algebra.Order.Group.Abs
import Mathlib.Algebra.Order.Group.Unbundled.Abs
import Mathlib.Tactic.Linarith

/-! Helper lemmas for C17 (grid snapping). -/
namespace BlackIt.Snap
variable {α β : Type} [LinearOrder α] [LinearOrder β]

theorem filter_lt_eq_take (a : List α) (v : α) (hs : a.Pairwise (· ≤ ·)) :
    a.filter (· < v) = a.take (ssLeft a v) := by
  induction a with
  | nil => simp [ssLeft]
  | cons x xs ih =>
    rw [List.pairwise_cons] at hs
    obtain ⟨hx, hxs⟩ := hs
    by_cases h : x < v
    · simp [ssLeft, h, List.filter_cons] at *
      exact ih hxs
    · have hall : ∀ y ∈ xs, ¬ y < v := fun y hy hyv => h (lt_of_le_of_lt (hx y hy) hyv)
      have : xs.filter (· < v) = [] := by
        simp [List.filter_eq_nil_iff]; intro y hy; exact not_lt.mp (hall y hy)
      simp [ssLeft, h, List.filter_cons, this]

theorem ssLeft_le (a : List α) (v : α) : ssLeft a v ≤ a.length := List.length_filter_le _ _

theorem lt_of_lt_ssLeft (a : List α) (v : α) (hs : a.Pairwise (· ≤ ·)) (i : Nat) (hi : i < ssLeft a v)
    (hil : i < a.length) : a[i] < v := by
  have h := filter_lt_eq_take a v hs
  have hm : a[i] ∈ a.take (ssLeft a v) := by
    rw [List.mem_take_iff_getElem]
    exact ⟨i, by omega, rfl⟩
  rw [← h] at hm
  simpa using (List.mem_filter.mp hm).2

theorem ge_of_ge_ssLeft (a : List α) (v : α) (hs : a.Pairwise (· ≤ ·)) (i : Nat) (hi : ssLeft a v ≤ i)
    (hil : i < a.length) : v ≤ a[i] := by
  by_contra hlt
  push Not at hlt
  have hall : ∀ j (hj : j < a.length), j ≤ i → a[j] < v := by
    intro j hj hji
    rcases Nat.lt_or_eq_of_le hji with h | h
    · exact lt_of_le_of_lt (List.pairwise_iff_getElem.mp hs j i hj hil h) hlt
    · subst h; exact hlt
  have : a.take (i+1) = (a.take (i+1)).filter (· < v) := by
    symm; rw [List.filter_eq_self]
    intro x hx
    rw [List.mem_take_iff_getElem] at hx
    obtain ⟨j, hj, rfl⟩ := hx
    simpa using hall j (by omega) (by omega)
  have hlen : i + 1 ≤ ssLeft a v := by
    unfold ssLeft
    calc i + 1 = (a.take (i+1)).length := by simp; omega
      _ = ((a.take (i+1)).filter (· < v)).length := by rw [← this]
      _ ≤ (a.filter (· < v)).length := by
          apply List.Sublist.length_le
          exact List.Sublist.filter _ (List.take_sublist _ _)
  omega

theorem getD_get (a : List α) (i : Nat) (d : α) (h : i < a.length) : a.getD i d = a[i] := by
  simp [List.getD_eq_getElem?_getD, h]

theorem sorted_mono (a : List α) (hs : a.Pairwise (· ≤ ·)) :
    ∀ i j (hi : i < a.length) (hj : j < a.length), i ≤ j → a[i] ≤ a[j] := by
  intro i j hi hj hij
  rcases Nat.lt_or_eq_of_le hij with h | h
  · exact List.pairwise_iff_getElem.mp hs i j hi hj h
  · subst h; exact le_rfl

/-- The only fact about the distance the algorithm needs: seen from `v`, the distance does not increase
while approaching `v` from the left and does not decrease while leaving it to the right. Over an ordered
group with `d v g = |v - g|` this is a lemma (`abs_unimodal`); for IEEE `fl|v - g|` it is "rounding is
monotone" (trusted, see DESIGN.md §3). -/
structure Unimodal (d : α → α → β) : Prop where
  left  : ∀ v g g', g ≤ g' → g' ≤ v → d v g' ≤ d v g
  right : ∀ v g g', v ≤ g → g ≤ g' → d v g ≤ d v g'

theorem getClosestIdx_lt (d : α → α → β) (a : List α) (v dflt : α) (hne : a ≠ []) :
    getClosestIdx d a v dflt < a.length := by
  have hpos : 0 < a.length := List.length_pos_iff.mpr hne
  have hle := ssLeft_le a v
  unfold getClosestIdx
  simp only
  split <;> omega

end BlackIt.Snap
