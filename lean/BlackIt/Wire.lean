/-
Wire format helpers for the line-protocol driver (core Lean only).
Floats cross the protocol as 16 hex digits (IEEE-754 binary64 bit pattern).
-/
namespace BlackIt.Wire

def hexDigit? (c : Char) : Option Nat :=
  if '0' ≤ c ∧ c ≤ '9' then some (c.toNat - '0'.toNat)
  else if 'a' ≤ c ∧ c ≤ 'f' then some (c.toNat - 'a'.toNat + 10)
  else if 'A' ≤ c ∧ c ≤ 'F' then some (c.toNat - 'A'.toNat + 10)
  else none

def parseHex? (s : String) : Option Nat :=
  if s.isEmpty then none else
  s.toList.foldl (fun acc c => match acc, hexDigit? c with
    | some a, some d => some (a * 16 + d)
    | _, _ => none) (some 0)

def parseFloat? (s : String) : Option Float :=
  if s.length ≠ 16 then none else
  (parseHex? s).map (fun n => Float.ofBits n.toUInt64)

def hexChar (n : Nat) : Char :=
  if n < 10 then Char.ofNat ('0'.toNat + n) else Char.ofNat ('a'.toNat + n - 10)

def toHex16 (n : Nat) : String :=
  String.ofList ((List.range 16).reverse.map (fun i => hexChar ((n >>> (4 * i)) % 16)))

def floatToHex (f : Float) : String := toHex16 f.toBits.toNat

def parseInt? (s : String) : Option Int := s.toInt?
def parseNat? (s : String) : Option Nat := s.toNat?

/-- parse all tokens with `p`, failing if any fails -/
def parseAll? {α} (p : String → Option α) (ts : List String) : Option (List α) :=
  ts.mapM p

def joinSp (xs : List String) : String := " ".intercalate xs

/-- rationals as `n/d` or `n` -/
def parseRat? (s : String) : Option Rat :=
  match s.splitOn "/" with
  | [n] => n.toInt?.map (fun (i : Int) => (i : Rat))
  | [n, d] => match n.toInt?, d.toNat? with
      | some i, some k => if k = 0 then none else some (mkRat i k)
      | _, _ => none
  | _ => none

def ratToStr (q : Rat) : String :=
  if q.den = 1 then toString q.num else s!"{q.num}/{q.den}"

end BlackIt.Wire
