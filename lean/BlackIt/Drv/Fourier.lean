import BlackIt.Model.Loss
import BlackIt.Model.Gsl

/-!
Binary64 instance of the Fourier loss for the driver: a naive real DFT (`np.fft.rfft` computes the same sums with
a fast algorithm; the two agree to rounding), the two frequency filters of `fourier.py`, and the loss itself.
-/
namespace BlackIt.Drv.Fourier
open BlackIt

def pi : Float := 3.141592653589793

/-- `np.round` (half to even) on a non-negative float -/
def roundHalfEven (x : Float) : Float :=
  let r := Float.floor x
  let d := x - r
  if d > 0.5 then r + 1.0
  else if d < 0.5 then r
  else if (r / 2.0) == Float.floor (r / 2.0) then r else r + 1.0

/-- `np.fft.rfft(x)`: bins `k = 0 … N/2`, `X_k = Σ_t x_t (cos(2πkt/N) − i sin(2πkt/N))` -/
def rfft (x : List Float) : List (Float × Float) :=
  let n := x.length
  (List.range (n / 2 + 1)).map (fun k =>
    let terms := x.zipIdx.map (fun (p : Float × Nat) =>
      let ang := 2.0 * pi * Float.ofNat ((k * p.2) % n) / Float.ofNat n
      (p.1 * Float.cos ang, -(p.1 * Float.sin ang)))
    (terms.foldl (fun acc t => acc + t.1) 0.0, terms.foldl (fun acc t => acc + t.2) 0.0))

/-- the mask of `ideal_low_pass_filter` (kind 0) / `gaussian_low_pass_filter` (kind 1) over `bins` frequencies -/
def mask (kind : Nat) (f : Float) (bins : Nat) : List Float :=
  let r := roundHalfEven (f * Float.ofNat bins)
  if kind = 0 then
    (List.range bins).map (fun k => if Float.ofNat k < r then 1.0 else 0.0)
  else
    (List.range bins).map (fun k => Float.exp (-(Float.ofNat (k * k)) / (2.0 * (r * r))))

/-- `frequency_filter(rfft(x), f)`, flattened: real parts, then imaginary parts -/
def spec (kind : Nat) (f : Float) (x : List Float) : List Float :=
  let fx := rfft x
  let m := mask kind f fx.length
  let filtered := List.zipWith (fun (z : Float × Float) w => (z.1 * w, z.2 * w)) fx m
  filtered.map Prod.fst ++ filtered.map Prod.snd

def loss (kind : Nat) (f : Float) (members : List (List Float)) (real : List Float) : Float :=
  Loss.fourierLoss Float.ofNat 0.0 Float.sqrt (spec kind f) (real.length / 2 + 1) members real

end BlackIt.Drv.Fourier
