import BlackIt.Wire
import BlackIt.Parse
import BlackIt.Model.RLProtocol
/- Driver for the RL exchange model: run a schedule on the scripted system and dump every state. -/
namespace BlackIt.Drv.RL
open BlackIt BlackIt.Wire BlackIt.Parse BlackIt.RL

def showM : MPc → String
  | .idle => "idle" | .loopHead => "loop" | .running none => "run:boot" | .running (some a) => s!"run:{a}"
  | .endPut => "endPut" | .endJoin => "endJoin" | .endDrain => "endDrain"
def showA : APc → String
  | .dead => "dead" | .policy => "policy" | .put a => s!"put:{a}" | .get a => s!"get:{a}" | .learn a b => s!"learn:{a}:{b}"
def showO (o : Option Nat) : String := match o with | some b => toString b | none => "END"
def showPairs (l : List (Nat × Nat)) : String := ",".intercalate (l.map (fun p => s!"{p.1}:{p.2}"))

def dump (d : DSt) : String :=
  s!"m={showM d.s.mpc} a={showA d.s.apc} aq=[{",".intercalate (d.s.actionQ.map toString)}] " ++
  s!"oq=[{",".intercalate (d.s.outcomeQ.map showO)}] ex=[{showPairs d.s.executed}] le=[{showPairs d.s.learned}] b={d.s.batchNo}"

def runAll (f : List AgEv → Nat) : DSt → List Bool → Nat → List String → List String
  | _, [], _, acc => acc.reverse
  | d, t :: ts, k, acc =>
    match (if t then stepM d else stepA f d) with
    | some d' => runAll f d' ts (k + 1) (dump d' :: acc)
    | none => (s!"DISABLED@{k}" :: acc).reverse

def handle (args : List String) : Option String := do
  let (script, tape, moves) ← run (do
    let sc ← list (do let n ← nat; let f ← bool; pure (n, f))
    let tape ← list nat
    let mv ← list bool
    pure (sc, tape, mv)) args
  let f : List AgEv → Nat := fun h => tape.getD (h.filter (fun e => match e with | .chose _ => true | _ => false)).length 0
  let d0 : DSt := { sessions := script }
  let outs := runAll f d0 moves 0 []
  let final := (moves.foldl (fun (d : Option DSt) t => d.bind (fun d => if t then stepM d else stepA f d)) (some d0))
  let term := match final with | some d => (if terminal f d then "terminal" else "not-terminal") | none => "stuck"
  pure (" ; ".intercalate outs ++ " ; " ++ term)

end BlackIt.Drv.RL
