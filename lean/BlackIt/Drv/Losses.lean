import BlackIt.Model.Loss
import BlackIt.Model.Gsl

/-! Binary64 instances of the GSL-div divergence and of the kernel-likelihood loss for the driver. -/
namespace BlackIt.Drv.Losses
open BlackIt

def fpow (x : Float) (n : Nat) : Float := Float.pow x (Float.ofNat n)

/-- `GslDivLoss.compute_loss_1d` after discretisation -/
def gsl (sims : List (List Nat)) (obs : List Nat) (nbWordLengths nbValues tsLength : Nat) : Float :=
  Gsl.divEnsemble Float.ofNat 0.0 Float.log fpow sims obs nbWordLengths nbValues tsLength

/-- `kernel(sq_dist, h, d)` -/
def kernel (h : Float) (d : Nat) (sq : Float) : Float :=
  Float.exp (-(sq / (2.0 * (h * h)))) / (Float.pow h (Float.ofNat d) * Float.pow (2.0 * 3.141592653589793) (Float.ofNat d / 2.0))

/-- bandwidth rules of `LikelihoodLoss` (0 = value given, 1 = silverman, 2 = scott) -/
def bandwidth (rule : Nat) (h : Float) (s d : Nat) : Float :=
  if rule = 1 then Float.pow ((Float.ofNat (s * (d + 2))) / 4.0) (-1.0 / Float.ofNat (d + 4))
  else if rule = 2 then Float.pow (Float.ofNat s) (-1.0 / Float.ofNat (d + 4))
  else h

def likelihood (rule : Nat) (h : Float) (d : Nat) (sim : List (List (List Float))) (real : List (List Float)) : Float :=
  let s := (sim.headD []).length
  Loss.likelihood Float.ofNat 0.0 (kernel (bandwidth rule h s d) d) Float.log d sim real

/-! ### Minkowski and method of moments with the built-in 18-moment summary -/

def fsum (xs : List Float) : Float := xs.foldl (· + ·) 0.0
def fmean (xs : List Float) : Float := fsum xs / Float.ofNat xs.length
def central (xs : List Float) (k : Nat) : Float :=
  let m := fmean xs
  fmean (xs.map (fun x => fpow (x - m) k))

/-- `np.sign(s) * np.power(abs(s), 1/k)` -/
def signedRoot (s : Float) (k : Nat) : Float :=
  let sg : Float := if s > 0.0 then 1.0 else if s < 0.0 then -1.0 else if s == 0.0 then 0.0 else s
  sg * Float.pow (Float.abs s) (1.0 / Float.ofNat k)

/-- `sm.tsa.acf(x, nlags=5, fft=False)[lag]` -/
def acf (xs : List Float) (lag : Nat) : Float :=
  let m := fmean xs
  let d := xs.map (· - m)
  fsum (List.zipWith (· * ·) d (d.drop lag)) / fsum (d.map (fun v => v * v))

/-- `np.nan_to_num` -/
def nanToNum (v : Float) : Float :=
  if v != v then 0.0 else if v == (1.0 / 0.0) then 1.7976931348623157e308 else if v == (-1.0 / 0.0) then -1.7976931348623157e308 else v

def momentBlock (xs : List Float) : List Float :=
  let m2 := central xs 2
  let sk := central xs 3 / Float.pow m2 1.5
  let ku := central xs 4 / (m2 * m2) - 3.0
  [fmean xs, Float.sqrt m2, signedRoot sk 3, signedRoot ku 4] ++ (List.range 5).map (fun l => acf xs (l + 1))

/-- `get_mom_ts_1d` -/
def moments18 (ts : List Float) : List Float :=
  let ad := List.zipWith (fun a b => Float.abs (b - a)) ts (ts.drop 1)
  (momentBlock ts ++ momentBlock ad).map nanToNum

/-- `MethodOfMomentsLoss.compute_loss_1d` with the default moment calculator; `cov` 0 = identity, 1 = inverse variance -/
def msm (cov : Nat) (standardise : Bool) (members : List (List Float)) (real : List Float) : Float :=
  let scale := (moments18 real).map Float.abs
  let mom (x : List Float) : List Float := if standardise then List.zipWith (· / ·) (moments18 x) scale else moments18 x
  if cov = 0 then Loss.msmIdentity Float.ofNat 0.0 mom members real
  else Loss.msmInverseVariance Float.ofNat 0.0 mom members real

/-- `MinkowskiLoss.compute_loss_1d`: the `p`-th root of `Σ|mean − real|^p` -/
def minkowski (p : Nat) (members : List (List Float)) (real : List Float) : Float :=
  Float.pow (Loss.minkowskiPowSum Float.ofNat 0.0 Float.abs fpow p members real) (1.0 / Float.ofNat p)

end BlackIt.Drv.Losses
