import BlackIt.Wire
import BlackIt.Parse
import BlackIt.Model.Calibrator
/-
Driver instantiation of the calibrator model with scripted components (see harness/vp/calharness.py):
Θ = rows of floats, S = (θ, N, seed) — the stub model returns its arguments —, L = Float,
σ = (object id, calls so far, last seed assigned).
-/
namespace BlackIt.Drv.Cal
open BlackIt BlackIt.Wire BlackIt.Parse BlackIt.Calibrator

abbrev Th := List Float
abbrev Se := Th × Nat × Nat
structure SSt where
  obj : Nat
  calls : Nat
  seed : Int   -- last seed assigned; -1 = None, -2 = entropy seed assigned by a scheduler constructor

def thEq (a b : Th) : Bool := a.map Float.toBits == b.map Float.toBits

structure Scenario where
  cfg : Cfg
  samplers : List (Smp SSt)
  sched : Sched
  tape : List Nat
  actions : List Nat
  faults : List (FaultKind × Nat)
  scripts : List (List (List Th))      -- per object, per call, rows
  lossTable : List (Th × Float)
  lossDefault : Float

def pow10 (p : Nat) : Float := Float.ofNat (10 ^ p)

def comp (sc : Scenario) : Comp Th Se Float SSt where
  model th n seed := (th, n, seed)
  loss ens := match ens with
    | [] => sc.lossDefault
    | (th, _, _) :: _ => match sc.lossTable.find? (fun p => thEq p.1 th) with
      | some p => p.2
      | none => sc.lossDefault
  sample smp _ _ := ({ smp.st with calls := smp.st.calls + 1 },
                     ((sc.scripts.getD smp.st.obj []).getD smp.st.calls []))
  reseed _ seed st := { st with seed := (seed : Int) }
  tape k := sc.tape.getD k 0
  lt a b := a < b
  conv x p := Float.abs (x * pow10 p) ≤ 0.5
  action k := sc.actions.getD k 0
  fault kind k := sc.faults.any (fun f => f.1 == kind && f.2 == k)

inductive Op where
  | cal (n : Nat)
  | ckpt
  | restore
  | setSamplers (ss : List (Smp SSt))
  | setScheduler (ss : List (Smp SSt)) (sched : Sched)

/-! parsing -/
def pSmp : P (Smp SSt) := do
  let cls ← nat; let bs ← nat; let obj ← nat; let calls ← nat; let seed ← int
  pure { cls := cls, batchSize := bs, st := { obj := obj, calls := calls, seed := seed } }

def pSched : P Sched := do
  let t ← tok
  match t with
  | "rr" => pure (.rr 0)
  | "rl" => pure (.rl 0 false 0)   -- bootstrap index computed by `addOrGetBootstrap` below
  | _ => failure

def pFault : P (FaultKind × Nat) := do
  let t ← tok; let k ← nat
  match t with
  | "S" => pure (.sampler, k) | "M" => pure (.model, k) | "L" => pure (.loss, k) | _ => failure

def pOp : P Op := do
  let t ← tok
  match t with
  | "C" => do let n ← nat; pure (.cal n)
  | "K" => pure .ckpt
  | "R" => pure .restore
  | "SS" => do let ss ← list pSmp; pure (.setSamplers ss)
  | "SCH" => do let ss ← list pSmp; let sc ← pSched; pure (.setScheduler ss sc)
  | _ => failure

def pScenario : P (Scenario × List Op) := do
  let ens ← nat; let n ← nat; let cp ← int; let verbose ← bool; let nj ← nat; let folder ← bool
  let dims ← nat
  let samplers ← list pSmp
  let sched ← pSched
  let tape ← list nat
  let actions ← list nat
  let faults ← list pFault
  let scripts ← list (list (list (rep flt dims)))
  let lossTable ← list (do let th ← rep flt dims; let l ← flt; pure (th, l))
  let lossDefault ← flt
  let ops ← list pOp
  -- RLScheduler.__init__: find or append the bootstrap (Halton, class index 6) sampler
  let (samplers, sched) := match sched with
    | .rl _ _ _ =>
      let nh : Smp SSt := { cls := 6, batchSize := 1, st := { obj := samplers.length, calls := 0, seed := -2 } }
      let r := addOrGetBootstrap (fun c => c == 6) nh samplers
      (r.1, Sched.rl r.2 false 0)
    | s => (samplers, s)
  let cfg : Cfg := { ensemble := ens, simLen := n, convPrec := if cp < 0 then none else some cp.toNat,
                     verbose := verbose, nJobs := nj, folder := folder }
  pure ({ cfg, samplers, sched, tape, actions, faults, scripts, lossTable, lossDefault }, ops)

/-! canonical dump of the observable state -/
def showTh (t : Th) : String := ",".intercalate (t.map floatToHex)
def showNatL (l : List Nat) : String := ",".intercalate (l.map toString)

def showSched : Sched → String
  | .rr b => s!"rr:{b}"
  | .rl boot st n => s!"rl:{boot}:{if st then 1 else 0}:{n}"

def dump (s : State Th Se Float SSt) : String :=
  let k := s.core
  let ser := ";".intercalate (k.series.map (fun ens =>
    "/".intercalate (ens.map (fun (th, n, sd) => s!"{showTh th}:{n}:{sd}"))))
  s!"n={k.nSampled} b={k.batchIdx} params=[{";".intercalate (k.params.map showTh)}] " ++
  s!"losses=[{",".intercalate (k.losses.map floatToHex)}] series=[{ser}] bn=[{showNatL k.batchNum}] " ++
  s!"ms=[{showNatL k.method}] sched={showSched k.sched} gen={k.gen} " ++
  s!"table=[{";".intercalate (s.table.map (fun p => s!"{p.1}:{p.2}"))}] " ++
  s!"smp=[{";".intercalate (k.samplers.map (fun m => s!"{m.cls}:{m.batchSize}:{m.st.obj}:{m.st.calls}:" ++
      (if m.st.seed == -1 then "-" else if m.st.seed == -2 then "?" else toString m.st.seed)))}]"

def showResult (r : List (Th × Float)) : String :=
  ";".intercalate (r.map (fun p => s!"{showTh p.1}={floatToHex p.2}"))

def faultStr : Option FaultKind → String
  | none => "ok" | some .sampler => "raise:sampler" | some .model => "raise:model" | some .loss => "raise:loss"

def runOps (c : Comp Th Se Float SSt) : State Th Se Float SSt → List Op → List String → List String
  | _, [], acc => acc.reverse
  | s, op :: ops, acc =>
    match op with
    | .cal n =>
      let (s', f) := calibrate c n s
      let line := s!"{faultStr f} {dump s'}" ++ (match f with
        | none => s!" result=[{showResult (result c s'.core)}]" | some _ => "")
      runOps c s' ops (line :: acc)
    | .ckpt => let s' := checkpoint s; runOps c s' ops (s!"ok {dump s'}" :: acc)
    | .restore =>
      match restore s with
      | some s' => runOps c s' ops (s!"ok {dump s'}" :: acc)
      | none => runOps c s ops ("no-checkpoint" :: acc)
    | .setSamplers ss => let s' := setSamplers ss s; runOps c s' ops (s!"ok {dump s'}" :: acc)
    | .setScheduler ss sc => let s' := setScheduler ss sc s; runOps c s' ops (s!"ok {dump s'}" :: acc)

def handle (args : List String) : Option String := do
  let (sc, ops) ← run pScenario args
  let s0 : State Th Se Float SSt := init sc.cfg sc.samplers sc.sched
  pure (" || ".intercalate (runOps (comp sc) s0 ops []))

end BlackIt.Drv.Cal
