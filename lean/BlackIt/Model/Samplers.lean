import BlackIt.Model.Snap
import BlackIt.Model.Dedup
/-
Model of what the built-in samplers do *around* their random / ML components
(`black_it/samplers/{halton,r_sequence,random_uniform,best_batch,particle_swarm,surrogate,cors}.py`):
every `sample_batch` is `finish ∘ raw`, where `raw` is arbitrary (PRNG, surrogate, optimiser: a parameter)
and `finish` is `digitize_data` against the parameter grid — or, for the random-uniform sampler, the
identity on values chosen from the grid.  Core Lean only.
-/
namespace BlackIt.Samplers
open BlackIt.Snap

variable {α β : Type}

/-- a row lies on the grid: one coordinate per parameter, each an element of that parameter's grid -/
def OnGrid (grids : List (List α)) (row : List α) : Prop :=
  row.length = grids.length ∧ ∀ j (hj : j < row.length) (hg : j < grids.length), row[j] ∈ grids[j]

/-- `sample_batch` of the seven snapping samplers: whatever the raw proposal, it is snapped -/
def snapBatch [LT α] [DecidableLT α] [LT β] [DecidableLT β]
    (d : α → α → β) (grids : List (List α)) (raw : List (List α)) (dflt : α) : List (List α) :=
  digitize d grids raw dflt

/-- `RandomUniformSampler.sample_batch`: column `j` of the batch is `choice(grid j, size=m)`;
`pick j i` is the index the generator draws for row `i`, column `j` (reduced modulo the grid length: the
`choice` contract is that it returns elements of its argument) -/
def uniformBatch (grids : List (List α)) (pick : Nat → Nat → Nat) (m : Nat) (dflt : α) : List (List α) :=
  (List.range m).map (fun i => grids.zipIdx.map (fun (g, j) => g.getD (pick j i % g.length) dflt))

/-! ### surrogate samplers: selection of the candidates with the lowest predictions -/

/-- `candidates[argsort(predictions)][:k]` for the permutation `order` returned by `argsort` -/
def selectLowest (order : List Nat) (pool : List (List α)) (k : Nat) : List (List α) :=
  (order.filterMap (fun i => pool[i]?)).take k

/-- `np.argsort(preds)` contract: a permutation of the indices that puts the predictions in ascending order
(ties in any order) -/
def IsArgsort [LE β] (order : List Nat) (preds : List β) : Prop :=
  order.Perm (List.range preds.length) ∧
  ∀ a b (hab : a < b) (hb : b < order.length), ∀ pa pb,
    preds[order[a]'(by omega)]? = some pa → preds[order[b]]? = some pb → pa ≤ pb

/-! ### best-batch: parent + shocks, clip, snap -/

/-- parent of one proposed row in `BestBatchSampler.sample_batch`:
`existing_points[argsort(existing_losses)][:batch_size][j]`, `j` drawn from `integers(0, batch_size)` -/
def bestBatchParent (order : List Nat) (hist : List (List α)) (bs j : Nat) : Option (List α) :=
  (selectLowest order hist bs)[j]?


/-- one shock: coordinate, size (number of precision steps), sign (`true` = +) -/
structure Shock where
  idx : Nat
  size : Nat
  plus : Bool

/-- `np.clip(x, lo, hi)` -/
def clip [LT α] [DecidableLT α] (x lo hi : α) : α := if x < lo then lo else if hi < x then hi else x

/-- the inner loop of `BestBatchSampler.sample_batch` for one row: each shocked coordinate is moved by
`precision · sign · size` and clipped to its bounds -/
def applyShocks [LT α] [DecidableLT α] [Add α] [Mul α] [Neg α] (ofNat : Nat → α)
    (prec lo hi : List α) (dflt : α) (p : List α) : List Shock → List α
  | [] => p
  | sh :: rest =>
    let delta := prec.getD sh.idx dflt
    let shift := if sh.plus then delta * ofNat 1 * ofNat sh.size else delta * (-(ofNat 1)) * ofNat sh.size
    let v := clip (p.getD sh.idx dflt + shift) (lo.getD sh.idx dflt) (hi.getD sh.idx dflt)
    applyShocks ofNat prec lo hi dflt (p.set sh.idx v) rest

/-! ### particle swarm: when a call starts the swarm and when it updates from the history
(`ParticleSwarmSampler.sample_batch`, `_set_up`, `_update_best`; positions and velocities are arbitrary and not modelled) -/

/-- the part of the swarm's state that decides what is read from the history -/
structure Pso where
  setUp : Bool           -- `is_set_up`
  prevStart : Nat        -- `_previous_batch_index_start`
deriving DecidableEq, Repr

/-- what a `sample_batch` call does with the history it is given -/
inductive PsoAct
  | start                      -- `_set_up`: fresh positions, nothing read from the history
  | update (n lo hi : Nat)     -- `_update_best`: `argmin` over the `n` losses; the particles' own points are rows `lo ≤ i < hi`
deriving DecidableEq, Repr

def Pso.init : Pso := ⟨false, 0⟩

/-- `sample_batch(…, existing_points, existing_losses)` with `n = len(existing_points)`, `bs = batch_size`:
the swarm starts when it is not set up **or no point has been evaluated yet** -/
def Pso.sampleBatch (bs : Nat) (p : Pso) (n : Nat) : Pso × PsoAct :=
  if !p.setUp || n == 0 then (⟨true, n⟩, .start) else (⟨true, n⟩, .update n p.prevStart (p.prevStart + bs))

/-- the pinned commit: starts only when not set up -/
def Pso.sampleBatchPinned (bs : Nat) (p : Pso) (n : Nat) : Pso × PsoAct :=
  if !p.setUp then (⟨true, n⟩, .start) else (⟨true, n⟩, .update n p.prevStart (p.prevStart + bs))

/-- the calls of one sampler object over a calibration: `ns` are the history lengths it is handed (a failed batch hands the
same length again; a calibrator always hands a length that never decreases, but nothing here needs that) -/
def Pso.run (step : Pso → Nat → Pso × PsoAct) (p : Pso) : List Nat → List PsoAct
  | [] => []
  | n :: ns => (step p n).2 :: Pso.run step (step p n).1 ns

end BlackIt.Samplers
