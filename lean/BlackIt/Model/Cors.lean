import BlackIt.Model.Samplers
/-
Model of what `CORSSampler.sample_batch` (`black_it/samplers/cors.py`) does around its two numerical components (the RBF fit and SLSQP, both
arbitrary functions here): the volume of the unit ball, the radius schedule of the exclusion balls with its life-long counter `_batch_id`, the
number of constraints of each minimisation, and the maps between the box and the unit cube.  Core Lean only; `pow` and `pi` are parameters.
-/
namespace BlackIt.Cors

variable {α : Type}

/-- the numerical primitives the code uses: `float(n)`, `np.pi`, `x ** y` -/
structure Ops (α : Type) where
  ofNat : Nat → α
  pi : α
  pow : α → α → α

def factorial : Nat → Nat
  | 0 => 1
  | n + 1 => (n + 1) * factorial n

/-- `volume_d_dimensional_ball_radius_1(dims)` -/
def ballVolume [Mul α] [Div α] (o : Ops α) (dims : Nat) : α :=
  if dims % 2 = 0 then
    o.pow o.pi (o.ofNat dims / o.ofNat 2) / o.ofNat (factorial (dims / 2))
  else
    o.ofNat 2 * o.pow (o.ofNat 4 * o.pi) (o.ofNat (dims - 1) / o.ofNat 2) * o.ofNat (factorial ((dims - 1) / 2)) / o.ofNat (factorial dims)

/-- constructor options: `max_samples`, `rho0`, `p` -/
structure Cfg (α : Type) where
  maxSamples : Nat
  rho0 : α
  p : α

/-- the radius used for the point with life-long index `k = _batch_id * batch_size + j`, when the call was handed `nSeed` points:
`((rho0 * ((max_samples - 1.0 - k) / (max_samples - 1.0)) ** p) / (v1 * (nSeed + k))) ** (1.0 / dims)` -/
def radius [Sub α] [Mul α] [Div α] (o : Ops α) (c : Cfg α) (v1 : α) (dims nSeed k : Nat) : α :=
  o.pow ((c.rho0 * o.pow ((o.ofNat c.maxSamples - o.ofNat 1 - o.ofNat k) / (o.ofNat c.maxSamples - o.ofNat 1)) c.p) / (v1 * o.ofNat (nSeed + k)))
    (o.ofNat 1 / o.ofNat dims)

/-- the life-long indices of the points of call number `batchId` -/
def indices (batchId bs : Nat) : List Nat := (List.range bs).map (fun j => batchId * bs + j)

/-- one `sample_batch` call: the radii of its `bs` minimisations, the number of distance constraints each of them carries
(`nSeed + j`: the points handed over plus the points already placed in this call), and the counter after the call -/
def sampleBatch [Sub α] [Mul α] [Div α] (o : Ops α) (c : Cfg α) (dims bs : Nat) (batchId nSeed : Nat) : List α × List Nat × Nat :=
  let v1 := ballVolume o dims
  ((indices batchId bs).map (radius o c v1 dims nSeed), (List.range bs).map (fun j => nSeed + j), batchId + 1)

/-- the calls of one sampler object: history lengths handed over, one after the other -/
def run [Sub α] [Mul α] [Div α] (o : Ops α) (c : Cfg α) (dims bs : Nat) : Nat → List Nat → List (List α × List Nat)
  | _, [] => []
  | b, n :: ns => let r := sampleBatch o c dims bs b n; (r.1, r.2.1) :: run o c dims bs r.2.2 ns

/-- `boxtocube`: `(x - lo) / (hi - lo)` -/
def boxToCube [Sub α] [Div α] (lo hi : List α) (row : List α) : List α :=
  List.zipWith (fun x (b : α × α) => (x - b.1) / (b.2 - b.1)) row (lo.zip hi)

/-- `cubetobox`: `lo + x * (hi - lo)` -/
def cubeToBox [Add α] [Sub α] [Mul α] (lo hi : List α) (row : List α) : List α :=
  List.zipWith (fun x (b : α × α) => b.1 + x * (b.2 - b.1)) row (lo.zip hi)

end BlackIt.Cors
