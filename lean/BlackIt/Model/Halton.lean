/-
Model of `black_it/samplers/halton.py`: `halton()` (lines 196-229), `_PrimesIterator`/`_CachedPrimesCalculator`
(lines 128-193), the cursor of `HaltonSampler` (lines 57-126); and of `black_it/samplers/r_sequence.py`
(`_r_sequence`, `_reset`).  Core Lean only.
-/
namespace BlackIt.Halton

variable {α : Type}

/-- inner `while (i > 0)` loop of `halton()` for one base: `i, r = divmod(i, b); denom *= b; x += r/denom`.
`fuel` bounds the number of rounds (`n` rounds always suffice for `b ≥ 2`). -/
def radInvAux [Add α] [Mul α] [Div α] (ofNat : Nat → α) (b : Nat) : Nat → Nat → α → α → α
  | 0, _, _, x => x
  | fuel + 1, i, denom, x =>
    if i = 0 then x
    else
      let denom' := denom * ofNat b
      radInvAux ofNat b fuel (i / b) denom' (x + ofNat (i % b) / denom')

/-- the `index`-th element of the van der Corput sequence in base `b` as the code computes it -/
def radicalInverse [Add α] [Mul α] [Div α] (ofNat : Nat → α) (b n : Nat) : α :=
  radInvAux ofNat b n n (ofNat 1) (ofNat 0)

/-- row of the Halton sequence: one radical inverse per base -/
def haltonPoint [Add α] [Mul α] [Div α] (ofNat : Nat → α) (bases : List Nat) (n : Nat) : List α :=
  bases.map (fun b => radicalInverse ofNat b n)

/-- `halton(sample_size, bases, n_start)`: rows for indices `n_start+1 … n_start+sample_size` -/
def halton [Add α] [Mul α] [Div α] (ofNat : Nat → α) (sampleSize : Nat) (bases : List Nat) (nStart : Nat) :
    List (List α) :=
  (List.range sampleSize).map (fun k => haltonPoint ofNat bases (nStart + 1 + k))

/-! ### a sampler with a sequence cursor (`_sequence_index`) -/

/-- one `_halton` / `_r_sequence` call at cursor `s` asking for `k` points of the sequence `point`,
the first of them being `point (s + offset)` (offset 1 for Halton, 0 for the R-sequence);
returns the batch and the new cursor -/
def drawBatch {β : Type} (point : Nat → β) (offset s k : Nat) : List β × Nat :=
  ((List.range k).map (fun i => point (s + offset + i)), s + k)

/-- successive calls on one sampler object -/
def drawMany {β : Type} (point : Nat → β) (offset : Nat) : Nat → List Nat → List (List β) × Nat
  | s, [] => ([], s)
  | s, k :: ks =>
    let (b, s') := drawBatch point offset s k
    let (bs, s'') := drawMany point offset s' ks
    (b :: bs, s'')

/-! ### primes: `_PrimesIterator.__next__` -/

/-- the `for i in self._primes` scan for one candidate: advance each `[p, multiple]` pair until the multiple
is `≥ candidate`; `true` (composite) at the first pair whose multiple equals the candidate.
Returns the updated pairs and whether the candidate was hit. -/
def scan (cand : Nat) : List (Nat × Nat) → List (Nat × Nat) × Bool
  | [] => ([], false)
  | (p, m) :: rest =>
    -- `while candidate > i[1]: i[1] += i[0]`  (p ≥ 2, so ⌈(cand - m)/p⌉ additions)
    let m' := if cand > m then m + ((cand - m + p - 1) / p) * p else m
    if cand = m' then ((p, m') :: rest, true)
    else
      let (rest', hit) := scan cand rest
      ((p, m') :: rest', hit)

/-- `__next__`: try candidates until one survives the scan (fuel bounds the `while True`) -/
def nextPrime : Nat → List (Nat × Nat) → Nat → Option (List (Nat × Nat) × Nat)
  | 0, _, _ => none
  | fuel + 1, primes, cand =>
    let c := cand + 1
    let (primes', hit) := scan c primes
    if hit then nextPrime fuel primes' c else some (primes' ++ [(c, c)], c)

/-- the first `n` primes as `_CachedPrimesCalculator.get_n_primes(n)` produces them (fresh cache) -/
def firstPrimes : Nat → Nat → List (Nat × Nat) × Nat × List Nat
  | _, 0 => ([(2, 2)], 2, [])
  | fuel, n + 1 =>
    if n = 0 then ([(2, 2)], 2, [2])
    else
      let (ps, cand, acc) := firstPrimes fuel n
      match nextPrime fuel ps cand with
      | some (ps', c) => (ps', c, acc ++ [c])
      | none => (ps, cand, acc)

def getNPrimes (n : Nat) : List Nat := (firstPrimes 400 n).2.2

/-! ### R-sequence -/

/-- `(start + n·α_j) % 1` for one coordinate; `fract x` is `x % 1` -/
def rCoord [Add α] [Mul α] (ofNat : Nat → α) (fract : α → α) (start a : α) (n : Nat) : α :=
  fract (start + ofNat n * a)

def rPoint [Add α] [Mul α] (ofNat : Nat → α) (fract : α → α) (start : α) (alphas : List α) (n : Nat) : List α :=
  alphas.map (fun a => rCoord ofNat fract start a n)

/-- `RSequenceSampler.compute_phi(nb_dims)`: `phi = 2.0; while old_phi != phi: old_phi = phi; phi = pow(1 + phi, 1/(nb_dims+1))`.
`root y` stands for `pow(y, 1.0 / (nb_dims + 1))`; `fuel` bounds the `while` (`none` = still moving after `fuel` rounds). -/
def phiLoop [BEq α] [Add α] (one : α) (root : α → α) : Nat → α → Option α
  | 0, _ => none
  | fuel + 1, phi =>
    let phi' := root (one + phi)
    if phi' == phi then some phi' else phiLoop one root fuel phi'

/-- `np.power(1 / phi, np.arange(1, dims + 1))`; `pw x k` stands for `x ** k` -/
def alphas [Div α] (one : α) (pw : α → Nat → α) (phi : α) (dims : Nat) : List α :=
  (List.range dims).map (fun j => pw (one / phi) (j + 1))

end BlackIt.Halton
