/-
Model of `black_it/utils/json_pandas_checkpointing.py` (`save_calibrator_state`, `load_calibrator_state`):
a checkpoint folder holds five files; a save rewrites four of them and creates-or-appends the series file.
Also the single-row table of `black_it/utils/sqlite3_checkpointing.py`.  Core Lean only.
Serialisers are parameters (`enc`/`dec` pairs); what the files hold are *encoded* values.
-/
namespace BlackIt.Checkpoint

/-- what `save_calibrator_state` is given (decoded side) -/
structure Snap (P Sc Lo Row Ser : Type) where
  params : P            -- everything that goes into calibration_params.json (config, counters, generator state)
  sched : Sc            -- scheduler object (with its samplers)
  loss : Lo             -- loss object
  rows : List Row       -- calibration_results.csv: one row per sample (loss, batch, method, parameters)
  series : List Ser     -- series_samp.h5: one entry per sample

/-- the five files (encoded side); `none` = file absent -/
structure Folder (PJ ScB LoB RowT SerT : Type) where
  paramsJson : Option PJ
  schedPickle : Option ScB
  lossPickle : Option LoB
  resultsCsv : Option (List RowT)
  seriesH5 : Option (List SerT)

def Folder.empty {PJ ScB LoB RowT SerT : Type} : Folder PJ ScB LoB RowT SerT := ⟨none, none, none, none, none⟩

/-- encoders / decoders of the five formats -/
structure Codec (P Sc Lo Row Ser PJ ScB LoB RowT SerT : Type) where
  encP : P → PJ
  decP : PJ → Option P
  encSc : Sc → ScB
  decSc : ScB → Option Sc
  encLo : Lo → LoB
  decLo : LoB → Option Lo
  encRow : Row → RowT
  decRow : RowT → Option Row
  encSer : Ser → SerT
  decSer : SerT → Option Ser

variable {P Sc Lo Row Ser PJ ScB LoB RowT SerT : Type}

/-- `save_calibrator_state`: four files are rewritten; the series file is created when absent, otherwise only
`series[rows_on_disk:]` is appended behind what is there -/
def save (cd : Codec P Sc Lo Row Ser PJ ScB LoB RowT SerT) (f : Folder PJ ScB LoB RowT SerT)
    (s : Snap P Sc Lo Row Ser) : Folder PJ ScB LoB RowT SerT :=
  { paramsJson := some (cd.encP s.params)
    schedPickle := some (cd.encSc s.sched)
    lossPickle := some (cd.encLo s.loss)
    resultsCsv := some (s.rows.map cd.encRow)
    seriesH5 := match f.seriesH5 with
      | none => some (s.series.map cd.encSer)
      | some old => some (old ++ (s.series.drop old.length).map cd.encSer) }

/-- `load_calibrator_state`: every file must be present and decode -/
def load (cd : Codec P Sc Lo Row Ser PJ ScB LoB RowT SerT) (f : Folder PJ ScB LoB RowT SerT) :
    Option (Snap P Sc Lo Row Ser) := do
  let p ← (← f.paramsJson) |> cd.decP
  let rows ← (← f.resultsCsv).mapM cd.decRow
  let sc ← (← f.schedPickle) |> cd.decSc
  let lo ← (← f.lossPickle) |> cd.decLo
  let ser ← (← f.seriesH5).mapM cd.decSer
  pure { params := p, sched := sc, loss := lo, rows := rows, series := ser }

/-! ### SQLite back-end: one table, at most one row -/

/-- `DELETE FROM checkpoint; INSERT …` inside one transaction -/
def sqlSave {R : Type} (_table : List R) (row : R) : List R := [row]

/-- `SELECT … FROM checkpoint` + `fetchone()` -/
def sqlLoad {R : Type} (table : List R) : Option R := table.head?

end BlackIt.Checkpoint
