/-
Model of `black_it/utils/json_pandas_checkpointing.py` (`save_calibrator_state`, `load_calibrator_state`):
a checkpoint folder holds five files; a save rewrites four of them and creates-or-appends the series file.
Also the single-row table of `black_it/utils/sqlite3_checkpointing.py`.  Core Lean only.
Serialisers are parameters (`enc`/`dec` pairs); what the files hold are *encoded* values.
-/
namespace BlackIt.Checkpoint

/-- what `save_calibrator_state` is given (decoded side) -/
structure Snap (P Sc Lo Row Ser : Type) where
  params : P            -- everything that goes into calibration_params.json (config, counters, generator state)
  sched : Sc            -- scheduler object (with its samplers)
  loss : Lo             -- loss object
  rows : List Row       -- calibration_results.csv: one row per sample (loss, batch, method, parameters)
  series : List Ser     -- series_samp.h5: one entry per sample

/-- the five files (encoded side); `none` = file absent -/
structure Folder (PJ ScB LoB RowT SerT : Type) where
  paramsJson : Option PJ
  schedPickle : Option ScB
  lossPickle : Option LoB
  resultsCsv : Option (List RowT)
  seriesH5 : Option (List SerT)

def Folder.empty {PJ ScB LoB RowT SerT : Type} : Folder PJ ScB LoB RowT SerT := ⟨none, none, none, none, none⟩

/-- encoders / decoders of the five formats -/
structure Codec (P Sc Lo Row Ser PJ ScB LoB RowT SerT : Type) where
  encP : P → PJ
  decP : PJ → Option P
  encSc : Sc → ScB
  decSc : ScB → Option Sc
  encLo : Lo → LoB
  decLo : LoB → Option Lo
  encRow : Row → RowT
  decRow : RowT → Option Row
  encSer : Ser → SerT
  decSer : SerT → Option Ser

variable {P Sc Lo Row Ser PJ ScB LoB RowT SerT : Type}

/-- `save_calibrator_state`: four files are rewritten; the series file is created when absent; when present, only
`series[rows_on_disk:]` is appended behind what is there **provided the rows on disk are the first rows of the
current history** (same trailing shape, not more rows, equal content — `np.array_equal(data[:], series_samp[:nb_rows])`),
otherwise the file is rewritten.  float64 rows are stored verbatim in HDF5, so the comparison is modelled on the
encoded side. -/
def save [BEq SerT] (cd : Codec P Sc Lo Row Ser PJ ScB LoB RowT SerT) (f : Folder PJ ScB LoB RowT SerT)
    (s : Snap P Sc Lo Row Ser) : Folder PJ ScB LoB RowT SerT :=
  { paramsJson := some (cd.encP s.params)
    schedPickle := some (cd.encSc s.sched)
    lossPickle := some (cd.encLo s.loss)
    resultsCsv := some (s.rows.map cd.encRow)
    seriesH5 := match f.seriesH5 with
      | none => some (s.series.map cd.encSer)
      | some old =>
        if old.isPrefixOf (s.series.map cd.encSer) then some (old ++ (s.series.drop old.length).map cd.encSer)
        else some (s.series.map cd.encSer) }

/-- the pinned code before the repair: the rows on disk were kept unconditionally -/
def saveUnchecked (cd : Codec P Sc Lo Row Ser PJ ScB LoB RowT SerT) (f : Folder PJ ScB LoB RowT SerT)
    (s : Snap P Sc Lo Row Ser) : Folder PJ ScB LoB RowT SerT :=
  { paramsJson := some (cd.encP s.params)
    schedPickle := some (cd.encSc s.sched)
    lossPickle := some (cd.encLo s.loss)
    resultsCsv := some (s.rows.map cd.encRow)
    seriesH5 := match f.seriesH5 with
      | none => some (s.series.map cd.encSer)
      | some old => some (old ++ (s.series.drop old.length).map cd.encSer) }

/-- `load_calibrator_state`: every file must be present and decode -/
def load (cd : Codec P Sc Lo Row Ser PJ ScB LoB RowT SerT) (f : Folder PJ ScB LoB RowT SerT) :
    Option (Snap P Sc Lo Row Ser) := do
  let p ← (← f.paramsJson) |> cd.decP
  let rows ← (← f.resultsCsv).mapM cd.decRow
  let sc ← (← f.schedPickle) |> cd.decSc
  let lo ← (← f.lossPickle) |> cd.decLo
  let ser ← (← f.seriesH5).mapM cd.decSer
  pure { params := p, sched := sc, loss := lo, rows := rows, series := ser }

/-! ### SQLite back-end: one table, at most one row -/

/-- `DELETE FROM checkpoint; INSERT …` inside one transaction -/
def sqlSave {R : Type} (_table : List R) (row : R) : List R := [row]

/-- `SELECT … FROM checkpoint` + `fetchone()` -/
def sqlLoad {R : Type} (table : List R) : Option R := table.head?

end BlackIt.Checkpoint

namespace BlackIt.Checkpoint

/-! ### crash model of the JSON/CSV/HDF5 back-end (C06)

A save touches the five files in a fixed order; each of the four rewritten files is opened with truncation,
written, closed; the series file is updated in place.  A crash (process death between system calls, or an
exception) leaves a *prefix* of these operations done. -/

/-- what a file holds after a crash, relative to the previous complete checkpoint and the one being written -/
inductive FileState where
  | prev       -- not yet opened: still the previous checkpoint's content
  | broken     -- truncated / partially written in a way the loader rejects (JSON, pickle, empty CSV, HDF5 mid-update error)
  | cut        -- partially written but still parseable (a CSV cut at/inside a row, an HDF5 file whose new rows are not yet visible)
  | done       -- completely written
  | same       -- previous and new content coincide (e.g. an unchanged loss object): neutral
  deriving DecidableEq, Repr

inductive Outcome where
  | error | equalsPrev | equalsNew | hybrid
  deriving DecidableEq, Repr

/-- what `load_calibrator_state` does with a folder in the given per-file states (file order of `save`:
params.json, scheduler pickle, loss pickle, results.csv, series.h5) -/
def restoreOutcome (fs : List FileState) : Outcome :=
  if fs.any (· == .broken) then .error
  else if fs.all (fun f => f == .prev || f == .same) then .equalsPrev
  else if fs.all (fun f => f == .done || f == .same) then .equalsNew
  else .hybrid

/-- the folder states a crash can produce: the first `i` files complete, file `i` in state `mid`, the rest old -/
def crashState (nfiles i : Nat) (mid : FileState) : List FileState :=
  (List.range nfiles).map (fun j => if j < i then .done else if j = i then mid else .prev)

/-! ### SQLite back-end: the save as a transaction -/

structure Db (R : Type) where
  committed : List R
  pending : Option (List R)      -- open transaction's view

inductive SqlStmt (R : Type) where
  | ddl                 -- a statement that changes no row and starts no transaction (PRAGMA ...)
  | script              -- `executescript(...)` of row-free DDL: COMMITS a pending transaction first, then changes no row
  | delete              -- DELETE FROM checkpoint   (opens the transaction)
  | insert (row : R)
  | commit

def sqlStep {R : Type} (db : Db R) : SqlStmt R → Db R
  | .ddl => db
  | .script => { committed := db.pending.getD db.committed, pending := none }
  | .delete => { db with pending := some [] }
  | .insert row => { db with pending := some ((db.pending.getD db.committed) ++ [row]) }
  | .commit => { committed := db.pending.getD db.committed, pending := none }

/-- the statements of `save_calibrator_state` (repaired order: DELETE inside the transaction) -/
def sqlSaveStmts {R : Type} (row : R) : List (SqlStmt R) := [.ddl, .script, .delete, .insert row, .commit]

/-- a statement sequence as observed on the real save (`harness/props/c06.py` logs every call on the cursor and the connection):
0 = execute of a row-free statement, 4 = executescript, 1 = DELETE, 2 = INSERT of the new row, 3 = commit -/
def sqlOfCodes {R : Type} (row : R) (codes : List Nat) : List (SqlStmt R) :=
  codes.map (fun c => match c with | 1 => .delete | 2 => .insert row | 3 => .commit | 4 => .script | _ => .ddl)

/-- run the save; `failAt = some i` raises at statement `i` (before it takes effect) → `rollback()` -/
def sqlRun {R : Type} (db : Db R) (stmts : List (SqlStmt R)) (failAt : Option Nat) : Db R :=
  let n := match failAt with | some i => min i stmts.length | none => stmts.length
  let db' := (stmts.take n).foldl sqlStep db
  match failAt with
  | some _ => { db' with pending := none }       -- rollback
  | none => db'

end BlackIt.Checkpoint

/-! ### the saving folder as a directory: files by name

`load_calibrator_state` opens exactly the files it names; whatever else lies in the folder - files of other tools, of older releases, of other
runs under other names - is not looked at, and `save_calibrator_state` leaves such files alone.  `fileNames` is compared with the data-file names
that occur as string literals in the source of the package under test on every run (`harness/vp/leftovers.py`, `ckpt.names`). -/
namespace BlackIt.Checkpoint.Dir

/-- the files of the JSON/CSV/HDF5 back-end, and the database of the SQLite back-end -/
def fileNames : List String :=
  ["calibration_params.json", "scheduler_pickled.pickle", "loss_function_pickled.pickle", "calibration_results.csv", "series_samp.h5"]
def sqliteName : String := "checkpoint.sqlite"

/-- a directory: name ↦ content (first entry wins) -/
abbrev Dir (B : Type) := List (String × B)

def get {B : Type} (d : Dir B) (name : String) : Option B := (d.find? (fun e => e.1 == name)).map (·.2)

/-- create or replace one file -/
def put {B : Type} (d : Dir B) (name : String) (b : B) : Dir B := (name, b) :: d.filter (fun e => e.1 != name)

/-- a save: the five named files are created or replaced (`contents` gives the new content of each from what was there before - the series file is
appended to or rewritten, the other four rewritten), nothing else is touched -/
def save {B : Type} (contents : String → Option B → B) (d : Dir B) : Dir B :=
  fileNames.foldl (fun acc n => put acc n (contents n (get d n))) d

/-- a load: the five named files, all present, handed to the decoder -/
def load {B S : Type} (decode : List B → Option S) (d : Dir B) : Option S := do
  let files ← fileNames.mapM (get d)
  decode files

end BlackIt.Checkpoint.Dir

/-! ### the process dies during a SQLite save: rollback journal

One transaction of the save as the file system sees it (`strace` of the real save: `openat journal`, `pwrite64 journal`…,
`pwrite64 database`…, `unlink journal`): `j` journal records with the original content of the pages, then `n` database
pages overwritten, then the journal deleted — the commit point. -/
namespace BlackIt.Checkpoint.Journal

/-- what is on disk after the first `k` of the `j + n + 1` file operations -/
structure Crash where
  jw : Nat          -- journal records written
  pw : Nat          -- database pages already overwritten
  deleted : Bool    -- journal deleted (transaction committed)
deriving DecidableEq, Repr

def crashAt (j n k : Nat) : Crash := ⟨min k j, min (k - j) n, decide (j + n + 1 ≤ k)⟩

inductive Outcome | prev | new | mixture
deriving DecidableEq, Repr

/-- what the loader returns.  `rollsBack = true`: the database is opened normally, a complete journal found next to it is
replayed first (SQLite's own recovery, trusted).  `false`: the database file is read as it is — opened `immutable`, or
written without a journal. -/
def load (j n : Nat) (rollsBack : Bool) (c : Crash) : Outcome :=
  if c.deleted then .new
  else if c.pw = 0 then .prev
  else if rollsBack && c.jw == j then .prev
  else if c.pw = n then .new
  else .mixture

end BlackIt.Checkpoint.Journal
