import BlackIt.Model.Samplers
/-
Model of the whole particle-swarm sampler (`black_it/samplers/particle_swarm.py`): `_set_up`, `_update_best`,
`_get_best_position`, `_do_step` and `sample_batch`, operation by operation, with the generator's draws as a tape.
Positions live in a type `α` (instantiated at `Float` by the driver and at an ordered field by the theorems),
losses in a type `β` with a largest element `top` (`np.inf`).  Core Lean only.

Two things the code does that a reader may not expect are mirrored on purpose (the correspondence is bit-exact):

* `_set_up` makes `_best_particle_positions` *the same array object* as `_curr_particle_positions`; the first
  `_update_best` therefore writes the evaluated points into the current positions as well (`aliased`), and the alias
  ends only when `_do_step` rebinds `_curr_particle_positions` to the fresh result of `np.clip`;
* the personal best positions receive history rows, i.e. points in parameter coordinates, whereas the initial
  positions are in the unit cube.
-/
namespace BlackIt.Pso
open BlackIt.Samplers

variable {α β : Type}

/-- constructor options -/
structure Cfg (α : Type) where
  bs : Nat                 -- `batch_size` = `nb_particles`
  inertia : α
  c1 : α
  c2 : α
  across : Bool            -- `global_minimum_across_samplers`

/-- the sampler's own state between calls -/
structure Swarm (α β : Type) where
  pos : List (List α)       -- `_curr_particle_positions`
  vel : List (List α)       -- `_curr_particle_velocities`
  bestPos : List (List α)   -- `_best_particle_positions`
  bestLoss : List β         -- `_best_position_losses`
  gid : Nat                 -- `_global_best_particle_id`
  bestPoint : Option (List α)  -- `_best_point`
  prevStart : Nat           -- `_previous_batch_index_start`
  aliased : Bool            -- `_best_particle_positions is _curr_particle_positions`

/-- `_set_up(dims)`: `u0` and `u1` are the two `random(size=(bs, dims))` draws, `half` is `0.5` -/
def setUp [Sub α] (bs : Nat) (half : α) (top : β) (u0 u1 : List (List α)) (n : Nat) (old : Option (List α)) : Swarm α β :=
  { pos := u0, vel := u1.map (fun r => r.map (fun x => x - half)), bestPos := u0,
    bestLoss := List.replicate bs top, gid := 0, bestPoint := old, prevStart := n, aliased := true }

/-- `np.argmin`: the first index holding a smallest value (`0` on the empty list, where numpy raises) -/
def argminFrom [LT β] [DecidableLT β] : Nat → Nat → β → List β → Nat
  | _, bi, _, [] => bi
  | i, bi, bv, x :: xs => if x < bv then argminFrom (i + 1) i x xs else argminFrom (i + 1) bi bv xs

def argmin [LT β] [DecidableLT β] : List β → Nat
  | [] => 0
  | x :: xs => argminFrom 1 0 x xs

/-- one iteration of the loop in `_update_best`: particle `pid` was evaluated at `point` with `loss` -/
def updateOne [LT β] [DecidableLT β] (s : Swarm α β) (pid : Nat) (point : List α) (loss : β) : Swarm α β :=
  match s.bestLoss[pid]? with
  | none => s
  | some bl =>
    if loss < bl then
      let bestLoss' := s.bestLoss.set pid loss
      let s' := { s with bestPos := s.bestPos.set pid point, bestLoss := bestLoss' }
      match bestLoss'[s.gid]? with
      | some g => if loss < g then { s' with gid := pid } else s'
      | none => s'
    else s

def updateLoop [LT β] [DecidableLT β] : Swarm α β → Nat → List (List α × β) → Swarm α β
  | s, _, [] => s
  | s, pid, (p, l) :: rest => updateLoop (updateOne s pid p l) (pid + 1) rest

/-- `_update_best(existing_points, existing_losses)` -/
def updateBest [LT β] [DecidableLT β] (bs : Nat) (s : Swarm α β) (points : List (List α)) (losses : List β) : Swarm α β :=
  let s1 := { s with bestPoint := points[argmin losses]? }
  let prevP := (points.drop s.prevStart).take bs
  let prevL := (losses.drop s.prevStart).take bs
  let s2 := updateLoop s1 0 (prevP.zip prevL)
  if s2.aliased then { s2 with pos := s2.bestPos } else s2

/-- `_get_best_position()` -/
def bestPosition (across : Bool) (s : Swarm α β) : List α :=
  if across then s.bestPoint.getD [] else s.bestPos.getD s.gid []

/-- the velocity of one coordinate: `inertia*v + c1*r1*(b - x) + c2*r2*(g - x)`, evaluated left to right as numpy does -/
def newVel [Add α] [Sub α] [Mul α] (cfg : Cfg α) (v x b g r1 r2 : α) : α :=
  cfg.inertia * v + cfg.c1 * r1 * (b - x) + cfg.c2 * r2 * (g - x)

def zipWith6 (f : α → α → α → α → α → α → α) :
    List α → List α → List α → List α → List α → List α → List α
  | a :: as, b :: bs, c :: cs, d :: ds, e :: es, g :: gs => f a b c d e g :: zipWith6 f as bs cs ds es gs
  | _, _, _, _, _, _ => []

/-- the new velocities of one particle -/
def newVelRow [Add α] [Sub α] [Mul α] (cfg : Cfg α) (v x b g r1 r2 : List α) : List α :=
  zipWith6 (newVel cfg) v x b g r1 r2

def zipWith5 {γ : Type} (f : List α → List α → List α → List α → List α → γ) :
    List (List α) → List (List α) → List (List α) → List (List α) → List (List α) → List γ
  | a :: as, b :: bs, c :: cs, d :: ds, e :: es => f a b c d e :: zipWith5 f as bs cs ds es
  | _, _, _, _, _ => []

/-- `_do_step()`: `r1`, `r2` are the two `random(size=shape)` draws; `zero`, `one` the clip bounds -/
def doStep [LT α] [DecidableLT α] [Add α] [Sub α] [Mul α] (cfg : Cfg α) (zero one : α)
    (s : Swarm α β) (r1 r2 : List (List α)) : Swarm α β :=
  let g := bestPosition cfg.across s
  let nv := zipWith5 (fun v x b a1 a2 => newVelRow cfg v x b g a1 a2) s.vel s.pos s.bestPos r1 r2
  let np := List.zipWith (fun x v => List.zipWith (fun xi vi => clip (xi + vi) zero one) x v) s.pos nv
  { s with pos := np, vel := nv, aliased := false }

/-- `p_bounds[0] + positions * (p_bounds[1] - p_bounds[0])` -/
def scale [Add α] [Sub α] [Mul α] (lo hi : List α) (pos : List (List α)) : List (List α) :=
  pos.map (fun row => List.zipWith (fun x (b : α × α) => b.1 + x * (b.2 - b.1)) row (lo.zip hi))

/-- `sample_batch(…, existing_points, existing_losses)` before the final `digitize_data`: the new state and the raw
proposal that is snapped.  `draws` are the next two `random(size=(bs, dims))` results of the sampler's generator. -/
def sampleBatch [LT α] [DecidableLT α] [Add α] [Sub α] [Mul α] [LT β] [DecidableLT β]
    (cfg : Cfg α) (zero one half : α) (top : β) (lo hi : List α)
    (s : Option (Swarm α β)) (d0 d1 : List (List α)) (points : List (List α)) (losses : List β) :
    Swarm α β × List (List α) :=
  match s with
  | some sw =>
    if points.length = 0 then
      let s' := setUp cfg.bs half top d0 d1 0 sw.bestPoint
      (s', s'.bestPos)
    else
      let s1 := updateBest cfg.bs sw points losses
      let s2 := doStep cfg zero one s1 d0 d1
      ({ s2 with prevStart := points.length }, scale lo hi s2.pos)
  | none =>
    let s' := setUp cfg.bs half top d0 d1 points.length none
    (s', s'.bestPos)

end BlackIt.Pso
