/-
Model of `black_it/utils/base.py`: `get_closest` (lines 85-107) and `digitize_data` (lines 64-82).
Core Lean only.  Polymorphic in the value type `α` and in the distance `d v g` (the code computes
`np.fabs(v - g)`), whose values live in `β`.
-/
namespace BlackIt.Snap

variable {α β : Type}

/-- numpy contract of `np.searchsorted(a, v, side="left")` on a sorted array: number of elements `< v`. -/
def ssLeft [LT α] [DecidableLT α] (a : List α) (v : α) : Nat := (a.filter (· < v)).length

/-- the index computed by `get_closest` for one value.  `idx - 1` is `np.maximum(idxs-1, 0)` (truncated
subtraction), `min idx (n-1)` is `np.minimum(idxs, len-1)`; the decrement happens when `idx == len` or the
previous element is *strictly* closer. -/
def getClosestIdx [LT α] [DecidableLT α] [LT β] [DecidableLT β]
    (d : α → α → β) (a : List α) (v : α) (dflt : α) : Nat :=
  let n := a.length
  let idx := ssLeft a v
  let prev := a.getD (idx - 1) dflt
  let cur := a.getD (min idx (n - 1)) dflt
  if idx = n ∨ d v prev < d v cur then idx - 1 else idx

/-- `get_closest(sorted_array, values)` for one value -/
def getClosest [LT α] [DecidableLT α] [LT β] [DecidableLT β]
    (d : α → α → β) (a : List α) (v : α) (dflt : α) : α :=
  a.getD (getClosestIdx d a v dflt) dflt

/-- `get_closest` on an array of values -/
def getClosestAll [LT α] [DecidableLT α] [LT β] [DecidableLT β]
    (d : α → α → β) (a : List α) (vs : List α) (dflt : α) : List α :=
  vs.map (fun v => getClosest d a v dflt)

/-- `digitize_data(data, param_grid)`: `data` is a list of rows; column `j` is snapped to `grids[j]`.
A row shorter/longer than the grid list is truncated by `zip` — the driver rejects ragged input. -/
def digitize [LT α] [DecidableLT α] [LT β] [DecidableLT β]
    (d : α → α → β) (grids : List (List α)) (data : List (List α)) (dflt : α) : List (List α) :=
  data.map (fun row => (row.zip grids).map (fun (v, g) => getClosest d g v dflt))

end BlackIt.Snap
