/-
Model of `black_it/schedulers/rl/agents/epsilon_greedy.py` (`MABEpsilonGreedy`) and of
`MABCalibrationEnv.get_reward` (`black_it/schedulers/rl/envs/mab.py`).  Core Lean only, polymorphic in the
number type.
-/
namespace BlackIt.Bandit

variable {α : Type}

/-- agent state: value estimates `Q`, per-action counters, learning rate (−1 = sample average), epsilon -/
structure Agent (α : Type) where
  q : List α
  counts : List Nat
  alpha : α
  eps : α

/-- `MABEpsilonGreedy(n_actions, alpha, eps, initial_values)` -/
def Agent.init (n : Nat) (alpha eps q0 : α) : Agent α :=
  { q := List.replicate n q0, counts := List.replicate n 0, alpha := alpha, eps := eps }

/-- `get_step_size`: `1 / count` when `alpha == -1`, else `alpha` -/
def stepSize [BEq α] [Neg α] [Div α] (ofNat : Nat → α) (alpha : α) (count : Nat) : α :=
  if alpha == -(ofNat 1) then ofNat 1 / ofNat count else alpha

/-- `learn(state, action, reward, next_state)` -/
def learn [BEq α] [Neg α] [Div α] [Add α] [Sub α] [Mul α] (ofNat : Nat → α)
    (a : Agent α) (action : Nat) (reward : α) : Agent α :=
  let c := a.counts.getD action 0 + 1
  let step := stepSize ofNat a.alpha c
  let qa := a.q.getD action (ofNat 0)
  { a with counts := a.counts.set action c, q := a.q.set action (qa + step * (reward - qa)) }

/-- `np.argmax(Q)`: index of the first maximal element (0 for an empty list) -/
def argmaxAux [LT α] [DecidableLT α] : List α → Nat → α → Nat → Nat
  | [], _, _, best => best
  | x :: xs, i, bv, best => if bv < x then argmaxAux xs (i + 1) x i else argmaxAux xs (i + 1) bv best

def argmax [LT α] [DecidableLT α] : List α → Nat
  | [] => 0
  | x :: xs => argmaxAux xs 1 x 0

/-- `policy(obs)`: `u` is the value of `random_generator.random()`, `choice` what
`random_generator.choice(arange(n), 1)[0]` returns when it is consulted -/
def policy [LT α] [DecidableLT α] (a : Agent α) (u : α) (choice : Nat) : Nat :=
  if ¬ (u < a.eps) then argmax a.q else choice

/-- `MABCalibrationEnv.get_reward(best_param, best_loss)` with reference `cur`: (reward, new reference) -/
def getReward [LT α] [DecidableLT α] [Sub α] [Div α] (zero : α) (cur new : α) : α × α :=
  if new < cur then ((cur - new) / cur, new) else (zero, cur)

/-- a whole interaction: fold of `learn` over (action, reward) pairs -/
def learnAll [BEq α] [Neg α] [Div α] [Add α] [Sub α] [Mul α] (ofNat : Nat → α)
    (a : Agent α) (steps : List (Nat × α)) : Agent α :=
  steps.foldl (fun ag s => learn ofNat ag s.1 s.2) a

end BlackIt.Bandit

namespace BlackIt.Bandit

variable {α : Type}

/-! ### the chain scheduler → environment over a run

`RLScheduler.update` keeps the best loss seen so far (`_best_loss`; the bootstrap batch sets it and the environment's
reference) and hands it over after every agent-chosen batch; `MABCalibrationEnv.get_reward` turns it into a reward
against its own reference.  By C10 the outcomes reach the agent one at a time, in batch order, exactly once — so over
a run both sides are plain folds over the sequence of per-batch minimum losses. -/

/-- `_best_loss` after each agent-chosen batch (`boot` = the bootstrap batch's minimum loss) -/
def schedBests [LT α] [DecidableLT α] (boot : α) : List α → List α
  | [] => []
  | l :: ls => let b := if l < boot then l else boot; b :: schedBests b ls

/-- the rewards the environment computes for the successive outcomes, starting from reference `cur` -/
def envRewards [LT α] [DecidableLT α] [Sub α] [Div α] (zero : α) (cur : α) : List α → List α
  | [] => []
  | b :: bs => let r := getReward zero cur b; r.1 :: envRewards zero r.2 bs

/-- the rewards of a run: bootstrap loss, then the minimum loss of every agent-chosen batch -/
def runRewards [LT α] [DecidableLT α] [Sub α] [Div α] (zero : α) (boot : α) (losses : List α) : List α :=
  envRewards zero boot (schedBests boot losses)

/-- the published rule applied to each batch's own outcome: relative improvement over the best loss before that batch -/
def rewardsByRule [LT α] [DecidableLT α] [Sub α] [Div α] (zero : α) (best : α) : List α → List α
  | [] => []
  | l :: ls => if l < best then ((best - l) / best) :: rewardsByRule zero l ls else zero :: rewardsByRule zero best ls

end BlackIt.Bandit
