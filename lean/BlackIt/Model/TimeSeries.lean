/-
Model of the logic around the numerical kernels of `black_it/utils/time_series.py`:
`np.nan_to_num` at the end of `get_mom_ts_1d`, and the de-meaned first difference of `diff_log_demean_filter`
(`np.diff(x, prepend=x[0])` then subtract the mean).  Core Lean only.  The Hodrick–Prescott system is stated
over real matrices in the property file (Mathlib).
-/
namespace BlackIt.TimeSeries

/-- an IEEE value as far as `nan_to_num` is concerned -/
inductive Ext (α : Type) where
  | fin (x : α)
  | nan
  | posInf
  | negInf
  deriving Repr, DecidableEq

/-- `np.nan_to_num`: NaN → 0, ±inf → ±(largest finite double) -/
def nanToNum {α : Type} (zero big negBig : α) : Ext α → α
  | .fin x => x
  | .nan => zero
  | .posInf => big
  | .negInf => negBig

/-- `np.diff(x, prepend=x[0])`: `[0, x₁−x₀, x₂−x₁, …]` (same length as `x`) -/
def diffPrepend {α : Type} [Sub α] : List α → List α
  | [] => []
  | x :: xs => (x - x) :: (List.zipWith (fun b a => b - a) xs (x :: xs))

/-- subtract the arithmetic mean -/
def demean {α : Type} [Add α] [Sub α] [Div α] (ofNat : Nat → α) (zero : α) (l : List α) : List α :=
  let m := l.foldl (· + ·) zero / ofNat l.length
  l.map (· - m)

end BlackIt.TimeSeries
