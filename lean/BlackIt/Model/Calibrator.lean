/-
Model of `black_it/calibrator.py` (`Calibrator.calibrate`, `simulate_model`, `_set_samplers_seeds`, the
sampler-id table, `set_samplers`, `set_scheduler`, `create_checkpoint`, `restore_from_checkpoint`) together
with the sequential behaviour of the schedulers (`schedulers/round_robin.py`, the calibration-thread view of
`schedulers/rl/rl_scheduler.py`).  Core Lean only.

Everything the calibrator does not define itself is a parameter (`Comp`): the model, the loss, the samplers'
`sample`/reseeding, the PRNG stream, the order on losses, the convergence test, the actions delivered by the
RL agent, and a fault plan (which invocation of which component raises).
-/
namespace BlackIt.Calibrator

/-- a sampler object: class (an index into the table of class names), `batch_size`, internal state -/
structure Smp (σ : Type) where
  cls : Nat
  batchSize : Nat
  st : σ
  deriving Repr

/-- scheduler state as seen from the calibration loop -/
inductive Sched where
  /-- `RoundRobinScheduler._batch_id` -/
  | rr (batchId : Nat)
  /-- `RLScheduler`: index of the bootstrap (Halton) sampler, `_best_loss is not None`, actions consumed -/
  | rl (bootstrap : Nat) (started : Bool) (consumed : Nat)
  deriving Repr, DecidableEq

inductive FaultKind where
  | sampler | model | loss
  deriving Repr, DecidableEq

structure Cfg where
  ensemble : Nat
  simLen : Nat
  convPrec : Option Nat
  verbose : Bool
  nJobs : Nat
  folder : Bool
  deriving Repr, DecidableEq

/-- the components plugged into a calibrator -/
structure Comp (Θ S L σ : Type) where
  /-- `model(theta, N, seed)` -/
  model : Θ → Nat → Nat → S
  /-- `loss_function.compute_loss(ensemble, real_data)` -/
  loss : List S → L
  /-- `sampler.sample(search_space, params_samp, losses_samp)`: new internal state and proposed rows -/
  sample : Smp σ → List Θ → List L → σ × List Θ
  /-- effect of `sampler.random_state = seed` on the internal state -/
  reseed : Nat → Nat → σ → σ
  /-- the stream `default_rng(random_state).integers(2**32 - 1)`, draw by draw -/
  tape : Nat → Nat
  /-- `a < b` on losses -/
  lt : L → L → Bool
  /-- `np.round(x, p) == 0` -/
  conv : L → Nat → Bool
  /-- RL: the k-th action handed over by the agent -/
  action : Nat → Nat
  /-- fault plan: does the k-th invocation (0-based, over the life of the object) of this component raise? -/
  fault : FaultKind → Nat → Bool

/-- ghost record of one completed batch -/
structure BatchRec where
  idx : Nat       -- position of the designated sampler in the line-up
  cls : Nat
  size : Nat      -- its batch_size
  rows : Nat      -- rows it returned
  deriving Repr, DecidableEq

/-- everything a checkpoint persists (plus ghost fields) -/
structure Core (Θ S L σ : Type) where
  cfg : Cfg
  params : List Θ
  losses : List L
  series : List (List S)
  batchNum : List Nat
  method : List Nat
  nSampled : Nat
  batchIdx : Nat
  samplers : List (Smp σ)
  sched : Sched
  /-- position of the calibrator's generator in its stream -/
  gen : Nat
  -- ghost
  seeds : List (List Nat)
  log : List BatchRec
  callsS : Nat
  callsM : Nat
  callsL : Nat

structure State (Θ S L σ : Type) where
  core : Core Θ S L σ
  /-- `samplers_id_table` (class ↦ id) -/
  table : List (Nat × Nat)
  /-- what the saving folder holds -/
  disk : Option (Core Θ S L σ)
  /-- the id table stored with that checkpoint (`samplers_id_table` in calibration_params.json) -/
  diskTable : Option (List (Nat × Nat)) := none

variable {Θ S L σ : Type}

/-! ### sampler id table -/

def lookup (t : List (Nat × Nat)) (cls : Nat) : Option Nat := (t.find? (·.1 == cls)).map (·.2)

/-- the loop shared by `_construct_samplers_id_table` and `update_samplers_id_table` -/
def addClasses : List (Nat × Nat) → Nat → List Nat → List (Nat × Nat)
  | t, _, [] => t
  | t, next, c :: cs =>
    if (lookup t c).isSome then addClasses t next cs else addClasses (t ++ [(c, next)]) (next + 1) cs

/-- `_construct_samplers_id_table(samplers)` -/
def constructTable (classes : List Nat) : List (Nat × Nat) := addClasses [] 0 classes

/-- `update_samplers_id_table(samplers)`: new ids start at `max(values) + 1` -/
def updateTable (t : List (Nat × Nat)) (classes : List Nat) : List (Nat × Nat) :=
  addClasses t ((t.map (·.2)).foldl max 0 + 1) classes

/-! ### scheduler -/

/-- `scheduler.get_next_sampler()`: index of the designated sampler -/
def nextIdx (c : Comp Θ S L σ) (k : Core Θ S L σ) : Nat :=
  match k.sched with
  | .rr b => b % k.samplers.length
  | .rl boot started n => if started then c.action n else boot

/-- queue side effect of `get_next_sampler()` for the RL scheduler: one action is consumed -/
def afterGet : Sched → Sched
  | .rr b => .rr b
  | .rl boot started n => if started then .rl boot started (n + 1) else .rl boot started n

/-- `scheduler.update(...)` -/
def afterUpdate : Sched → Sched
  | .rr b => .rr (b + 1)
  | .rl boot _ n => .rl boot true n

/-! ### one batch -/

def firstFault (f : Nat → Bool) (start : Nat) : Nat → Option Nat
  | 0 => none
  | n + 1 => match firstFault f start n with
    | some j => some j
    | none => if f (start + n) then some n else none

/-- seeds drawn for a batch of `rows` rows: row `i`, member `e` gets draw `gen + i·E + e` (`np.repeat`) -/
def batchSeeds (tape : Nat → Nat) (gen rows ens : Nat) : List (List Nat) :=
  (List.range rows).map (fun i => (List.range ens).map (fun e => tape (gen + i * ens + e)))

/-- `np.min(losses)` as a left fold with `<` -/
def minLoss (lt : L → L → Bool) : List L → Option L
  | [] => none
  | x :: xs => some (xs.foldl (fun m y => if lt y m then y else m) x)

/-- the body of the `for _ in range(n_batches)` loop up to and including `current_batch_index += 1`;
`some kind` = the exception raised by that component propagated -/
def runBatch (c : Comp Θ S L σ) (table : List (Nat × Nat)) (k : Core Θ S L σ) :
    Core Θ S L σ × Option FaultKind :=
  let idx := nextIdx c k
  match k.samplers[idx]? with
  | none => (k, some .sampler)                      -- IndexError in get_next_sampler
  | some smp =>
    let k0 := { k with sched := afterGet k.sched }
    if c.fault .sampler k.callsS then ({ k0 with callsS := k.callsS + 1 }, some .sampler)
    else
      let (st', rows) := c.sample smp k.params k.losses
      let k1 := { k0 with callsS := k.callsS + 1, samplers := k.samplers.set idx { smp with st := st' } }
      let nsim := rows.length * k.cfg.ensemble
      match firstFault (c.fault .model) k.callsM nsim with
      | some j => ({ k1 with callsM := k.callsM + j + 1, gen := k.gen + j + 1 }, some .model)
      | none =>
        let seeds := batchSeeds c.tape k.gen rows.length k.cfg.ensemble
        let series := List.zipWith (fun th sd => sd.map (c.model th k.cfg.simLen)) rows seeds
        let k2 := { k1 with callsM := k.callsM + nsim, gen := k.gen + nsim }
        match firstFault (c.fault .loss) k.callsL rows.length with
        | some j => ({ k2 with callsL := k.callsL + j + 1 }, some .loss)
        | none =>
          ({ k2 with
              callsL := k.callsL + rows.length
              params := k.params ++ rows
              losses := k.losses ++ series.map c.loss
              series := k.series ++ series
              seeds := k.seeds ++ seeds
              batchNum := k.batchNum ++ List.replicate smp.batchSize k.batchIdx
              method := k.method ++ List.replicate smp.batchSize ((lookup table smp.cls).getD 0)
              nSampled := k.nSampled + rows.length
              sched := afterUpdate k0.sched
              batchIdx := k.batchIdx + 1
              log := k.log ++ [{ idx := idx, cls := smp.cls, size := smp.batchSize, rows := rows.length }] },
           none)

/-- `check_convergence`: the smallest loss so far rounds to zero at the configured precision -/
def converged (c : Comp Θ S L σ) (k : Core Θ S L σ) : Bool :=
  match k.cfg.convPrec with
  | none => false
  | some p => match minLoss c.lt k.losses with
    | none => false
    | some m => c.conv m p

/-- `_set_samplers_seeds`: the scheduler is reseeded with the calibrator's seed and hands the first draws of
that stream to the samplers (twice over for the RL scheduler, whose second pass wins); the calibrator burns
one draw of its own generator per sampler -/
def setSeeds (c : Comp Θ S L σ) (k : Core Θ S L σ) : Core Θ S L σ :=
  let n := k.samplers.length
  let off := match k.sched with | .rr _ => 0 | .rl _ _ _ => n
  { k with
      samplers := k.samplers.zipIdx.map (fun (p : Smp σ × Nat) =>
        { p.1 with st := c.reseed p.1.cls (c.tape (off + p.2)) p.1.st })
      gen := k.gen + n }

/-- bookkeeping after a completed batch: the new core, and the checkpoint when a saving folder is set -/
def stepState (s : State Θ S L σ) (k : Core Θ S L σ) : State Θ S L σ :=
  { s with core := k, disk := if k.cfg.folder then some k else s.disk,
           diskTable := if k.cfg.folder then some s.table else s.diskTable }

/-- the loop of `calibrate(n)` after the seeding step -/
def calLoop (c : Comp Θ S L σ) : Nat → State Θ S L σ → State Θ S L σ × Option FaultKind
  | 0, s => (s, none)
  | n + 1, s =>
    match runBatch c s.table s.core with
    | (k, some f) => ({ s with core := k }, some f)
    | (k, none) =>
      if converged c k then (stepState s k, none) else calLoop c n (stepState s k)

/-- `calibrate(n_batches)` -/
def calibrate (c : Comp Θ S L σ) (n : Nat) (s : State Θ S L σ) : State Θ S L σ × Option FaultKind :=
  let s0 := if s.core.batchIdx = 0 then { s with core := setSeeds c s.core } else s
  calLoop c n s0

/-! ### return value -/

def insertBy {β : Type} (le : β → β → Bool) (x : β) : List β → List β
  | [] => [x]
  | y :: ys => if le x y then x :: y :: ys else y :: insertBy le x ys

def isort {β : Type} (le : β → β → Bool) : List β → List β
  | [] => []
  | x :: xs => insertBy le x (isort le xs)

/-- `params_samp[idx], losses_samp[idx]` with `idx = argsort(losses_samp)` (one admissible argsort) -/
def result (c : Comp Θ S L σ) (k : Core Θ S L σ) : List (Θ × L) :=
  isort (fun a b => !c.lt b.2 a.2) (k.params.zip k.losses)

/-! ### other operations -/

def classes (ss : List (Smp σ)) : List Nat := ss.map (·.cls)

/-- `Calibrator(...)` with a list of samplers (round-robin) or a scheduler -/
def init (cfg : Cfg) (samplers : List (Smp σ)) (sched : Sched) : State Θ S L σ :=
  { core := { cfg := cfg, params := [], losses := [], series := [], batchNum := [], method := [],
              nSampled := 0, batchIdx := 0, samplers := samplers, sched := sched, gen := 0,
              seeds := [], log := [], callsS := 0, callsM := 0, callsL := 0 },
    table := constructTable (classes samplers), disk := none, diskTable := none }

/-- `create_checkpoint(folder)` -/
def checkpoint (s : State Θ S L σ) : State Θ S L σ := { s with disk := some s.core, diskTable := some s.table }

/-- `Calibrator.restore_from_checkpoint(folder, model)`: the id table is the one stored with the checkpoint
(rebuilt from the line-up only for checkpoints that do not contain it) -/
def restore (s : State Θ S L σ) : Option (State Θ S L σ) :=
  s.disk.map (fun k => { core := k, table := s.diskTable.getD (constructTable (classes k.samplers)),
                         disk := s.disk, diskTable := s.diskTable })

/-- `set_samplers(samplers)` -/
def setSamplers (samplers : List (Smp σ)) (s : State Θ S L σ) : State Θ S L σ :=
  { s with core := { s.core with samplers := samplers }, table := updateTable s.table (classes samplers) }

/-- `set_scheduler(scheduler)` -/
def setScheduler (samplers : List (Smp σ)) (sched : Sched) (s : State Θ S L σ) : State Θ S L σ :=
  { s with core := { s.core with samplers := samplers, sched := sched },
           table := updateTable s.table (classes samplers) }

/-- `__validate_samplers_and_scheduler_constructor_args`: `true` = ValueError -/
def ctorRejects (samplersGiven schedulerGiven : Bool) : Bool :=
  (!samplersGiven && !schedulerGiven) || (samplersGiven && schedulerGiven)

/-- `RLScheduler._add_or_get_bootstrap_sampler`: (line-up, bootstrap index); `isHalton` recognises the class -/
def addOrGetBootstrap (isHalton : Nat → Bool) (newHalton : Smp σ) (samplers : List (Smp σ)) : List (Smp σ) × Nat :=
  -- `{type(s): i}` keeps the LAST index of each class
  match (samplers.zipIdx.filter (fun p => isHalton p.1.cls)).getLast? with
  | some p => (samplers, p.2)
  | none => (samplers ++ [newHalton], samplers.length)

end BlackIt.Calibrator
