/-
Model of `black_it/samplers/base.py`: `BaseSampler.find_and_get_duplicates` (lines 129-148) and the
deduplication loop of `BaseSampler.sample` (lines 76-127).  Core Lean only.
Rows are values of any type with decidable equality; `le` is the (lexicographic) order `np.unique(axis=0)`
sorts the repeated groups by — it only influences the order in which positions are listed.
-/
namespace BlackIt.Dedup

variable {α : Type}

/-- positions of `new` whose row occurs more than once in `existing ++ new` (ascending) -/
def flagged [DecidableEq α] (new existing : List α) : List Nat :=
  (List.range new.length).filter (fun i =>
    match new[i]? with
    | some r => decide (1 < (existing ++ new).count r)
    | none => false)

/-- stable insertion sort (structural recursion, so that examples reduce in the kernel) -/
def insertBy (le : Nat → Nat → Bool) (x : Nat) : List Nat → List Nat
  | [] => [x]
  | y :: ys => if le x y then x :: y :: ys else y :: insertBy le x ys

def isort (le : Nat → Nat → Bool) : List Nat → List Nat
  | [] => []
  | x :: xs => insertBy le x (isort le xs)

/-- `find_and_get_duplicates(new_points, existing_points)`: the flagged positions, listed group by group in
the sorted order of the repeated rows, ascending inside a group (stable sort of the ascending positions). -/
def findDuplicates [DecidableEq α] (le : α → α → Bool) (new existing : List α) : List Nat :=
  isort (fun i j =>
    match new[i]?, new[j]? with
    | some a, some b => le a b
    | _, _ => true) (flagged new existing)

/-- `samples[duplicates] = new_samples` -/
def substitute (s : List α) (d : List Nat) (new : List α) : List α :=
  (d.zip new).foldl (fun acc (p : Nat × α) => acc.set p.1 p.2) s

/-- the `for n in range(max_deduplication_passes)` loop; `draw k m` is the `k`-th call of `sample_batch`
asking for `m` rows.  Returns the final batch and the list of duplicate sets found pass by pass. -/
def loop [DecidableEq α] (le : α → α → Bool) (draw : Nat → Nat → List α) (existing : List α) :
    Nat → Nat → List α → List α × List (List Nat)
  | _, 0, s => (s, [])
  | n, fuel + 1, s =>
    let d := findDuplicates le s existing
    if d.length = 0 then (s, [])
    else
      let s' := substitute s d (draw (n + 1) d.length)
      let r := loop le draw existing (n + 1) fuel s'
      (r.1, d :: r.2)

/-- observable behaviour of one `sample()` call -/
structure Out (α : Type) where
  samples : List α
  /-- the `batch_size` argument of every `sample_batch` call, in order -/
  requests : List Nat
  /-- duplicate positions found in each pass -/
  runs : List (List Nat)
  /-- the "Repeated samples still found" warning was printed -/
  warned : Bool

/-- `BaseSampler.sample` with `batch_size = b`, `max_deduplication_passes = passes` -/
def sample [DecidableEq α] (le : α → α → Bool) (draw : Nat → Nat → List α) (passes : Nat)
    (existing : List α) (b : Nat) : Out α :=
  let r := loop le draw existing 0 passes (draw 0 b)
  { samples := r.1, requests := b :: r.2.map List.length, runs := r.2,
    warned := decide (0 < passes) && r.2.length == passes }

/-- a scripted generator: the k-th call of `sample_batch(m, …)` returns the first `m` rows of `script[k]` -/
def drawScript (script : List (List α)) (k m : Nat) : List α :=
  (script.getD k []).take m

end BlackIt.Dedup
