/-
Model of the discrete part of `black_it/loss_functions/gsl_div.py`: `get_words` (base-10 packing of
overlapping windows of symbols), `get_words_est_prob` (relative frequencies), and of the ideal low-pass mask
of `fourier.py`.  Core Lean only.
-/
namespace BlackIt.Gsl

/-- overlapping windows of length `len` of a symbol series: `len(ts) + 1 − len` of them -/
def windows (ts : List Nat) (len : Nat) : List (List Nat) :=
  (List.range (ts.length + 1 - len)).map (fun i => (ts.drop i).take len)

/-- the number a window is packed into: `Σ_i sym_i · 10^(len−i−1)` (a left fold `acc·10 + sym`) -/
def pack (w : List Nat) : Nat := w.foldl (fun acc s => acc * 10 + s) 0

/-- `get_words(time_series, length)` -/
def getWords (ts : List Nat) (len : Nat) : List Nat := (windows ts len).map pack

/-- `get_words_est_prob`: counts of the distinct values, in sorted order of the values (`np.unique`) -/
def countsOf (words : List Nat) : List (Nat × Nat) :=
  let distinct := (words.foldl (fun acc w => if acc.contains w then acc else acc ++ [w]) [])
  (distinct.map (fun w => (w, words.count w)))

/-- the documented object: words as tuples of symbols -/
def tupleCounts (ts : List Nat) (len : Nat) : List (List Nat × Nat) :=
  let ws := windows ts len
  let distinct := (ws.foldl (fun acc w => if acc.contains w then acc else acc ++ [w]) [])
  distinct.map (fun w => (w, ws.count w))

/-! ### discretisation (`GslDivLoss.discretize`) -/

section Discretize
variable {α : Type} [Add α] [Sub α] [Mul α] [Div α]

/-- `np.linspace(start, stop, n + 1)`: `i·step + start` with `step = (stop − start)/n`, the last node set to `stop` -/
def linspace (ofNat : Nat → α) (start stop : α) (n : Nat) : List α :=
  let step := (stop - start) / ofNat n
  (List.range (n + 1)).map (fun i => if i = n then stop else ofNat i * step + start)

/-- `discretize(ts, nb, lo, hi)`: `np.searchsorted(linspace(lo − EPS, hi + EPS, nb + 1), ts, side="left")`, i.e. for each
value the number of nodes strictly below it -/
def discretize [LT α] [DecidableLT α] (ofNat : Nat → α) (eps : α) (ts : List α) (nb : Nat) (lo hi : α) : List Nat :=
  let nodes := linspace ofNat (lo - eps) (hi + eps) nb
  ts.map (fun v => (nodes.filter (fun nd => nd < v)).length)

end Discretize

/-! ### the divergence itself (`gsl_div_1d_1_sample`, `compute_loss_1d`), parametric in the number type -/

section Div
variable {α : Type} [Add α] [Sub α] [Mul α] [Div α] [Neg α]

/-- `get_words_est_prob`: relative frequencies of the distinct words -/
def probs (ofNat : Nat → α) (words : List Nat) : List α :=
  (countsOf words).map (fun c => ofNat c.2 / ofNat words.length)

/-- `get_sh_entr(probs, base)`: `−Σ p · (log p / log base)` -/
def entropy (zero : α) (log : α → α) (ps : List α) (base : α) : α :=
  -((ps.map (fun p => p * (log p / log base))).foldl (· + ·) zero)

/-- the contribution of one word length: `2·H(mixture) − H(sim) + correction`, correction =
`((#distinct mixture words − 1) − (#distinct sim words − 1)) / (2·ts_length)` (computed in signed arithmetic) -/
def divTerm (ofNat : Nat → α) (zero : α) (log : α → α) (pow : α → Nat → α) (sim obs : List Nat)
    (nbValues tsLength len : Nat) : α :=
  let simW := getWords sim len
  let mW := simW ++ getWords obs len
  let simP := probs ofNat simW
  let mP := probs ofNat mW
  let base := pow (ofNat nbValues) len
  let corr := (ofNat (mP.length - 1) - ofNat (simP.length - 1)) / (ofNat 2 * ofNat tsLength)
  ofNat 2 * entropy zero log mP base - entropy zero log simP base + corr

/-- `gsl_div_1d_1_sample`: word lengths `1 … L`, running weight `Σ_{l' ≤ l} 2/(L(L+1))` -/
def divOneSample (ofNat : Nat → α) (zero : α) (log : α → α) (pow : α → Nat → α) (sim obs : List Nat)
    (nbWordLengths nbValues tsLength : Nat) : α :=
  ((List.range nbWordLengths).foldl (fun (acc : α × α) i =>
      let w := acc.2 + ofNat 2 / (ofNat nbWordLengths * ofNat (nbWordLengths + 1))
      (acc.1 + w * divTerm ofNat zero log pow sim obs nbValues tsLength (i + 1), w)) (zero, zero)).1

/-- `compute_loss_1d` on already discretised series: the mean over the ensemble -/
def divEnsemble (ofNat : Nat → α) (zero : α) (log : α → α) (pow : α → Nat → α) (sims : List (List Nat)) (obs : List Nat)
    (nbWordLengths nbValues tsLength : Nat) : α :=
  (sims.map (fun s => divOneSample ofNat zero log pow s obs nbWordLengths nbValues tsLength)).foldl (· + ·) zero
    / ofNat sims.length

end Div

/-- ideal low-pass mask of `n` ones followed by zeros (`mask[:n] = 1`) applied to a spectrum -/
def idealLowPass {α : Type} [Mul α] (one zero : α) (spec : List α) (n : Nat) : List α :=
  spec.zipIdx.map (fun (x, i) => x * (if i < n then one else zero))

end BlackIt.Gsl
