/-
Model of the discrete part of `black_it/loss_functions/gsl_div.py`: `get_words` (base-10 packing of
overlapping windows of symbols), `get_words_est_prob` (relative frequencies), and of the ideal low-pass mask
of `fourier.py`.  Core Lean only.
-/
namespace BlackIt.Gsl

/-- overlapping windows of length `len` of a symbol series: `len(ts) + 1 − len` of them -/
def windows (ts : List Nat) (len : Nat) : List (List Nat) :=
  (List.range (ts.length + 1 - len)).map (fun i => (ts.drop i).take len)

/-- the number a window is packed into: `Σ_i sym_i · 10^(len−i−1)` (a left fold `acc·10 + sym`) -/
def pack (w : List Nat) : Nat := w.foldl (fun acc s => acc * 10 + s) 0

/-- `get_words(time_series, length)` -/
def getWords (ts : List Nat) (len : Nat) : List Nat := (windows ts len).map pack

/-- `get_words_est_prob`: counts of the distinct values, in sorted order of the values (`np.unique`) -/
def countsOf (words : List Nat) : List (Nat × Nat) :=
  let distinct := (words.foldl (fun acc w => if acc.contains w then acc else acc ++ [w]) [])
  (distinct.map (fun w => (w, words.count w)))

/-- the documented object: words as tuples of symbols -/
def tupleCounts (ts : List Nat) (len : Nat) : List (List Nat × Nat) :=
  let ws := windows ts len
  let distinct := (ws.foldl (fun acc w => if acc.contains w then acc else acc ++ [w]) [])
  distinct.map (fun w => (w, ws.count w))

/-- ideal low-pass mask of `n` ones followed by zeros (`mask[:n] = 1`) applied to a spectrum -/
def idealLowPass {α : Type} [Mul α] (one zero : α) (spec : List α) (n : Nat) : List α :=
  spec.zipIdx.map (fun (x, i) => x * (if i < n then one else zero))

end BlackIt.Gsl
