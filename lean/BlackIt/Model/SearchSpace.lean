/-
Model of `black_it/search_space.py`: `SearchSpace._check_bounds` (lines 96-140) and the grid construction
in `SearchSpace.__init__` (`np.arange(lower, upper + tolerance, precision)` with
`tolerance = min(max(1e-7, 2·spacing(max(|lower|, |upper|))), 0.5·precision)`).
Core Lean only; polymorphic in the number type.
-/
namespace BlackIt.SearchSpace

/-- the seven `SearchSpaceError` subclasses with their payload attributes -/
inductive SSErr (α : Type) where
  | boundsNotOfSizeTwo (count : Nat)
  | boundsOfDifferentLength (lowerLen upperLen : Nat)
  | badPrecisionLength (precLen boundsLen : Nat)
  | sameLowerAndUpper (idx : Nat) (value : α)
  | lowerGreaterThanUpper (idx : Nat) (lower upper : α)
  | precisionZero (idx : Nat)
  | precisionGreaterThanRange (idx : Nat) (lower upper precision : α)
  deriving Repr, DecidableEq

/-- number operations the grid construction needs beyond + - * / and comparison -/
structure Ops (α : Type) where
  ofNat : Nat → α
  /-- `⌈x⌉` as a natural number, 0 for `x ≤ 0` (numpy's arange length) -/
  ceilNat : α → Nat
  zero : α
  /-- the constant `0.5` -/
  half : α
  /-- `2 * np.spacing(max(abs(lower), abs(upper)))`: twice the gap between adjacent numbers at the magnitude of the
  bounds; `0` in exact arithmetic -/
  spacing2 : α → α → α

variable {α : Type}

/-- the body of the `for i, (lower, upper, precision) in enumerate(zip(...))` loop -/
def checkParam [BEq α] [LT α] [DecidableLT α] [Sub α] (zero : α) (i : Nat) (lo hi p : α) : Except (SSErr α) Unit :=
  if lo == hi then .error (.sameLowerAndUpper i lo)
  else if hi < lo then .error (.lowerGreaterThanUpper i lo hi)
  else if p == zero then .error (.precisionZero i)
  else if hi - lo < p then .error (.precisionGreaterThanRange i lo hi p)
  else .ok ()

/-- the loop itself over the zipped triples, starting at index `k` -/
def checkLoop [BEq α] [LT α] [DecidableLT α] [Sub α] (zero : α) : Nat → List (α × α × α) → Except (SSErr α) Unit
  | _, [] => .ok ()
  | k, (lo, hi, p) :: rest =>
    match checkParam zero k lo hi p with
    | .error e => .error e
    | .ok () => checkLoop zero (k + 1) rest

/-- `SearchSpace._check_bounds(parameters_bounds, parameters_precision)` -/
def checkBounds [BEq α] [LT α] [DecidableLT α] [Sub α] (zero : α)
    (bounds : List (List α)) (prec : List α) : Except (SSErr α) Unit :=
  match bounds with
  | [lower, upper] =>
    if lower.length ≠ upper.length then .error (.boundsOfDifferentLength lower.length upper.length)
    else if prec.length ≠ lower.length then .error (.badPrecisionLength prec.length lower.length)
    else checkLoop zero 0 (lower.zip (upper.zip prec))
  | _ => .error (.boundsNotOfSizeTwo bounds.length)

/-- `np.arange(start, stop, step)` for floats as numpy computes it: `⌈(stop-start)/step⌉` elements,
element `i` is `start + i·δ` with `δ = (start + step) - start` (elements 0 and 1 are `start`, `start+step`). -/
def arange [Add α] [Sub α] [Mul α] [Div α] (ops : Ops α) (start stop step : α) : List α :=
  let n := ops.ceilNat ((stop - start) / step)
  let delta := (start + step) - start
  (List.range n).map (fun i =>
    if i = 0 then start else if i = 1 then start + step else start + ops.ofNat i * delta)

/-- the grid of one parameter for an end-point tolerance `tol`: `np.arange(lower, upper + tol, precision)` -/
def grid [Add α] [Sub α] [Mul α] [Div α] (ops : Ops α) (tol lo hi p : α) : List α :=
  arange ops lo (hi + tol) p

/-- the end-point tolerance of the code, `min(max(tolMax, 2·spacing), 0.5 * precision)` with `tolMax = 1e-7` (Python's
`max`/`min`: the second argument only when it is strictly larger/smaller): it absorbs the rounding of `upper - lower`
— also for bounds so large that `1e-7` is below the resolution of the numbers — and is never more than half a step -/
def codeTol [LT α] [DecidableLT α] [Mul α] (ops : Ops α) (tolMax lo hi p : α) : α :=
  let s := ops.spacing2 lo hi
  let t := if tolMax < s then s else tolMax
  if ops.half * p < t then ops.half * p else t

/-- `param_grid` of a search space -/
def grids [LT α] [DecidableLT α] [Add α] [Sub α] [Mul α] [Div α] (ops : Ops α) (tolMax : α) (lower upper prec : List α) : List (List α) :=
  (lower.zip (upper.zip prec)).map (fun (lo, hi, p) => grid ops (codeTol ops tolMax lo hi p) lo hi p)

/-- `space_size`: running product of the grid lengths -/
def spaceSize (gs : List (List α)) : Nat := gs.foldl (fun acc g => acc * g.length) 1

/-- `SearchSpace(bounds, precision)`: validation, then grids and size -/
def build [BEq α] [LT α] [DecidableLT α] [Add α] [Sub α] [Mul α] [Div α] (ops : Ops α) (tolMax : α)
    (bounds : List (List α)) (prec : List α) : Except (SSErr α) (List (List α) × Nat) :=
  match checkBounds ops.zero bounds prec with
  | .error e => .error e
  | .ok () =>
    let gs := grids ops tolMax (bounds.getD 0 []) (bounds.getD 1 []) prec
    .ok (gs, spaceSize gs)

/-- the documented `SearchSpaceError` subclasses, in the order in which `_check_bounds` can raise them (compared on every run with the subclasses the
package under test defines) -/
def errorNames : List String :=
  ["BoundsNotOfSizeTwoError", "BoundsOfDifferentLengthError", "BadPrecisionLengthError", "SameLowerAndUpperBoundError",
   "LowerBoundGreaterThanUpperBoundError", "PrecisionZeroError", "PrecisionGreaterThanBoundsRangeError"]

end BlackIt.SearchSpace
