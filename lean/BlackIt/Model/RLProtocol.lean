/-
Model of the scheduler–agent exchange of `black_it/schedulers/rl/rl_scheduler.py` (`start_session`,
`get_next_sampler`, `update`, `end_session`, `_train`) and `black_it/schedulers/rl/envs/base.py`
(`CalibrationEnv.step`): two threads and two FIFO queues, at the granularity of the synchronisation points
(queue put/get, thread start/join).  Core Lean only.

`M` is the calibration thread, `A` the agent thread.  Steps that touch no shared state (flag reads/writes of
`M` while `A` is not running or no longer reads the flag, `policy`, `get_reward`+`learn`) are fused with the
neighbouring synchronisation step of the same thread; this does not remove interleavings.
-/
namespace BlackIt.RL

/-- program counter of the calibration thread -/
inductive MPc where
  | idle                         -- no session open
  | loopHead                     -- session open, between batches (about to call `get_next_sampler` or `end_session`)
  | running (a : Option Nat)     -- a batch is executing; `some a` = sampler chosen by the agent, `none` = bootstrap
  | endPut                       -- `end_session`: flag written, about to put the end-of-session marker
  | endJoin                      -- marker put, waiting for the agent thread to exit
  | endDrain                     -- joined, about to drop the unexecuted action
  deriving DecidableEq, Repr

/-- program counter of the agent thread -/
inductive APc where
  | dead                         -- not started / exited
  | policy                       -- about to call `agent.policy`
  | put (a : Nat)                -- `env.step`: about to `put` the action
  | get (a : Nat)                -- `env.step`: blocked on `get` for the outcome of action `a`
  | learn (a : Nat) (b : Nat)    -- got the outcome of batch `b`, about to compute the reward and `learn`
  deriving DecidableEq, Repr

structure St where
  mpc : MPc := .idle
  apc : APc := .dead
  actionQ : List Nat := []
  outcomeQ : List (Option Nat) := []     -- `some b` = outcome of batch `b`; `none` = end-of-session marker
  boot : Bool := true                    -- `_best_loss is None`: the bootstrap batch is still to come
  batchNo : Nat := 0                     -- completed batches
  -- ghost logs
  chosen : List Nat := []                -- results of `policy`, oldest first
  executed : List (Nat × Nat) := []      -- (batch, action) of every completed agent-chosen batch
  learned : List (Nat × Nat) := []       -- (batch, action) of every `learn` call
  deriving Repr, DecidableEq

/-- one step of the system.  The calibration thread's decisions (run another batch / end the session / the
batch raises) and the value returned by `policy` are the *choice*: quantifying over choice sequences
quantifies over all scripts of sessions and batches, all failures, all agents and all interleavings. -/
inductive Choice where
  | mStart                 -- `start_session()` incl. `Thread.start()`
  | mBatch                 -- `get_next_sampler()` (bootstrap, or blocking `get` on the action queue)
  | mStep                  -- the next statement of `M`: finish the batch + `update()`, put the marker, join, drain
  | mEnd                   -- leave the loop: `calibrate` is done, or the running batch raised (→ `end_session` via `finally`)
  | aStep (pol : Nat)      -- the next statement of `A` (`pol` = what `policy` returns, used at `.policy` only)
  deriving Repr, DecidableEq

def step (s : St) : Choice → Option St
  | .mStart => match s.mpc with
      | .idle => some { s with mpc := .loopHead, apc := .policy }
      | _ => none
  | .mBatch => match s.mpc with
      | .loopHead =>
          if s.boot then some { s with mpc := .running none }
          else match s.actionQ with
            | a :: q => some { s with mpc := .running (some a), actionQ := q }
            | [] => none                    -- blocked on the action queue
      | _ => none
  | .mStep => match s.mpc with
      | .running none => some { s with mpc := .loopHead, boot := false, batchNo := s.batchNo + 1 }
      | .running (some a) =>
          some { s with mpc := .loopHead, batchNo := s.batchNo + 1,
                        executed := s.executed ++ [(s.batchNo + 1, a)],
                        outcomeQ := s.outcomeQ ++ [some (s.batchNo + 1)] }
      | .endPut => some { s with mpc := .endJoin, outcomeQ := s.outcomeQ ++ [none] }
      | .endJoin => if s.apc = .dead then some { s with mpc := .endDrain } else none
      | .endDrain => some { s with mpc := .idle, actionQ := [] }
      | _ => none
  | .mEnd => match s.mpc with
      | .loopHead => some { s with mpc := .endPut }
      | .running _ => some { s with mpc := .endPut }
      | _ => none
  | .aStep pol => match s.apc with
      | .dead => none
      | .policy => some { s with apc := .put pol, chosen := s.chosen ++ [pol] }
      | .put a => some { s with apc := .get a, actionQ := s.actionQ ++ [a] }
      | .get a => match s.outcomeQ with
          | [] => none                      -- blocked on the outcome queue
          | none :: q => some { s with apc := .dead, outcomeQ := q }
          | some b :: q => some { s with apc := .learn a b, outcomeQ := q }
      | .learn a b => some { s with apc := .policy, learned := s.learned ++ [(b, a)] }

def init : St := {}

/-- run a sequence of choices; `none` as soon as one is not enabled -/
def run : St → List Choice → Option St
  | s, [] => some s
  | s, c :: cs => match step s c with
    | some s' => run s' cs
    | none => none

/-! ### the deterministic system for a given script and a given agent

`Script` = for each session the number of batches to complete and whether the batch after them raises.
The agent is a function from its own local history (what it chose and what it learned, in order) to the next
action. -/

inductive AgEv where
  | chose (a : Nat)
  | learnt (b a : Nat)
  deriving DecidableEq, Repr

structure DSt where
  s : St := {}
  sessions : List (Nat × Bool) := []     -- remaining sessions
  left : Nat := 0                        -- batches still to complete in the open session
  failNext : Bool := false               -- the batch after those raises
  hist : List AgEv := []                 -- agent-local history

/-- the next move of the calibration thread (deterministic given the script); `none` = blocked or finished -/
def stepM (d : DSt) : Option DSt :=
  match d.s.mpc with
  | .idle => match d.sessions with
      | [] => none
      | (n, f) :: rest => (step d.s .mStart).map (fun s' => { d with s := s', sessions := rest, left := n, failNext := f })
  | .loopHead =>
      if d.left = 0 ∧ d.failNext = false then (step d.s .mEnd).map (fun s' => { d with s := s' })
      else (step d.s .mBatch).map (fun s' => { d with s := s' })
  | .running _ =>
      if d.left = 0 then (step d.s .mEnd).map (fun s' => { d with s := s', failNext := false })   -- the batch raises
      else (step d.s .mStep).map (fun s' => { d with s := s', left := d.left - 1 })
  | _ => (step d.s .mStep).map (fun s' => { d with s := s' })

/-- the next move of the agent thread for the agent function `f` -/
def stepA (f : List AgEv → Nat) (d : DSt) : Option DSt :=
  match d.s.apc with
  | .policy => (step d.s (.aStep (f d.hist))).map (fun s' => { d with s := s', hist := d.hist ++ [.chose (f d.hist)] })
  | .learn a b => (step d.s (.aStep 0)).map (fun s' => { d with s := s', hist := d.hist ++ [.learnt b a] })
  | _ => (step d.s (.aStep 0)).map (fun s' => { d with s := s' })

/-- a schedule: `true` = the calibration thread moves, `false` = the agent thread moves -/
def drun (f : List AgEv → Nat) : DSt → List Bool → Option DSt
  | d, [] => some d
  | d, t :: ts => match (if t then stepM d else stepA f d) with
    | some d' => drun f d' ts
    | none => none

/-- nothing can move any more -/
def terminal (f : List AgEv → Nat) (d : DSt) : Bool := (stepM d).isNone && (stepA f d).isNone

/-- the sequential specification: what a single-threaded implementation does for the same script and agent -/
def seqSession (f : List AgEv → Nat) : Nat → Bool → (Bool × Nat × List AgEv × List (Nat × Nat)) →
    (Bool × Nat × List AgEv × List (Nat × Nat))
  | 0, _, acc => acc
  | n + 1, fail, (boot, b, h, ex) =>
      if boot then seqSession f n fail (false, b + 1, h, ex)
      else
        let a := f h
        seqSession f n fail (false, b + 1, h ++ [.chose a, .learnt (b + 1) a], ex ++ [(b + 1, a)])

end BlackIt.RL
