/-
Model of `black_it/loss_functions/base.py` (`BaseLoss.compute_loss`, `_check_coordinate_weights`,
`_check_coordinate_filters`, `_filter_data`) and of the algebraic cores of the built-in losses
(`minkowski.py`, `msm.py`, `fourier.py`, the weight schedule of `gsl_div.py`).  Core Lean only.

Data layout: `sim : List (List (List α))` holds, per coordinate, the ensemble members as 1-d series
(what `_filter_data` produces); `real : List (List α)` holds, per coordinate, the real 1-d series.
-/
namespace BlackIt.Loss

variable {α : Type}

inductive LossErr where
  | weightsLength (got want : Nat)
  | filtersLength (got want : Nat)
  deriving DecidableEq, Repr

/-- `_check_coordinate_weights`: default `1/D` each; otherwise the length must be `D` -/
def checkWeights [Div α] (ofNat : Nat → α) (w : Option (List α)) (d : Nat) : Except LossErr (List α) :=
  match w with
  | none => .ok (List.replicate d (ofNat 1 / ofNat d))
  | some ws => if ws.length = d then .ok ws else .error (.weightsLength ws.length d)

/-- `_check_coordinate_filters`: default no filter; otherwise the length must be `D` -/
def checkFilters (f : Option (List (Option (List α → List α)))) (d : Nat) :
    Except LossErr (List (Option (List α → List α))) :=
  match f with
  | none => .ok (List.replicate d none)
  | some fs => if fs.length = d then .ok fs else .error (.filtersLength fs.length d)

/-- `_filter_data` for one coordinate: the filter is applied to every ensemble member -/
def filterCoord (f : Option (List α → List α)) (members : List (List α)) : List (List α) :=
  match f with
  | none => members
  | some g => members.map g

/-- the accumulation loop `loss = 0; for i: loss += loss_1d(filtered[i], real[:, i]) * weights[i]` -/
def weightedSum [Add α] [Mul α] (zero : α) (terms : List (α × α)) : α :=
  terms.foldl (fun acc t => acc + t.1 * t.2) zero

/-- `BaseLoss.compute_loss` for an arbitrary single-coordinate loss `loss1d` -/
def computeLoss [Add α] [Mul α] [Div α] (ofNat : Nat → α) (loss1d : List (List α) → List α → α)
    (w : Option (List α)) (f : Option (List (Option (List α → List α))))
    (sim : List (List (List α))) (real : List (List α)) : Except LossErr α :=
  let d := real.length
  match checkWeights ofNat w d with
  | .error e => .error e
  | .ok ws =>
    match checkFilters f d with
    | .error e => .error e
    | .ok fs =>
      let l1 := (List.zipWith filterCoord fs sim).zipWith loss1d real
      .ok (weightedSum (ofNat 0) (l1.zip ws))

/-! ### algebraic cores of the built-in single-coordinate losses -/

/-- element-wise mean over the ensemble of equally long vectors (`ensemble.mean(axis=0)`) -/
def ensMean [Add α] [Div α] (ofNat : Nat → α) (zero : α) (members : List (List α)) (len : Nat) : List α :=
  (List.range len).map (fun t => (members.map (fun m => m.getD t zero)).foldl (· + ·) zero / ofNat members.length)

/-- Minkowski: `Σ_t |mean_t − real_t|^p` (the loss is the `p`-th root of this) -/
def minkowskiPowSum [Add α] [Sub α] [Div α] (ofNat : Nat → α) (zero : α) (abs : α → α) (pow : α → Nat → α)
    (p : Nat) (members : List (List α)) (real : List α) : α :=
  ((ensMean ofNat zero members real.length).zipWith (fun m r => pow (abs (m - r)) p) real).foldl (· + ·) zero

/-- method of moments, identity weighting: `g·g` with `g = real moments − mean simulated moments` -/
def msmIdentity [Add α] [Sub α] [Mul α] [Div α] (ofNat : Nat → α) (zero : α) (moments : List α → List α)
    (members : List (List α)) (real : List α) : α :=
  let rm := moments real
  let sm := ensMean ofNat zero (members.map moments) rm.length
  ((rm.zipWith (· - ·) sm).map (fun g => g * g)).foldl (· + ·) zero

/-- method of moments, inverse-variance weighting: `Σ g_i² / v_i`, `v_i = mean_e (real_i − sim_{e,i})²` -/
def msmInverseVariance [Add α] [Sub α] [Mul α] [Div α] (ofNat : Nat → α) (zero : α) (moments : List α → List α)
    (members : List (List α)) (real : List α) : α :=
  let rm := moments real
  let ms := members.map moments
  let sm := ensMean ofNat zero ms rm.length
  let v := ensMean ofNat zero (ms.map (fun m => (rm.zipWith (· - ·) m).map (fun d => d * d))) rm.length
  (((rm.zipWith (· - ·) sm).zipWith (fun g vi => g * g / vi) v)).foldl (· + ·) zero

/-- Fourier loss before the square root: `Σ_k |mean_e F(sim_e)_k − F(real)_k|² / K`.  `spec` is the transform `F` =
`np.fft.rfft` followed by the frequency filter, with the complex bins flattened to their real and imaginary parts
(`|z|² = re² + im²`), `bins = K` the number of rfft bins (`ts_length` in the code).  Structurally this is the
identity-weighted moment distance with `spec` in the place of the moment calculator, normalised by `K`. -/
def fourierSq [Add α] [Sub α] [Mul α] [Div α] (ofNat : Nat → α) (zero : α) (spec : List α → List α) (bins : Nat)
    (members : List (List α)) (real : List α) : α :=
  msmIdentity ofNat zero spec members real / ofNat bins

/-- `FourierLoss.compute_loss_1d` -/
def fourierLoss [Add α] [Sub α] [Mul α] [Div α] (ofNat : Nat → α) (zero : α) (sqrt : α → α) (spec : List α → List α)
    (bins : Nat) (members : List (List α)) (real : List α) : α :=
  sqrt (fourierSq ofNat zero spec bins members real)

/-- kernel-likelihood loss (`LikelihoodLoss.compute_loss`): `sim` is indexed `[member][time][coordinate]`, `real`
`[time][coordinate]`; `kern` is the Gaussian kernel as a function of the mean squared distance over coordinates.
`−(1/R) Σ_r Σ_t log( (1/S) Σ_s kern( (1/D) Σ_d (sim[r][s][d] − real[t][d])² ) )`; first the mean squared distance
over coordinates: -/
def sqDist [Add α] [Sub α] [Mul α] [Div α] (ofNat : Nat → α) (zero : α) (dims : Nat) (x y : List α) : α :=
  ((x.zipWith (fun a b => (a - b) * (a - b)) y).foldl (· + ·) zero) / ofNat dims

/-- log-likelihood of the real series under the kernel density of one simulated member -/
def logLikMember [Add α] [Sub α] [Mul α] [Div α] (ofNat : Nat → α) (zero : α) (kern log : α → α) (dims : Nat)
    (real : List (List α)) (m : List (List α)) : α :=
  (real.map (fun y => log (((m.map (fun x => kern (sqDist ofNat zero dims x y))).foldl (· + ·) zero) / ofNat m.length))).foldl
    (· + ·) zero

def likelihood [Add α] [Sub α] [Mul α] [Div α] [Neg α] (ofNat : Nat → α) (zero : α) (kern log : α → α) (dims : Nat)
    (sim : List (List (List α))) (real : List (List α)) : α :=
  Neg.neg (((sim.map (logLikMember ofNat zero kern log dims real)).foldl (· + ·) zero) / ofNat sim.length)

/-- GSL-div weight schedule: the running sum `Σ_{l≤L} 2l/(L(L+1))` the loss accumulates -/
def gslWeights [Div α] [Mul α] (ofNat : Nat → α) (maxLen : Nat) : List α :=
  (List.range maxLen).map (fun i => ofNat 2 * ofNat (i + 1) / (ofNat maxLen * ofNat (maxLen + 1)))

end BlackIt.Loss
