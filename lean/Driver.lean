import BlackItModel
/-
Line-protocol driver: one request per line `<op> <args…>`, one canonical answer line per request.
Run with `lake env lean --run Driver.lean < requests`.  Malformed requests answer `bad-op`.
-/
open BlackIt BlackIt.Wire BlackIt.Parse

def fdist (v g : Float) : Float := Float.abs (v - g)
def qdist (v g : Rat) : Rat := if v - g < 0 then -(v - g) else v - g

def fl (xs : List Float) : String := joinSp (xs.map floatToHex)
def ql (xs : List Rat) : String := joinSp (xs.map ratToStr)

def handle (op : String) (args : List String) : Option String :=
  match op with
  | "snap.closest" => do
      let (g, vs) ← run (do let g ← list flt; let vs ← list flt; pure (g, vs)) args
      if g.isEmpty then none else
      pure (fl (Snap.getClosestAll fdist g vs 0.0))
  | "snap.closestq" => do
      let (g, vs) ← run (do let g ← list rat; let vs ← list rat; pure (g, vs)) args
      if g.isEmpty then none else
      pure (ql (Snap.getClosestAll qdist g vs 0))
  | "snap.digitize" => do
      let (gs, rows) ← run (do
        let gs ← list (list flt)
        let nrows ← nat
        let rows ← rep (rep flt gs.length) nrows
        pure (gs, rows)) args
      if gs.any (·.isEmpty) then none else
      pure (joinSp ((Snap.digitize fdist gs rows 0.0).map fl))
  | _ => none

def step (line : String) : String :=
  match (line.trimAscii.toString.splitOn " ").filter (· ≠ "") with
  | [] => "bad-op"
  | op :: args => match handle op args with
      | some out => out
      | none => "bad-op"

partial def loop (h : IO.FS.Stream) (out : IO.FS.Stream) : IO Unit := do
  let line ← h.getLine
  if line.isEmpty then return ()
  out.putStrLn (step line)
  loop h out

def main : IO Unit := do
  let out ← IO.getStdout
  loop (← IO.getStdin) out
