import BlackItModel
/-
Line-protocol driver: one request per line `<op> <args…>`, one canonical answer line per request.
Run with `lake env lean --run Driver.lean < requests`.  Malformed requests answer `bad-op`.
-/
open BlackIt BlackIt.Wire BlackIt.Parse

def fdist (v g : Float) : Float := Float.abs (v - g)
def qdist (v g : Rat) : Rat := if v - g < 0 then -(v - g) else v - g

def fl (xs : List Float) : String := joinSp (xs.map floatToHex)
def ql (xs : List Rat) : String := joinSp (xs.map ratToStr)

/-- `2 * np.spacing(max(abs a, abs b))` -/
def spacing2F (a b : Float) : Float :=
  let m := if Float.abs a < Float.abs b then Float.abs b else Float.abs a
  2.0 * (Float.ofBits (m.toBits + 1) - m)
def fops : SearchSpace.Ops Float := ⟨Float.ofNat, fun x => (Float.ceil x).toUInt64.toNat, 0.0, 0.5, spacing2F⟩
def qops : SearchSpace.Ops Rat := ⟨fun n => (n : Rat), fun x => x.ceil.toNat, 0, mkRat 1 2, fun _ _ => 0⟩

def ssErr {α} (sh : α → String) : SearchSpace.SSErr α → String
  | .boundsNotOfSizeTwo c => s!"err BoundsNotOfSizeTwoError {c}"
  | .boundsOfDifferentLength a b => s!"err BoundsOfDifferentLengthError {a} {b}"
  | .badPrecisionLength a b => s!"err BadPrecisionLengthError {a} {b}"
  | .sameLowerAndUpper i v => s!"err SameLowerAndUpperBoundError {i} {sh v}"
  | .lowerGreaterThanUpper i l u => s!"err LowerBoundGreaterThanUpperBoundError {i} {sh l} {sh u}"
  | .precisionZero i => s!"err PrecisionZeroError {i}"
  | .precisionGreaterThanRange i l u p => s!"err PrecisionGreaterThanBoundsRangeError {i} {sh l} {sh u} {sh p}"

def rowLe : List Int → List Int → Bool
  | [], _ => true
  | _ :: _, [] => false
  | a :: as, b :: bs => if a < b then true else if b < a then false else rowLe as bs

def showRows (rs : List (List Int)) : String := joinSp (rs.map (fun r => ",".intercalate (r.map toString)))
def showNats (ns : List Nat) : String := ",".intercalate (ns.map toString)

/-- one scripted interaction with the bandit agent / environment; ops: `P u choice`, `L action reward`, `R cur new` -/
partial def banditOps (a : Bandit.Agent Float) (acc : List String) : List String → Option (List String)
  | [] => some acc.reverse
  | "P" :: u :: c :: rest => do
      let u ← parseFloat? u; let c ← c.toNat?
      banditOps a (toString (Bandit.policy a u c) :: acc) rest
  | "L" :: act :: r :: rest => do
      let act ← act.toNat?; let r ← parseFloat? r
      let a' := Bandit.learn Float.ofNat a act r
      banditOps a' ((fl a'.q ++ " / " ++ joinSp (a'.counts.map toString)) :: acc) rest
  | "R" :: cur :: new :: rest => do
      let cur ← parseFloat? cur; let new ← parseFloat? new
      let (r, ref) := Bandit.getReward (0.0 : Float) cur new
      banditOps a ((floatToHex r ++ " " ++ floatToHex ref) :: acc) rest
  | _ => none

def lossFilter (tag : Nat) : Option (List Float → List Float) :=
  match tag with
  | 1 => some (fun l => l.map (fun x => -x))
  | 2 => some (fun l => l.map (fun x => x * 2.0))
  | 3 => some List.reverse
  | 4 => some (fun l => l.map (fun x => x * 0.5))
  | _ => none

/-- stub single-coordinate losses (exactly representable on small integers) -/
def stubLoss1d (kind : Nat) (members : List (List Float)) (real : List Float) : Float :=
  match kind with
  | 0 => members.foldl (fun acc m => (m.zip real).foldl (fun a p => a + (p.1 - p.2)) acc) 0.0
  | _ => (members.headD []).headD 0.0 * 3.0 - real.headD 0.0

def handle (op : String) (args : List String) : Option String :=
  match op with
  | "snap.closest" => do
      let (g, vs) ← run (do let g ← list flt; let vs ← list flt; pure (g, vs)) args
      if g.isEmpty then none else
      pure (fl (Snap.getClosestAll fdist g vs 0.0))
  | "snap.closestq" => do
      let (g, vs) ← run (do let g ← list rat; let vs ← list rat; pure (g, vs)) args
      if g.isEmpty then none else
      pure (ql (Snap.getClosestAll qdist g vs 0))
  | "snap.digitize" => do
      let (gs, rows) ← run (do
        let gs ← list (list flt)
        let nrows ← nat
        let rows ← rep (rep flt gs.length) nrows
        pure (gs, rows)) args
      if gs.any (·.isEmpty) then none else
      pure (joinSp ((Snap.digitize fdist gs rows 0.0).map fl))
  | "dedup.find" => do
      let (dims, new, ex) ← run (do
        let dims ← nat; let new ← list (rep int dims); let ex ← list (rep int dims); pure (dims, new, ex)) args
      let _ := dims
      pure ("[" ++ showNats (Dedup.findDuplicates rowLe new ex) ++ "]")
  | "dedup.sample" => do
      let (passes, b, ex, script) ← run (do
        let passes ← nat; let b ← nat; let dims ← nat
        let ex ← list (rep int dims); let script ← list (list (rep int dims)); pure (passes, b, ex, script)) args
      let o := Dedup.sample rowLe (Dedup.drawScript script) passes ex b
      pure (s!"samples {showRows o.samples} | requests {showNats o.requests} | runs " ++
        ";".intercalate (o.runs.map showNats) ++ s!" | warned {if o.warned then 1 else 0}")
  | "bandit.run" => do
      match args with
      | n :: alpha :: eps :: q0 :: ops => do
          let n ← n.toNat?; let alpha ← parseFloat? alpha; let eps ← parseFloat? eps; let q0 ← parseFloat? q0
          let outs ← banditOps (Bandit.Agent.init n alpha eps q0) [] ops
          pure (" ; ".intercalate outs)
      | _ => none
  | "bandit.repeat" => do
      -- n alpha eps q0 | action count reward reward2 : `count` lessons (action, reward) and then one lesson (action, reward2) - final estimates and counts
      let r ← run (do
        let n ← nat; let alpha ← flt; let eps ← flt; let q0 ← flt
        let a ← nat; let cnt ← nat; let r1 ← flt; let r2 ← flt
        pure (n, alpha, eps, q0, a, cnt, r1, r2)) args
      let (n, alpha, eps, q0, a, cnt, r1, r2) := r
      let ag := (List.range cnt).foldl (fun ag _ => Bandit.learn Float.ofNat ag a r1) (Bandit.Agent.init n alpha eps q0)
      let ag' := Bandit.learn Float.ofNat ag a r2
      pure (fl ag.q ++ " / " ++ joinSp (ag.counts.map toString) ++ " ; " ++ fl ag'.q ++ " / " ++ joinSp (ag'.counts.map toString))
  | "bandit.rewards" => do
      -- boot loss, then the minimum loss of every agent-chosen batch: the rewards of the run (scheduler best -> environment reward)
      let (boot, losses) ← run (do let b ← flt; let ls ← list flt; pure (b, ls)) args
      pure (fl (Bandit.runRewards 0.0 boot losses))
  | "halton.seq" => do
      let (k, s, bases) ← run (do let k ← nat; let s ← nat; let b ← list nat; pure (k, s, b)) args
      if bases.any (· < 2) then none else
      pure (joinSp ((Halton.halton Float.ofNat k bases s).map fl))
  | "halton.many" => do
      let (s, bases, sizes) ← run (do let s ← nat; let b ← list nat; let z ← list nat; pure (s, b, z)) args
      if bases.any (· < 2) then none else
      let (bs, s') := Halton.drawMany (Halton.haltonPoint Float.ofNat bases) 1 s sizes
      pure (" | ".intercalate (bs.map (fun b => joinSp (b.map fl))) ++ s!" | cursor {s'}")
  | "halton.primes" => do
      let n ← run nat args
      pure (joinSp ((Halton.getNPrimes n).map toString))
  | "rseq.many" => do
      let (start, idx, alphas, sizes) ← run (do
        let st ← flt; let i ← nat; let a ← list flt; let z ← list nat; pure (st, i, a, z)) args
      let (bs, s') := Halton.drawMany (Halton.rPoint Float.ofNat (fun x => x - Float.floor x) start alphas) 0 idx sizes
      pure (" | ".intercalate (bs.map (fun b => joinSp (b.map fl))) ++ s!" | cursor {s'}")
  | "rseq.phi" => do
      -- dims: the fixed point of the compute_phi loop (bit pattern) and alpha = (1/phi)^(1..dims)
      let d ← run nat args
      match Halton.phiLoop (1.0 : Float) (fun y => Float.pow y (1.0 / Float.ofNat (d + 1))) 10000 2.0 with
      | none => pure "no-fixed-point"
      | some phi => pure (floatToHex phi ++ " | " ++ fl (Halton.alphas (1.0 : Float) (fun x k => Float.pow x (Float.ofNat k)) phi d))
  | "cors.run" => do
      -- maxSamples rho0 p dims bs | history lengths handed to the successive calls: radii and constraint counts of every call
      let r ← run (do
        let m ← nat; let rho ← flt; let p ← flt; let dims ← nat; let bs ← nat; let ns ← list nat
        pure (m, rho, p, dims, bs, ns)) args
      let (m, rho, p, dims, bs, ns) := r
      if dims = 0 then none else
      let o : Cors.Ops Float := ⟨Float.ofNat, 3.141592653589793, Float.pow⟩
      pure (" | ".intercalate ((Cors.run o ⟨m, rho, p⟩ dims bs 0 ns).map (fun c => fl c.1 ++ " ; " ++ showNats c.2)))
  | "cal.run" => Drv.Cal.handle args
  | "rl.run" => Drv.RL.handle args
  | "ckpt.saves" => do
      let snaps ← run (list (do
        let p ← nat; let rows ← list nat; let ser ← list nat
        pure ({ params := p, sched := p, loss := p, rows := rows, series := ser } : Checkpoint.Snap Nat Nat Nat Nat Nat))) args
      let cd : Checkpoint.Codec Nat Nat Nat Nat Nat Nat Nat Nat Nat Nat := ⟨id, some, id, some, id, some, id, some, id, some⟩
      let f := snaps.foldl (Checkpoint.save cd) Checkpoint.Folder.empty
      match Checkpoint.load cd f with
      | none => pure "load-error"
      | some s => pure s!"params {s.params} rows {showNats s.rows} series {showNats s.series}"
  | "ckpt.outcome" => do
      -- per-file states: P(rev) B(roken) C(ut) D(one)
      let fs ← args.mapM (fun t => match t with
        | "P" => some Checkpoint.FileState.prev | "B" => some .broken | "C" => some .cut | "D" => some .done | "S" => some .same | _ => none)
      pure (match Checkpoint.restoreOutcome fs with
        | .error => "error" | .equalsPrev => "prev" | .equalsNew => "new" | .hybrid => "hybrid")
  | "ckpt.names" => pure (joinSp (Checkpoint.Dir.fileNames ++ [Checkpoint.Dir.sqliteName]))
  | "ckpt.sql" => do
      let (prev, failAt) ← run (do let p ← list nat; let f ← int; pure (p, f)) args
      let db := Checkpoint.sqlRun ⟨prev, none⟩ (Checkpoint.sqlSaveStmts 999) (if failAt < 0 then none else some failAt.toNat)
      pure (showNats db.committed)
  | "ckpt.sqlseq" => do
      -- prev rows | statement codes as observed on the real save | failAt (-1: none)
      let (prev, codes, failAt) ← run (do let p ← list nat; let c ← list nat; let f ← int; pure (p, c, f)) args
      let db := Checkpoint.sqlRun ⟨prev, none⟩ (Checkpoint.sqlOfCodes 999 codes) (if failAt < 0 then none else some failAt.toNat)
      pure (showNats db.committed)
  | "ckpt.journal" => do
      let (j, n, k, rb) ← run (do let j ← nat; let n ← nat; let k ← nat; let rb ← bool; pure (j, n, k, rb)) args
      pure (match Checkpoint.Journal.load j n rb (Checkpoint.Journal.crashAt j n k) with
        | .prev => "prev" | .new => "new" | .mixture => "mixture")
  | "smp.pso" => do
      let (bs, ns) ← run (do let bs ← nat; let ns ← list nat; pure (bs, ns)) args
      pure (joinSp ((Samplers.Pso.run (Samplers.Pso.sampleBatch bs) Samplers.Pso.init ns).map (fun a => match a with
        | .start => "S" | .update n lo hi => s!"U:{n}:{lo}:{hi}")))
  | "pso.run" => do
      -- bs dims inertia c1 c2 across lo[dims] hi[dims] | calls: d0 (bs x dims) d1 (bs x dims) n points (n x dims) losses (n)
      let r ← run (do
        let bs ← nat; let dims ← nat
        let w ← flt; let c1 ← flt; let c2 ← flt; let ac ← bool
        let lo ← rep flt dims; let hi ← rep flt dims
        let calls ← list (do
          let d0 ← rep (rep flt dims) bs; let d1 ← rep (rep flt dims) bs
          let n ← nat; let pts ← rep (rep flt dims) n; let ls ← rep flt n
          pure (d0, d1, pts, ls))
        pure (({ bs := bs, inertia := w, c1 := c1, c2 := c2, across := ac } : Pso.Cfg Float), lo, hi, calls)) args
      let (cfg, lo, hi, calls) := r
      let inf : Float := 1.0 / 0.0
      let rows (m : List (List Float)) : String := ",".intercalate (m.map fl)
      let (_, outs) := calls.foldl (fun (acc : Option (Pso.Swarm Float Float) × List String) c =>
        let (d0, d1, pts, ls) := c
        let (s', raw) := Pso.sampleBatch cfg 0.0 1.0 0.5 inf lo hi acc.1 d0 d1 pts ls
        (some s', (s!"raw {rows raw} ; pos {rows s'.pos} ; vel {rows s'.vel} ; bp {rows s'.bestPos} ; bl {fl s'.bestLoss} ; gid {s'.gid} ; prev {s'.prevStart}") :: acc.2))
        (none, [])
      pure (" | ".intercalate outs.reverse)
  | "smp.select" => do
      let (dims, order, pool, k) ← run (do
        let dims ← nat; let order ← list nat; let pool ← list (rep flt dims); let k ← nat; pure (dims, order, pool, k)) args
      let _ := dims
      pure (joinSp ((Samplers.selectLowest order pool k).map fl))
  | "smp.bestbatch" => do
      let (prec, lo, hi, grids, parent, shocks) ← run (do
        let dims ← nat
        let prec ← rep flt dims; let lo ← rep flt dims; let hi ← rep flt dims
        let grids ← rep (list flt) dims
        let parent ← rep flt dims
        let shocks ← list (do let i ← nat; let sz ← nat; let pl ← bool; pure ({ idx := i, size := sz, plus := pl } : Samplers.Shock))
        pure (prec, lo, hi, grids, parent, shocks)) args
      let row := Samplers.applyShocks Float.ofNat prec lo hi 0.0 parent shocks
      let snapped := Samplers.snapBatch fdist grids [row] 0.0
      pure (fl row ++ " | " ++ joinSp (snapped.map fl))
  | "smp.bestbatch2" => do
      -- like smp.bestbatch, but the parent is chosen by the model: history, argsort order of its losses, batch size, drawn position
      let (prec, lo, hi, grids, order, hist, bs, j, shocks) ← run (do
        let dims ← nat
        let prec ← rep flt dims; let lo ← rep flt dims; let hi ← rep flt dims
        let grids ← rep (list flt) dims
        let order ← list nat
        let hist ← list (rep flt dims)
        let bs ← nat; let j ← nat
        let shocks ← list (do let i ← nat; let sz ← nat; let pl ← bool; pure ({ idx := i, size := sz, plus := pl } : Samplers.Shock))
        pure (prec, lo, hi, grids, order, hist, bs, j, shocks)) args
      match Samplers.bestBatchParent order hist bs j with
      | none => pure "no-parent"
      | some parent =>
        let row := Samplers.applyShocks Float.ofNat prec lo hi 0.0 parent shocks
        let snapped := Samplers.snapBatch fdist grids [row] 0.0
        pure (fl row ++ " | " ++ joinSp (snapped.map fl))
  | "loss.compute" => do
      -- kind D E T | weights: -1 or D floats | filters: -1 or n tags | sim (D x E x T) | real (D x T)
      let r ← run (do
        let kind ← nat; let d ← nat; let e ← nat; let t ← nat
        let nw ← int
        let ws ← if nw < 0 then pure none else (do let l ← rep flt nw.toNat; pure (some l))
        let nf ← int
        let fs ← if nf < 0 then pure none else (do let l ← rep nat nf.toNat; pure (some l))
        let sim ← rep (rep (rep flt t) e) d
        let real ← rep (rep flt t) d
        pure (kind, ws, fs, sim, real)) args
      let (kind, ws, fs, sim, real) := r
      match Loss.computeLoss Float.ofNat (stubLoss1d kind) ws (fs.map (fun l => l.map lossFilter)) sim real with
      | .ok v => pure ("ok " ++ floatToHex v)
      | .error (.weightsLength a b) => pure s!"err weights {a} {b}"
      | .error (.filtersLength a b) => pure s!"err filters {a} {b}"
  | "loss.fourier" => do
      -- kind (0 ideal / 1 gaussian) f E N | sim (E x N) | real (N)
      let r ← run (do
        let kind ← nat; let f ← flt; let e ← nat; let n ← nat
        let sim ← rep (rep flt n) e
        let real ← rep flt n
        pure (kind, f, sim, real)) args
      let (kind, f, sim, real) := r
      pure (floatToHex (Drv.Fourier.loss kind f sim real))
  | "loss.gsl" => do
      -- L nbValues tsLength | E | sims (E lists of symbols) | obs (list of symbols)
      let r ← run (do
        let l ← nat; let nv ← nat; let tl ← nat; let e ← nat
        let sims ← rep (list nat) e
        let obs ← list nat
        pure (l, nv, tl, sims, obs)) args
      let (l, nv, tl, sims, obs) := r
      pure (floatToHex (Drv.Losses.gsl sims obs l nv tl))
  | "loss.likelihood" => do
      -- rule (0 value / 1 silverman / 2 scott) h R S T D | sim (R x S x D) | real (T x D)
      let r ← run (do
        let rule ← nat; let h ← flt; let rr ← nat; let ss ← nat; let tt ← nat; let d ← nat
        let sim ← rep (rep (rep flt d) ss) rr
        let real ← rep (rep flt d) tt
        pure (rule, h, d, sim, real)) args
      let (rule, h, d, sim, real) := r
      pure (floatToHex (Drv.Losses.likelihood rule h d sim real))
  | "loss.msm" => do
      -- cov (0 identity / 1 inverse variance) standardise (0/1) E N | sim (E x N) | real (N)
      let r ← run (do
        let cov ← nat; let st ← nat; let e ← nat; let n ← nat
        let sim ← rep (rep flt n) e
        let real ← rep flt n
        pure (cov, st, sim, real)) args
      let (cov, st, sim, real) := r
      pure (floatToHex (Drv.Losses.msm cov (st == 1) sim real))
  | "loss.minkowski" => do
      let r ← run (do
        let p ← nat; let e ← nat; let n ← nat
        let sim ← rep (rep flt n) e
        let real ← rep flt n
        pure (p, sim, real)) args
      let (p, sim, real) := r
      pure (floatToHex (Drv.Losses.minkowski p sim real))
  | "loss.moments" => do
      let ts ← run (list flt) args
      pure (fl (Drv.Losses.moments18 ts))
  | "gsl.discretize" => do
      -- nb | ts : the symbols of ts for its own min and max (EPS = 1e-5)
      let r ← run (do let nb ← nat; let ts ← list flt; pure (nb, ts)) args
      let (nb, ts) := r
      let lo := ts.foldl (fun a b => if b < a then b else a) (ts.headD 0.0)
      let hi := ts.foldl (fun a b => if a < b then b else a) (ts.headD 0.0)
      pure (showNats (Gsl.discretize Float.ofNat 0.00001 ts nb lo hi))
  | "gsl.words" => do
      let (ts, len) ← run (do let ts ← list nat; let l ← nat; pure (ts, l)) args
      pure (showNats (Gsl.getWords ts len) ++ " | " ++
        ";".intercalate ((Gsl.tupleCounts ts len).map (fun p => showNats p.1 ++ "=" ++ toString p.2)))
  | "ss.errors" => pure (joinSp SearchSpace.errorNames)
  | "ss.check" => do
      let (b, p) ← run (do let b ← list (list flt); let p ← list flt; pure (b, p)) args
      match SearchSpace.checkBounds (0.0 : Float) b p with
      | .ok () => pure "ok"
      | .error e => pure (ssErr floatToHex e)
  | "ss.build" => do
      let (tol, b, p) ← run (do let t ← flt; let b ← list (list flt); let p ← list flt; pure (t, b, p)) args
      match SearchSpace.build fops tol b p with
      | .ok (gs, size) => pure (s!"ok {gs.length} " ++ joinSp (gs.map (fun g => s!"{g.length} " ++ fl g)) ++ s!" {size}")
      | .error e => pure (ssErr floatToHex e)
  | "ss.buildq" => do
      let (tol, b, p) ← run (do let t ← rat; let b ← list (list rat); let p ← list rat; pure (t, b, p)) args
      match SearchSpace.build qops tol b p with
      | .ok (gs, size) => pure (s!"ok {gs.length} " ++ joinSp (gs.map (fun g => s!"{g.length} " ++ ql g)) ++ s!" {size}")
      | .error e => pure (ssErr ratToStr e)
  | _ => none

def step (line : String) : String :=
  match (line.trimAscii.toString.splitOn " ").filter (· ≠ "") with
  | [] => "bad-op"
  | op :: args => match handle op args with
      | some out => out
      | none => "bad-op"

partial def loop (h : IO.FS.Stream) (out : IO.FS.Stream) : IO Unit := do
  let line ← h.getLine
  if line.isEmpty then return ()
  out.putStrLn (step line)
  loop h out

def main : IO Unit := do
  let out ← IO.getStdout
  loop (← IO.getStdin) out
