import BlackItModel
import BlackIt.Lemmas.Snap
import BlackIt.Properties.C17
import BlackIt.Properties.C15
import BlackIt.Properties.C12
import BlackIt.Properties.C19
import BlackIt.Properties.C13
