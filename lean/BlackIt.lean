import BlackItModel
import BlackIt.Lemmas.Snap
import BlackIt.Properties.C17
