-- Mathlib-free root: everything the driver needs (models + wire format)
import BlackIt.Wire
import BlackIt.Parse
import BlackIt.Model.Snap
import BlackIt.Model.SearchSpace
import BlackIt.Model.Dedup
import BlackIt.Model.Bandit
import BlackIt.Model.Halton
import BlackIt.Model.Calibrator
import BlackIt.Drv.Cal
import BlackIt.Model.Checkpoint
import BlackIt.Model.RLProtocol
import BlackIt.Drv.RL
import BlackIt.Model.Samplers
import BlackIt.Model.Loss
import BlackIt.Model.Gsl
import BlackIt.Model.TimeSeries
