#!/usr/bin/env python3
"""Regenerate seeded/README.md from the meta.json / result.json of every seeded change (+ seeded/STRENGTHENED.md)."""
import json
from pathlib import Path

root = Path(__file__).resolve().parents[1] / "seeded"
rows = []
for d in sorted(p for p in root.iterdir() if p.is_dir() and (p / "meta.json").exists()):
    meta = json.loads((d / "meta.json").read_text())
    res = json.loads((d / "result.json").read_text()) if (d / "result.json").exists() else {}
    own = [c for c in res.get("checks", []) if c.get("property", meta["property"]) == meta["property"]]
    other = [c for c in res.get("checks", []) if c.get("property", meta["property"]) != meta["property"]]
    caught = sum(1 for c in own if c.get("violation"))
    concrete = sum(1 for c in own if c.get("violation") and "no-failing-input-found" not in c["violation"])
    demo = f"{res.get('demo_without_patch_rc', '?')}/{res.get('demo_with_patch_rc', '?')}"
    also = ", ".join(f"{c['property']}: {'yes' if c.get('violation') else 'no'}" for c in other) or "—"
    first = next((c.get("first_failing_input", "") for c in own if c.get("first_failing_input")), "")
    rows.append(f"| {d.name} | {meta['property']} | {meta.get('summary', '').replace('|', '/')} | {meta.get('needs', '').replace('|', '/')} | {demo} | "
                f"{caught}/{len(own)} seeds ({concrete} with a concrete failing input) | {also} | {first[:160].replace('|', '/')} |")
out = ["# Seeded changes", "",
       "Each directory holds `patch.diff` (applies to /repo), `demo.py` (exits 0 on the unchanged tree, non-zero with the patch), `NOTES.md` (the author's notes), "
       "`meta.json` and `result.json` (written by `harness/seeded_eval.py`, which applies the patch to /repo, runs the demonstration and the property's quick check "
       "for several seeds, and restores /repo). All were written by sub-agents that saw only the property text and a scratch worktree; each was confirmed here "
       "(demonstration passes without and fails with the patch; the 84 pinned tests still pass). None is ever committed to /repo.", "",
       "| directory | property | change | what it needs to manifest | demo rc without/with | caught by the property's quick check | other checks run | first failing input reported |",
       "|---|---|---|---|---|---|---|---|"] + rows + ["", (root / "STRENGTHENED.md").read_text()]
(root / "README.md").write_text("\n".join(out))
print(f"{len(rows)} seeded changes")
