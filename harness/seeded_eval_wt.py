#!/usr/bin/env python3
"""Evaluate seeded changes in parallel without touching /repo: each change is applied in its own scratch worktree of /repo (under /tmp), its demonstration and
the property's quick check run with PYTHONPATH pointing at that worktree (black_it is then imported from there, also by child processes), the worktree is removed.
usage: seeded_eval_wt.py [--seeds 0,1,2] [--jobs 6] <seeded-dir-name> ...      (writes seeded/<name>/result.json like seeded_eval.py)
The final confirmation of a wave is still made with seeded_eval.py on /repo itself.  SEEDED_RESULT_NAME=<file> writes the result under another name
(used for the regression run of all changes against the final checks: result_final.json)."""
import json, os, subprocess, sys
from concurrent.futures import ThreadPoolExecutor
from pathlib import Path

VERIF = Path(__file__).resolve().parents[1]
PY = "/venv/bin/python"
args = sys.argv[1:]
seeds, jobs = [0, 1, 2], 6
if "--seeds" in args:
    i = args.index("--seeds"); seeds = [int(x) for x in args[i + 1].split(",")]; del args[i:i + 2]
if "--jobs" in args:
    i = args.index("--jobs"); jobs = int(args[i + 1]); del args[i:i + 2]


def sh(cmd, **kw):
    return subprocess.run(cmd, shell=True, capture_output=True, text=True, **kw)


def one(name):
    d = VERIF / "seeded" / name
    meta = json.loads((d / "meta.json").read_text())
    prop = meta["property"]
    wt = f"/tmp/ev/{name}"
    sh(f"git -C /repo worktree remove --force {wt}")
    r = sh(f"git -C /repo worktree add -q --detach {wt} HEAD && git -C {wt} apply {d / 'patch.diff'}")
    if r.returncode != 0:
        return name, {"error": r.stderr[-300:]}
    env = dict(os.environ, PYTHONPATH=wt)
    res = {"property": prop, "dir": name, "mode": "scratch worktree + PYTHONPATH"}
    try:
        if not os.environ.get("SEEDED_SKIP_DEMO"):
            base = sh(f"{PY} {d / 'demo.py'}", cwd="/tmp", timeout=1200)
            res["demo_without_patch_rc"] = base.returncode
            dm = sh(f"{PY} {d / 'demo.py'}", cwd="/tmp", env=env, timeout=1200)
            res["demo_with_patch_rc"] = dm.returncode
            res["demo_with_patch_tail"] = (dm.stdout + dm.stderr)[-300:]
        res["checks"] = []
        for s in seeds:
            c = sh(f"{PY} harness/check.py {prop} --tier quick", cwd=str(VERIF), env=dict(env, VERIF_SEED=str(s)), timeout=7200)
            line = [l for l in c.stdout.split("\n") if l.startswith("VIOLATION")]
            summ = [l for l in c.stdout.split("\n") if l.startswith("[")]
            e = {"tier": "quick", "seed": s, "rc": c.returncode, "violation": line[0] if line else None, "summary": summ[-1] if summ else c.stderr[-300:]}
            if line and "replay=" in line[0]:
                try:
                    rj = json.loads(Path(line[0].split("replay=")[1].split(" ")[0]).read_text())
                    e["first_failing_input"] = (rj.get("failing_inputs") or [{}])[0].get("what", "")[:300]
                except Exception:
                    pass
            res["checks"].append(e)
    finally:
        sh(f"git -C /repo worktree remove --force {wt}")
    (d / os.environ.get("SEEDED_RESULT_NAME", "result.json")).write_text(json.dumps(res, indent=1) + "\n")
    return name, res


os.makedirs("/tmp/ev", exist_ok=True)
with ThreadPoolExecutor(jobs) as ex:
    for name, res in ex.map(one, args):
        if "error" in res:
            print(name, "ERROR", res["error"], flush=True); continue
        print(name, "demo", res.get("demo_without_patch_rc"), res.get("demo_with_patch_rc"),
              [(c["rc"], "NFI" if c["violation"] and "no-failing" in c["violation"] else ("V" if c["violation"] else "-")) for c in res["checks"]], flush=True)
sh("git -C /repo worktree prune")
