#!/usr/bin/env python3
"""Regenerate MANIFEST.json from the table below (kept in one place so it is always valid)."""
import json
from pathlib import Path

ROOT = Path(__file__).resolve().parents[1]
PY = "/venv/bin/python"

# property -> (technique, level text, level note, design ref)
CLAIMED = {
    "C17": ("Lean 4 proof (nearest-element theorem for any sorted grid) + bit-exact differential run of get_closest/digitize_data against the model",
            "Proved in Lean for every non-empty sorted grid and every value: the snapped value is a grid element at minimal "
            "distance, grid elements are fixed points, snapping is idempotent, digitize acts entry-wise with column j's grid. "
            "The model is tied to utils/base.py by bit-exact comparison on generated grids/values each run.",
            "Trusted: Lean kernel; IEEE-754 subtraction/fabs/compare identical in Lean Float and numpy; searchsorted(left) = "
            "count of smaller elements; monotone rounding of |v-g| (the theorem is stated for any unimodal distance).",
            "DESIGN.md §4 C17"),
    "C15": ("Lean 4 proof (first-failing-check characterisation; grid = {lower+i*precision < upper+tol}; hits bound when tol <= precision; size = product) + exhaustive lattice / bit-exact differential run of SearchSpace",
            "Proved in Lean: the validation result is the first failing condition in the documented order with the documented payload "
            "(iff per constructor), accepted iff well-formed; over exact arithmetic the grid is exactly lower + i*precision for the i "
            "below upper+tol, strictly increasing, ends on the bound when the range is a multiple of the precision and tol <= precision; "
            "size is the product of lengths; a Lean witness shows the bound clause fails for precision < tol (known finding). "
            "Model tied to search_space.py by exhaustive lattice comparison of error class+payload and bit-exact grids.",
            "Trusted: Lean kernel; numpy arange contract (length ceil((stop-start)/step), element i = start+i*delta), checked bit-for-bit each run; "
            "binary64 rounding of grid elements is outside the exact-arithmetic theorems.",
            "DESIGN.md §4 C15"),
    "C12": ("Lean 4 proof (trace characterisation of the dedup loop by induction on the pass budget) + exact differential run of BaseSampler.sample with a scripted generator",
            "Proved in Lean for every history, scripted generator, batch size and pass budget: sample() is the first draw followed by "
            "passes that find exactly the repeated positions, request exactly that many rows and substitute exactly at those positions; "
            "non-flagged positions keep their row; a returned repeat implies all passes ran and each found a repeat; an early exit is clean. "
            "Model tied to samplers/base.py by exact comparison of returned batch, request sizes and warning on scripted runs.",
            "Trusted: Lean kernel; numpy unique(axis=0)/fancy-assignment contracts; the generator returns as many rows as requested (hypothesis).",
            "DESIGN.md §4 C12"),
    "C19": ("Lean 4 proof (update rule, sample-average = arithmetic mean by invariant over any observation sequence, argmax maximality, action validity) + bit-exact differential run of MABEpsilonGreedy/MABCalibrationEnv",
            "Proved in Lean over any ordered field: reward = relative improvement / zero with the reference moving only on improvement; "
            "learn moves exactly the rewarded estimate by step*(reward-estimate) and increments exactly its counter; with the sentinel the "
            "estimate equals the mean of the rewards received (any interleaving of actions, any initial value); eps=0 picks a maximal estimate; "
            "actions are valid indices. Model tied to the code by bit-exact comparison of Q, counters, actions, rewards after every step.",
            "Trusted: Lean kernel; IEEE + - * / equal in Lean Float and CPython; the PRNG is a tape (recorded real stream + scripted boundary values).",
            "DESIGN.md §4 C19"),
    "C13": ("Lean 4 proof (loop = digit-reflection sum by induction; cursor additivity over any batch-size list; prime table by kernel evaluation; R-sequence step law; the compute_phi loop stops only at the generalised golden ratio, which is unique) + bit-exact differential run of halton(), the sieve, both sampler cursors and compute_phi",
            "Proved in Lean: for every base >= 2 and index the halton() loop returns sum d_j b^-(j+1) over the base-b digits (in [0,1)); the k-th "
            "point of a batch at cursor s is point s+k and any list of batch sizes concatenates to one batch of the total (two of n = one of 2n); "
            "the sieve yields exactly the primes <= 173 in order for d <= 40; R-sequence points advance by alpha mod 1. Tied to halton.py / "
            "r_sequence.py bit-for-bit (Float instance) and to exact rationals within 2^-50. The compute_phi loop can stop only at a fixed point; under the exact-root contract of pow that "
            "value satisfies phi^(d+1) = phi + 1, an equation with at most one non-negative solution; the step vector lies in (0,1), decreases and closes alpha_d(1+alpha_1) = 1; "
            "compute_phi equals the model bit for bit for every dimension, alpha within 2 ulp (np.power is not pow).",
            "Trusted: Lean kernel; IEEE elementwise ops equal in Lean Float and numpy; PRNG as a recorded tape; the C library pow behind Python and Lean; existence of the root over the reals not formalised.",
            "DESIGN.md §4 C13"),
    "C02": ("Lean 4 proof (invariant of the calibrator state machine over all components and all calibrate() sequences, by induction over the loop; prefix preservation; sort = permutation) + differential run of the real Calibrator with encoding stubs and recorded built-in samplers",
            "Proved in Lean for arbitrary model/loss/samplers/PRNG/fault plan and every list of calibrate(n) calls: all records have length nSampled; "
            "row i's series is the model at exactly params[i] with the configured length, one seed per ensemble member; its loss is the loss of exactly "
            "those series; batch labels are consecutive from 0 and method labels are the id of the designated sampler; history before a call is a prefix "
            "of the history after (also when it raises); the return value is a permutation of the recorded pairs sorted by loss. Tied to calibrator.py by "
            "field-by-field comparison after every operation plus an independent invariant oracle on the real object.",
            "Trusted: Lean kernel; numpy stacking/repeat contracts; joblib sequential order; stubs of harness/vp/calharness.py. Label alignment needs the sampler contract rows = batch_size.",
            "DESIGN.md §4 C02"),
    "C09": ("Lean 4 proof (round-robin invariant over all op lists of calibrate/checkpoint/restore incl. raising calls; RL bootstrap/agent-action selection; constructor decision table) + differential run of the real calibrator and schedulers",
            "Proved in Lean for any components and any sequence of calibrate(n)/checkpoint/restore: scheduler position = completed batches; batch i was produced by "
            "line-up position i mod n with that sampler's batch size (live object and saved state). RL: first batch by the bootstrap sampler (the last supplied Halton, "
            "else one appended behind the unchanged supplied set), later batches by the index the agent handed over, always inside the line-up; constructor rejects "
            "exactly both-or-neither. Tied to the code by comparing labels, scheduler state and sampler invocation records after every operation.",
            "Trusted: Lean kernel; pickle round trip of the scheduler; queue FIFO for the single-session RL runs; the agent exchange itself is C10.",
            "DESIGN.md §4 C09"),
    "C14": ("Lean 4 proof (first-index characterisation of the calibration loop by induction; independence of verbosity via a nuisance-stripping simulation; checkpoint = returned state) + bit-exact differential run with scripted losses",
            "Proved in Lean: a call for n batches runs exactly m = first batch after which the smallest loss rounds to zero (m = n if none), stops immediately after it and not "
            "before; without a precision it runs exactly n; two calibrators differing only in verbosity/jobs/folder go through the same states; with a folder the checkpoint "
            "equals the returned state (trigger batch included); minLoss is a true minimum for any strict weak order. Tied to calibrator.py with losses at 0.5*10^-p +-1ulp.",
            "Trusted: Lean kernel; np.round(x,p)==0 <=> |fl(x*10^p)| <= 0.5 (compared bit-for-bit each run).",
            "DESIGN.md §4 C14"),
    "C18": ("Lean 4 proof (table monotone/injective/covering and labels = current ids under ALL op lists of calibrate/checkpoint/restore/set_samplers/set_scheduler, with the same invariant for what every checkpoint holds) + differential run incl. the plotting lookup on calibrator-written folders",
            "Proved in Lean: the id table only grows along a life line (old table is a prefix), stays one-id-per-class and one-class-per-id, covers the line-up and every class that "
            "produced a batch, every stored label is the table's id of the producing class, and the pair (state, table) stored by every checkpoint satisfies the same invariant, so "
            "a restore returns a table that still identifies every stored label (labels_identify_class_with_restore, restore_checkpoint_table). The repaired defect (table rebuilt from "
            "the line-up) is kept as a witness. Tied to the code by table/label comparison after every op and by calling plot_results._get_samplers_names on real checkpoints.",
            "Trusted: Lean kernel; dict insertion order; JSON round trip of the table.",
            "DESIGN.md §4 C18"),
    "C11": ("Lean 4 proof (a non-raising batch equals the fault-free batch; induction over the loop: completed run = fault-free run, raising run = fault-free prefix; counters untouched) + exhaustive fault injection at every invocation index on the real calibrator (round-robin and RL)",
            "Proved in Lean for every fault plan: calibrate either completes and equals the fault-free run, or raises the failing component's exception with the history of the "
            "fault-free run after the j < n completed batches; the failed batch leaves batch counter, sample counter and round-robin position untouched; the C02/C09 invariants "
            "hold after any mix of failed and successful calls, so a later calibrate is an ordinary call. Thread clean-up is judged on the real threads (no thread left, next "
            "calibrate works) for every fault index of every generated run; the agent-thread protocol is proved under C10.",
            "Trusted: Lean kernel; joblib n_jobs=1 lazy in-order evaluation; threading.enumerate(). Fault = exception at component entry.",
            "DESIGN.md §4 C11"),
    "C05": ("Lean 4 proof (loop additivity, live split, restore-after-checkpoint = saved core, resumed run = uninterrupted run, by induction over the loop) + exhaustive compositions of n on real twins with all built-in samplers, byte-wise",
            "Proved in Lean for arbitrary components: a loop for a+b batches is a loop for a then b; two live calibrate calls equal one; restore(create_checkpoint(s)) "
            "returns the saved core; continuing the restored object equals continuing the live one, hence equals the uninterrupted run — under the model's perfect serialisers, "
            "whose real counterpart (every sampler's whole state survives pickle; CSV/JSON/HDF5 round trips) is validated by running every composition of n batches "
            "(each boundary live or restore) on the real code against the uninterrupted twin.",
            "Trusted: Lean kernel; pickle round trip of third-party sampler internals (validated differentially); no convergence precision (C14); round-robin line-ups.",
            "DESIGN.md §4 C05"),
    "C01": ("Lean 4 proof (nuisance-stripping simulation over any sequence of calls; reseeding erases constructor state under a per-class contract; simulation seeds are consecutive draws in replication order) + differential pairs and recorded draw traces on the real code",
            "Proved in Lean: histories, return values and failures after any sequence of calibrate calls are the same for calibrators that differ only in verbosity, number "
            "of jobs and saving folder; the first calibrate reseeds every sampler so that, under the class contract ReseedErases, constructor seeds do not matter; without "
            "failures the seed of member e of row i is draw m + i*E + e of the calibrator stream. The contract is validated on every real sampler class (deep state "
            "equality after reseeding), the draw order on recording generators, and whole runs differentially (n_jobs 1/2/4, verbose, folder, ctor seeds; RR and RL).",
            "Trusted: Lean kernel; determinism of numpy PCG64 and of sklearn/xgboost/scipy given their random_state; joblib workers as pure evaluators.",
            "DESIGN.md §4 C01"),
    "C04": ("Lean 4 proof (load(save f s) = s under serialiser contracts when the folder's series are a prefix; SQLite load-after-save; folder = returned state) + serialiser contracts validated bit-for-bit on the real libraries and deep comparison of restored calibrators",
            "Proved in Lean: with faithful serialisers, loading what save wrote returns exactly the saved state whenever the folder held nothing or an earlier checkpoint of "
            "the same run; the SQLite table returns the saved row whatever it held; calibrate() with a folder leaves the returned state on disk. A Lean witness shows stale "
            "series rows when the folder belongs to a different run (known finding); RLScheduler cannot be pickled (known finding). The contracts dec(enc x) = x are "
            "checked on tens of thousands of floats through the real CSV/JSON/HDF5/SQLite paths, and restored calibrators are compared recursively, bit for bit, with the "
            "saved ones over scripts of calibrate/checkpoint/restore/new-run (all sampler classes, all losses, zero-batch checkpoints). The folder as a directory: a restore reads only the five "
            "named files (a file under any other name - added, replaced, removed - changes nothing it returns) and a save leaves every other file as it was; the list of names is "
            "compared on every run with the data-file names that occur in the source of the package, and stale files are planted under every name the code knows but does not write.",
            "Trusted: Lean kernel; json/pickle/h5py/sqlite3 internals (round trips sampled, not proved); harness/vp/deep.py defines observable state. Partial: different-run folders and RL scheduler are known findings.",
            "DESIGN.md §4 C04"),
    "C06": ("Lean 4 proof (SQLite: failed save keeps the previous row, never a hybrid; five-file back-end: exact classification of crash prefixes, partial theorem + negation of the full statement with witness) + real SIGKILL at every system call of a real save, byte-level truncation, exception (four classes/modes, one of them persistent) at every SQLite statement with the model run on the executed statements",
            "Proved in Lean: the transactional save leaves the previous checkpoint loadable whichever statement raises and the table is always the previous or the new row "
            "(plus the witness of the repaired defect); generally (sqlite_transaction_atomic) any preamble outside a transaction followed by any statements that do not commit and a final commit "
            "is atomic under a failure at any index, retried statements included - the hypothesis is checked against the statement list every real save executes, and the model runs exactly "
            "the statements each failing save executed (executescript commits a pending transaction, as in SQLite); for the five-file back-end the restore outcome is a function of per-file states with no cross-file check, hybrids are "
            "exactly the crash prefixes with no rejected file that are neither all-old nor all-new — the full property is false there (json_full_statement_false) and the six "
            "hybrid shapes are known findings. The model is tied to the code by killing a real save at every syscall touching a checkpoint file (order of file operations "
            "re-derived from strace each run), by every byte-level prefix of the rewritten files, and by raising at every statement of the real SQLite save; each folder is "
            "restored with the real loader and classified by deep comparison.",
            "Trusted: Lean kernel; strace injection; process-death crash model (no write reordering); SQLite's journal; h5py behaviour on half-updated files recorded not modelled. Partial: JSON back-end hybrids are known findings.",
            "DESIGN.md §4 C06"),
    "C10": ("Lean 4 proof (inductive invariant of a two-thread transition system over ALL choice sequences = all scripts, failures, agents and interleavings; deadlock freedom; confluence via a diamond lemma => schedule independence) + forced-schedule execution of the real threads replayed move by move on the model",
            "Proved in Lean at synchronisation-point granularity, for every script of sessions/batches, every failure point, every agent and every interleaving: "
            "the learn calls (batch, sampler) are exactly the completed agent-chosen batches, lagging by at most the one outcome in flight — so each chosen batch is learned "
            "once, from its own outcome, attributed to the sampler that ran, and nothing unexecuted is learned; at session end both queues are empty and no thread is alive; "
            "both threads are never blocked together and a waiting calibration thread implies the agent can move; for a scripted system with any deterministic agent every "
            "complete execution reaches the same final state (diamond + strip lemmas), and terminal states are finished ones. Tied to rl_scheduler.py/envs/base.py by running "
            "the real threads under a controller (random, biased, alternating and exhaustive schedules) and replaying each event trace on the model.",
            "Trusted: Lean kernel; atomicity and FIFO of queue.Queue, atomic attribute access, Thread.start/join (CPython); fused local steps; harness/vp/rlsched.py.",
            "DESIGN.md §4 C10"),
    "C03": ("Lean 4 proof (membership for an arbitrary raw proposal: finish = digitize / choice from the grid; inheritance through the dedup loop; grid within bounds) + snap-mechanism conformance and exact membership oracle on all nine real samplers",
            "Proved in Lean for every grid, history, seed, raw-proposal function and pass budget: sample() of a snapping sampler returns batch_size rows whose every coordinate "
            "is an element of its parameter grid (C17 membership + C12 substitution), likewise for random-uniform (choice contract), and grid elements lie in [lower, upper+tol) "
            "(C15); before snapping, the scaled Halton, R-sequence, swarm and CORS points already lie within the declared bounds; Lean witness of the repaired best-batch defect (clip alone leaves the grid). The tie to the code is checked each run: what every sample_batch returns IS the "
            "output of its final digitize_data call, that call is replayed bit-for-bit on the model, and every proposal of every sampler is tested for exact grid membership "
            "over random spaces (non-aligned bounds, scales 1e-6..1e6), histories and successive calls.",
            "Trusted: Lean kernel; numpy choice contract; third-party optimisers/surrogates as arbitrary functions.",
            "DESIGN.md §4 C03"),
    "C16": ("Lean 4 proof (lowest-k selection for every admissible argsort; shape of a best-batch proposal for distinct shocked coordinates) + byte snapshots of the history on all samplers, scripted and real surrogates, best-batch and the whole particle swarm replayed bit for bit from recorded draws",
            "Proved in Lean: for any pool, predictions and any sorting permutation the selected candidates are the pool rows at k distinct valid indices and every selected "
            "prediction is <= every unselected one; a best-batch row equals the parent with each shocked (distinct) coordinate displaced by size precision steps in the drawn "
            "direction and clipped, other coordinates unchanged. No-modification is decided on the real arrays (byte snapshots, losses +-inf/1e40/float32-overflow, every "
            "sampler); fit/predict arguments and the lowest-k rule are checked with a scripted surrogate and the real RF/XGB/GP; every best-batch proposal is reproduced bit "
            "for bit by the model from the recorded generator draws. The particle swarm is modelled whole (set-up, update of the bests, step, scaling): in every reachable state "
            "the global-best index points at a smallest personal-best loss; personal bests are the minimum of the losses in the particle's own slot of the history with the "
            "matching row (over any number of calls: the smallest loss the particle ever read from its own slot); the cross-sampler attractor is the first lowest-loss row; after a step positions lie in the unit cube and the raw proposal within the bounds; the "
            "real sampler's raw proposal and whole state equal the model's after every call. CORS: the density-decay counter runs 0,1,2,... without gaps over the life of an object, "
            "the radius is positive inside the schedule, cubetobox inverts boxtocube and maps the cube into the bounds; radii and constraint counts equal the model bit for bit.",
            "Trusted: Lean kernel; np.argsort returns a sorting permutation (validated per case); scipy betabinom range; harness/vp/tape.py.",
            "DESIGN.md §4 C16"),
    "C08": ("Lean 4 proof (weighted-sum form of compute_loss for an arbitrary 1-d loss, coordinate-permutation invariance, zero weight, default 1/D, validation order, ensemble-permutation invariance, sign/zero of Minkowski and MSM cores) + bit-exact stub runs and purity/symmetry checks on every built-in loss",
            "Proved in Lean over any ordered field: compute_loss = sum_i w_i * loss_1d(filter_i(sim_i), real_i) for an arbitrary single-coordinate loss; unchanged by permuting "
            "coordinates with their weights and filters; a zero weight removes a coordinate; without weights it is the mean; wrong-length weight/filter lists are rejected, "
            "weights first; Minkowski and method-of-moments (identity, inverse variance, any moment calculator) are unchanged by permuting ensemble members, non-negative "
            "(inverse variance under the guard v_i > 0) and zero when every member equals the real data. Purity (no input mutation, no state leakage) is decided on the real "
            "objects; the stub runs are compared bit for bit with the model and with an exact rational weighted sum.",
            "Trusted: Lean kernel; numpy reductions compared to 1e-12; Fourier/GSL/likelihood symmetry and sign are checked on the implementation only. Known finding: NaN of inverse-variance MSM at zero spread.",
            "DESIGN.md §4 C08"),
    "C07": ("Lean 4 proof of the algorithmic content (base-10 word packing injective for symbols <= 9 hence word frequencies = tuple frequencies; GSL weights sum to 1; ideal low-pass mask; default weights and per-coordinate filters via C08) + every built-in loss against an independent reference implementation of its documented definition",
            "Proved in Lean: packed words are in one-to-one correspondence with symbol tuples when every symbol is <= 9, so estimated word probabilities are the documented "
            "ones; collision witness for >= 10 symbols (known finding); the running GSL weights sum to one; the ideal filter keeps exactly the first n components; filters and "
            "weights enter as C08 proves. The numerical definitions (Minkowski norm of the ensemble mean, 18 moments and gWg, filtered Fourier distance, GSL-div with tuple "
            "words, kernel likelihood with Silverman/Scott bandwidth) are evaluated by an independent plain-loop reference and compared at 1e-9 (1e-6) relative tolerance over "
            "random data and options; discrete GSL intermediates are compared exactly with the model.",
            "Level: proof of structure + tolerance-validated numerics (floating-point evaluation of sqrt/exp/log/FFT is not proved). Known findings: GSL base-10 packing for nb_values >= 10 and word lengths >= 16.",
            "DESIGN.md §4 C07"),
    "C20": ("Lean 4 proof (I + lambda K'K positive definite for every real K and lambda > 0 => the HP optimality condition has exactly one solution; cycle + trend = y; de-meaned difference keeps length and has zero sum; nan_to_num output finite) + residual / exact-rational validation of hp_filter and definitional checks of the derived filters and the 18 moments",
            "Proved in Lean (Mathlib matrices over R): for every length and every lambda > 0 the HP system matrix is positive definite, hence invertible, so the trend is the "
            "unique solution of the optimality condition and cycle + trend is the input; that solution is the strict minimiser of the Hodrick-Prescott objective |y - t|^2 + lambda |K t|^2 "
            "(excess = |h|^2 + lambda |K h|^2 for any other candidate t + h), with K the second-difference operator the code builds (row r of K t is t_r - 2 t_{r+1} + t_{r+2}); the de-meaned first difference has the input's length and zero sum; after nan_to_num "
            "every summary entry is finite. That spsolve returns that solution is validated by the residual bound 1e3*eps*(1+16*lambda)*max|y| on lengths 3-2000 and lambda in "
            "[1e-3,1e7] and by an exact rational pentadiagonal solve for n <= 40; derived filters are compared with their definitions, the moment summary with a reference.",
            "Trusted: Lean kernel, Mathlib; scipy/statsmodels numerical kernels (validated with tolerance).",
            "DESIGN.md §4 C20"),
}
NOT_YET = {}


def main():
    props = [json.loads(l) for l in (ROOT / "properties.jsonl").read_text().splitlines() if l.strip()]
    checks, na = [], []
    for p in props:
        pid = p["id"]
        if pid in CLAIMED:
            tech, text, note, ref = CLAIMED[pid]
            checks.append({
                "property_id": pid,
                "quick_cmd": f"{PY} harness/check.py {pid} --tier quick",
                "thorough_cmd": f"{PY} harness/check.py {pid} --tier thorough",
                "evidence_file": f"evidence/{pid}.json",
                "replay_cmd_template": f"{PY} harness/check.py {pid} --replay {{path}}",
                "engine": "lean4-proof+correspondence",
                "level_claimed": {"category": "proof", "text": text, "design_ref": ref},
                "level_note": note,
                "technique": tech,
            })
        else:
            na.append({"property_id": pid, "reason": NOT_YET.get(pid, "not claimed yet: model, theorems and correspondence check for this property are still being built (see DESIGN.md §4/§9); no technique switch is intended")})
    m = {
        "version": 1,
        "setup_cmd": "cd lean && lake build",
        "hooks": {
            "guard": "BLACK_IT_VERIF",
            "enable": "no source hooks: the harness observes the unmodified code from outside (subclasses, wrappers, strace); BLACK_IT_VERIF=1 is reserved",
            "baseline_off_cmd": "cd /repo && /venv/bin/python -m pytest -ra -q -p no:cacheprovider --timeout=900 --continue-on-collection-errors",
            "source_commits": [],  # no hooks; fix: commits are listed in known_findings.json
            "add_only": True,
        },
        "engines": [{
            "name": "lean4-proof+correspondence",
            "path": "lean/ (models, lemmas, property theorems, driver) + harness/ (python correspondence, oracles)",
            "serves_properties": sorted(CLAIMED),
            "kind_free_text": "Hand-written Lean 4 model with machine-checked theorems per property; a python harness runs the real black_it code and the model's executable definitions (compiled line-protocol driver) on the same generated inputs and diffs them; an implementation-side oracle searches for a concrete failing input when anything breaks.",
        }],
        "checks": checks,
        "not_applicable": na,
        "notes": "All checks: exit 0 ok, 1 VIOLATION, 2 harness failure. VERIF_SEED selects the random stream. Evidence is rewritten by every run.",
    }
    (ROOT / "MANIFEST.json").write_text(json.dumps(m, indent=1) + "\n")


if __name__ == "__main__":
    main()
