#!/usr/bin/env python3
"""Evaluate a seeded change: confirm the demonstration (fails with the patch, passes without) on /repo itself and
run the property's quick (and optionally thorough) check against it.  /repo is restored afterwards.
usage: seeded_eval.py <seeded-dir> [--thorough] [--seeds 0,1,2]"""
import json, os, subprocess, sys
from pathlib import Path

d = Path(sys.argv[1]).resolve()
meta = json.loads((d / "meta.json").read_text())
prop = meta["property"]
seeds = [0]
tiers = ["quick"]
if "--thorough" in sys.argv:
    tiers.append("thorough")
if "--seeds" in sys.argv:
    seeds = [int(x) for x in sys.argv[sys.argv.index("--seeds") + 1].split(",")]
REPO = "/repo"
PY = "/venv/bin/python"


def sh(cmd, **kw):
    return subprocess.run(cmd, shell=True, capture_output=True, text=True, **kw)


assert sh("git -C /repo status --porcelain").stdout.strip() == "", "/repo is not clean"
res = {"property": prop, "dir": str(d.name)}
r = sh(f"{PY} {d / 'demo.py'}", cwd="/tmp", timeout=1200)
res["demo_without_patch_rc"] = r.returncode
ap = sh(f"git -C {REPO} apply {d / 'patch.diff'}")
if ap.returncode != 0:
    print("PATCH DOES NOT APPLY", ap.stderr[:500]); sys.exit(2)
try:
    r = sh(f"{PY} {d / 'demo.py'}", cwd="/tmp", timeout=1200)
    res["demo_with_patch_rc"] = r.returncode
    res["demo_with_patch_tail"] = (r.stdout + r.stderr)[-300:]
    res["checks"] = []
    for tier in tiers:
        for s in seeds:
            c = sh(f"{PY} harness/check.py {prop} --tier {tier}", cwd="/verif", env=dict(os.environ, VERIF_SEED=str(s)), timeout=7200)
            line = [l for l in c.stdout.split("\n") if l.startswith("VIOLATION")]
            summ = [l for l in c.stdout.split("\n") if l.startswith("[")]
            res["checks"].append({"tier": tier, "seed": s, "rc": c.returncode, "violation": line[0] if line else None, "summary": summ[-1] if summ else c.stderr[-300:]})
            if line and "replay=" in line[0]:
                rp = line[0].split("replay=")[1].split(" ")[0]
                try:
                    rj = json.loads(Path(rp).read_text())
                    res["checks"][-1]["first_failing_input"] = (rj.get("failing_inputs") or [{}])[0].get("what", "")[:300]
                except Exception:
                    pass
    also = meta.get("also_run", [])
    for p2 in also:
        c = sh(f"{PY} harness/check.py {p2} --tier quick", cwd="/verif", timeout=3600)
        line = [l for l in c.stdout.split("\n") if l.startswith("VIOLATION")]
        res["checks"].append({"tier": "quick", "seed": 0, "property": p2, "rc": c.returncode, "violation": line[0] if line else None})
finally:
    sh(f"git -C {REPO} checkout -- .")
    assert sh("git -C /repo status --porcelain").stdout.strip() == ""
print(json.dumps(res, indent=1))
(d / "result.json").write_text(json.dumps(res, indent=1) + "\n")
