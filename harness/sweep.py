#!/usr/bin/env python3
"""Run every registered check with several VERIF_SEED values (false-alarm hunt on the unchanged tree)."""
import json, os, subprocess, sys, time
from pathlib import Path

ROOT = Path(__file__).resolve().parents[1]
m = json.load(open(ROOT / "MANIFEST.json"))
seeds = [int(x) for x in (sys.argv[1] if len(sys.argv) > 1 else "1,2,3").split(",")]
tier = sys.argv[2] if len(sys.argv) > 2 else "quick"
only = set(sys.argv[3].split(",")) if len(sys.argv) > 3 else None
bad = 0
for c in m["checks"]:
    if only and c["property_id"] not in only:
        continue
    for s in seeds:
        t = time.time()
        cmd = c["quick_cmd"] if tier == "quick" else c["thorough_cmd"]
        p = subprocess.run(cmd, shell=True, cwd=ROOT, env=dict(os.environ, VERIF_SEED=str(s)), capture_output=True, text=True)
        last = [l for l in p.stdout.split("\n") if l.startswith("[") or l.startswith("VIOLATION")]
        print(f"{c['property_id']} seed={s} rc={p.returncode} {time.time() - t:.0f}s :: {' | '.join(last)[-220:]}", flush=True)
        if p.returncode != 0:
            bad += 1
            print(p.stderr[-500:])
print("ALARMS:", bad)
