"""C16 — history-driven samplers: no mutation of the history, surrogate selection rule, best-batch proposal shape."""
from __future__ import annotations

import contextlib
import io
import json
import warnings
from pathlib import Path

import numpy as np

from props.c03 import NAMES, gen_history, gen_space, recording_snaps
from vp import calharness as ch
from vp.core import LEAN, Check, f2h, fl, lean_run
from vp.tape import RecGen, install
from props import pso_model

MODULE = "BlackIt.Properties.C16"
PROP_FILE = LEAN / "BlackIt/Properties/C16.lean"


def quiet():
    return contextlib.redirect_stdout(io.StringIO())


def extreme_losses(rng, n):
    base = [rng.random() for _ in range(n)]
    for i in rng.sample(range(n), min(n, rng.randint(1, 4))):
        base[i] = rng.choice([float("inf"), -float("inf"), 1e40, -1e40, 3.5e38, -3.5e38, 1e300, 3.4028235e38, float(np.finfo(np.float64).max), -float(np.finfo(np.float64).max)])
    return np.array(base)


def make_stub_surrogate(bs, pool_size, predict_fn, log):
    from black_it.samplers.surrogate import MLSurrogateSampler

    class StubSurrogate(MLSurrogateSampler):
        def fit(self, X, y):  # noqa: N803
            log["fit"] = (X, y, X.copy(), y.copy())

        def predict(self, X):  # noqa: N803
            log["predict_arg"] = (X, X.copy())
            p = predict_fn(X)
            log["preds"] = np.array(p, copy=True)
            return p

    return StubSurrogate(bs, candidate_pool_size=pool_size)


def cors_radii(chk: Check, rng):
    """CORSSampler's radius schedule, life-long counter and constraint counts against BlackIt.Cors.run, bit for bit: the real sampler runs verbosely (it prints every
    radius; repr round-trips) over histories that grow as in a calibration; the number of distance constraints of every minimisation is read off the call to
    scipy's minimize.  Within the schedule's domain (fewer than max_samples - 1 points proposed: beyond it the base of the power is negative)."""
    import black_it.samplers.cors as cm
    from black_it.search_space import SearchSpace

    reqs, impls, metas = [], [], []
    for _case in range(5 if chk.tier == "quick" else 60):
        dims = rng.choice([1, 2, 3]); bs = rng.choice([1, 2, 3]); M = rng.choice([20, 30, 50, 100]); rho = rng.choice([0.5, 0.3, 1.0]); p = rng.choice([1.0, 2.0, 0.5])
        sp = SearchSpace([[0.0] * dims, [1.0] * dims], [0.01] * dims, False)
        smp = cm.CORSSampler(batch_size=bs, max_samples=M, rho0=rho, p=p, random_state=rng.randrange(1000), verbose=True)
        pts = np.array([[rng.randrange(100) / 100 for _ in range(dims)] for _ in range(rng.randint(3, 6))]); losses = np.array([rng.random() + 0.1 for _ in pts])
        ns, out = [], []
        ncons = []
        orig_min = cm.op.minimize

        def rec_min(fun, x0, *a, _o=orig_min, _n=ncons, **k):
            _n.append(len(k.get("constraints", ())))
            return _o(fun, x0, *a, **k)
        for _c in range(rng.randint(1, 3)):
            buf = io.StringIO()
            del ncons[:]
            p0, l0 = pts.tobytes(), losses.tobytes()
            cm.op.minimize = rec_min
            try:
                with contextlib.redirect_stdout(buf), warnings.catch_warnings():
                    warnings.simplefilter("ignore")
                    new = smp.sample_batch(bs, sp, pts, losses)
            finally:
                cm.op.minimize = orig_min
            if pts.tobytes() != p0 or losses.tobytes() != l0:
                chk.fail("CORSSampler modified the history passed to it", {"case": {"kind": "cors", "dims": dims, "bs": bs}})
            radii = [float(ln.split("Using radius ")[1]) for ln in buf.getvalue().split("\n") if ln.startswith("Using radius")]
            firsts = []          # constraints of the first attempt of each of the bs minimisations (a NaN result is retried with the same constraints)
            for n_c in ncons:
                if not firsts or n_c != firsts[-1]:
                    firsts.append(n_c)
            ns.append(len(pts)); out.append(" ".join(f2h(r) for r in radii) + " ; " + ",".join(str(x) for x in firsts))
            extra = rng.randint(0, 2)
            pts = np.vstack([pts, new] + ([np.array([[rng.randrange(100) / 100 for _ in range(dims)] for _ in range(extra)])] if extra else []))
            losses = np.concatenate([losses, [rng.random() + 0.1 for _ in range(bs + extra)]])
        reqs.append(f"cors.run {M} {f2h(rho)} {f2h(p)} {dims} {bs} {len(ns)} " + " ".join(map(str, ns))); impls.append(" | ".join(out))
        metas.append({"max_samples": M, "rho0": rho, "p": p, "dims": dims, "batch_size": bs, "history_lengths": ns})
        chk.case(["cors", M, rho, p, dims, bs, ns], True, metas[-1]); chk.count("cors_radius_schedule_cases")
    for rq, impl, ans, meta in zip(reqs, impls, lean_run(reqs) if reqs else [], metas):
        if impl != ans:
            chk.disagree("CORSSampler radii / constraint counts != BlackIt.Cors.run", {**meta, "impl": impl[:400], "model": ans[:400]})


def run(chk: Check):
    from black_it.samplers.best_batch import BestBatchSampler

    rng = chk.rng
    chk.rule = ("(a) every built-in sampler on histories with ties and with extreme losses (+-inf, +-1e40, float32-overflowing), byte snapshots of both history arrays "
                "before/after; (b) a stub MLSurrogateSampler with scripted fit/predict (predictions with heavy ties, constant, random) and the real RF/XGB/GP surrogates: "
                "arguments of fit are the history, of predict the pool, the snapped rows are the pool rows with the k lowest predictions; (c) BestBatchSampler with a recording "
                "generator: each proposal reproduced from the recorded draws by the Lean model bit for bit. non-trivial = history with ties or extreme values, or >= 2 shocked coordinates")
    chk.trusted_base = ["Lean 4.33 kernel", "np.argsort returns a sorting permutation (validated on every case)", "scipy betabinom.rvs in [0, n]", "third-party regressors are arbitrary fit/predict functions",
                        "harness/props/c16.py, harness/vp/tape.py"]
    chk.assumptions = ["immutability is trivial in the model; the no-modification clause is decided on the real arrays"]
    chk.proof_stage(PROP_FILE)
    # ---------------- (d) the whole particle-swarm sampler against BlackIt.Pso.sampleBatch, bit for bit (see props/pso_model.py)
    chk.rule += ("; (d) ParticleSwarmSampler driven through sample_batch with a recording generator over histories that grow as a calibrator makes them grow (own batch, other samplers' "
                 "rows, failed and partial batches, emptied history): raw proposal and whole state after every call equal BlackIt.Pso.sampleBatch on the recorded draws, and the "
                 "conclusions of the Pso theorems are evaluated on the real object")
    pso_model.run(chk, 60 if chk.tier == "quick" else 1500)
    chk.rule += "; (e) CORSSampler's radius schedule, life-long counter and constraint counts equal BlackIt.Cors.run"
    cors_radii(chk, rng)
    reqs, metas = [], []
    # ---------------- (a) no mutation
    n_a = 8 if chk.tier == "quick" else 100
    for it_a in range(n_a):
        sp, bounds, prec = gen_space(rng, chk)
        if sp.dims > 4:
            continue
        for si, name in enumerate(NAMES):
            bs = rng.randint(1, 3)
            smp = ch.make_builtin(name, bs, ch.random_opts(name, rng) if rng.random() < 0.5 else ch.SMALL_OPTS.get(name), rng.randrange(10 ** 6))
            pts, _ = gen_history(rng, sp, rng.randint(max(bs, 5), 12))
            # every sampler meets every kind of loss vector within four spaces
            kind = ["extreme", "ties", "offset", "extreme", "ordinary"][(it_a + si) % 5]
            if it_a == 0:
                kind = "extreme"          # (first space of every run: every sampler meets an extreme history held in single precision, see below)
            if kind == "extreme":
                losses = extreme_losses(rng, len(pts))
            elif kind == "ties":
                losses = np.array([float(rng.randint(0, 2)) for _ in range(len(pts))])
            elif kind == "offset":
                # distinct finite losses that share a large offset: relative spread 1e-16 .. 1e-6 (below and above single precision)
                off = rng.choice([1e6, -3e7, 1e12, 123456.789, 3e38])
                rel = 10.0 ** rng.uniform(-15, -6)
                losses = np.array([off * (1.0 + rel * (k + rng.random())) for k in range(len(pts))])
                rng.shuffle(losses)
            else:
                losses = np.array([rng.random() * 5 for _ in range(len(pts))])
            if it_a == 0 or (it_a * 3 + si) % 4 == 1:
                # the caller's loss history held in single precision (large runs are sometimes kept that way), infinite entries included: still the caller's
                with np.errstate(all="ignore"):
                    losses = losses.astype(np.float32)
                if kind == "extreme" and not np.any(np.isinf(losses)):
                    losses[rng.randrange(len(losses))] = np.float32(rng.choice([np.inf, -np.inf]))
                chk.count("nomut:losses_dtype_float32")
            p0, l0 = pts.tobytes(), losses.tobytes()
            outcome = "ok"
            with quiet(), warnings.catch_warnings():
                warnings.simplefilter("ignore")
                try:
                    for _c in range(2):
                        smp.sample(sp, pts, losses)
                except Exception as e:  # noqa: BLE001  (a regressor refusing inf targets is not a C16 matter; the arrays still must be intact)
                    outcome = type(e).__name__
            chk.case(["mut", name, kind, pts.tolist(), losses.tolist()], True, {"sampler": name, "losses": kind, "outcome": outcome, "losses_head": losses[:5].tolist()})
            chk.count(f"nomut:{name}"); chk.count(f"nomut:{kind}"); chk.count("nomut_outcome:" + outcome)
            if pts.tobytes() != p0:
                chk.fail(f"{name} modified the history parameters passed to it", {"case": {"kind": "mut", "sampler": name}})
            if losses.tobytes() != l0:
                old_l = np.frombuffer(l0, dtype=losses.dtype)
                j = next(i for i in range(len(losses)) if losses[i].tobytes() != old_l[i].tobytes())
                chk.fail(f"{name} modified the history losses passed to it ({losses.dtype}): entry {j} was {float(old_l[j])!r}, is now {float(losses[j])!r}",
                         {"case": {"kind": "mut", "sampler": name, "losses": old_l.astype(float).tolist(), "dtype": str(losses.dtype)}})
    # ---------------- (a') a growing history, a NEW array at every call as the calibrator passes it (np.vstack), the best point moving:
    # every array handed over at ANY earlier call must still be intact after every later call (a sampler may keep views of them)
    for _ in range(4 if chk.tier == "quick" else 50):
        sp, bounds, prec = gen_space(rng, chk)
        if sp.dims > 4:
            continue
        for name in NAMES:
            bs = rng.randint(1, 3)
            smp = ch.make_builtin(name, bs, ch.random_opts(name, rng) if rng.random() < 0.5 else ch.SMALL_OPTS.get(name), rng.randrange(10 ** 6))
            pts, _ = gen_history(rng, sp, rng.randint(max(bs, 5), 9))
            losses = np.array([5.0 + rng.random() for _ in range(len(pts))])
            handed = []      # (call index, points array, its bytes when handed over, losses array, its bytes)
            outcome = "ok"
            ncalls = 5 if name not in ("GaussianProcessSampler", "CORSSampler") else 3
            with quiet(), warnings.catch_warnings():
                warnings.simplefilter("ignore")
                for c in range(ncalls):
                    handed.append((c, pts, pts.tobytes(), losses, losses.tobytes()))
                    try:
                        out = smp.sample(sp, pts, losses)
                    except Exception as e:  # noqa: BLE001
                        outcome = type(e).__name__
                        break
                    for (c0, pa, pb, la, lb) in handed:
                        if pa.tobytes() != pb or la.tobytes() != lb:
                            chk.fail(f"{name} altered the history array it was given at call {c0} while serving call {c} (a new array is passed at every call)",
                                     {"case": {"kind": "mut_growing", "sampler": name, "bounds": bounds, "precision": prec}})
                            break
                    # the proposals enter the history with ever lower losses: the best point changes at every call
                    pts = np.vstack([pts, out]); losses = np.concatenate([losses, [4.0 - c - 0.1 * j for j in range(len(out))]])
            chk.case(["mut_growing", name, bounds, prec, bs], True, {"sampler": name, "calls": ncalls, "outcome": outcome})
            chk.count(f"nomut_growing:{name}")
    # ---------------- (b) surrogate selection
    n_b = 40 if chk.tier == "quick" else 500
    for _ in range(n_b):
        sp, bounds, prec = gen_space(rng, chk)
        bs = rng.randint(1, 5)
        pool_size = rng.randint(bs, 40)
        pk = rng.choice(["ties", "const", "random", "sorted_desc"])
        prng = np.random.default_rng(rng.randrange(10 ** 6))
        predict_fn = {"ties": lambda X: prng.integers(0, 3, len(X)).astype(float), "const": lambda X: np.ones(len(X)),
                      "random": lambda X: prng.random(len(X)), "sorted_desc": lambda X: -np.arange(len(X), dtype=float)}[pk]
        log = {}
        smp = make_stub_surrogate(bs, pool_size, predict_fn, log)
        smp.max_deduplication_passes = 0
        pts, losses = gen_history(rng, sp, rng.randint(bs, 10))
        with recording_snaps() as rec, quiet():
            out = smp.sample(sp, pts, losses)
        case = {"case": {"kind": "select", "bounds": bounds, "precision": prec, "batch_size": bs, "pool": pool_size, "pred_kind": pk}}
        chk.case(["sel", bounds, prec, bs, pool_size, pk, log["preds"].tolist()], pk in ("ties", "const"), {"batch_size": bs, "pool": pool_size, "predictions": pk, "preds_head": log["preds"][:6].tolist()})
        chk.count("select:" + pk)
        X, y, Xc, yc = log["fit"]
        if X.tobytes() != pts.tobytes() or y.tobytes() != losses.tobytes() or X.shape != pts.shape:
            chk.fail("the surrogate was not trained on exactly the given history", case)
        pool, poolc = log["predict_arg"]
        preds = log["preds"]
        if len(pool) != pool_size:
            chk.fail(f"candidate pool has {len(pool)} rows, configured {pool_size}", case)
        pre_snap = rec[-1][0] if rec else None
        if pre_snap is None or len(pre_snap) != bs:
            chk.fail("surrogate sampler did not return batch_size snapped candidates", case)
            continue
        # selected rows are pool rows; their predictions are the k lowest (ties free)
        sel_preds = []
        used = set()
        for row in pre_snap:
            idxs = [i for i in range(len(pool)) if i not in used and pool[i].tobytes() == row.tobytes()]
            if not idxs:
                chk.fail("a returned candidate is not a row of the pool", case)
                break
            best = min(idxs, key=lambda i: preds[i])
            used.add(best); sel_preds.append(float(preds[best]))
        else:
            if sorted(sel_preds) != sorted(preds.tolist())[:bs]:
                chk.fail(f"selected predictions {sorted(sel_preds)} are not the {bs} lowest {sorted(preds.tolist())[:bs]}", case)
        failed_before = rng.random() < 0.5
        if failed_before:
            # an earlier use of the same object that FAILED in the middle of a de-duplication pass (the surrogate's predict raises in the redraw) and a caller
            # that survives it - as C11 requires of a calibration: whatever was left half-done must not show in the next call
            import itertools
            from black_it.search_space import SearchSpace
            tiny = SearchSpace([[0.0] * sp.dims, [1.0] * sp.dims], [1.0] * sp.dims, False)
            everything = np.array(list(itertools.product([0.0, 1.0], repeat=sp.dims)))        # a history holding every point of the space: any proposal repeats it
            calls = {"n": 0}

            def failing_predict(X, _c=calls):  # noqa: N803
                _c["n"] += 1
                if _c["n"] >= 2:
                    raise ch.StubFault("sampler")
                return np.zeros(len(X))
            smp.max_deduplication_passes = 2
            orig_predict = type(smp).predict
            type(smp).predict = lambda self, X, _f=failing_predict: _f(X)  # noqa: N803
            try:
                with quiet():
                    smp.sample(tiny, everything, np.arange(len(everything), dtype=float))
                chk.count("select:earlier_call_meant_to_fail_returned")
            except ch.StubFault:
                chk.count("select:an_earlier_call_failed_inside_a_deduplication_pass")
            finally:
                type(smp).predict = orig_predict
                smp.max_deduplication_passes = 0
        # the same object asked again, for FEWER points than its batch size and on ANOTHER history (what the de-duplication passes do, and what
        # any caller of the public sample_batch may do): it trains on the history it is given now
        k2 = rng.randint(1, bs)
        pts2, losses2 = gen_history(rng, sp, rng.randint(bs, 10))
        losses2 = losses2 + 7.0
        log.pop("fit", None)
        with quiet():
            if failed_before and k2 == bs:
                out2 = smp.sample(sp, pts2, losses2)
            else:
                out2 = smp.sample_batch(k2, sp, pts2, losses2)
        chk.count("select:second_request_smaller_than_batch_size" if k2 < bs else "select:second_request_full_batch")
        if "fit" not in log:
            chk.fail(f"a used surrogate sampler asked for {k2} point(s) (batch size {bs}) on another history did not train at all: its proposals come from the surrogate of the previous history", case)
        else:
            X2, y2, _, _ = log["fit"]
            if X2.shape != pts2.shape or X2.tobytes() != pts2.tobytes() or y2.tobytes() != losses2.tobytes():
                chk.fail(f"a used surrogate sampler asked for {k2} point(s) on another history was not trained on exactly that history", case)
        if len(out2) != k2:
            chk.fail(f"sample_batch({k2}) returned {len(out2)} rows", case)
        order = np.argsort(preds)
        if sorted(order.tolist()) != list(range(len(preds))) or np.any(np.diff(preds[order]) < 0):
            chk.fail("np.argsort did not return a sorting permutation (contract)", case)
        reqs.append(f"smp.select {sp.dims} {len(order)} " + " ".join(map(str, order.tolist())) + f" {len(pool)} " + " ".join(f2h(x) for x in pool.flatten().tolist()) + f" {bs}")
        metas.append(("select", pre_snap, None))
    # real surrogates: fit gets the history, selection is lowest-k of what predict returned
    from black_it.samplers.surrogate import MLSurrogateSampler
    for name in ("RandomForestSampler", "XGBoostSampler", "GaussianProcessSampler"):
        for _ in range(3 if chk.tier == "quick" else 25):
            sp, bounds, prec = gen_space(rng, chk)
            if sp.dims > 4:
                continue
            bs = rng.randint(1, 3)
            smp = ch.make_builtin(name, bs, ch.random_opts(name, rng) if rng.random() < 0.5 else ch.SMALL_OPTS.get(name), rng.randrange(10 ** 6))
            smp.max_deduplication_passes = 0
            pts, losses = gen_history(rng, sp, rng.randint(6, 12))
            cls = type(smp)
            import copy as _copy
            unused_twin = _copy.deepcopy(smp)          # the same sampler before it has seen any history
            of, op = cls.fit, cls.predict
            log = {}

            def fit(self, X, y, _o=of):  # noqa: N803
                log["fit"] = (np.array(X, copy=True), np.array(y, copy=True)); return _o(self, X, y)

            def predict(self, X, _o=op):  # noqa: N803
                r = _o(self, X)
                if "preds" not in log or len(X) == self.candidate_pool_size:
                    log["pool"], log["preds"] = np.array(X, copy=True), np.array(r[0] if isinstance(r, tuple) else r, copy=True)
                return r

            cls.fit, cls.predict = fit, predict
            try:
                with recording_snaps() as rec, quiet(), warnings.catch_warnings():
                    warnings.simplefilter("ignore")
                    out = smp.sample(sp, pts, losses)
            except Exception as e:  # noqa: BLE001
                import traceback
                import black_it as _bi
                frames = traceback.extract_tb(e.__traceback__)
                if frames and frames[-1].filename.startswith(str(Path(_bi.__file__).resolve().parent)):
                    # raised by the library's own code, not by the third-party regressor: no batch at all on an admissible history
                    chk.fail(f"{name}.sample raised {type(e).__name__}: {str(e)[:100]} (in {Path(frames[-1].filename).name}:{frames[-1].lineno}) on an admissible history", {"case": {"kind": "real_surrogate", "sampler": name}})
                chk.count(f"skipped:{name}:{type(e).__name__}"); continue
            finally:
                cls.fit, cls.predict = of, op
            chk.case(["real", name, bounds, prec, pts.tolist()], True, {"sampler": name, "batch_size": bs})
            chk.count("real_surrogate:" + name)
            case = {"case": {"kind": "real_surrogate", "sampler": name}}
            if log["fit"][0].tobytes() != pts.tobytes() or (name != "XGBoostSampler" and log["fit"][1].tobytes() != losses.tobytes()):
                chk.fail(f"{name} was not trained on exactly the given history", case)
            if name != "GaussianProcessSampler":       # the GP acquisition transforms predictions before sorting
                pre = rec[-1][0]
                pool, preds = log["pool"], np.asarray(log["preds"], dtype=float).reshape(-1)
                sel = []
                for row in pre:
                    idxs = [i for i in range(len(pool)) if pool[i].tobytes() == row.tobytes()]
                    sel.append(min(preds[i] for i in idxs) if idxs else None)
                if None in sel:
                    chk.fail(f"{name}: a returned candidate is not a row of the pool", case)
                elif sorted(sel) != sorted(preds.tolist())[:len(pre)]:
                    chk.fail(f"{name}: returned candidates do not have the lowest surrogate predictions", case)
            # the same object asked again: the SAME points with OTHER losses (the history re-scored, e.g. by another loss function), or another history
            # altogether.  What it returns is what a sampler that has never seen the first history returns from the same generator state: it trains on
            # exactly the history it is given now
            variant = rng.choice(["same_points_other_losses", "same_points_other_losses", "other_history"])
            if variant == "same_points_other_losses":
                pts_b, losses_b = pts, np.ascontiguousarray(losses[::-1]) * rng.choice([1.0, -1.0, 3.0])
                if losses_b.tobytes() == losses.tobytes():
                    losses_b = losses_b + np.arange(len(losses_b))
            else:
                pts_b, losses_b = gen_history(rng, sp, rng.randint(6, 12))
            s2 = rng.randrange(10 ** 6)
            outs_b = []
            for obj in (smp, unused_twin):
                obj.random_state = s2
                try:
                    with quiet(), warnings.catch_warnings():
                        warnings.simplefilter("ignore")
                        outs_b.append(np.asarray(obj.sample(sp, pts_b, losses_b)))
                except Exception as e:  # noqa: BLE001
                    outs_b.append("raised " + type(e).__name__)
            chk.count(f"real_surrogate_second_call:{variant}")
            a_, b_ = outs_b
            if isinstance(a_, str) != isinstance(b_, str) or (isinstance(a_, str) and a_ != b_) or (not isinstance(a_, str) and (a_.shape != b_.shape or a_.tobytes() != b_.tobytes())):
                chk.fail(f"{name}: asked a second time ({variant}: {len(pts_b)} points) the used object returns {a_.tolist() if not isinstance(a_, str) else a_}, a sampler that never saw the "
                         f"first history returns {b_.tolist() if not isinstance(b_, str) else b_} from the same generator state: it does not train on exactly the given history",
                         {"case": {"kind": "real_surrogate_second_call", "sampler": name, "variant": variant, "points": pts.tolist(), "losses_first": losses.tolist(), "points_second": np.asarray(pts_b).tolist(), "losses_second": np.asarray(losses_b).tolist()}})
    # ---------------- (c) best-batch
    n_c = 60 if chk.tier == "quick" else 800
    bb_reuse = {}
    for _ in range(n_c):
        sp, bounds, prec = gen_space(rng, chk)
        bs = rng.randint(1, 5)
        rng_range = rng.randint(2, 8)
        if bb_reuse.get("obj") is not None and rng.random() < 0.4:
            # the same sampler object on another search space (other dimension)
            smp = bb_reuse["obj"]; bs, rng_range = int(smp.batch_size), int(smp.perturbation_range)
            chk.count("bestbatch:object_reused_across_spaces")
        else:
            smp = BestBatchSampler(bs, random_state=0, a=rng.choice([1.0, 3.0, 0.5]), b=rng.choice([1.0, 2.0]), perturbation_range=rng_range)
            bb_reuse["obj"] = smp
        g = install(smp, RecGen(rng.randrange(10 ** 6)))
        pts, losses = gen_history(rng, sp, rng.randint(bs, 12))
        if rng.random() < 0.4:
            # extreme losses, and the boundary between "infinite" and "the largest finite number": a loss of exactly finfo.max is lower than +inf
            fmax = float(np.finfo(np.float64).max)
            pool = [float("inf"), fmax, float("inf"), fmax, -fmax, -float("inf"), 1e300, 1.0, 2.0]
            losses = np.array([rng.choice(pool) for _ in range(len(pts))])
            chk.count("bestbatch:extreme_losses")
        if rng.random() < 0.35:
            # a history recorded on OTHER bounds / another precision (a calibration continued on a narrowed or refined space): some of its best points lie a few
            # steps outside the present bounds, others inside but off the present grid; the proposal is still "displaced, then confined"
            order0 = np.argsort(losses, kind="stable")[: max(1, bs)]
            for kk in order0:
                for j in range(sp.dims):
                    mode = rng.choice(["keep", "above", "below", "off_grid"])
                    pj, lo_j, hi_j = sp.parameters_precision[j], sp.parameters_bounds[0][j], sp.parameters_bounds[1][j]
                    if mode == "above":
                        pts[kk, j] = hi_j + pj * rng.choice([0.4, 1.0, 2.4, 3.0])
                    elif mode == "below":
                        pts[kk, j] = lo_j - pj * rng.choice([0.4, 1.0, 2.4, 3.0])
                    elif mode == "off_grid":
                        pts[kk, j] = min(hi_j, pts[kk, j] + pj * rng.choice([0.37, 0.5, 0.81]))
            chk.count("bestbatch:best_points_outside_the_bounds_or_off_the_grid")
        try:
            with recording_snaps() as rec, quiet():
                out = smp.sample_batch(bs, sp, pts, losses)
        except Exception as e:  # noqa: BLE001
            chk.case(["bb-raise", bounds, prec, bs, rng_range], True, {"batch_size": bs, "raised": type(e).__name__})
            chk.fail(f"BestBatchSampler.sample_batch raised {type(e).__name__}: {str(e)[:100]} on an admissible history and search space",
                     {"case": {"kind": "bestbatch", "bounds": bounds, "precision": prec, "batch_size": bs, "range": rng_range}})
            continue
        log = g.log
        # reconstruct the tape: integers(0,bs,size=bs) parents; per row: choice(dims,(k,),replace=False), then per coordinate integers(1,range), integers(0,2)
        parents = [int(x) for x in np.ravel(log[0][2])]
        pos = 1
        rows_shocks = []
        ok_tape = log[0][0] == "integers"
        for r in range(bs):
            if pos >= len(log) or log[pos][0] != "choice":
                ok_tape = False; break
            coords = [int(c) for c in np.ravel(log[pos][2])]; pos += 1
            sh = []
            for c in coords:
                size = int(log[pos][2]); sign = int(log[pos + 1][2]); pos += 2
                sh.append((c, size, sign == 1))
            rows_shocks.append(sh)
        case = {"case": {"kind": "bestbatch", "bounds": bounds, "precision": prec, "batch_size": bs, "range": rng_range}}
        chk.case(["bb", bounds, prec, bs, rng_range, parents, rows_shocks], any(len(s) >= 2 for s in rows_shocks), {"batch_size": bs, "perturbation_range": rng_range, "parents": parents, "shocks": rows_shocks[:3]})
        chk.count("bestbatch")
        if not ok_tape:
            chk.disagree("BestBatchSampler draws do not follow the modelled sequence (parents, then per row: coordinates, (size, sign) per coordinate)", {"log_head": str(log[:6])[:300]})
            continue
        kth = np.sort(losses)[bs - 1]
        order_bb = np.argsort(losses)
        with np.errstate(all="ignore"):
            if sorted(order_bb.tolist()) != list(range(len(losses))) or any(losses[order_bb[i]] > losses[order_bb[i + 1]] for i in range(len(losses) - 1)):
                chk.fail("np.argsort did not return a sorting permutation (contract)", case)
        cand = pts[order_bb][:bs]
        for r in range(bs):
            parent = cand[parents[r]]
            pl = [losses[i] for i in range(len(pts)) if pts[i].tobytes() == parent.tobytes()]
            sh = rows_shocks[r]
            if not (pl and min(pl) <= kth):
                chk.fail("best-batch parent is not one of the batch_size lowest-loss points of the history", case)
            if not sh or len({c for c, _, _ in sh}) != len(sh) or any(not (0 <= c < sp.dims and 1 <= s <= rng_range - 1) for c, s, _ in sh):
                chk.fail(f"best-batch shocks {sh} are not 1..range-1 steps on >= 1 distinct coordinates", case)
            # independent recomputation of the proposal
            want = parent.copy()
            for c, s, plus in sh:
                want[c] = np.clip(want[c] + sp.parameters_precision[c] * (1 if plus else -1) * s, sp.parameters_bounds[0][c], sp.parameters_bounds[1][c])
            unsh = [j for j in range(sp.dims) if j not in {c for c, _, _ in sh}]
            # (a coordinate that was not shocked comes back as it was when it is an element of the grid; a parent coordinate off the grid or outside the bounds is
            # "confined to the space" like the shocked ones: the nearest-grid-element test below covers it)
            if any(f2h(out[r][j]) != f2h(parent[j]) for j in unsh if any(f2h(gv) == f2h(parent[j]) for gv in sp.param_grid[j])):
                chk.fail("best-batch altered a coordinate it did not shock", case)
            gcol = sp.param_grid
            for j in range(sp.dims):
                near = gcol[j][np.argmin(np.abs(gcol[j] - want[j]))]
                if not (abs(out[r][j] - want[j]) <= abs(near - want[j]) + 1e-12 * max(1.0, abs(want[j]))):
                    chk.fail(f"best-batch proposal coordinate {j} = {out[r][j]!r} is not the displaced parent {want[j]!r} confined to the space", case)
            # the model chooses the parent itself (Samplers.bestBatchParent) from the history, numpy's argsort order, batch size and drawn position
            reqs.append(f"smp.bestbatch2 {sp.dims} " + " ".join(f2h(x) for x in sp.parameters_precision.tolist()) + " " + " ".join(f2h(x) for x in sp.parameters_bounds[0].tolist())
                        + " " + " ".join(f2h(x) for x in sp.parameters_bounds[1].tolist()) + " " + " ".join(fl(gc) for gc in gcol)
                        + f" {len(order_bb)} " + " ".join(map(str, order_bb.tolist())) + f" {len(pts)} " + " ".join(f2h(x) for x in np.asarray(pts, dtype=float).flatten().tolist())
                        + f" {bs} {parents[r]}" + f" {len(sh)} " + " ".join(f"{c} {s} {int(p)}" for c, s, p in sh))
            metas.append(("bb", rec[-1][0][r] if rec else None, out[r]))
    # ---------------- (c') a long history held in ONE pair of arrays that the caller updates in place between calls (a hand-written driver loop):
    # every call ranks the losses as they are now
    from black_it.search_space import SearchSpace
    for n_hist in ([5000] if chk.tier == "quick" else [5000, 4096, 20000]):
        sp_l = SearchSpace([[0.0, 0.0], [1.0, 1.0]], [0.001, 0.001], False)
        bs_l, range_l = rng.randint(1, 3), rng.randint(2, 5)
        smp_l = BestBatchSampler(bs_l, random_state=rng.randrange(10 ** 6), perturbation_range=range_l)
        prng_l = np.random.default_rng(rng.randrange(10 ** 6))
        pts_l = np.round(prng_l.random((n_hist, 2)), 3); losses_l = prng_l.random(n_hist) + 1.0
        case_l = {"case": {"kind": "bestbatch_long_history_updated_in_place", "history": n_hist, "batch_size": bs_l, "range": range_l}}
        for call_l in range(3):
            with quiet():
                out_l = smp_l.sample_batch(bs_l, sp_l, pts_l, losses_l)
            best_l = pts_l[np.argsort(losses_l, kind="stable")[:bs_l]]
            reach = (range_l - 1) * 0.001 + 1e-9
            for row in out_l:
                if not any(np.all(np.abs(row - b_) <= reach) for b_ in best_l):
                    dist = min(float(np.max(np.abs(row - b_))) for b_ in best_l) / 0.001
                    chk.fail(f"best-batch on a history of {n_hist} points (call {call_l}, the caller's arrays updated in place between calls): proposal {row.tolist()} is "
                             f"{dist:.0f} steps from the nearest of the {bs_l} lowest-loss points as they are now", case_l)
                    break
            # the caller records new results in place: the ranking changes completely
            losses_l[:] = losses_l[::-1].copy() if call_l == 0 else prng_l.random(n_hist) + 1.0
        chk.case(["bb-long", n_hist, bs_l, range_l], True, case_l["case"]); chk.count("bestbatch:long_history_arrays_updated_in_place")
    answers = lean_run(reqs) if reqs else []
    for (kind, a, b), ans in zip(metas, answers):
        if kind == "select":
            impl = " ".join(f2h(x) for x in np.asarray(a).flatten().tolist())
            model = " ".join(t for t in ans.split(" ") if len(t) == 16)
            if impl != model:
                chk.disagree("rows handed to digitize_data != BlackIt.Samplers.selectLowest for numpy's argsort order", {"impl": impl[:200], "model": model[:200]})
        else:
            ans = ans.replace("8000000000000000", "0000000000000000")      # -0.0 == 0.0: sign of zero is not observable for grid membership
            f2h0 = lambda x: f2h(x + 0.0 if x != 0 else 0.0)
            if " | " not in ans:
                chk.disagree(f"BlackIt.Samplers.bestBatchParent has no parent where the implementation produced a proposal ({ans})", {"impl": [f2h(x) for x in b]})
                continue
            pre, post = ans.split(" | ")
            if a is not None and " ".join(f2h0(x) for x in np.asarray(a).tolist()) != pre:
                chk.disagree("best-batch row before snapping != BlackIt.Samplers.applyShocks on the recorded draws", {"impl": [f2h(x) for x in a], "model": pre})
            if " ".join(f2h0(x) for x in np.asarray(b).tolist()) != post:
                chk.disagree("best-batch proposal != applyShocks + digitize on the recorded draws", {"impl": [f2h(x) for x in b], "model": post})


def replay(path: Path) -> int:
    import os, subprocess, sys
    r = json.loads(path.read_text())
    print("C16 replay: cases are determined by VERIF_SEED; re-running the check with the recorded seed")
    return subprocess.call([sys.executable, str(Path(__file__).resolve().parents[1] / "check.py"), "C16", "--tier", r.get("tier", "quick")],
                           env=dict(os.environ, VERIF_SEED=str(r.get("seed", 0))))
