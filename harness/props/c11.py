"""C11 — a failing batch: exception propagates, history is the fault-free prefix, no thread left, object reusable."""
from __future__ import annotations

import copy
import json
import threading
import warnings
from pathlib import Path

import numpy as np

from props.c02 import oracle_history, scn_from_json, scn_json
from vp import calharness as ch
from vp.core import LEAN, Check, f2h

MODULE = "BlackIt.Properties.C11"
PROP_FILE = LEAN / "BlackIt/Properties/C11.lean"


def run_quiet(scn):
    with warnings.catch_warnings():
        warnings.simplefilter("ignore")
        return ch.run_real(scn)


def hist_fields(line: str) -> dict:
    d = dict(x.split("=", 1) for x in line.split(" ")[1:] if "=" in x)
    return {k: d.get(k, "[]" if k not in ("n", "b") else "-1") for k in ("n", "b", "params", "losses", "series", "bn", "ms")}


def is_prefix(faulty: dict, free: dict) -> bool:
    for k in ("params", "losses", "series", "bn", "ms"):
        a, b = faulty[k][1:-1], free[k][1:-1]
        sep = ";" if k in ("params", "series") else ","
        la = a.split(sep) if a else []
        lb = b.split(sep) if b else []
        if la != lb[:len(la)]:
            return False
    return True


def base_scn(rng, sched):
    scn = ch.gen_scn(rng, sched=sched, max_batches=4)
    scn.ensemble = rng.randint(1, 2)
    scn.lineup = [(c, min(bs, 3), script, seed) for (c, bs, script, seed) in scn.lineup[:4]]
    scn.lineup = [(c, bs, [call[:bs] for call in script], seed) for (c, bs, script, seed) in scn.lineup]
    nb = rng.randint(2, 6)
    scn.ops = [("C", nb), ("C", 2 if sched == "rl" else 1)]       # RL: two batches, so that a broken exchange shows as a hang
    scn.folder = rng.random() < 0.5 and sched == "rr"
    scn.conv = None
    if sched == "rl":
        scn.actions = [rng.randrange(len(scn.lineup)) for _ in range(40)]
    return scn


def run(chk: Check):
    rng = chk.rng
    chk.rule = ("for each base scenario (round-robin and RL scheduler, 2-6 batches, with and without saving folder) an exception is injected at EVERY "
                "invocation index of the stub model, the stub loss and the samplers (exhaustive over the index space of that run); each faulty run is "
                "followed by calibrate(1) on the same object and compared with the fault-free twin. non-trivial = the fault hit after >= 1 completed batch")
    chk.trusted_base = ["Lean 4.33 kernel", "joblib n_jobs=1 evaluates tasks lazily in order (a model fault at call j means j+1 seeds were drawn)",
                        "threading.enumerate() lists every live thread", "stubs of harness/vp/calharness.py"]
    chk.assumptions = ["thread clean-up of the RL scheduler is judged on the real threads here and proved on the protocol model under C10",
                       "fault = exception raised by the component at entry (no partial side effects inside the component)"]
    chk.proof_stage(PROP_FILE)
    n_base = 4 if chk.tier == "quick" else 40
    threads0 = {t.ident for t in threading.enumerate()}
    exhaustive_spaces = []
    for bi in range(n_base):
        sched = "rr" if bi % 2 == 0 else "rl"
        base = base_scn(rng, sched)
        # every second pair of base scenarios fails with a BaseException that is not an Exception (KeyboardInterrupt-like)
        base.fault_base = (bi // 2) % 2 == 1
        # ... and the Exception ones rotate through classes that protocols give a meaning to (StopIteration ends a for/map/list silently,
        # GeneratorExit is a BaseException, OSError / ArithmeticError are caught by some libraries)
        base.fault_class = "base" if base.fault_base else ["exception", "stop_iteration", "os_error", "arithmetic"][(bi // 4 + bi) % 4]
        if base.fault_base and (bi // 4) % 2 == 1:
            base.fault_class = "generator_exit"
        chk.count("fault_class:" + base.fault_class)
        free_lines, free_info = run_quiet(base)
        nS, nM, nL = ch.STATE["sampler_calls"], ch.STATE["model_calls"], ch.STATE["loss_calls"]
        space = [("S", k) for k in range(nS)] + [("M", k) for k in range(nM)] + [("L", k) for k in range(nL)]
        exhaustive_spaces.append({"scheduler": sched, "sampler_calls": nS, "model_calls": nM, "loss_calls": nL})
        free_first = hist_fields(free_lines[1])
        for fault in space:
            scn = copy.deepcopy(base)
            scn.faults = [fault]
            lines, info = run_quiet(scn)
            first = lines[1]
            raised = first.startswith("raise:")
            kind = {"S": "sampler", "M": "model", "L": "loss"}[fault[0]]
            hf = hist_fields(first)
            chk.case([scn_json(base), fault], int(hf["b"]) >= 1 and raised,
                     {"scheduler": sched, "fault": fault, "first_call": first[:60], "batches_before_fault": hf["b"], "second_call": lines[2][:40]})
            chk.count(f"{sched}:{fault[0]}"); chk.count("raised_in_first_call" if raised else "raised_in_second_call_or_not")
            case = {"case": {"scn": scn_json(base), "fault": list(fault)}}
            # the fault index may fall into the second call (calibrate(1)): then the first call must equal the fault-free one
            if not raised:
                if ch.canon_line(first) != ch.canon_line(free_lines[1]):
                    chk.fail("a run without any failure in its first call differs from the fault-free run", case)
            else:
                if first.split(" ")[0] != f"raise:{kind}":
                    chk.fail(f"calibrate() raised {first.split(' ')[0]} instead of propagating the {kind} exception", case)
                if not is_prefix(hf, free_first):
                    chk.fail("history after the failure is not a prefix of the fault-free run", case)
                nb = int(hf["b"])
                bn = hf["bn"][1:-1].split(",") if hf["bn"] != "[]" else []
                if bn and int(bn[-1]) != nb - 1:
                    chk.fail(f"history holds rows of batch {bn[-1]} but only {nb} batches completed", case)
                errs = []
                if len({len(x[1:-1].split(sep)) if x != "[]" else 0 for x, sep in ((hf["params"], ";"), (hf["losses"], ","), (hf["series"], ";"), (hf["bn"], ","), (hf["ms"], ","))}) != 1:
                    chk.fail("records are not aligned after the failure", case)
                # the following calibrate(1) works and adds exactly one batch
                second = lines[2]
                if not second.startswith("ok "):
                    chk.fail(f"calibrate() after the failure did not work: {second[:80]}", case)
                elif int(hist_fields(second)["b"]) != nb + scn.ops[1][1]:
                    chk.fail(f"calibrate({scn.ops[1][1]}) after the failure ended with {hist_fields(second)['b']} batches, expected {nb + scn.ops[1][1]}", case)
            left = [t for t in threading.enumerate() if t.ident not in threads0 and t.is_alive()]
            if left:
                chk.fail(f"{len(left)} background thread(s) left running after calibrate() raised/returned", case)
                threads0 |= {t.ident for t in left}
            ok, k, a, b = ch.compare(scn, lines, info)
            if not ok:
                chk.disagree("Calibrator under a fault plan != BlackIt.Calibrator.runBatch/calLoop",
                             {"scenario": scn_json(base), "fault": list(fault), "op_index": k,
                              "fields": ch.diff_fields(a, b) if k is not None and k >= 0 else None, "impl": a[:500], "model": b[:500]})
    chk.extra["exhaustive"] = True
    chk.extra["fault_index_spaces"] = exhaustive_spaces


def replay(path: Path) -> int:
    r = json.loads(path.read_text())
    bad = 0
    for fi in r.get("failing_inputs", []):
        c = fi.get("case")
        if not c:
            continue
        base = scn_from_json(c["scn"])
        free_lines, _ = run_quiet(base)
        scn = copy.deepcopy(base); scn.faults = [tuple(c["fault"])]
        lines, _ = run_quiet(scn)
        first = lines[1]
        fails = (first.startswith("raise:") and (not is_prefix(hist_fields(first), hist_fields(free_lines[1])) or not lines[2].startswith("ok "))) \
            or any(t.is_alive() and t is not threading.main_thread() for t in threading.enumerate())
        print("REPLAY", fi["what"][:120], "->", "still fails" if fails else "passes now")
        bad += fails
    return 1 if bad else 0
