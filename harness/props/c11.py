"""C11 — a failing batch: exception propagates, history is the fault-free prefix, no thread left, object reusable."""
from __future__ import annotations

import copy
import json
import threading
import warnings
from pathlib import Path

import numpy as np

from props.c02 import oracle_history, scn_from_json, scn_json
from vp import calharness as ch
from vp.core import LEAN, Check, f2h

MODULE = "BlackIt.Properties.C11"
PROP_FILE = LEAN / "BlackIt/Properties/C11.lean"


def run_quiet(scn):
    with warnings.catch_warnings():
        warnings.simplefilter("ignore")
        return ch.run_real(scn)


def hist_fields(line: str) -> dict:
    d = dict(x.split("=", 1) for x in line.split(" ")[1:] if "=" in x)
    return {k: d.get(k, "[]" if k not in ("n", "b") else "-1") for k in ("n", "b", "params", "losses", "series", "bn", "ms")}


def is_prefix(faulty: dict, free: dict) -> bool:
    for k in ("params", "losses", "series", "bn", "ms"):
        a, b = faulty[k][1:-1], free[k][1:-1]
        sep = ";" if k in ("params", "series") else ","
        la = a.split(sep) if a else []
        lb = b.split(sep) if b else []
        if la != lb[:len(la)]:
            return False
    return True


def base_scn(rng, sched):
    scn = ch.gen_scn(rng, sched=sched, max_batches=4)
    scn.ensemble = rng.randint(1, 2)
    scn.lineup = [(c, min(bs, 3), script, seed) for (c, bs, script, seed) in scn.lineup[:4]]
    scn.lineup = [(c, bs, [call[:bs] for call in script], seed) for (c, bs, script, seed) in scn.lineup]
    nb = rng.randint(2, 6)
    scn.ops = [("C", nb), ("C", 2 if sched == "rl" else 1)]       # RL: two batches, so that a broken exchange shows as a hang
    scn.folder = rng.random() < 0.5 and sched == "rr"
    scn.conv = None
    if sched == "rl":
        scn.actions = [rng.randrange(len(scn.lineup)) for _ in range(40)]
    return scn


def builtin_sampler_faults(chk: Check, rng):
    """real built-in samplers (every class, any of the history-free ones first), the toy model failing at EVERY one of its invocations in turn:
    the exception propagates, the history is the fault-free prefix, and calibrate() works afterwards (stateful samplers have already
    advanced their own state when the batch they proposed fails)"""
    import contextlib, io
    from vp import twin
    first_ok = ["HaltonSampler", "RandomUniformSampler", "RSequenceSampler", "ParticleSwarmSampler"]
    for ci in range(3 if chk.tier == "quick" else 20):
        first = "ParticleSwarmSampler" if ci == 0 else rng.choice(first_ok)
        rest = [rng.choice(twin.BUILTINS) for _ in range(rng.randint(1, 2))]
        cfg = {"lineup": [(first, rng.randint(2, 4), None)] + [(nm, rng.randint(1, 3) if nm != "BestBatchSampler" else 2, None) for nm in rest], "dims": rng.randint(1, 3),
               "loss": "minkowski", "ensemble": rng.randint(1, 2), "seed": rng.randrange(10 ** 6), "n_jobs": 1}
        nb = len(cfg["lineup"]) + 1
        follow = 1
        if ci % 3 == 1:
            # the RL scheduler with an agent that explores all the time: after the failure ANY sampler may come next - one with a smaller batch than the
            # swarm's, and then the swarm again, which finds at its cursor rows that are not its own and fewer than its batch
            cfg["lineup"] = [("ParticleSwarmSampler", rng.randint(3, 4), None), ("HaltonSampler", rng.randint(1, 2), None), ("RandomUniformSampler", 1, None)]
            cfg["sched"] = "rl"; cfg["agent_eps"] = 1.0; cfg["agent_ctor_seed"] = rng.randrange(10 ** 6)
            nb, follow = 4, 6
            first = "ParticleSwarmSampler:RL"
        with contextlib.redirect_stdout(io.StringIO()), warnings.catch_warnings():
            warnings.simplefilter("ignore")
            try:
                free = twin.build(cfg, None); free.calibrate(nb)
            except Exception:  # noqa: BLE001  (an invalid line-up for a third-party reason: not the subject)
                continue
            total_calls = len(free.params_samp) * cfg["ensemble"]
            for k in range(total_calls):
                state = {"n": 0}

                def model(theta, N, seed, _k=k, _s=state):  # noqa: N803
                    _s["n"] += 1
                    if _s["n"] - 1 == _k:
                        raise ch.StubFault("model")
                    return twin.toy_model(theta, N, seed)
                cal = twin.build(cfg, None, model=model)
                raised = None
                try:
                    cal.calibrate(nb)
                except ch.StubFault:
                    raised = "model"
                except Exception as e:  # noqa: BLE001
                    raised = type(e).__name__
                case = {"case": {"kind": "builtin", "cfg": cfg, "nb": nb, "model_call": k}}
                chk.case(["builtin-fault", cfg, k], cal.current_batch_index >= 1, {"lineup": [x[0] for x in cfg["lineup"]], "model_call_that_fails": k, "batches_before": int(cal.current_batch_index)})
                chk.count("builtin:first=" + first)
                if raised != "model":
                    chk.fail(f"built-in line-up {[x[0] for x in cfg['lineup']]}: the model's exception at its call {k} surfaced as {raised}", case)
                n = len(cal.params_samp)
                if not (len(cal.losses_samp) == len(cal.series_samp) == len(cal.batch_num_samp) == len(cal.method_samp) == n == cal.n_sampled_params):
                    chk.fail("records are not aligned after the failure (built-in samplers)", case)
                elif cal.params_samp.tobytes() != free.params_samp[:n].tobytes() or np.asarray(cal.losses_samp, dtype=float).tobytes() != np.asarray(free.losses_samp[:n], dtype=float).tobytes():
                    chk.fail("history after the failure is not the prefix of the fault-free run (built-in samplers)", case)
                try:
                    b0 = cal.current_batch_index
                    cal.calibrate(follow)
                    if cal.current_batch_index != b0 + follow:
                        chk.fail(f"calibrate({follow}) after the failure did not add exactly {follow} batch(es) (built-in samplers)", case)
                except Exception as e:  # noqa: BLE001
                    chk.fail(f"built-in line-up {[x[0] for x in cfg['lineup']]}: calibrate() after a failure at model call {k} ({b0} batches completed) raised {type(e).__name__}: {str(e)[:80]}", case)


def pso_bookkeeping(chk: Check, rng):
    """the swarm's history bookkeeping on the real class against Samplers.Pso.run: which calls start the swarm, which run `_update_best`,
    on how many losses and reading which rows — over call sequences with failed batches (same history length handed again, 0 included),
    own batches recorded, and other samplers' batches in between"""
    from vp.core import lean_run
    from black_it.samplers.particle_swarm import ParticleSwarmSampler
    from black_it.search_space import SearchSpace
    reqs, impl, cases = [], [], []
    for ci in range(40 if chk.tier == "quick" else 600):
        bs, d = rng.randint(1, 4), rng.randint(1, 3)
        space = SearchSpace([[0.0] * d, [1.0] * d], [0.01] * d, verbose=False)
        s = ParticleSwarmSampler(batch_size=bs, random_state=rng.randrange(10 ** 6), global_minimum_across_samplers=rng.random() < 0.5)
        acts = []
        o_setup, o_update = s._set_up, s._update_best

        def su(dims, _o=o_setup, _a=acts):
            _a.append("S"); return _o(dims)

        def ub(pts, ls, _o=o_update, _a=acts, _s=s):
            _a.append(f"U:{len(ls)}:{_s._previous_batch_index_start}:{_s._previous_batch_index_start + _s.batch_size}"); return _o(pts, ls)
        s._set_up, s._update_best = su, ub
        g = np.random.default_rng(rng.randrange(10 ** 6))
        pts = np.round(g.random((80, d)), 2); losses = g.random(80)
        n, ns, failed_first = (0 if ci % 2 == 0 else rng.randint(1, 6)), [], 0
        err = None
        for call in range(rng.randint(2, 8)):
            ns.append(n)
            try:
                out = s.sample(space, pts[:n].copy(), losses[:n].copy())
            except Exception as e:  # noqa: BLE001
                err = f"call {call} with a history of {n} rows raised {type(e).__name__}: {str(e)[:80]}"
                break
            r = rng.random()
            if r < (0.6 if call == 0 and ci % 4 == 0 else 0.3):
                # the batch failed in the model or the loss: nothing of it is recorded.  With the RL scheduler any sampler may be picked next: another one,
                # with a batch smaller or larger than the swarm's, may record its rows before the swarm is asked again (the rows the swarm then finds at its
                # cursor are not its own, and may be fewer than its batch)
                if rng.random() < 0.5:
                    n += rng.randint(1, bs + 2)
                    chk.count("pso_bookkeeping:other_sampler_after_failed_swarm_batch")
            else:
                n += bs + (rng.randint(1, 5) if rng.random() < 0.4 else 0)      # recorded, possibly followed by other samplers' batches
        chk.case(["pso", bs, ns], len(set(ns)) < len(ns), {"batch_size": bs, "history_lengths_handed": ns})
        chk.count("pso_bookkeeping:" + ("first_batch_failed_on_empty_history" if len(ns) > 1 and ns[0] == 0 and ns[1] == 0 else "other"))
        if err:
            chk.fail(f"ParticleSwarmSampler (batch_size {bs}) handed history lengths {ns}: {err}", {"case": {"kind": "pso", "bs": bs, "ns": ns}})
            continue
        reqs.append(f"smp.pso {bs} {len(ns)} " + " ".join(map(str, ns))); impl.append(" ".join(acts)); cases.append((bs, ns))
    for (bs, ns), a, m in zip(cases, impl, lean_run(reqs) if reqs else []):
        if a != m.strip():
            chk.disagree("ParticleSwarmSampler history bookkeeping != Samplers.Pso.run", {"batch_size": bs, "history_lengths": ns, "impl": a, "model": m})


def run(chk: Check):
    rng = chk.rng
    chk.rule = ("for each base scenario (round-robin and RL scheduler, 2-6 batches, with and without saving folder) an exception is injected at EVERY "
                "invocation index of the stub model, the stub loss and the samplers (exhaustive over the index space of that run); each faulty run is "
                "followed by calibrate(1) on the same object and compared with the fault-free twin. non-trivial = the fault hit after >= 1 completed batch")
    chk.trusted_base = ["Lean 4.33 kernel", "joblib n_jobs=1 evaluates tasks lazily in order (a model fault at call j means j+1 seeds were drawn)",
                        "threading.enumerate() lists every live thread", "stubs of harness/vp/calharness.py"]
    chk.assumptions = ["thread clean-up of the RL scheduler is judged on the real threads here and proved on the protocol model under C10",
                       "fault = exception raised by the component at entry (no partial side effects inside the component)"]
    chk.proof_stage(PROP_FILE)
    n_base = 4 if chk.tier == "quick" else 40
    threads0 = {t.ident for t in threading.enumerate()}
    exhaustive_spaces = []
    slow_env_budget = [6 if chk.tier == "quick" else 60]
    for bi in range(n_base + 1):
        sched = "rr" if bi % 2 == 0 else "rl"
        base = base_scn(rng, sched)
        big = bi == n_base
        if big:
            # one batch whose fresh series take tens of megabytes (three parameters x two members x 750 000 steps): however the calibrator organises the work on a
            # batch of that size, a failure late in the batch leaves the records aligned
            sched = "rr"
            base = base_scn(rng, "rr")
            base.dims, base.ensemble, base.simlen, base.folder, base.dedup_passes = 1, 2, 750000, False, 0
            base.bounds, base.precision = ((0.0,), (100.0,)), (0.5,)
            base.lineup = [(base.lineup[0][0], 3, [[[float(rng.randint(0, 200)) / 2.0] for _ in range(3)] for _ in range(4)], None)]
            base.loss_table = {}
            base.ops = [("C", 2), ("C", 1)]
            chk.count("batch_of_tens_of_megabytes")
        # verbosity only prints - also while a failure is being handled: half of the base scenarios (one per scheduler kind) are verbose
        base.verbose = bi % 4 in (0, 1)
        chk.count("verbose:" + str(base.verbose))
        # every second pair of base scenarios fails with a BaseException that is not an Exception (KeyboardInterrupt-like)
        base.fault_base = (bi // 2) % 2 == 1
        # ... and the Exception ones rotate through classes that protocols give a meaning to (StopIteration ends a for/map/list silently,
        # GeneratorExit is a BaseException, OSError / ArithmeticError are caught by some libraries)
        base.fault_class = "base" if base.fault_base else ["exception", "stop_iteration", "os_error", "arithmetic"][(bi // 4 + bi) % 4]
        if base.fault_base and (bi // 4) % 2 == 1:
            base.fault_class = "generator_exit"
        chk.count("fault_class:" + base.fault_class)
        if bi % 2 == 0 or bi % 4 == 1:
            # samplers that de-duplicate (two redraw passes) over a coarse space: proposals repeat the history and each other, so sample_batch is
            # also called for replacements — and may fail there
            base.dedup_passes = 2
            vals = [0.0, 0.5, 1.0, 1.5]
            pool = [[rng.choice(vals) for _ in range(base.dims)] for _ in range(3)]      # three vectors only: repeats are certain from the second batch on
            base.lineup = [(c, bs, [[list(rng.choice(pool)) for _ in range(bs)] for _ in script], cs) for (c, bs, script, cs) in base.lineup]
            base.loss_table = {}
            chk.count("samplers:deduplicating_on_a_coarse_space")
        free_lines, free_info = run_quiet(base)
        nS, nM, nL, nB = ch.STATE["sampler_calls"], ch.STATE["model_calls"], ch.STATE["loss_calls"], ch.STATE.get("batch_calls", 0)
        space = [("S", k) for k in range(nS)] + [("M", k) for k in range(nM)] + [("L", k) for k in range(nL)] + ([("B", k) for k in range(nB)] if base.dedup_passes else [])
        if big:
            space = [("M", 4), ("M", 5), ("L", 2), ("M", 11), ("L", 5)]      # late in the first batch, late in the second
        exhaustive_spaces.append({"scheduler": sched, "sampler_calls": nS, "model_calls": nM, "loss_calls": nL, "sample_batch_calls": nB if base.dedup_passes else None})
        free_first = hist_fields(free_lines[1])
        for fault in space:
            scn = copy.deepcopy(base)
            scn.faults = [fault]
            if sched == "rl" and tuple(fault) in (("S", 0), ("M", 0), ("L", 0), ("B", 0)) and slow_env_budget[0] > 0:
                # a user environment whose reset_state() is slower than the failing first batch: the agent thread is still in reset()
                # when the session is torn down
                scn.slow_env_reset = 0.15
                slow_env_budget[0] -= 1
                chk.count("rl:first_batch_fails_while_the_environment_is_still_resetting")
            lines, info = run_quiet(scn)
            first = lines[1]
            raised = first.startswith("raise:")
            kind = {"S": "sampler", "M": "model", "L": "loss", "B": "sampler"}[fault[0]]
            hung = [ln for ln in lines if ln.startswith("hang:")]
            if hung:
                # calibrate() never came back (watchdog): nothing was propagated and the threads of the calibration are still there
                chk.case([scn_json(base), fault, "hang"], True, {"scheduler": sched, "fault": fault, "outcome": "calibrate() did not return"})
                chk.count(f"{sched}:{fault[0]}"); chk.count("calibrate_did_not_return")
                chk.fail(f"{sched} scheduler, {kind} failing at its invocation {fault[1]}" + (" while the environment is still resetting" if scn.slow_env_reset else "")
                         + ": calibrate() did not return within the watchdog (the exception is not propagated, the calibration's threads are left blocked)",
                         {"case": {"scn": {**scn_json(base), "slow_env_reset": scn.slow_env_reset}, "fault": list(fault)}})
                threads0 |= {t.ident for t in threading.enumerate()}
                continue
            hf = hist_fields(first)
            chk.case([scn_json(base), fault], int(hf["b"]) >= 1 and raised,
                     {"scheduler": sched, "fault": fault, "first_call": first[:60], "batches_before_fault": hf["b"], "second_call": lines[2][:40]})
            chk.count(f"{sched}:{fault[0]}"); chk.count("raised_in_first_call" if raised else "raised_in_second_call_or_not")
            case = {"case": {"scn": {**scn_json(base), "slow_env_reset": scn.slow_env_reset}, "fault": list(fault)}}
            # the fault index may fall into the second call (calibrate(1)): then the first call must equal the fault-free one
            if info.get("swallowed"):
                chk.fail(f"an exception injected into a {kind} call was raised inside calibrate() (operation {info['swallowed'][0]}), which returned normally instead of propagating it", case)
            if not raised:
                if ch.canon_line(first) != ch.canon_line(free_lines[1]):
                    chk.fail("a run without any failure in its first call differs from the fault-free run", case)
                # the failure fell into the second call (its first batch, after completed batches of an earlier call): that call propagates it
                if len(lines) > 2 and lines[2].startswith("raise:") and lines[2].split(" ")[0] != f"raise:{kind}":
                    chk.fail(f"the second calibrate() call raised {lines[2].split(' ')[0]} instead of propagating the {kind} exception injected into its first batch "
                             f"(verbose={base.verbose}, {hist_fields(first)['b']} batches completed by the first call)", case)
            else:
                if first.split(" ")[0] != f"raise:{kind}":
                    chk.fail(f"calibrate() raised {first.split(' ')[0]} instead of propagating the {kind} exception", case)
                if not is_prefix(hf, free_first):
                    chk.fail("history after the failure is not a prefix of the fault-free run", case)
                nb = int(hf["b"])
                bn = hf["bn"][1:-1].split(",") if hf["bn"] != "[]" else []
                if bn and int(bn[-1]) != nb - 1:
                    chk.fail(f"history holds rows of batch {bn[-1]} but only {nb} batches completed", case)
                errs = []
                if len({len(x[1:-1].split(sep)) if x != "[]" else 0 for x, sep in ((hf["params"], ";"), (hf["losses"], ","), (hf["series"], ";"), (hf["bn"], ","), (hf["ms"], ","))}) != 1:
                    chk.fail("records are not aligned after the failure", case)
                # the following calibrate(1) works and adds exactly one batch
                second = lines[2]
                if not second.startswith("ok "):
                    chk.fail(f"calibrate() after the failure did not work: {second[:80]}", case)
                elif int(hist_fields(second)["b"]) != nb + scn.ops[1][1]:
                    chk.fail(f"calibrate({scn.ops[1][1]}) after the failure ended with {hist_fields(second)['b']} batches, expected {nb + scn.ops[1][1]}", case)
            left = [t for t in threading.enumerate() if t.ident not in threads0 and t.is_alive()]
            if left:
                chk.fail(f"{len(left)} background thread(s) left running after calibrate() raised/returned", case)
                threads0 |= {t.ident for t in left}
            ok, k, a, b = ch.compare(scn, lines, info)
            if not ok:
                chk.disagree("Calibrator under a fault plan != BlackIt.Calibrator.runBatch/calLoop",
                             {"scenario": scn_json(base), "fault": list(fault), "op_index": k,
                              "fields": ch.diff_fields(a, b) if k is not None and k >= 0 else None, "impl": a[:500], "model": b[:500]})
    builtin_sampler_faults(chk, rng)
    pso_bookkeeping(chk, rng)
    chk.extra["exhaustive"] = True
    chk.extra["fault_index_spaces"] = exhaustive_spaces


def replay(path: Path) -> int:
    r = json.loads(path.read_text())
    bad = 0
    for fi in r.get("failing_inputs", []):
        c = fi.get("case")
        if not c:
            continue
        base = scn_from_json(c["scn"])
        free_lines, _ = run_quiet(base)
        scn = copy.deepcopy(base); scn.faults = [tuple(c["fault"])]
        lines, _ = run_quiet(scn)
        first = lines[1]
        fails = (first.startswith("raise:") and (not is_prefix(hist_fields(first), hist_fields(free_lines[1])) or not lines[2].startswith("ok "))) \
            or any(t.is_alive() and t is not threading.main_thread() for t in threading.enumerate())
        print("REPLAY", fi["what"][:120], "->", "still fails" if fails else "passes now")
        bad += fails
    return 1 if bad else 0
