"""C06 — interrupted checkpoint saves: real SIGKILL at every system call of a real save, byte-level truncation of
every rewritten file, an exception at every SQLite statement; outcomes classified against complete checkpoints."""
from __future__ import annotations

import contextlib
import io
import json
import os
import pickle
import re
import shutil
import signal
import time
import subprocess
import sys
import tempfile
import warnings
from concurrent.futures import ThreadPoolExecutor
from pathlib import Path

import numpy as np

from vp import twin
from vp.core import LEAN, VERIF, Check, HarnessError, lean_run
from vp.deep import deep, diff

MODULE = "BlackIt.Properties.C06"
PROP_FILE = LEAN / "BlackIt/Properties/C06.lean"
FILES = ["calibration_params.json", "scheduler_pickled.pickle", "loss_function_pickled.pickle", "calibration_results.csv", "series_samp.h5"]
CHILD = VERIF / "harness/children/save_child.py"
PY = sys.executable
KNOWN_SIGS = None      # the list lives in known_findings.json (signature = crash point / folder situation / what the series file looks like)


class State(tuple):
    """positional arguments of save_calibrator_state, plus the keyword arguments the calibrator passes"""

    def __new__(cls, a, k=None):
        o = super().__new__(cls, a)
        o.kw = dict(k or {})
        return o

    def __reduce__(self):
        return (State, (tuple(self), self.kw))


def capture_states(cfg, batches):
    """save-argument tuples of consecutive checkpoints of one real run (json back-end argument order)"""
    import black_it.calibrator as calmod

    captured = []
    orig = calmod.save_calibrator_state
    calmod.save_calibrator_state = lambda path, *a, **k: captured.append(State(a, k))
    try:
        with contextlib.redirect_stdout(io.StringIO()), warnings.catch_warnings():
            warnings.simplefilter("ignore")
            cal = twin.build(cfg, "/nonexistent-folder")
            for n in batches:
                cal.calibrate(n)
    finally:
        calmod.save_calibrator_state = orig
    return captured


def json_load(folder):
    from black_it.utils import json_pandas_checkpointing as jp
    with warnings.catch_warnings():
        warnings.simplefilter("ignore")
        return jp.load_calibrator_state(folder, 0)


def clean_folder(states):
    """folder after saving the given states one after the other (complete saves)"""
    from black_it.utils import json_pandas_checkpointing as jp
    d = tempfile.mkdtemp(prefix="vpc06")
    for a in states:
        jp.save_calibrator_state(d, *a, **getattr(a, 'kw', {}))
    return d


def file_state(folder, base, full, L2, name):
    """state of one file after a crash, judged by the real loader with the four other files known-good (new):
    B = rejected, D = accepted and equal to the new checkpoint, S = old and new content coincide,
    P = byte-identical to the previous checkpoint's file, C = accepted but neither"""
    p = os.path.join(folder, name)
    cur = open(p, "rb").read() if os.path.exists(p) else None
    newb = open(os.path.join(full, name), "rb").read()
    oldp = os.path.join(base, name) if base else None
    oldb = open(oldp, "rb").read() if oldp and os.path.exists(oldp) else None
    if cur is not None and cur == newb:
        return "S" if oldb == newb else "D"
    if cur is not None and cur == oldb and name != FILES[4]:
        return "P"
    if cur is None:
        return "B"
    d = tempfile.mkdtemp(prefix="vpc06s"); shutil.rmtree(d); shutil.copytree(full, d)
    try:
        shutil.copyfile(p, os.path.join(d, name))
        try:
            got = deep(json_load(d))
        except Exception:  # noqa: BLE001
            return "B"
        if got == L2:
            return "D"
        return "P" if cur == oldb else "C"
    finally:
        shutil.rmtree(d, ignore_errors=True)


def series_rows_tag(folder, base, full):
    """what a readable series file holds after a crash: the previous checkpoint's rows, the new one's, or something else (then: whose row count)"""
    import h5py

    def load(d):
        try:
            with h5py.File(os.path.join(d, FILES[4]), "r") as f:
                return f["data"][:]
        except Exception:  # noqa: BLE001
            return None
    r, ro, rn = load(folder), load(base) if base else None, load(full)
    same = lambda x, y: x is not None and y is not None and x.shape == y.shape and x.tobytes() == y.tobytes()
    if same(r, ro):
        return "old-content"
    if same(r, rn):
        return "new-content"
    n = None if r is None else r.shape[0]
    return "mixed-content,row-count-of-" + ("new" if rn is not None and n == rn.shape[0] else "old" if ro is not None and n == ro.shape[0] else "neither")


def refs(folder):
    return None


def classify(folder, L1, L2):
    try:
        got = deep(json_load(folder))
    except Exception as e:  # noqa: BLE001
        return "error", type(e).__name__
    if got == L2:
        return "new", ""
    if got == L1:
        return "prev", ""
    return "hybrid", "; ".join(diff(L2, got)[:3])


def strace_events(folder, statefile, backend="json", inject=None, names=None):
    """system calls of one real save in a child process that touch anything inside `folder` (whatever the file is called: temporary
    files and renames are seen too). Events are (syscall, file, truncating-open?, index of this call among the process's calls of
    that name); `inject=(syscall, index)` SIGKILLs the child on entry of exactly that call."""
    names = names or FILES
    out = tempfile.mktemp(prefix="vptrace")
    env = dict(os.environ, PYTHONPATH=str(VERIF / "harness") + (os.pathsep + os.environ["PYTHONPATH"] if os.environ.get("PYTHONPATH") else ""), PYTHONDONTWRITEBYTECODE="1")
    child = subprocess.Popen([PY, str(CHILD), backend, folder, statefile, "wait"], stdout=subprocess.PIPE, stderr=subprocess.DEVNULL, text=True, env=env)
    tracer = None
    try:
        if child.stdout.readline().strip() != "READY":
            raise HarnessError("save child did not get ready")
        t0 = time.time()
        while open(f"/proc/{child.pid}/stat").read().rsplit(")", 1)[1].split()[0] != "T":
            if time.time() - t0 > 30:
                raise HarnessError("save child did not stop")
            time.sleep(0.002)
        cmd = ["strace", "-f", "-qq", "-y", "-o", out, "-e", "trace=openat,write,pwrite64,ftruncate,rename,renameat,renameat2,unlink,unlinkat,link,linkat"]
        if inject:
            cmd += ["-e", f"inject={inject[0]}:signal=KILL:when={inject[1]}"]
        tracer = subprocess.Popen(cmd + ["-p", str(child.pid)], stdout=subprocess.DEVNULL, stderr=subprocess.DEVNULL)
        t0 = time.time()
        while "TracerPid:\t0\n" in open(f"/proc/{child.pid}/status").read():
            if time.time() - t0 > 30 or tracer.poll() is not None:
                raise HarnessError("strace could not attach to the save child")
            time.sleep(0.002)
        os.kill(child.pid, signal.SIGCONT)
        stdout = child.stdout.read()
        child.wait(timeout=300)
        tracer.wait(timeout=60)
    finally:
        for pr in (child, tracer):
            if pr is not None and pr.poll() is None:
                pr.kill(); pr.wait()
    p = type("R", (), {"stdout": stdout})
    events = []
    counts = {}
    key = folder.rstrip("/") + "/"
    try:
        for line in open(out):
            m = re.match(r"\d+\s+(\w+)\((.*)", line)
            if not m:
                continue
            nm, rest = m.group(1), m.group(2)
            counts[nm] = counts.get(nm, 0) + 1
            if key not in rest:
                continue
            paths = re.findall(re.escape(key) + r"([^\">,)]*)", rest)
            base = paths[0] if paths else "?"
            f = next((n for n in names if base.startswith(n)), base)
            events.append((nm, f, "O_TRUNC" in rest, counts[nm], base))
    finally:
        with contextlib.suppress(FileNotFoundError):
            os.remove(out)
    return events, "SAVED" in p.stdout


def run_json_crashes(chk: Check, label, prev_states, new_state, cfg_info):
    """real kills at every system call of save(new_state) on top of the folder holding prev_states"""
    base = clean_folder(prev_states)
    full = clean_folder(prev_states + [new_state]) if prev_states and label != "different-run" else None
    if full is None:
        full = tempfile.mkdtemp(prefix="vpc06"); shutil.rmtree(full); shutil.copytree(base, full)
        from black_it.utils import json_pandas_checkpointing as jp
        jp.save_calibrator_state(full, *new_state, **getattr(new_state, 'kw', {}))
    statefile = tempfile.mktemp(prefix="vpc06state")
    pickle.dump(new_state, open(statefile, "wb"))
    work = []
    try:
        have_prev = bool(prev_states)
        L1 = deep(json_load(base)) if have_prev else None
        L2 = deep(json_load(full))
        r_old = refs(base) if have_prev else {f: None for f in FILES}
        r_new = refs(full)
        probe = tempfile.mkdtemp(prefix="vpc06p"); shutil.rmtree(probe); shutil.copytree(base, probe); work.append(probe)
        events, saved = strace_events(probe, statefile)
        if not saved or not events:
            raise HarnessError("baseline strace of a real save produced no events")
        # the order of file operations must be the model's: the five files in order, each opened before it is written
        order = []
        for nm, f, _, _, _ in events:
            if f not in order:
                order.append(f)
        if order != FILES:
            chk.disagree("file-operation order of save_calibrator_state != model (five files in fixed order)", {"observed_order": order})
        foreign = sorted({f"{nm}:{b}" for nm, f, _, _, b in events if b not in FILES or nm not in ("openat", "write", "pwrite64", "ftruncate")})
        if foreign:
            chk.disagree("save_calibrator_state performs file operations the model does not have (model: each of the five files is opened in place and written)",
                         {"operations": foreign[:10]})
        chk.extra.setdefault("traces", []).append({"label": label, "events": [f"{nm}:{b}" for nm, f, _, _, b in events]})
        jobs = [(g, nm, j, f) for g, (nm, f, _, j, _) in enumerate(events)]

        def one(job):
            g, nm, j, f = job
            d = tempfile.mkdtemp(prefix="vpc06k"); shutil.rmtree(d); shutil.copytree(base, d)
            ev, saved = strace_events(d, statefile, inject=(nm, j))
            # the kill must have landed on the intended call: the folder operations seen are the baseline's first g (+ the killed one)
            # (names of temporary files may contain process or thread ids: runs of digits in names other than the five are not compared)
            canon = lambda b: b if b in FILES else re.sub(r"\d{3,}", "#", b)
            want = [(e[0], canon(e[4])) for e in events[:g + 1]]
            got = [(e[0], canon(e[4])) for e in ev]
            return job, d, got in (want, want[:-1]), saved

        with ThreadPoolExecutor(max_workers=12) as ex:
            results = list(ex.map(one, jobs))
        reqs, meta, d_of = [], [], {}
        for (g, nm, j, f), d, landed, saved in results:
            work.append(d)
            if saved:
                chk.disagree("injected kill did not stop the child", {"event": [g, nm, j, f]})
                continue
            if not landed:
                chk.count("kill:not-at-intended-call(skipped)")
                continue
            vec = [file_state(d, base if have_prev else None, full, L2, name) for name in FILES]
            outcome, detail = classify(d, L1, L2)
            reqs.append("ckpt.outcome " + " ".join(vec)); meta.append((g, nm, f, vec, outcome, detail))
            d_of[g] = d
        answers = lean_run(reqs) if reqs else []
        for (g, nm, f, vec, outcome, detail), ans in zip(meta, answers):
            chk.case([label, cfg_info, g], True, {"label": label, "killed_at": f"{nm} #{g} on {f}", "file_states": dict(zip(FILES, vec)), "restore": outcome})
            chk.count(f"kill:{label}:{outcome}")
            # reachable shape: complete files, then at most one file in the middle, then untouched files
            shape = "".join(vec)
            if not re.fullmatch(r"[DS]*[PBCDS]?[PS]*" if have_prev else r"[DS]*[BCD]?B*", shape):
                chk.disagree("crash left a folder that is not a prefix of the save's file operations", {"file_states": vec, "event": [g, nm, f]})
            if ans != outcome:
                chk.disagree("restore outcome != BlackIt.Checkpoint.restoreOutcome of the per-file states",
                             {"file_states": vec, "impl": outcome, "model": ans, "detail": detail, "event": [g, nm, f]})
            if outcome == "hybrid":
                k = next((i for i, v in enumerate(vec) if v not in "DS"), 4)
                sig = f"C06/json/hybrid@{nm}:{f}/{label}"
                if vec[4] == "C":
                    # a series file that is readable but neither the old nor the new one: say what it looks like (row count of which checkpoint)
                    sig += ":series=" + series_rows_tag(d_of[g], base if have_prev else None, full)
                chk.fail(f"restore after a kill at {nm} on {f} ({label}) returns a mixture: {detail}",
                         {"case": {"kind": "kill", "label": label, "event": [g, nm, f], "file_states": vec}}, signature=sig)
        return base, full, r_old, r_new, L1, L2
    finally:
        with contextlib.suppress(FileNotFoundError):
            os.remove(statefile)
        for d in work:
            shutil.rmtree(d, ignore_errors=True)


def run_json_truncations(chk: Check, base, full, r_old, r_new, L1, L2, step):
    """byte-level: file i holds a strict prefix of its new content, files before it are complete, after it untouched"""
    reqs, meta = [], []
    for i, name in enumerate(FILES[:4]):
        new_bytes = open(os.path.join(full, name), "rb").read()
        offs = sorted(set(list(range(0, len(new_bytes), step)) + [len(new_bytes) - 1, 1, 2]))
        for b in offs:
            if not (0 <= b < len(new_bytes)):
                continue
            d = tempfile.mkdtemp(prefix="vpc06t"); shutil.rmtree(d); shutil.copytree(base, d)
            try:
                for j in range(i):
                    shutil.copyfile(os.path.join(full, FILES[j]), os.path.join(d, FILES[j]))
                open(os.path.join(d, name), "wb").write(new_bytes[:b])
                vec = [file_state(d, base, full, L2, n) for n in FILES]
                outcome, detail = classify(d, L1, L2)
            finally:
                shutil.rmtree(d, ignore_errors=True)
            reqs.append("ckpt.outcome " + " ".join(vec)); meta.append((name, b, len(new_bytes), vec, outcome, detail))
    answers = lean_run(reqs)
    for (name, b, n, vec, outcome, detail), ans in zip(meta, answers):
        chk.case(["trunc", name, b], True, {"file": name, "bytes_written": b, "of": n, "file_states": dict(zip(FILES, vec)), "restore": outcome})
        chk.count(f"trunc:{name.split('.')[-1]}:{outcome}")
        if ans != outcome:
            chk.disagree("restore outcome != model for a byte-level partial write", {"file": name, "bytes": b, "file_states": vec, "impl": outcome, "model": ans, "detail": detail})
        if outcome == "hybrid":
            k = next((i for i, v in enumerate(vec) if v not in "DS"), 4)
            where = ""
            if name == FILES[3]:
                full_bytes = open(os.path.join(full, name), "rb").read()
                # a cut exactly at the end of the header text (its newline missing) is a complete header with zero rows: same situation as any later cut
                where = ":inside-the-header-line" if b < full_bytes.index(b"\n") else ":after-the-header-line"
            sig = f"C06/json/hybrid@prefix:{name}{where}"
            chk.fail(f"restore with {name} cut after {b}/{n} bytes returns a mixture: {detail}",
                     {"case": {"kind": "trunc", "file": name, "bytes": b, "file_states": vec}}, signature=sig)


# ------------------------------------------------------------------ SQLite
class _FailingCursor:
    def __init__(self, cur, plan):
        self._c, self._p = cur, plan

    def _hit(self, what):
        self._p["n"] += 1
        self._p["log"].append(what)
        if self._p["n"] - 1 == self._p["at"]:
            self._p["what"] = what
            self._p["log"][-1] = what + "!raised"
            raise self._p.get("exc", RuntimeError)("injected failure at " + what)
        if self._p.get("sticky") and self._p.get("what") == what and self._p["n"] - 1 > self._p["at"]:
            # the cause of the failure is still there: the same statement fails again however often it is tried
            self._p["log"][-1] = what + "!raised"
            raise self._p.get("exc", RuntimeError)("injected failure at " + what + " (again)")

    def execute(self, sql, *a):
        self._hit("execute:" + sql.strip().split()[0])
        return self._c.execute(sql, *a)

    def executescript(self, sql):
        self._hit("executescript")
        return self._c.executescript(sql)

    def __getattr__(self, k):
        return getattr(self._c, k)


class _FailingConn:
    def __init__(self, conn, plan):
        self._c, self._p = conn, plan

    def cursor(self):
        return _FailingCursor(self._c.cursor(), self._p)

    def commit(self):
        self._p["n"] += 1
        self._p["log"].append("commit")
        if self._p["n"] - 1 == self._p["at"]:
            self._p["log"][-1] = "commit!raised"
            raise RuntimeError("injected failure at commit")
        return self._c.commit()

    def __getattr__(self, k):
        return getattr(self._c, k)


class _Interrupt(BaseException):
    """stands for KeyboardInterrupt / SystemExit / a cancellation: not an Exception"""


_SQL_CODES = {"execute:PRAGMA": 0, "execute:SELECT": 0, "executescript": 4, "execute:DELETE": 1, "execute:DROP": 1, "execute:INSERT": 2, "commit": 3}


def sql_codes(executed):
    """the statements a save really executed, as the codes of `Checkpoint.sqlOfCodes` (None: a statement the model has no counterpart for)"""
    return [_SQL_CODES.get(st) for st in executed]


def committing_inside(executed, completed):
    """hypothesis of theorem sqlite_transaction_atomic read off an executed statement list: nothing that commits between the first row-changing statement
    and the final commit (executescript commits a pending transaction before it runs)"""
    first_dml = next((i for i, st in enumerate(executed) if st.split(":")[-1] in ("DELETE", "INSERT", "DROP", "UPDATE", "REPLACE")), len(executed))
    body = executed[first_dml:-1] if completed else executed[first_dml:]
    return [st for st in body if st in ("executescript", "commit") or st.startswith(("execute:CREATE", "execute:ALTER", "execute:VACUUM", "execute:COMMIT", "execute:END"))]


def sqlite_args(a):
    return a[:15] + a[17:]


def big_state(a, rows, seed):
    """the same save arguments with a long random history (params, losses, series, labels of `rows` samples)"""
    g = np.random.default_rng(seed)
    a = list(a)
    d = np.asarray(a[17]).shape[1]
    a[15] = rows
    a[17] = g.random((rows, d)); a[18] = g.random(rows); a[19] = g.standard_normal((rows, 2, 50, 2))
    a[20] = np.repeat(np.arange(rows // 4 + 1), 4)[:rows].astype(np.int64); a[21] = np.zeros(rows, dtype=np.int64)
    return State(tuple(a), getattr(a, "kw", {}))


def committed_sqlite_module():
    """the SQLite back-end as COMMITTED in /repo (HEAD), loaded from its source text under another name: the writer of "a database file an earlier version of
    the library left in the folder".  On the unchanged tree it is the same code as the one under test.  None when it cannot be obtained."""
    import types
    try:
        src = subprocess.run(["git", "-C", "/repo", "show", "HEAD:black_it/utils/sqlite3_checkpointing.py"], capture_output=True, text=True, timeout=60).stdout
        if "def save_calibrator_state" not in src:
            return None
        mod = types.ModuleType("vp_committed_sqlite3_checkpointing")
        exec(compile(src, "<HEAD:black_it/utils/sqlite3_checkpointing.py>", "exec"), mod.__dict__)
        return mod
    except Exception:  # noqa: BLE001
        return None


def run_sqlite(chk: Check, s1, s2, label="short-history", earlier=(), prev_writer=None):
    """`earlier`: complete checkpoints written into the folder BEFORE the previous one (the file has a history of its own: free pages, a larger size);
    `prev_writer`: the module whose save wrote the previous checkpoint (default: the code under test itself)"""
    import sqlite3
    from black_it.utils import sqlite3_checkpointing as sq
    pw = prev_writer or sq

    def prepare(folder, have_prev):
        if have_prev:
            for st in earlier:
                pw.save_calibrator_state(folder, *sqlite_args(st))
            pw.save_calibrator_state(folder, *sqlite_args(s1))

    def load(folder):
        try:
            return deep(sq.load_calibrator_state(folder))
        except Exception as e:  # noqa: BLE001
            return "error:" + type(e).__name__

    for have_prev in (True, False):
        if (earlier or prev_writer is not None) and not have_prev:
            continue
        ref = tempfile.mkdtemp(prefix="vpc06q")
        prepare(ref, have_prev)
        LP = load(ref)
        sq.save_calibrator_state(ref, *sqlite_args(s2)); LN = load(ref)
        shutil.rmtree(ref, ignore_errors=True)
        # count the statements of one save
        plan = {"n": 0, "at": -1, "log": []}
        real_connect = sqlite3.connect
        d = tempfile.mkdtemp(prefix="vpc06q")
        prepare(d, have_prev)
        sq.sqlite3.connect = lambda *a, **k: _FailingConn(real_connect(*a, **k), plan)
        try:
            sq.save_calibrator_state(d, *sqlite_args(s2))
        finally:
            sq.sqlite3.connect = real_connect
            shutil.rmtree(d, ignore_errors=True)
        nstm = plan["n"]
        stmts = list(plan["log"])
        chk.extra["sqlite_statements"] = stmts
        # hypothesis of theorem sqlite_transaction_atomic, read off the statements the save really executes
        inside = committing_inside(stmts, True)
        chk.count("sqlite:transaction_shape_checked")
        if inside or not stmts or stmts[-1] != "commit" or None in sql_codes(stmts):
            chk.disagree("the SQLite save is not 'preamble, statements that do not commit, then commit' (hypothesis of sqlite_transaction_atomic)", {"statements": stmts, "committing_inside": inside})
        if " ".join(map(str, sql_codes(stmts))) != "0 4 1 2 3":
            chk.disagree("statements of the SQLite save != Checkpoint.sqlSaveStmts (PRAGMA, DDL script, DELETE, INSERT, commit)", {"statements": stmts})
        reqs = []
        outcomes = []
        # the failure is an ordinary exception, or one that is not an Exception (an interrupt, an exit request): either way the save failed
        # ... or the database's own error class (a full disk, a locked file, a statement the file's table does not accept), once or for as long as the
        # statement is tried ("sticky": whatever made it fail is still there when the same statement is executed again)
        for k, exc, sticky in [(k, e, st) for k in range(nstm) for e, st in ((RuntimeError, False), (_Interrupt, False), (sqlite3.OperationalError, False), (sqlite3.OperationalError, True))]:
            d = tempfile.mkdtemp(prefix="vpc06q")
            try:
                prepare(d, have_prev)
                plan = {"n": 0, "at": k, "log": [], "exc": exc, "sticky": sticky}
                sq.sqlite3.connect = lambda *a, **kw: _FailingConn(real_connect(*a, **kw), plan)
                raised = None
                try:
                    sq.save_calibrator_state(d, *sqlite_args(s2))
                except (RuntimeError, _Interrupt, sqlite3.OperationalError) as e:
                    raised = str(e)
                finally:
                    sq.sqlite3.connect = real_connect
                got = load(d)
            finally:
                shutil.rmtree(d, ignore_errors=True)
            out = "new" if got == LN else "prev" if got == LP else ("error" if isinstance(got, str) else "hybrid")
            outcomes.append((k, stmts[k] + ("" if exc is RuntimeError else " (a BaseException that is not an Exception)" if exc is _Interrupt else
                                            " (sqlite3.OperationalError" + (", every time the statement is tried)" if sticky else ", once)")), raised, out))
            # the model runs the statements THIS run executed (read off the log: a call that raised did not execute), then rolls back if the save raised
            executed = [st for st in plan["log"] if not st.endswith("!raised")]
            codes = [c if c is not None else 0 for c in sql_codes(executed)]
            reqs.append(f"ckpt.sqlseq {'1 5' if have_prev else '0'} {len(codes)} {' '.join(map(str, codes))} {len(codes) if raised is not None else -1}".replace("  ", " "))
            bad_inside = committing_inside(executed, raised is None)
            if bad_inside:
                chk.disagree("a failing SQLite save executed a committing statement inside its transaction (hypothesis of sqlite_transaction_atomic)", {"executed": executed, "committing_inside": bad_inside})
            chk.count("sqlite:exception_class:" + exc.__name__ + (":sticky" if sticky else ""))
        answers = lean_run(reqs)
        for (k, st, raised, out), ans in zip(outcomes, answers):
            chk.case(["sqlite", label, have_prev, k, st], True, {"backend": "sqlite", "history": label, "previous_checkpoint": have_prev, "exception_at_statement": st, "restore": out})
            chk.count(f"sqlite:{'prev' if have_prev else 'empty'}:{out}")
            # committed table: [5]=previous row, [999]=new row, []=nothing (= the previous state of an empty db; after a previous checkpoint: no row to load)
            model = {"5": "prev", "999": "new", "": "error" if have_prev else "prev"}.get(ans, ans)
            if raised is None:
                # the save reported success although one of its statements failed (it recovered by itself): then it must have written the complete new checkpoint
                if out != "new":
                    chk.fail(f"the exception injected at {st} did not propagate out of save_calibrator_state, and a restore does not give the new checkpoint but: {out}", {"case": {"kind": "sqlite", "k": k}})
                elif have_prev and model != out:
                    chk.disagree("SQLite save absorbed a failing statement: outcome != BlackIt.Checkpoint.sqlRun on the statements it executed", {"statement": st, "impl": out, "model": ans})
                continue
            if have_prev and out != "prev":
                chk.fail(f"SQLite save failing at {st}: the previous checkpoint is no longer loadable (restore gives {out})", {"case": {"kind": "sqlite", "k": k, "prev": True}})
            if out == "hybrid":
                chk.fail(f"SQLite save failing at {st}: restore returns a mixture", {"case": {"kind": "sqlite", "k": k}})
            if have_prev and model != out:
                chk.disagree("SQLite failed-save outcome != BlackIt.Checkpoint.sqlRun", {"statement": st, "impl": out, "model": ans})


def run_sqlite_kills(chk: Check, s1, s2, label, max_kills):
    """the process dies during a SQLite save on top of a previous checkpoint: a child performs the real save under strace and is SIGKILLed at the
    system calls that touch the database or its journal (all of them, or an even sample of at most `max_kills`); the folder is then loaded with
    the library's loader: it must give exactly the previous or the new checkpoint ("a failed save leaves the previous checkpoint loadable")"""
    from black_it.utils import sqlite3_checkpointing as sq

    def load(folder):
        try:
            return deep(sq.load_calibrator_state(folder))
        except Exception as e:  # noqa: BLE001
            return "error:" + type(e).__name__ + ":" + str(e)[:60]

    base = tempfile.mkdtemp(prefix="vpc06qk")
    full = tempfile.mkdtemp(prefix="vpc06qk")
    statefile = tempfile.mktemp(prefix="vpc06state")
    work = [base, full]
    try:
        sq.save_calibrator_state(base, *sqlite_args(s1)); LP = load(base)
        sq.save_calibrator_state(full, *sqlite_args(s1)); sq.save_calibrator_state(full, *sqlite_args(s2)); LN = load(full)
        pickle.dump(tuple(sqlite_args(s2)), open(statefile, "wb"))
        names = ["checkpoint.sqlite-journal", "checkpoint.sqlite-wal", "checkpoint.sqlite-shm", "checkpoint.sqlite"]
        probe = tempfile.mkdtemp(prefix="vpc06qp"); shutil.rmtree(probe); shutil.copytree(base, probe); work.append(probe)
        events, saved = strace_events(probe, statefile, backend="sqlite", names=names)
        if not saved or not events:
            raise HarnessError("baseline strace of a real SQLite save produced no events")
        if load(probe) != LN:
            chk.disagree("a complete SQLite save in a child process does not load as the new checkpoint", {"label": label})
        chk.extra.setdefault("traces", []).append({"label": "sqlite:" + label, "events": len(events), "by_call": {k: sum(1 for e in events if e[0] == k) for k in sorted({e[0] for e in events})}})
        # shape of the trace = the journal model's transaction(s): open journal, j journal writes, n database page writes, delete journal
        txs, cur = [], None
        ok_shape = True
        for g, (nm, f, _, _, b) in enumerate(events):
            isj = b.endswith("-journal")
            if nm == "openat" and isj:
                cur = {"start": g, "j": 0, "n": 0, "end": None}; txs.append(cur)
            elif nm == "openat":
                continue                                         # the database file itself (once, before the first transaction)
            elif cur is None or cur["end"] is not None:
                ok_shape = False
            elif nm in ("pwrite64", "write") and isj and cur["n"] == 0:
                cur["j"] += 1
            elif nm in ("pwrite64", "write") and not isj and cur["j"] > 0:
                cur["n"] += 1
            elif nm in ("unlink", "unlinkat") and isj and cur["n"] > 0:
                cur["end"] = g
            else:
                ok_shape = False
        if not ok_shape or not txs or any(t["end"] is None for t in txs):
            chk.disagree("file operations of the SQLite save != journal model (per transaction: open journal, journal writes, database page writes, delete journal)",
                         {"label": label, "events_head": [f"{e[0]}:{e[4]}" for e in events[:12]], "transactions": txs})
            txs = []
        idx = list(range(len(events)))
        if len(idx) > max_kills:
            stride = len(idx) / max_kills
            idx = sorted({int(i * stride) for i in range(max_kills)} | {0, len(events) - 1, len(events) - 2})
        jobs = [(g, events[g][0], events[g][3], events[g][1]) for g in idx]

        def one(job):
            g, nm, j, f = job
            d = tempfile.mkdtemp(prefix="vpc06qd"); shutil.rmtree(d); shutil.copytree(base, d)
            ev, saved = strace_events(d, statefile, backend="sqlite", inject=(nm, j), names=names)
            # the kill must have landed on the intended call: the operations seen are the baseline's first g (+ the killed one)
            # (names of temporary files may contain process or thread ids: runs of digits in names other than the five are not compared)
            canon = lambda b: b if b in FILES else re.sub(r"\d{3,}", "#", b)
            want = [(e[0], canon(e[4])) for e in events[:g + 1]]
            got = [(e[0], canon(e[4])) for e in ev]
            return job, d, saved, got in (want, want[:-1])

        with ThreadPoolExecutor(max_workers=12) as ex:
            results = list(ex.map(one, jobs))
        reqs, req_of = [], {}
        last = txs[-1] if txs else None
        for (g, nm, j, f) in jobs:
            if last is not None and g > last["start"]:
                # kill on entry of event g: the operations completed in the last transaction are those after its `openat journal`
                req_of[g] = len(reqs); reqs.append(f"ckpt.journal {last['j']} {last['n']} {g - last['start'] - 1} 1")
        answers = lean_run(reqs) if reqs else []
        for (g, nm, j, f), d, saved, nev in results:
            work.append(d)
            if saved:
                chk.disagree("injected kill did not stop the SQLite save child", {"event": [g, nm, j, f]})
                continue
            left = sorted(os.listdir(d))
            got = load(d)
            out = "new" if got == LN else "prev" if got == LP else ("error" if isinstance(got, str) else "hybrid")
            model = answers[req_of[g]] if g in req_of else ("prev" if last is not None else None)     # earlier transactions (DDL) do not change what is loaded
            if not nev:
                chk.count("sqlite_kill:not-at-intended-call(outcome judged, not compared with the model)")
            if nev and model is not None and model != out:
                chk.disagree("restore after a killed SQLite save != BlackIt.Checkpoint.Journal.load (loader that rolls a complete journal back)",
                             {"label": label, "event": [g, nm, f], "impl": out, "model": model, "transaction": last})
            chk.case(["sqlite-kill", label, g], True, {"backend": "sqlite", "history": label, "killed_at": f"{nm} #{g}/{len(events)} on {f}", "files_left": left, "restore": out})
            chk.count(f"sqlite_kill:{label}:{out}")
            if out == "hybrid":
                chk.fail(f"SQLite save killed at {nm} #{g} on {f} ({label}): restore returns a mixture", {"case": {"kind": "sqlite_kill", "label": label, "event": [g, nm, f]}})
            elif out == "error":
                chk.fail(f"SQLite save killed at {nm} #{g} of {len(events)} on {f} ({label}; files left: {left}): the previous checkpoint is no longer loadable ({got[:90]})",
                         {"case": {"kind": "sqlite_kill", "label": label, "event": [g, nm, f]}})
    finally:
        with contextlib.suppress(FileNotFoundError):
            os.remove(statefile)
        for d in work:
            shutil.rmtree(d, ignore_errors=True)


def run(chk: Check):
    rng = chk.rng
    chk.rule = ("JSON/CSV/HDF5 back-end: a child process performs the real save of state s2 on a folder holding the complete checkpoint of s1 (same run, consecutive "
                "states; a different run; an empty folder) under strace and is SIGKILLed at EVERY system call that touches a checkpoint file (exhaustive over the trace); "
                "plus every byte-level strict prefix (stride in quick tier) of each of the four rewritten files; the folder is then loaded with the real loader and classified "
                "by deep comparison with the two complete checkpoints. SQLite: an exception raised at every statement of the real save, with and without a previous checkpoint.")
    chk.trusted_base = ["Lean 4.33 kernel", "strace 6.1 syscall injection (kills on syscall entry)", "crash = process death between system calls; a file system reordering writes after power loss is not modelled",
                        "SQLite's own journal/rollback", "h5py/HDF5 behaviour on a half-updated file is recorded, not modelled", "harness/vp/deep.py"]
    chk.assumptions = ["the five-file back-end violates the property structurally; hybrids at the six listed crash shapes are known findings, any other hybrid is a violation"]
    chk.proof_stage(PROP_FILE)
    cfg = {"lineup": [("HaltonSampler", 2, None), ("RandomUniformSampler", 3, None)], "dims": 2, "loss": "minkowski", "ensemble": 1, "seed": rng.randrange(10 ** 5), "N": 12}
    states = capture_states(cfg, [1, 1, 1])
    other = capture_states(dict(cfg, seed=cfg["seed"] + 7), [2])
    s1, s2 = states[1], states[2]
    base, full, r_old, r_new, L1, L2 = None, None, None, None, None, None
    keep = []
    try:
        # same run, consecutive states
        b = clean_folder([states[0], s1]); f = clean_folder([states[0], s1, s2]); keep += [b, f]
        run_json_crashes(chk, "same-run", [states[0], s1], s2, cfg)
        r_old, r_new = refs(b), refs(f)
        L1, L2 = deep(json_load(b)), deep(json_load(f))
        run_json_truncations(chk, b, f, r_old, r_new, L1, L2, step=7 if chk.tier == "quick" else 1)
        run_json_crashes(chk, "different-run", [other[0]], s2, cfg)
        run_json_crashes(chk, "empty-folder", [], s1, cfg)
    finally:
        for d in keep:
            shutil.rmtree(d, ignore_errors=True)
    run_sqlite(chk, s1, s2)
    # the same with a long history: a previous checkpoint of several megabytes of incompressible series (larger than SQLite's page cache),
    # so that a transaction that is rolled back has really touched the file
    run_sqlite(chk, big_state(s1, 1500, 11), big_state(s2, 1700, 12), label="long-history")
    # the previous checkpoint is a short one written over a much larger one (a long calibration, then a fresh short one in the same file): megabytes of free pages
    run_sqlite(chk, s1, s2, label="short-history-after-a-much-larger-checkpoint", earlier=[big_state(s1, 2800, 31)])
    # the previous checkpoint was written by the library as committed (an earlier version, from the point of view of a changed tree): a failed save by the code
    # under test still leaves it loadable, by the code under test
    cm = committed_sqlite_module()
    if cm is not None:
        run_sqlite(chk, s1, s2, label="short-history-previous-checkpoint-written-by-the-committed-version", prev_writer=cm)
        chk.count("sqlite:previous_checkpoint_written_by_committed_version")
    # ... and the process dying (not an exception) during the SQLite save, at the system calls on the database and its journal
    run_sqlite_kills(chk, s1, s2, "short-history", max_kills=40 if chk.tier == "quick" else 400)
    run_sqlite_kills(chk, big_state(s1, 300, 21), big_state(s2, 340, 22), "long-history", max_kills=40 if chk.tier == "quick" else 600)
    chk.extra["exhaustive"] = True


def replay(path: Path) -> int:
    print("C06 replay: crash points are fully determined by the trace of the save; re-running the check with the recorded seed")
    r = json.loads(path.read_text())
    env = dict(os.environ, VERIF_SEED=str(r.get("seed", 0)))
    return subprocess.call([sys.executable, str(VERIF / "harness/check.py"), "C06", "--tier", r.get("tier", "quick")], env=env)
