"""C03 — every proposal of every built-in sampler is on the grid: snap-mechanism conformance + membership oracle."""
from __future__ import annotations

import contextlib
import io
import json
import warnings
from pathlib import Path

import numpy as np

from vp import calharness as ch
from vp.core import LEAN, Check, f2h, fl, lean_run

MODULE = "BlackIt.Properties.C03"
PROP_FILE = LEAN / "BlackIt/Properties/C03.lean"
SNAP_MODULES = ["halton", "r_sequence", "particle_swarm", "surrogate", "cors", "best_batch"]
NAMES = ["HaltonSampler", "RandomUniformSampler", "RSequenceSampler", "BestBatchSampler", "GaussianProcessSampler",
         "RandomForestSampler", "XGBoostSampler", "ParticleSwarmSampler", "CORSSampler"]


def gen_space(rng, chk, force_offset=False):
    from black_it.search_space import SearchSpace

    d = rng.choice([1, 2, 2, 3, 4, 6])
    lo, hi, pr = [], [], []
    for _ in range(d):
        sc = 10.0 ** rng.randint(-6, 6)
        l = rng.uniform(-10, 10) * sc * rng.choice([1, 1, 0])
        n = rng.randint(3, 60)
        p = rng.choice([0.01, 0.1, 0.3, 0.7, 1.0, 0.05, 0.25, 0.37]) * sc
        kind = "offset" if force_offset and not lo else rng.choice(["aligned", "nonaligned", "nonaligned", "offset"])
        h = l + n * p if kind == "aligned" else l + n * p + rng.uniform(0.05, 0.95) * p
        if kind == "offset":
            # bounds dominated by a large offset, precision that does not divide the range with a remainder above half a step:
            # an end-point tolerance that grows with the offset would let the grid (and every sampler) step over the upper bound
            l = rng.choice([10.0 ** rng.randint(3 if not force_offset else 7, 9), 2.0 ** rng.randint(10 if not force_offset else 23, 27)]) * rng.choice([1, -1])
            p = rng.choice([0.35, 0.7, 1.0, 0.25, 0.3])
            n = rng.randint(2, 12)
            h = l + n * p + (rng.uniform(0.55, 0.95) if not force_offset else rng.uniform(0.8, 0.97)) * p
        chk.count("space:" + kind)
        lo.append(float(l)); hi.append(float(h)); pr.append(float(p))
    return SearchSpace([lo, hi], pr, False), [lo, hi], pr


def gen_edge_space(rng, chk):
    """a space whose np.arange grid ends a rounding error away from the declared upper bound (above or below it),
    i.e. where 'clip to the bound' and 'snap to the grid' disagree by an ulp"""
    from black_it.search_space import SearchSpace

    d = rng.choice([1, 2, 3])
    lo, hi, pr = [], [], []
    for _ in range(d):
        for _try in range(200):
            p = rng.choice([0.1, 0.05, 0.01, 0.3, 0.7, 0.15, 0.025])
            l = rng.choice([0.0, -0.3, 1.1, 0.1, -1.0, 0.2]) * rng.choice([1, 1, 3])
            n = rng.randint(2, 12)
            h = round(l + n * p, 10)
            g = np.arange(l, h + 1e-7, p)
            if len(g) >= 2 and g[-1] != h and abs(g[-1] - h) < 1e-9:
                break
        lo.append(float(l)); hi.append(float(h)); pr.append(float(p))
    chk.count("space:edge_ulp")
    return SearchSpace([lo, hi], pr, False), [lo, hi], pr


def gen_history(rng, sp, n, top=False):
    if top:   # points on the last two grid values of every parameter, the best losses on the top edge
        pts = np.zeros((n, sp.dims))
        for j, g in enumerate(sp.param_grid):
            pts[:, j] = [g[-1 - rng.choice([0, 0, 1])] for _ in range(n)]
        losses = np.array([rng.random() for _ in range(n)])
        return pts, losses
    return _gen_history(rng, sp, n)


def _gen_history(rng, sp, n):
    pts = np.zeros((n, sp.dims))
    for j, g in enumerate(sp.param_grid):
        pts[:, j] = [g[rng.randrange(len(g))] for _ in range(n)]
    losses = np.array([rng.choice([rng.random(), rng.random() * 5, 1.0, 1.0, 0.25]) for _ in range(n)])
    return pts, losses


@contextlib.contextmanager
def recording_snaps():
    import importlib
    rec = []
    mods = [importlib.import_module(f"black_it.samplers.{m}") for m in SNAP_MODULES]
    mods = [m for m in mods if hasattr(m, "digitize_data")]     # a module that no longer snaps shows up as a missing final snap below
    origs = [m.digitize_data for m in mods]

    def make(orig):
        def wrapped(data, grid):
            out = orig(data, grid)
            rec.append((np.array(data, copy=True), out, np.array(out, copy=True)))
            return out
        return wrapped

    for m, o in zip(mods, origs):
        m.digitize_data = make(o)
    try:
        yield rec
    finally:
        for m, o in zip(mods, origs):
            m.digitize_data = o


def member(grid_hex_sets, row) -> list[int]:
    return [j for j, v in enumerate(row) if f2h(v) not in grid_hex_sets[j]]


def run(chk: Check):
    rng = chk.rng
    chk.rule = ("for each of the nine built-in samplers: random search spaces (1-6 parameters, bounds of either sign, scales 1e-6..1e6, aligned and non-aligned "
                "upper bounds), on-grid histories with ties, random seeds, 1-5 successive sample() calls on one object; digitize_data is wrapped in every sampler "
                "module to record what is snapped. non-trivial = non-aligned space or >= 2 successive calls")
    chk.trusted_base = ["Lean 4.33 kernel", "C17/C12/C15 theorems", "numpy Generator.choice(a) returns elements of a", "third-party optimisers/surrogates are arbitrary functions (not modelled)",
                        "harness/props/c03.py"]
    chk.assumptions = ["theorems are parametric in the raw proposal; the tie to the code is: what sample_batch returns IS the output of its final digitize_data call (checked by identity and bits), "
                       "and for random-uniform every value is bit-equal to a grid element"]
    chk.proof_stage(PROP_FILE)
    reqs, metas = [], []
    reused = {}
    n_spaces = 12 if chk.tier == "quick" else 150
    for si in range(n_spaces + max(4, n_spaces // 3)):
        edge = si >= n_spaces      # targeted stream: grids that end one rounding error away from the declared bound
        sp, bounds, prec = gen_edge_space(rng, chk) if edge else gen_space(rng, chk, force_offset=si % 4 == 1)
        tiny = (not edge) and si % 4 == 3
        if tiny:
            # a search space with fewer grid points than some batch sizes (2-9 points in all)
            from black_it.search_space import SearchSpace
            d = rng.randint(1, 2)
            prec = [rng.choice([0.5, 1.0]) for _ in range(d)]
            bounds = [[0.0] * d, [p * rng.randint(1, 2) for p in prec]]
            sp = SearchSpace(bounds, prec, False)
            chk.count("space:tiny")
        if (not edge) and (si % 6 == 0 or si % 6 == 5):
            # parameters whose grids look alike: same number of points, element-wise within the usual "close enough" tolerances
            # (rtol 1e-5 / atol 1e-8), but different values: tiny scales, or nearly coinciding offsets
            from black_it.search_space import SearchSpace
            n = rng.randint(4, 20)
            if si % 6 == 5:
                # the same bounds and precisions that differ in their last bits (0.1 and 0.3/3, 0.2 and 0.6/3, ...): grids of the same length with the same first and
                # last point whose interior points differ by an ulp here and there - each coordinate still belongs to ITS parameter's grid
                from black_it.search_space import SearchSpace
                combos = [(h, q) for h in (10.0, 1.0, 5.0, 2.0) for q in (0.1, 0.2, 0.05, 0.01, 0.02, 0.3, 0.7)]
                rng.shuffle(combos)
                twins, others = [], []
                for hi_c, pa in combos:
                    cands = [pa, float(np.nextafter(pa, 0.0)), (3.0 * pa) / 3.0, (pa * 7.0) / 7.0, float(np.nextafter(pa, 1.0)), (pa / 3.0) * 3.0]
                    grids_c = {c: SearchSpace([[0.0], [hi_c]], [c], False).param_grid[0] for c in set(cands)}
                    g0 = grids_c[pa]
                    twins = [c for c in cands[1:] if c != pa and len(grids_c[c]) == len(g0) and grids_c[c][0] == g0[0] and grids_c[c][-1] == g0[-1] and np.any(grids_c[c] != g0)]
                    others = [c for c in cands[1:] if c != pa and c not in twins]
                    if twins:
                        break
                prec = [pa] + (twins[: rng.randint(1, 2)] if twins else others[:1])
                bounds = [[0.0] * len(prec), [hi_c] * len(prec)]
                chk.count("space:look-alike_grids:same_length_and_end_points_other_interior" if twins else "space:look-alike_grids:ulp_apart_other_ends")
                chk.count("space:look-alike_grids:precisions_an_ulp_apart")
            elif rng.random() < 0.5:
                u = 10.0 ** rng.randint(-12, -10)
                steps = rng.sample([1.0, 2.0, 3.0, 5.0, 7.0], rng.randint(2, 3))
                prec = [u * k for k in steps]
                bounds = [[0.0] * len(prec), [p * n for p in prec]]
            else:
                base = rng.choice([1000.0, -250.0, 4096.0]); p0 = rng.choice([0.1, 0.25, 0.5])
                shifts = [0.0] + [rng.choice([0.001, 0.002, -0.0015]) for _ in range(rng.randint(1, 2))]
                prec = [p0] * len(shifts)
                bounds = [[base + sft for sft in shifts], [base + sft + n * p0 for sft in shifts]]
            sp = SearchSpace(bounds, prec, False)
            tiny = False
            chk.count("space:look-alike_grids")
        int_hist = (not edge) and si % 4 == 2
        if int_hist:
            from black_it.search_space import SearchSpace
            d = rng.randint(1, 3)
            prec = [rng.choice([2.5, 1.5, 0.4, 0.5, 1.25]) for _ in range(d)]
            lo = [float(rng.randint(-5, 5)) for _ in range(d)]
            bounds = [lo, [l + p * rng.randint(4, 12) for l, p in zip(lo, prec)]]
            sp = SearchSpace(bounds, prec, False)
        grid_ref = [np.array(g, copy=True) for g in sp.param_grid]
        if si % 2 == 1:
            # the caller goes on using (overwrites in place) the very lists / arrays it passed to SearchSpace, before anything was sampled:
            # the space the samplers see is still the one that was declared
            from black_it.search_space import SearchSpace
            from props.c15 import scramble
            import copy as _copy
            b_in = np.array(bounds) if si % 4 == 1 else _copy.deepcopy(bounds)
            p_in = np.array(prec) if si % 4 == 1 else _copy.deepcopy(prec)
            sp_declared = sp
            sp = SearchSpace(b_in, p_in, False)
            scramble(b_in); scramble(p_in)
            chk.count("space:arguments_overwritten_by_the_caller_after_construction")
            try:
                same = len(sp.param_grid) == len(grid_ref) and all(np.asarray(a).tobytes() == b.tobytes() for a, b in zip(sp.param_grid, grid_ref))
            except Exception:  # noqa: BLE001
                same = False
            if not same:
                # every sampler snaps onto this grid: the first proposal of any of them lies off the declared grid
                from black_it.samplers.random_uniform import RandomUniformSampler
                try:
                    pt = RandomUniformSampler(batch_size=1, random_state=0).sample(sp, np.zeros((0, len(grid_ref))), np.zeros(0))[0].tolist()
                except Exception as e:  # noqa: BLE001
                    pt = f"{type(e).__name__}: {e}"
                chk.fail(f"the search space declared with bounds {bounds} and precision {prec} hands the samplers another grid once the caller has overwritten the "
                         f"{'arrays' if si % 4 == 1 else 'lists'} it passed to the constructor (before anything was sampled); RandomUniformSampler then proposes {pt}",
                         {"case": {"kind": "space_args_reused", "bounds": bounds, "precision": prec, "arrays": si % 4 == 1}})
                sp = sp_declared
        gsets = [{f2h(v) for v in g.tolist()} for g in grid_ref]
        for name in NAMES:
            if name in ("GaussianProcessSampler", "CORSSampler") and sp.dims > 4 and chk.tier == "quick":
                continue
            bs = rng.randint(1, 4) if not tiny else rng.randint(3, 7)
            if tiny and si % 8 == 3 and name in ("GaussianProcessSampler", "RandomForestSampler", "XGBoostSampler", "BestBatchSampler", "RandomUniformSampler"):
                bs = int(sp.space_size) + rng.randint(1, 2)          # more points asked for than the space has: still batch_size rows, all on the grid
                chk.count("batch_size:above_the_number_of_grid_points")
            opts = ch.random_opts(name, rng) if rng.random() < 0.6 else ch.SMALL_OPTS.get(name)
            if tiny:
                # default candidate pool (the option left at None), everything else small for speed
                opts = {k: v for k, v in (ch.SMALL_OPTS.get(name) or {}).items() if k != "candidate_pool_size"}
                if name in ("GaussianProcessSampler", "RandomForestSampler", "XGBoostSampler") and rng.random() < 0.6:
                    # ... or a pool barely larger than the batch: on a nearly explored space most of its draws are known points
                    opts["candidate_pool_size"] = bs + rng.randint(0, 2 * bs)
                    chk.count("tiny_space:small_candidate_pool")
            chk.count("options:" + ("random" if opts is not ch.SMALL_OPTS.get(name) else "default"))
            if name != "ParticleSwarmSampler" and name in reused and rng.random() < 0.4 and not tiny:
                # a sampler object that has already served other search spaces (of other dimensions); the swarm sampler is excluded, it
                # documents that it must be reset() between spaces
                smp = reused[name]; bs = int(smp.batch_size)
                chk.count("sampler_object:reused_across_spaces")
            else:
                smp = ch.make_builtin(name, bs, opts, rng.randrange(10 ** 6))
                reused[name] = smp
            pts, losses = gen_history(rng, sp, rng.randint(max(bs, 4), 14), top=edge)
            if tiny:
                # a nearly exhausted space: the history holds every point of the grid except u of them, 0 <= u <= batch size (fewer points left than one batch
                # asks for, exactly as many, or none): the batch still has batch_size rows
                import itertools
                allp = [list(t) for t in itertools.product(*[g.tolist() for g in grid_ref])]
                rng.shuffle(allp)
                u = rng.randint(0, min(bs, len(allp) - 1))
                keep = allp[u:]
                pts = np.array(keep + [list(rng.choice(keep)) for _ in range(max(rng.randint(0, 2), bs - len(keep)))], dtype=float)   # (best-batch needs >= batch_size rows)
                losses = np.array([rng.random() * 3 for _ in range(len(pts))])
                chk.count(f"tiny_space:points_left_unexplored={'0' if u == 0 else '<batch' if u < bs else '=batch'}")
            if int_hist:
                # an on-grid history whose values are whole numbers, held in an integer-dtype array (a hand-made initial design)
                whole = [np.array([v for v in g.tolist() if float(v).is_integer()]) for g in sp.param_grid]
                pts = np.array([[int(rng.choice(w.tolist())) for w in whole] for _ in range(len(pts))], dtype=np.int64)
                chk.count("history:integer_dtype")
            ncalls = rng.randint(1, 5 if name not in ("GaussianProcessSampler", "CORSSampler") else 2)
            if edge and name == "BestBatchSampler":
                ncalls = 6
            for call in range(ncalls):
                returned = []
                orig_sb = type(smp).sample_batch

                def sb(self, *a, _o=orig_sb, **k):
                    out = _o(self, *a, **k)
                    returned.append(out)
                    return out

                type(smp).sample_batch = sb
                try:
                    with recording_snaps() as rec, contextlib.redirect_stdout(io.StringIO()), warnings.catch_warnings():
                        warnings.simplefilter("ignore")
                        p0, l0 = pts.copy(), losses.copy()
                        try:
                            out = smp.sample(sp, pts, losses)
                        except Exception as e:  # noqa: BLE001
                            import traceback
                            import black_it as _bi
                            frames = traceback.extract_tb(e.__traceback__)
                            raised_in_library = bool(frames) and frames[-1].filename.startswith(str(Path(_bi.__file__).resolve().parent))
                            if name in ("GaussianProcessSampler", "CORSSampler", "RandomForestSampler", "XGBoostSampler") and not raised_in_library:
                                chk.count(f"skipped:{name}:{type(e).__name__}")      # third-party failure (e.g. GP on degenerate data) is not a C03 matter
                            else:
                                chk.fail(f"{name}.sample raised {type(e).__name__}: {str(e)[:100]} on an admissible space and history (no batch at all)",
                                         {"case": {"sampler": name, "bounds": bounds, "precision": prec, "batch_size": bs, "call": call}})
                            break
                finally:
                    type(smp).sample_batch = orig_sb
                case = {"case": {"sampler": name, "bounds": bounds, "precision": prec, "batch_size": bs, "call": call}}
                chk.case([name, bounds, prec, bs, call, pts.tolist()], call >= 1 or any((h - l) / p != round((h - l) / p) for l, h, p in zip(bounds[0], bounds[1], prec)),
                         {"sampler": name, "dims": sp.dims, "batch_size": bs, "call": call, "out": out[:2].tolist()})
                chk.count("sampler:" + name)
                if out.shape != (bs, sp.dims):
                    chk.fail(f"{name}.sample returned shape {out.shape}, expected ({bs},{sp.dims})", case)
                for row in out:
                    bad = member(gsets, row.tolist())
                    if bad:
                        chk.fail(f"{name}: coordinate {bad[0]} = {row[bad[0]]!r} is not an element of its parameter grid "
                                 f"(nearest {float(sp.param_grid[bad[0]][np.argmin(np.abs(sp.param_grid[bad[0]] - row[bad[0]]))])!r})", case)
                        break
                    if any(not (bounds[0][j] <= row[j] <= bounds[1][j] + max(1e-7, 2 * float(np.spacing(max(abs(bounds[0][j]), abs(bounds[1][j]))))) + 1e-13 + abs(bounds[1][j]) * 1e-12)
                           for j in range(sp.dims)):  # the code's end-point tolerance (1e-7, or two float gaps for huge bounds) + ulp slack for arange's own rounding
                        chk.fail(f"{name}: proposal {row.tolist()} outside the declared bounds", case)
                # mechanism conformance
                if name == "RandomUniformSampler":
                    if rec:
                        chk.disagree("RandomUniformSampler snapped something (model: identity on grid values)", {"sampler": name})
                else:
                    if len(rec) < len(returned):
                        chk.disagree(f"{name}.sample_batch returned without a final digitize_data call (model: finish = digitize)", {"sampler": name, "snaps": len(rec), "calls": len(returned)})
                    else:
                        # every sample_batch return value must be the output of a recorded snap
                        outs = [o for _, o, _ in rec]
                        for r in returned:
                            if not any(r is o or (r.shape == o.shape and r.tobytes() == o.tobytes()) for o in outs):
                                chk.disagree(f"{name}.sample_batch returned an array that is not the output of digitize_data", {"sampler": name})
                        for data, _, o in rec[-2:]:
                            if data.size and data.shape[1] == sp.dims:
                                reqs.append(f"snap.digitize {sp.dims} " + " ".join(fl(g) for g in sp.param_grid) + f" {data.shape[0]} " + " ".join(f2h(x) for x in data.flatten().tolist()))
                                metas.append((name, o))
                # history untouched (C16 checks this in depth)
                if p0.tobytes() != pts.tobytes() or l0.tobytes() != losses.tobytes():
                    chk.fail(f"{name} modified the history passed to it", case)
                # grow the history with the proposals
                pts = np.vstack([pts, out]); losses = np.concatenate([losses, [rng.random() for _ in range(len(out))]])
    answers = lean_run(reqs) if reqs else []
    for (name, o), ans in zip(metas, answers):
        impl = " ".join(f2h(x) for x in o.flatten().tolist())
        if impl != ans:
            chk.disagree(f"{name}: recorded digitize_data output != BlackIt.Snap.digitize on the recorded input", {"sampler": name, "impl": impl[:200], "model": ans[:200]})
    chk.count("snap_calls_replayed_on_model", len(reqs))


def replay(path: Path) -> int:
    import os, subprocess, sys
    r = json.loads(path.read_text())
    print("C03 replay: cases are determined by VERIF_SEED; re-running the check with the recorded seed")
    return subprocess.call([sys.executable, str(Path(__file__).resolve().parents[1] / "check.py"), "C03", "--tier", r.get("tier", "quick")],
                           env=dict(os.environ, VERIF_SEED=str(r.get("seed", 0))))
