"""C20 — HP filter, derived filters and the 18-moment summary on the real code."""
from __future__ import annotations

import json
import warnings
from fractions import Fraction
from pathlib import Path

import numpy as np

from vp import refloss as ref
from vp.core import LEAN, Check

MODULE = "BlackIt.Properties.C20"
PROP_FILE = LEAN / "BlackIt/Properties/C20.lean"
EPS = 2.0 ** -52


def gen_series(rng, n, shape):
    prng = np.random.default_rng(rng.randrange(10 ** 9))
    if shape == "constant":
        return np.full(n, rng.choice([0.0, 1.0, -3.5, 1e6]))
    if shape == "linear":
        return rng.uniform(-2, 2) + rng.uniform(-1, 1) * np.arange(n, dtype=float)
    if shape == "alternating":
        return np.array([(-1.0) ** t for t in range(n)]) * rng.uniform(0.1, 10) + rng.uniform(-1, 1)
    if shape == "two_valued":
        return prng.integers(0, 2, n).astype(float) * rng.uniform(0.5, 3)
    if shape == "huge":
        return np.cumsum(prng.standard_normal(n)) * 1e150
    return np.cumsum(prng.standard_normal(n)) * rng.choice([1.0, 1e-3, 1e3])


def hp_matrix_apply(trend, lam):
    """(I + lam K'K) trend with the (n-2) x n second-difference operator, computed directly"""
    n = len(trend)
    d2 = trend[:-2] - 2 * trend[1:-1] + trend[2:]
    out = trend.copy()
    out[:-2] += lam * d2
    out[1:-1] += lam * (-2 * d2)
    out[2:] += lam * d2
    return out


def exact_hp(y, lam: Fraction):
    n = len(y)
    A = [[Fraction(0)] * n for _ in range(n)]
    for i in range(n):
        A[i][i] += 1
    for r in range(n - 2):
        st = [(r, Fraction(1)), (r + 1, Fraction(-2)), (r + 2, Fraction(1))]
        for i, a in st:
            for j, b in st:
                A[i][j] += lam * a * b
    b = [Fraction(v) for v in y]
    for c in range(n):                       # Gaussian elimination (the matrix is positive definite: no pivoting needed)
        piv = A[c][c]
        for r in range(c + 1, min(c + 3, n)):
            f = A[r][c] / piv
            if f:
                for k in range(c, min(c + 3, n)):
                    A[r][k] -= f * A[c][k]
                b[r] -= f * b[c]
    x = [Fraction(0)] * n
    for r in range(n - 1, -1, -1):
        s = b[r] - sum(A[r][k] * x[k] for k in range(r + 1, min(r + 3, n)))
        x[r] = s / A[r][r]
    return x


def run(chk: Check):
    from black_it.utils.time_series import diff_log_demean_filter, get_mom_ts_1d, hp_cycle_lamb1600_filter, hp_filter, log_and_hp_filter

    rng = chk.rng
    chk.rule = ("hp_filter on series of length 3-2000 (constant, linear, alternating, random walk, two-valued), lambda log-uniform in [1e-3, 1e7]: residual of the optimality "
                "condition, cycle+trend-y, and comparison with an exact rational solve for n <= 40 on dyadic data; the three derived filters against their definitions; "
                "get_mom_ts_1d on finite series of length 8-2000 incl. constant, two-valued and 1e150-scaled. non-trivial = non-linear shape (a linear series is its own trend)")
    chk.trusted_base = ["Lean 4.33 kernel", "Mathlib (Matrix.PosDef, nonsingular inverse)", "scipy spsolve / statsmodels acf / scipy skew, kurtosis: numerical kernels, validated by residuals and an "
                        "independent reference with tolerance, not proved", "harness/props/c20.py"]
    chk.assumptions = ["the theorem says the optimality condition has exactly one solution; that spsolve returns it is checked numerically: residual <= 1e3*eps*(1+16*lambda)*max|y|"]
    chk.proof_stage(PROP_FILE)
    n_hp = 120 if chk.tier == "quick" else 2000
    history = []
    calls_log = []   # (length, lambda) of every hp_filter call made so far in this process: the filter must not depend on them
    held = []        # (object, its bytes when it was returned / handed over, what it is): results a caller still holds while it goes on filtering
    prev = None
    for it in range(n_hp):
        n = rng.choice([3, 4, 5, 8, 17, 40, 100, 333, 1000, 2000, rng.randint(3, 2000)])
        shape = rng.choice(["walk", "walk", "alternating", "linear", "constant", "two_valued"])
        lam = 10.0 ** rng.uniform(-3, 7)
        if prev is not None and it % 3 == 1:
            n, lam = prev[0], prev[1]          # another series of the same length with the same lambda (what a calibration does thousands of times)
            chk.count("hp:same_length_and_lambda_as_the_previous_call")
        y = gen_series(rng, n, shape) * rng.choice([1.0, 1.0, 1e-8, 1e8, -3.0]) + rng.choice([0.0, 0.0, 1e4])
        if prev is not None and it % 9 == 4 and len(prev[2]) == n:
            y = prev[2]                        # the trend returned by the previous call, filtered once more with the same lambda
            shape = "previous_trend"
            chk.count("hp:previous_trend_filtered_again")
        lam_arg = lam
        if it % 4 == 2:
            # the smoothing parameter as a caller may hold it: an element of a float32 / float16 array of candidate values, a numpy integer (a positive lambda all the same)
            kind_l = ["float32", "float16", "int64", "int16", "float32"][(it // 4) % 5]
            if kind_l in ("int64", "int16"):
                lam_arg = getattr(np, kind_l)(max(1, min(int(lam), 30000)))
            elif kind_l == "float16":
                lam_arg = np.float16(min(lam, 6.0e4))
            else:
                lam_arg = np.float32(lam)
            lam = float(lam_arg)
            chk.count("hp:lambda_type:" + kind_l)
        case = {"case": {"kind": "hp", "n": n, "shape": shape, "lambda": lam, "lambda_type": type(lam_arg).__name__}}
        y_in = y if shape == "previous_trend" else y.copy()
        y = y.copy()
        case["case"]["earlier_calls_n_lambda"] = list(calls_log[-12:])
        calls_log.append((n, lam))
        try:
            with warnings.catch_warnings():
                warnings.simplefilter("ignore")
                cycle, trend = hp_filter(y_in, lam_arg)
        except Exception as e:  # noqa: BLE001  (no cycle and trend at all on an admissible input: the property fails on this input)
            chk.fail(f"hp_filter raised {type(e).__name__}: {str(e)[:80]} on a finite series of length {n} >= 3 with lambda {lam!r} > 0 "
                     f"(lengths and lambdas of the calls made before in this process: {calls_log[-7:-1]})", case)
            continue
        if y_in.tobytes() != y.tobytes():
            chk.fail("hp_filter modified the series it was given", case)
        for obj, snap, what in held:
            if obj.tobytes() != snap:
                chk.fail(f"a later hp_filter call (n={n}, lambda={lam!r}) changed {what} of an earlier call that the caller still holds", case)
        held = held[-6:] + [(cycle, cycle.tobytes(), "the cycle"), (trend, trend.tobytes(), "the trend")]
        prev = (n, lam, trend)
        chk.case(["hp", n, shape, lam, y[:5].tolist()], shape in ("walk", "alternating", "two_valued"), {"n": n, "shape": shape, "lambda": lam, "trend_head": trend[:3].tolist()})
        chk.count("hp:" + shape); chk.count("numeric_tolerance_cases")
        scale = max(float(np.max(np.abs(y))), 1e-300)
        if len(cycle) != n or len(trend) != n:
            chk.fail("hp_filter changed the length of the series", case); continue
        if not (np.all(np.isfinite(trend)) and np.all(np.isfinite(cycle))):
            chk.fail(f"hp_filter returned non-finite values on a finite series (n={n}, lambda={lam!r})", case); continue
        if len(history) < 40:
            history.append((y.copy(), lam, cycle.tobytes(), trend.tobytes(), case))
        if np.max(np.abs((cycle + trend) - y)) > 4 * EPS * scale:
            chk.fail(f"cycle + trend differs from the input by {float(np.max(np.abs((cycle + trend) - y)))!r}", case)
        res = np.max(np.abs(hp_matrix_apply(trend, lam) - y))
        if not (res <= 1e3 * EPS * (1 + 16 * lam) * scale):
            chk.fail(f"trend violates the HP optimality condition (I + lambda K'K) trend = y: residual {float(res)!r} for max|y| {scale!r}, lambda {lam!r}", case)
    # no dependence on earlier calls: the same (series, lambda) filtered again after all the calls above gives the same bits
    for y, lam, cb, tb, case in history:
        try:
            with warnings.catch_warnings():
                warnings.simplefilter("ignore")
                c2, t2 = hp_filter(y.copy(), lam)
        except Exception as e:  # noqa: BLE001
            chk.fail(f"hp_filter depends on earlier calls: the same series (length {len(y)}) and lambda {lam!r} that were filtered before now raise {type(e).__name__}: {str(e)[:80]}", case)
            continue
        chk.count("hp:repeat_after_other_calls")
        if c2.tobytes() != cb or t2.tobytes() != tb:
            chk.fail(f"hp_filter depends on earlier calls: the same series and lambda give a different result when filtered again (max diff {float(np.max(np.abs(t2 - np.frombuffer(tb)))):.3g})", case)
    # two threads filtering series of the SAME length at the same time (the calibrator's loss may be evaluated by a thread pool; a user may filter in threads):
    # every call returns what it returns when nothing else is going on
    import threading
    for n_thr in ([400] if chk.tier == "quick" else [400, 64, 1500]):
        ya, yb = gen_series(rng, n_thr, "walk"), gen_series(rng, n_thr, "alternating") * 3.0 + 1.0
        la, lb = 1600.0, 10.0 ** rng.uniform(-2, 5)
        ref_a, ref_b = hp_filter(ya.copy(), la), hp_filter(yb.copy(), lb)
        wrong = []

        def worker(y, lam_w, ref, tag):
            for k in range(150):
                c_w, t_w = hp_filter(y.copy(), lam_w)
                if c_w.tobytes() != ref[0].tobytes() or t_w.tobytes() != ref[1].tobytes():
                    wrong.append((tag, k, float(np.max(np.abs(t_w - ref[1])))))
                    return
        ths = [threading.Thread(target=worker, args=(ya, la, ref_a, "A")), threading.Thread(target=worker, args=(yb, lb, ref_b, "B"))]
        with warnings.catch_warnings():
            warnings.simplefilter("ignore")
            for t in ths:
                t.start()
            for t in ths:
                t.join()
        chk.case(["hp-threads", n_thr, la, lb], True, {"n": n_thr, "lambdas": [la, lb], "calls_per_thread": 150}); chk.count("hp:two_threads_same_length")
        if wrong:
            tag, k, dev = wrong[0]
            chk.fail(f"hp_filter called from two threads at the same time on series of the same length {n_thr} (lambda {la!r} and {lb!r}): call {k} of thread {tag} returned a trend that "
                     f"differs from the single-threaded result by {dev!r}", {"case": {"kind": "hp_threads", "n": n_thr, "lambdas": [la, lb]}})
    # exact rational solve on small dyadic inputs
    for _ in range(25 if chk.tier == "quick" else 300):
        n = rng.randint(3, 40)
        y = np.array([rng.randint(-64, 64) / 8.0 for _ in range(n)])
        lam = float(2.0 ** rng.randint(-6, 12))
        try:
            with warnings.catch_warnings():
                warnings.simplefilter("ignore")
                cycle, trend = hp_filter(y.copy(), lam)
        except Exception as e:  # noqa: BLE001
            chk.fail(f"hp_filter raised {type(e).__name__}: {str(e)[:80]} on a dyadic series of length {n} with lambda {lam}", {"case": {"kind": "hp_exact", "n": n, "lambda": lam, "y": y.tolist()}})
            continue
        if not np.all(np.isfinite(trend)):
            chk.fail(f"hp_filter returned non-finite values on a finite series (n={n}, lambda={lam})", {"case": {"kind": "hp_exact", "n": n, "lambda": lam, "y": y.tolist()}})
            continue
        ex = exact_hp(y.tolist(), Fraction(lam))
        err = max(abs(Fraction(float(t)) - e) for t, e in zip(trend, ex))
        chk.case(["hp_exact", n, lam, y.tolist()], True, {"n": n, "lambda": lam, "max_abs_error_vs_exact": float(err)})
        chk.count("hp_exact_rational")
        if err > Fraction(1e3 * EPS * (1 + 16 * lam) * max(1.0, float(np.max(np.abs(y))))):
            chk.fail(f"hp trend differs from the exact rational solution by {float(err)!r} (n={n}, lambda={lam})", {"case": {"kind": "hp_exact", "n": n, "lambda": lam, "y": y.tolist()}})
    # derived filters
    for it in range(40 if chk.tier == "quick" else 500):
        n = rng.choice([3, 5, 20, 100, 500, rng.randint(3, 2000)])
        y = np.exp(gen_series(rng, n, rng.choice(["walk", "alternating", "linear", "constant"])) * 0.05) * rng.choice([1.0, 100.0, 1.0, 1e-9, 1e-20, 1e-300, 1e6, 1e200])
        if rng.random() < 0.15:
            y = np.exp(-0.4 * np.arange(n)) * rng.choice([1.0, 1e5])       # a quantity that dies out: values far below machine epsilon, still positive
            y = np.maximum(y, 5e-324)
        if rng.random() < 0.12 and n >= 4:
            # jumps of hundreds of decades between consecutive values: every log and every log difference is finite, a quotient is not
            y = y.copy()
            for _ in range(rng.randint(1, 3)):
                j = rng.randrange(n - 1)
                y[j], y[j + 1] = rng.choice([(1e-200, 1e200), (1e250, 1e-100), (5e-324, 1e300), (1e308, 1e-308)])
        y = np.clip(y, 5e-324, 1.7e308)
        if it % 5 == 4:
            # head counts: a positive, visibly varying series held in an integer (or float32) array; every dtype on every run
            y = np.exp(gen_series(rng, n, "walk") * 0.05) * rng.choice([10.0, 100.0, 1000.0])
            y = (np.round(np.clip(y, 1.0, 1e6) * rng.choice([1, 7, 100])) + 1).astype([np.int64, np.int32, np.float32][(it // 5) % 3])
            chk.count("filters:dtype:" + str(y.dtype))
        try:
            with warnings.catch_warnings():
                warnings.simplefilter("ignore")
                a = hp_cycle_lamb1600_filter(y.copy()); a_ref = hp_filter(y.copy(), 1600)[0]
                b = log_and_hp_filter(y.copy()); b_ref = np.log(y) - hp_filter(np.log(y), 1600)[1]
                c = diff_log_demean_filter(y.copy())
        except Exception as e:  # noqa: BLE001
            if np.all(np.isfinite(y)) and np.all(y > 0):
                chk.fail(f"a time-series filter raised {type(e).__name__}: {str(e)[:80]} on a finite positive series of length {n} (dtype {y.dtype})",
                         {"case": {"kind": "filters", "n": n, "dtype": str(y.dtype), "head": y[:6].tolist()}})
            continue
        lg = np.log(y.astype(np.float64))
        if not (np.all(np.isfinite(y)) and np.all(y > 0)):
            continue      # outside the quantifier (finite positive series); the generator clips, this is a guard
        with np.errstate(all="ignore"):
            c_ref = np.concatenate([[0.0], lg[1:] - lg[:-1]]); c_ref = c_ref - np.mean(c_ref)
        chk.case(["filters", n, y[:4].tolist()], True, {"n": n})
        chk.count("derived_filters")
        case = {"case": {"kind": "filters", "n": n}}
        if a.tobytes() != a_ref.tobytes():
            chk.fail("hp_cycle_lamb1600_filter is not the cycle of hp_filter at lambda 1600", case)
        if b.tobytes() != b_ref.tobytes():
            chk.fail("log_and_hp_filter is not log(x) minus the HP trend of log(x) at lambda 1600", case)
        ctol = 1e-12 if y.dtype != np.float32 else 1e-5          # a float32 input is legitimately processed in single precision
        if len(c) != n or not np.all(np.isfinite(c)) or not (np.max(np.abs(c - c_ref)) <= ctol * max(1.0, float(np.max(np.abs(lg))))):
            chk.fail("diff_log_demean_filter is not the de-meaned first difference of the log (same length)", case)
        if not (abs(float(np.mean(c))) <= ctol * max(1.0, float(np.max(np.abs(c))))):
            chk.fail(f"diff_log_demean_filter output has mean {float(np.mean(c))!r}, not zero", case)
    # what a caller may have done before: handed one of the filters a series it cannot take (a quantity that hit zero, a negative level) and caught
    # or ignored the outcome. Nothing of that may linger in the process: numpy's error handling is as it was, and the admissible calls that
    # follow (the moment summary of constant / linear / alternating series divides 0 by 0 internally) behave as ever
    err0 = np.geterr()
    for bad_series in (np.array([1.0, 2.0, 0.0, 3.0, 4.0, 5.0, 6.0, 7.0, 8.0]), np.array([3.0, -1.0, 2.0, 5.0, 1.0, 2.0, 3.0, 4.0, 5.0]), np.zeros(12)):
        for fn in (log_and_hp_filter, diff_log_demean_filter, hp_cycle_lamb1600_filter):
            with warnings.catch_warnings():
                warnings.simplefilter("ignore")
                try:
                    fn(bad_series.copy())
                except Exception:  # noqa: BLE001  (an inadmissible series: whatever happens is the caller's business)
                    pass
            chk.count("after_an_inadmissible_series")
            if np.geterr() != err0:
                case = {"case": {"kind": "errstate", "filter": fn.__name__, "series": bad_series.tolist()}}
                try:
                    with warnings.catch_warnings():
                        warnings.simplefilter("ignore")
                        m = get_mom_ts_1d(np.full(20, 3.0))
                    if len(m) != 18 or not np.all(np.isfinite(m)):
                        chk.fail(f"after {fn.__name__} was handed a series with a non-positive value, the moment summary of a constant series is not 18 finite numbers: {m.tolist()}", case)
                    else:
                        chk.disagree(f"{fn.__name__} left numpy's error handling changed for the rest of the process: {np.geterr()} (was {err0})", case)
                except Exception as e:  # noqa: BLE001
                    chk.fail(f"after {fn.__name__} was handed a series with a non-positive value (numpy error handling left at {np.geterr()}), the moment summary of a "
                             f"constant series raises {type(e).__name__}: {str(e)[:80]} instead of being 18 finite numbers", case)
                np.seterr(**err0)
    # moment summary: finite, and equal to the reference moments
    for _ in range(60 if chk.tier == "quick" else 800):
        n = rng.choice([8, 9, 12, 30, 200, 2000, rng.randint(8, 2000)])
        shape = rng.choice(["walk", "constant", "two_valued", "alternating", "linear", "huge"])
        y = gen_series(rng, n, shape)
        with warnings.catch_warnings(), np.errstate(all="ignore"):
            warnings.simplefilter("ignore")
            m = get_mom_ts_1d(y.copy())
        chk.case(["mom", n, shape, y[:4].tolist()], shape != "linear", {"n": n, "shape": shape, "moments_head": m[:4].tolist()})
        chk.count("moments:" + shape)
        case = {"case": {"kind": "moments", "n": n, "shape": shape}}
        if len(m) != 18 or not np.all(np.isfinite(m)):
            chk.fail(f"moment summary is not 18 finite numbers: {m.tolist()}", case)
        elif shape == "walk" and n <= 200:      # well-conditioned data only: on degenerate series skewness/kurtosis are 0/0 up to rounding
            want = ref.moments18(y.tolist())
            bad = [k for k in range(18) if abs(m[k] - want[k]) > 1e-6 * max(1.0, abs(want[k]))]
            if bad:
                chk.fail(f"moment {bad[0]} = {float(m[bad[0]])!r}, definition gives {want[bad[0]]!r}", case)


def replay(path: Path) -> int:
    import os, subprocess, sys
    r = json.loads(path.read_text())
    print("C20 replay: cases are determined by VERIF_SEED; re-running the check with the recorded seed")
    return subprocess.call([sys.executable, str(Path(__file__).resolve().parents[1] / "check.py"), "C20", "--tier", r.get("tier", "quick")],
                           env=dict(os.environ, VERIF_SEED=str(r.get("seed", 0))))
