"""C02 — aligned, truthful, append-only history: real `Calibrator` vs `BlackIt.Calibrator` + invariant oracle."""
from __future__ import annotations

import json
import warnings
from pathlib import Path

import numpy as np

from vp import calharness as ch
from vp.core import LEAN, Check, f2h, lean_run

MODULE = "BlackIt.Properties.C02"
PROP_FILE = LEAN / "BlackIt/Properties/C02.lean"


def oracle_history(scn: ch.Scn, cal, order, loss_of, tape, burn_total) -> list[str]:
    """C02's statement evaluated on the real object. `order` = recorded sample() calls in order."""
    errs = []
    n = cal.n_sampled_params
    E, N, d = scn.ensemble, scn.simlen, scn.dims
    if not (len(cal.params_samp) == len(cal.losses_samp) == len(cal.series_samp) == len(cal.batch_num_samp) == len(cal.method_samp) == n):
        errs.append(f"record lengths differ: params {len(cal.params_samp)}, losses {len(cal.losses_samp)}, series {len(cal.series_samp)}, "
                    f"batch {len(cal.batch_num_samp)}, method {len(cal.method_samp)}, counter {n}")
        return errs
    if cal.series_samp.shape[1:] != (E, N, 1):
        errs.append(f"series shape {cal.series_samp.shape}")
        return errs
    seeds = []
    for i in range(n):
        for e in range(E):
            m = cal.series_samp[i, e]
            if [f2h(x) for x in m[:d, 0]] != [f2h(x) for x in cal.params_samp[i]]:
                errs.append(f"row {i} member {e}: series was simulated at {m[:d, 0].tolist()} but the row records {cal.params_samp[i].tolist()}")
            if int(m[d, 0]) != N:
                errs.append(f"row {i}: simulated with length {int(m[d, 0])}, configured {N}")
            seeds.append(int(m[d + 1, 0]))
        want = loss_of(cal.params_samp[i])
        got = float(cal.losses_samp[i])
        if f2h(want) != f2h(got):
            errs.append(f"row {i}: recorded loss {got!r} but the loss function gives {want!r} for its series")
    if len(set(seeds)) != len(seeds) and len(seeds) < 1000:
        errs.append("a simulation seed was used twice")
    # batches
    pos, b = 0, 0
    done = [o for o in order]
    for (obj, cname, bs, rows) in done:
        if pos >= n:
            break
        k = len(rows)
        if pos + k > n:
            break
        if not np.array_equal(cal.params_samp[pos:pos + k], rows):
            errs.append(f"batch {b}: recorded parameters are not what sampler {cname} proposed")
        if list(cal.batch_num_samp[pos:pos + k]) != [b] * k:
            errs.append(f"batch {b}: batch labels {list(cal.batch_num_samp[pos:pos + k])}")
        want_id = cal.samplers_id_table.get(cname)
        if list(cal.method_samp[pos:pos + k]) != [want_id] * k:
            errs.append(f"batch {b}: sampler labels {list(cal.method_samp[pos:pos + k])} but designated sampler {cname} has id {want_id}")
        pos += k; b += 1
    if pos != n and not scn.faults:
        errs.append(f"history has {n} rows but completed sample() calls account for {pos}")
    return errs


def snapshot(cal):
    return [np.array(a, copy=True) for a in (cal.params_samp, cal.losses_samp, cal.series_samp, cal.batch_num_samp, cal.method_samp)]


def run_with_oracle(chk: Check, scn: ch.Scn, label: str):
    """run scenario op by op on the real code with the invariant oracle after every calibrate"""
    import contextlib, io
    from black_it.calibrator import Calibrator

    errs = []
    orig = Calibrator.calibrate
    state = {}

    def loss_of(theta):
        key = tuple(f2h(x) for x in theta)
        if scn.loss_fn:
            return ch.LOSS_FNS[scn.loss_fn](np.asarray(theta))
        return ch.STATE["loss_table"].get(key, ch.STATE["loss_default"])

    def wrapped(self, n):
        before = snapshot(self)
        try:
            out = orig(self, n)
        finally:
            after = snapshot(self)
            for nm, a, b2 in zip(("params", "losses", "series", "batch labels", "sampler labels"), before, after):
                if len(b2) < len(a) or a.tobytes() != b2[:len(a)].tobytes():
                    errs.append(f"append-only violated: previously recorded {nm} changed")
            for shp, byt in ch.STATE.get("real_args", set()):
                if byt != np.ascontiguousarray(self.real_data).tobytes():
                    errs.append(f"a loss was computed against an array of shape {shp} that is not the real data (shape {self.real_data.shape})")
                    break
            rec = ch.STATE.get("_rec")
            if rec is not None:
                errs.extend(oracle_history(scn, self, rec.get("_order", []), loss_of, None, None))
        p, l = out
        l = np.asarray(l, dtype=float)
        with np.errstate(invalid="ignore"):
            if np.any(l[1:] < l[:-1]):
                errs.append("calibrate() return value is not sorted by increasing loss")
        hist = sorted((tuple(f2h(x) for x in r), f2h(v)) for r, v in zip(self.params_samp.tolist(), np.asarray(self.losses_samp, dtype=float).tolist()))
        ret = sorted((tuple(f2h(x) for x in r), f2h(v)) for r, v in zip(np.asarray(p).tolist(), l.tolist()))
        if hist != ret:
            errs.append("calibrate() return value is not the recorded (parameter, loss) pairs")
        return out

    orig_rec = ch.recording

    @contextlib.contextmanager
    def rec_hook():
        with orig_rec() as rec:
            ch.STATE["_rec"] = rec
            try:
                yield rec
            finally:
                ch.STATE["_rec"] = None

    Calibrator.calibrate = wrapped
    ch.recording = rec_hook
    try:
        with warnings.catch_warnings():
            warnings.simplefilter("ignore")
            lines, info = ch.run_real(scn)
    finally:
        Calibrator.calibrate = orig
        ch.recording = orig_rec
    return lines, info, errs


def scn_json(scn):
    d = dict(scn.__dict__)
    d["loss_table"] = [[list(k), v] for k, v in scn.loss_table.items()]
    return d


def scn_from_json(d):
    d = dict(d)
    d["loss_table"] = {tuple(k): v for k, v in d["loss_table"]}
    d["lineup"] = [tuple(x) for x in d["lineup"]]
    d["ops"] = [tuple(o) if o[0] not in ("SS", "SCH") else (o[0], [tuple(x) for x in o[1]], *o[2:]) for o in d["ops"]]
    d["faults"] = [tuple(f) for f in d["faults"]]
    d["bounds"] = tuple(tuple(b) for b in d["bounds"]); d["precision"] = tuple(d["precision"])
    return ch.Scn(**d)


BUILTINS = ["HaltonSampler", "RandomUniformSampler", "RSequenceSampler", "BestBatchSampler", "GaussianProcessSampler",
            "RandomForestSampler", "XGBoostSampler", "ParticleSwarmSampler", "CORSSampler"]


def gen_builtin_scn(rng, extreme=False, force_swarm=False) -> ch.Scn:
    if extreme == "tiny":
        # a search space of 3 or 9 points that the run exhausts: the de-duplication redraws give up and batches contain repeats
        dims = rng.choice([1, 2])
        lineup = [("HaltonSampler", rng.randint(2, 4), None, None)] + [(rng.choice(["RandomUniformSampler", "HaltonSampler", "RSequenceSampler"]), rng.randint(2, 4), None, None)
                                                                    for _ in range(rng.randint(1, 2))]
        return ch.Scn(ensemble=rng.randint(1, 2), simlen=dims + 3, dims=dims, seed=rng.randrange(10 ** 5), lineup=lineup, verbose=rng.random() < 0.5,
                      bounds=(tuple(0.0 for _ in range(dims)), tuple(1.0 for _ in range(dims))), precision=tuple(0.5 for _ in range(dims)),
                      loss_fn=rng.choice(["sum", "dist"]), ops=[("C", rng.randint(1, 3)) for _ in range(rng.randint(3, 4))])
    if extreme == "stateful":
        # a sampler that keeps state of its own between calls (the swarm's personal bests, the CORS batch counter, a best-batch view of the history)
        # gets many batches of its own within few calibrate() calls, with losses that keep improving: whatever it keeps or rewrites between calls,
        # the rows recorded earlier must stay as they were
        dims = rng.choice([1, 2, 3])
        st = "ParticleSwarmSampler" if force_swarm else rng.choice(["ParticleSwarmSampler", "BestBatchSampler", "CORSSampler"])
        lineup = [("HaltonSampler", 4, None, None), (st, rng.randint(2, 4) if st != "CORSSampler" else 2, None, rng.choice([None, 7]))]
        if st == "ParticleSwarmSampler" and rng.random() < 0.5:
            lineup = lineup[1:]                 # the swarm alone: it starts on an empty history
        nops = rng.randint(3, 5)
        return ch.Scn(ensemble=rng.randint(1, 2), simlen=dims + 3, dims=dims, seed=rng.randrange(10 ** 5), lineup=lineup, verbose=rng.random() < 0.5,
                      bounds=(tuple(0.0 for _ in range(dims)), tuple(1.0 for _ in range(dims))), precision=tuple(0.01 for _ in range(dims)),
                      loss_fn=rng.choice(["dist", "sum"]), ops=[("C", rng.randint(2, 3) if st != "CORSSampler" else 2) for _ in range(nops)])
    dims = rng.choice([1, 2, 2, 3])
    names = ["HaltonSampler"] + [rng.choice(BUILTINS) for _ in range(rng.randint(1, 4))]
    if extreme:
        # surrogates other than XGBoost may legitimately refuse +-1e40 targets (sklearn raises); they are not the subject here
        names = ["HaltonSampler", "XGBoostSampler", rng.choice(["HaltonSampler", "RandomUniformSampler", "RSequenceSampler", "BestBatchSampler", "XGBoostSampler"]), "XGBoostSampler"]
    if extreme == "offset":
        names = ["HaltonSampler", "XGBoostSampler", rng.choice(["RandomForestSampler", "BestBatchSampler", "RandomUniformSampler"]), "XGBoostSampler"]
    lineup = [(nm, rng.randint(2, 4) if nm != "CORSSampler" else rng.randint(2, 3), None, rng.choice([None, 5])) for nm in names]
    lineup[0] = ("HaltonSampler", 4, None, lineup[0][3])     # best-batch needs at least batch_size existing points
    if extreme == "inf":
        # non-finite losses in the history when a surrogate is scheduled (GP legitimately refuses them: not used here)
        lineup = [("HaltonSampler", 5, None, None)] + [(rng.choice(["RandomForestSampler", "XGBoostSampler", "BestBatchSampler", "RandomUniformSampler"]), rng.randint(2, 3), None, None) for _ in range(3)]
    return ch.Scn(ensemble=rng.randint(1, 3), simlen=dims + 3, dims=dims, seed=rng.randrange(10 ** 5), lineup=lineup,
                  bounds=(tuple(0.0 for _ in range(dims)), tuple(1.0 for _ in range(dims))), precision=tuple(0.01 for _ in range(dims)),
                  loss_fn=("infmix" if extreme == "inf" else "offset" if extreme == "offset" else "extreme") if extreme else rng.choice(["sum", "dist", "ties"]),
                  ops=[("C", rng.randint(1, 3)) for _ in range(rng.randint(2, 3))])


def run(chk: Check):
    rng = chk.rng
    chk.rule = ("scenarios = line-up of 1-6 scripted stub samplers (batch 1-5, dims 1-3), ensemble 1-4, simulation length != len(real) "
                "allowed, stub model that encodes (theta, N, seed) in its series, table loss incl. inf/1e300/negative, 1-8 calibrate(n) calls; "
                "plus line-ups of the nine built-in samplers (incl. XGBoost with +-1e40 losses) whose outputs are recorded; "
                "non-trivial = >= 2 calibrate calls and >= 3 batches")
    chk.trusted_base = ["Lean 4.33 kernel", "numpy vstack/hstack/repeat/reshape contracts", "joblib sequential backend evaluates tasks in order (n_jobs=1)",
                        "the stub model/loss/samplers of harness/vp/calharness.py", "lean/BlackIt/Drv/Cal.lean (driver instantiation)"]
    chk.assumptions = ["sampler contract: sample() returns batch_size rows (hypothesis hrows; proved for built-ins under C03/C12)",
                       "model and loss are arbitrary pure functions in the theorems; the correspondence uses encoding stubs"]
    chk.proof_stage(PROP_FILE)
    n = 150 if chk.tier == "quick" else 2500
    for i in range(n):
        sched = "rl" if i % 6 == 5 else "rr"
        scn = ch.gen_scn(rng, sched=sched, max_batches=rng.randint(2, 10))
        if sched == "rl":
            # RL scheduler: no saving folder (it cannot be pickled, C04 finding); several calibrate() calls = several sessions
            scn.folder = False
            scn.ops = [o for o in scn.ops if o[0] == "C"] or [("C", 2)]
            if rng.random() < 0.4:
                scn.agent = "eps"; scn.agent_opts = (rng.choice([-1.0, 0.5]), rng.choice([0.0, 0.3, 1.0]), 0.0)
        chk.count("scheduler:" + sched)
        scn.model_mutates = i % 4 == 2
        chk.count("model:" + ("writes_into_its_argument" if scn.model_mutates else "pure"))
        scn.model_mixed_dtype = i % 5 == 3
        chk.count("model_output:" + ("integer_for_whole-number_parameters_float_otherwise" if scn.model_mixed_dtype else "float"))
        scn.keep_buffers = i % 3 == 1
        chk.count("sampler_arrays:" + ("one_buffer_rewritten_in_place" if scn.keep_buffers else "fresh_each_call"))
        if rng.random() < 0.4:
            scn.real_len = scn.simlen + rng.choice([-1, 1, 5, 20]) if scn.simlen > scn.dims + 3 or rng.random() < 0.5 else scn.simlen + 7
            scn.real_len = max(scn.real_len, 2)
            chk.count("real_len:" + ("longer" if scn.real_len > scn.simlen else "shorter"))
        lines, info, errs = run_with_oracle(chk, scn, "stub")
        nb = info["cal"].current_batch_index
        chk.case(scn_json(scn), len([o for o in scn.ops if o[0] == "C"]) >= 2 and nb >= 3,
                 {"lineup": [(ch.STUB_NAMES[c], b) for c, b, _, _ in scn.lineup], "ensemble": scn.ensemble, "N": scn.simlen,
                  "ops": [o[:2] for o in scn.ops], "final": lines[-1][:160]})
        chk.count(f"batches:{min(nb, 10)}")
        for e in errs[:3]:
            chk.fail("history: " + e, {"case": scn_json(scn)})
        ok, k, a, b = ch.compare(scn, lines, info)
        if not ok:
            chk.disagree("Calibrator != BlackIt.Calibrator.calibrate (history fields)",
                         {"scenario": scn_json(scn), "op_index": k, "fields": ch.diff_fields(a, b) if k is not None and k >= 0 else None,
                          "impl": a[:600], "model": b[:600]})
    # built-in samplers (recorded outputs), incl. the XGBoost float32-overflow case
    nb_runs = 14 if chk.tier == "quick" else 200
    for i in range(nb_runs):
        kind = "stateful" if i % 7 in (4, 6) else "tiny" if i % 4 == 3 else "offset" if i % 6 == 2 else ("inf" if i % 3 == 1 else True) if i % 3 != 2 else False
        scn = gen_builtin_scn(rng, extreme=kind, force_swarm=(i % 7 == 4))
        chk.count("builtin:" + ("tiny_space" if kind == "tiny" else "stateful_sampler_many_own_batches:" + scn.lineup[-1][0] if kind == "stateful" else "other"))
        lines, info, errs = run_with_oracle(chk, scn, "builtin")
        chk.case(scn_json(scn), True, {"lineup": [c for c, *_ in scn.lineup], "loss_fn": scn.loss_fn, "ops": scn.ops})
        chk.count("builtin_lineups"); chk.count("losses:" + str(scn.loss_fn))
        for e in errs[:3]:
            chk.fail("history (built-in samplers): " + e, {"case": scn_json(scn)})
        if info["rec"].get("_conflicts"):
            chk.fail("a sampler returned different batches for the same call index", {"case": scn_json(scn)})
        if any(l.startswith("raise:") and l.split(" ")[0] not in ("raise:sampler", "raise:model", "raise:loss") for l in lines):
            chk.count("skipped:third_party_exception_inside_a_sampler")   # outside the model's fault plan; the oracle above still ran
            continue
        ok, k, a, b = ch.compare(scn, lines, info)
        if not ok:
            chk.disagree("Calibrator (built-in samplers) != BlackIt.Calibrator.calibrate",
                         {"scenario": scn_json(scn), "op_index": k, "fields": ch.diff_fields(a, b) if k is not None and k >= 0 else None, "impl": a[:400], "model": b[:400]})
    real_losses_truthful(chk, rng)


def _demean(x):
    return x - np.mean(x)


def _halve(x):
    return x * 0.5


def real_losses_truthful(chk: Check, rng):
    """the real loss classes (with and without coordinate filters, 1 and 2 coordinates, float64 / float32 model output) inside a real calibration:
    row i of the history holds the vector that was handed to the model, the series the model RETURNED for it (copies taken inside the model),
    and the configured loss of exactly those series (recomputed with a fresh loss object)"""
    import contextlib, io, warnings
    from black_it.calibrator import Calibrator
    from black_it.loss_functions.fourier import FourierLoss
    from black_it.loss_functions.likelihood import LikelihoodLoss
    from black_it.loss_functions.minkowski import MinkowskiLoss
    from black_it.loss_functions.msm import MethodOfMomentsLoss
    from black_it.samplers.halton import HaltonSampler
    from black_it.samplers.random_uniform import RandomUniformSampler

    makers = {"minkowski": lambda f: MinkowskiLoss(coordinate_filters=f), "msm": lambda f: MethodOfMomentsLoss(coordinate_filters=f),
              "fourier": lambda f: FourierLoss(coordinate_filters=f), "likelihood": lambda f: LikelihoodLoss(coordinate_filters=f)}
    for it in range(8 if chk.tier == "quick" else 120):
        D = 1 if it % 2 == 0 else 2                    # noqa: N806
        name = list(makers)[it % 4] if it % 8 < 4 else rng.choice(list(makers))
        filt = [rng.choice([_demean, _halve]) if (it % 4 != 3 or j == 0) else None for j in range(D)] if it % 5 != 4 else None
        E, N, dt = rng.randint(1, 3), rng.choice([20, 33]), (np.float32 if it % 6 == 5 else np.float64)     # noqa: N806
        calls = []

        def model(theta, N, seed, _calls=calls, _D=D, _dt=dt):  # noqa: N803
            g = np.random.default_rng(seed)
            out = (g.standard_normal((N, _D)) * (0.5 + abs(float(theta[0]))) + float(np.sum(theta))).astype(_dt)
            _calls.append((np.array(theta, dtype=float, copy=True), out.copy()))
            return out
        real = np.random.default_rng(it).standard_normal((N, D))
        bs = rng.randint(1, 3)
        with contextlib.redirect_stdout(io.StringIO()), warnings.catch_warnings():
            warnings.simplefilter("ignore")
            cal = Calibrator(loss_function=makers[name](filt), real_data=real, model=model, samplers=[HaltonSampler(bs), RandomUniformSampler(bs)],
                             parameters_bounds=[[0.0, 0.0], [1.0, 1.0]], parameters_precision=[0.01, 0.01], ensemble_size=E, verbose=False, saving_folder=None,
                             random_state=rng.randrange(10 ** 6), n_jobs=1)
            cal.calibrate(2); cal.calibrate(1)
            fresh = makers[name](filt)
        case = {"case": {"kind": "real_loss", "loss": name, "coordinates": D, "filters": None if filt is None else [getattr(f, "__name__", None) for f in filt], "ensemble": E, "dtype": np.dtype(dt).name}}
        chk.case(["real-loss", name, D, str(filt), E, np.dtype(dt).name, it], filt is not None, {"loss": name, "coordinates": D, "filters": case["case"]["filters"], "ensemble": E, "rows": int(len(cal.params_samp))})
        chk.count(f"real_loss:{name}:D={D}:{'filtered' if filt is not None else 'unfiltered'}")
        n = len(cal.params_samp)
        if not (len(cal.series_samp) == len(cal.losses_samp) == n and len(calls) == n * E):
            chk.fail(f"history not aligned with the model invocations: {n} rows, {len(calls)} invocations for an ensemble of {E}", case)
            continue
        for i in range(n):
            ens = [calls[i * E + j] for j in range(E)]
            if any(th.tobytes() != np.asarray(cal.params_samp[i], dtype=float).tobytes() for th, _ in ens):
                chk.fail(f"row {i}: the recorded vector is not the one the model was run on", case); break
            got = np.asarray(cal.series_samp[i])
            want = np.array([o for _, o in ens])
            if got.shape != want.shape or not np.array_equal(got, want):
                chk.fail(f"row {i}: the recorded series are not what the model returned for that vector ({name} loss, {D} coordinate(s), filters "
                         f"{case['case']['filters']}): max difference {float(np.max(np.abs(got.astype(float) - want.astype(float)))) if got.shape == want.shape else 'shape'}", case); break
            with warnings.catch_warnings():
                warnings.simplefilter("ignore")
                ref = fresh.compute_loss(want.copy(), real.copy())
            if f2h_(float(ref)) != f2h_(float(cal.losses_samp[i])):
                chk.fail(f"row {i}: the recorded loss {float(cal.losses_samp[i])!r} is not the configured loss of the recorded series ({float(ref)!r})", case); break


def f2h_(x):
    import struct
    return "nan" if x != x else struct.pack(">d", x).hex()


def replay(path: Path) -> int:
    r = json.loads(path.read_text())
    bad = 0
    for fi in r.get("failing_inputs", []):
        if "case" not in fi:
            continue
        if "lineup" not in fi["case"]:       # a failing input of one of the seed-determined streams (real losses inside a calibration, ...)
            from vp.core import rerun_by_seed
            return rerun_by_seed("C02", r)
        scn = scn_from_json(fi["case"])
        _, _, errs = run_with_oracle(None, scn, "replay")
        print("REPLAY", fi["what"][:120], "->", "still fails" if errs else "passes now")
        bad += bool(errs)
    return 1 if bad else 0
