"""C07 — built-in losses vs independent reference implementations of their documented definitions."""
from __future__ import annotations

import json
import math
import warnings
from pathlib import Path

import numpy as np

from vp import refloss as ref
from vp.core import LEAN, Check, f2h, h2f, lean_run

MODULE = "BlackIt.Properties.C07"
PROP_FILE = LEAN / "BlackIt/Properties/C07.lean"
SIG_GSL = "C07/gsl/base10-word-packing/nb_values>=10"
SIG_GSL_LEN = "C07/gsl/base10-word-packing/word_length>=16"


def close(a, b, rel, abs_=1e-12):
    if a != a and b != b:
        return True
    if a in (float("inf"), float("-inf")) or b in (float("inf"), float("-inf")):
        return a == b
    return abs(a - b) <= rel * max(abs(a), abs(b)) + abs_


def gen_data(rng, e, n, d, shape=None):
    prng = np.random.default_rng(rng.randrange(10 ** 9))
    shape = shape or rng.choice(["normal", "walk", "ties", "scaled", "positive"])
    if shape == "normal":
        sim, real = prng.standard_normal((e, n, d)), prng.standard_normal((n, d))
    elif shape == "walk":
        sim, real = np.cumsum(prng.standard_normal((e, n, d)), axis=1), np.cumsum(prng.standard_normal((n, d)), axis=0)
    elif shape == "ties":
        sim, real = prng.integers(0, 4, (e, n, d)).astype(float), prng.integers(0, 4, (n, d)).astype(float)
    elif shape == "scaled":
        sc = 10.0 ** rng.randint(-3, 3)
        sim, real = prng.standard_normal((e, n, d)) * sc + 3 * sc, prng.standard_normal((n, d)) * sc + 3 * sc
    else:
        sim, real = np.exp(prng.standard_normal((e, n, d)) * 0.3), np.exp(prng.standard_normal((n, d)) * 0.3)
    return sim, real, shape


def run(chk: Check):
    from black_it.loss_functions.fourier import FourierLoss, gaussian_low_pass_filter, ideal_low_pass_filter
    from black_it.loss_functions.gsl_div import GslDivLoss
    from black_it.loss_functions.likelihood import LikelihoodLoss
    from black_it.loss_functions.minkowski import MinkowskiLoss
    from black_it.loss_functions.msm import MethodOfMomentsLoss
    from black_it.utils.time_series import get_mom_ts_1d

    rng = chk.rng
    chk.rule = ("every built-in loss evaluated on generated data (normal, random walk, heavy ties, scaled, positive; lengths 8-120, 1-4 coordinates, 1-5 members) with random "
                "admissible options (p, f, filter kind, bandwidth rule/value, nb_values 2-20, word lengths 1-6, weighting, standardisation, weights, coordinate filters) and "
                "compared with an independent reference (plain loops + math.fsum, naive DFT, tuple words) at relative tolerance 1e-9 (1e-6 for likelihood / GSL); discrete "
                "intermediates of GSL-div compared exactly with the Lean model. non-trivial = >= 2 coordinates or >= 2 ensemble members")
    chk.trusted_base = ["Lean 4.33 kernel", "floating-point evaluation of sqrt/exp/log/FFT/moments is validated with a tolerance, not proved",
                        "harness/vp/refloss.py is the independent reference (shares only np.linspace with the implementation)"]
    chk.assumptions = ["level: proof of the algorithmic content (word packing, weight schedule, masks) + tolerance-validated numerics",
                       "GSL-div for nb_values >= 10 conflates words (base-10 packing): known finding; the theorem covers nb_values <= 9"]
    chk.proof_stage(PROP_FILE)
    n_cases = 60 if chk.tier == "quick" else 900
    model_lean = []
    filters_pool = [None, lambda x: x - np.mean(x), lambda x: np.asarray(x) * 2.0]
    for ci in range(n_cases):
        e, d = rng.randint(1, 5), rng.randint(1, 4)
        n = rng.choice([8, 12, 20, 24, 40, 60, 120])
        sim, real, shape = gen_data(rng, e, n, d)
        weights = rng.choice([None, None, [rng.random() + 0.05 for _ in range(d)]])
        wnp = None if weights is None else np.array(weights)
        which = rng.choice(["minkowski", "msm", "fourier", "gsl", "likelihood"]) if ci >= 10 else ["gsl", "gsl", "gsl", "fourier", "fourier", "minkowski", "minkowski", "minkowski", "minkowski", "minkowski"][ci]
        forced_p = [float("inf"), 0.5, 25, 1.5, float("inf")][ci - 5] if 5 <= ci < 10 else None      # every run: the unusual orders
        if ci >= 10 and ci % 5 == 2:
            # an ensemble in which some - not all - members are element-wise identical (a model that ignores its seed for some parameters, a seed drawn
            # twice): the loss is still the plain average over ALL members; every loss class in turn
            which = ["gsl", "msm", "gsl", "likelihood", "gsl", "fourier", "gsl", "minkowski"][(ci // 5) % 8]
            e = max(e, 3)
            sim, real, shape = gen_data(rng, e, n, d)
            for j in rng.sample(range(1, e), rng.randint(1, e - 2)):
                sim[j] = sim[0]
            shape += "+identical_members"
            chk.count("ensemble:some_members_identical")
        # (the first three: long structured GSL-div cases; then two Fourier cases whose cut-off f*n_freq is an exact half-integer tie)
        chk.count("loss:" + which); chk.count("data:" + shape)
        case = {"case": {"loss": which, "E": e, "N": n, "D": d, "shape": shape, "weights": weights}}
        with warnings.catch_warnings(), np.errstate(all="ignore"):
            warnings.simplefilter("ignore")
            try:
                if which == "minkowski":
                    # the order: small integers mostly; also fractional, large and infinite orders (scipy's minkowski accepts every p > 0)
                    p = rng.choice([1, 2, 3, 4, 1, 2, 3, 4, 1.5, 0.5, 7, 25, float("inf"), float("inf")])
                    p = forced_p if forced_p is not None else p
                    chk.count("minkowski:p=" + ("inf" if p == float("inf") else "integer<=4" if p in (1, 2, 3, 4) else "other"))
                    ftags = [rng.randrange(3) for _ in range(d)] if rng.random() < 0.5 else None
                    fl = None if ftags is None else [filters_pool[t] for t in ftags]
                    mk = lambda: MinkowskiLoss(p=p, coordinate_weights=wnp, coordinate_filters=fl)  # noqa: E731
                    got = float(mk().compute_loss(sim, real))
                    want = ref.minkowski(sim, real, p, weights, fl)
                    opts = {"p": p, "filters": ftags}; tol = 1e-9
                    if n <= 60 and p in (1, 2, 3, 4):
                        fs = [None] * d if fl is None else fl
                        cols = [np.array([fs[i](sim[j, :, i]) if fs[i] is not None else sim[j, :, i] for j in range(e)]) for i in range(d)]
                        model_lean.append(("MinkowskiLoss.compute_loss != BlackIt.Loss.minkowskiPowSum^(1/p) (binary64 instance)", got, [1.0 / d] * d if weights is None else list(weights), case,
                                           [f"loss.minkowski {p} {e} {n} " + " ".join(f2h(x) for x in cols[i].reshape(-1)) + " " + " ".join(f2h(x) for x in real[:, i]) for i in range(d)]))
                elif which == "msm":
                    if n < 12:
                        n = 12; sim, real, shape = gen_data(rng, e, n, d, shape)
                    cov = rng.choice(["identity", "identity", "inverse_variance", "matrix"])
                    std = rng.random() < 0.3
                    # every combination of weighting and standardisation in every run, in turn (left to chance, a run of ~40 MSM cases misses one of the six now and then)
                    _k = chk.hist.get("msm_option_cycle", 0)
                    cov, std = [(c_, s_) for s_ in (False, True) for c_ in ("identity", "inverse_variance", "matrix")][_k % 6]
                    chk.count("msm_option_cycle")
                    if cov == "matrix":
                        a = np.random.default_rng(ci).standard_normal((18, 18)); cm = (a + a.T) / 2
                        mk = lambda: MethodOfMomentsLoss(covariance_mat=cm, coordinate_weights=wnp, standardise_moments=std)  # noqa: E731
                        got = float(mk().compute_loss(sim, real))
                        want = ref.msm(sim, real, cm.tolist(), std, weights)
                    else:
                        mk = lambda: MethodOfMomentsLoss(covariance_mat=cov, coordinate_weights=wnp, standardise_moments=std)  # noqa: E731
                        got = float(mk().compute_loss(sim, real))
                        want = ref.msm(sim, real, cov, std, weights)
                        if n <= 60:
                            model_lean.append(("MethodOfMomentsLoss.compute_loss != BlackIt.Loss.msmIdentity/msmInverseVariance over the 18-moment summary (binary64 instance)", got,
                                               [1.0 / d] * d if weights is None else list(weights), case,
                                               [f"loss.msm {0 if cov == 'identity' else 1} {int(std)} {e} {n} " + " ".join(f2h(x) for x in sim[:, :, i].reshape(-1)) + " "
                                                + " ".join(f2h(x) for x in real[:, i]) for i in range(d)]))
                    opts = {"cov": cov, "standardise": std}; tol = 1e-7
                    # the moment summary itself
                    for j in range(min(e, 2)):
                        mg, mw = get_mom_ts_1d(sim[j, :, 0]).tolist(), ref.moments18(sim[j, :, 0])
                        bad = [k for k in range(18) if not close(mg[k], mw[k], 1e-8, 1e-10)]
                        if bad:
                            chk.fail(f"moment {bad[0]} of the 18-number summary is {mg[bad[0]]!r}, reference {mw[bad[0]]!r}", case)
                elif which == "fourier":
                    f = rng.choice([0.1, 0.25, 0.5, 0.8, 1.0, rng.uniform(0.05, 1.0)])
                    kind = rng.choice(["gaussian", "ideal"])
                    if ci in (3, 4):
                        # n_freq = n//2 + 1 odd and f = 0.5: f*n_freq = k + 0.5 — np.round goes to the even neighbour (both parities of k are used)
                        n = [24, 12][ci - 3] if rng.random() < 0.5 else [8, 20][ci - 3]
                        sim, real, shape = gen_data(rng, e, n, d)
                        f, kind = 0.5, ["ideal", "gaussian"][ci - 3]
                    if kind == "gaussian" and round(f * (n // 2 + 1)) < 1:
                        f = 0.5          # a Gaussian mask of width round(f*n_freq) = 0 is degenerate (0/0); outside 'admissible options'
                    mk = lambda: FourierLoss(frequency_filter=gaussian_low_pass_filter if kind == "gaussian" else ideal_low_pass_filter, f=f, coordinate_weights=wnp)  # noqa: E731
                    got = float(mk().compute_loss(sim, real))
                    want = ref.fourier(sim, real, f, kind, weights)
                    opts = {"f": f, "kind": kind}; tol = 1e-9
                    # the same value from the Lean model (BlackIt.Loss.fourierLoss, binary64 instance with a naive DFT), per coordinate
                    if n <= 60:
                        model_lean.append(("FourierLoss.compute_loss != BlackIt.Loss.fourierLoss (binary64 instance)", got, [1.0 / d] * d if weights is None else list(weights), case,
                                             [f"loss.fourier {0 if kind == 'ideal' else 1} {f2h(f)} {e} {n} " + " ".join(f2h(x) for x in sim[:, :, i].reshape(-1)) + " "
                                              + " ".join(f2h(x) for x in real[:, i]) for i in range(d)]))
                elif which == "gsl":
                    nv = rng.choice([None, 2, 3, 5, 9, 10, 12, 20])
                    L = rng.choice([None, 1, 2, 3, 6])
                    if L is not None and L > n - 1:
                        L = 2
                    if rng.random() < 0.3 or ci < 3:
                        # a long structured run: an irregular transient, then a steady (periodic) state; few symbols, very long words
                        n = rng.choice([130, 160, 200])
                        nv = rng.choice([2, 3])
                        L = rng.choice([None, 62, 70, 40, 20]) if ci >= 3 else [None, 70, 64][ci]
                        prng2 = np.random.default_rng(rng.randrange(10 ** 9))

                        def structured():
                            burn = rng.randint(8, 30)
                            period = rng.choice([2, 3, 5])
                            x = np.concatenate([prng2.standard_normal(burn), np.tile(np.arange(period, dtype=float) - period / 2.0, n)[: n - burn]])
                            return x + 1e-3 * prng2.standard_normal(n) * (rng.choice([0.0, 1.0]) if ci >= 3 else 0.0)
                        sim = np.stack([np.stack([structured() for _ in range(d)], axis=1) for _ in range(e)])
                        real = np.stack([structured() for _ in range(d)], axis=1)
                        shape = "burnin_then_periodic"
                        chk.count("data:burnin_then_periodic")
                    mk = lambda: GslDivLoss(nb_values=nv, nb_word_lengths=L, coordinate_weights=wnp)  # noqa: E731
                    got = float(mk().compute_loss(sim, real))
                    want = ref.gsl(sim, real, nv, L, weights)
                    opts = {"nb_values": nv, "nb_word_lengths": L}; tol = 1e-6
                    eff_nv = int((n - 1) / 2.0) if nv is None else nv
                    eff_L = int((n - 1) / 2.0) if L is None else L
                    case["case"]["eff"] = [eff_nv, eff_L]
                    # the same value from the Lean model (BlackIt.Gsl.divEnsemble on the symbols the real discretize produces)
                    if n <= 60 and eff_L <= 8:
                        rs = []
                        for i in range(d):
                            obs = GslDivLoss.discretize(real[:, i], eff_nv, np.min(real[:, i]), np.max(real[:, i])).tolist()
                            sims = [GslDivLoss.discretize(sim[j, :, i], eff_nv, np.min(sim[j, :, i]), np.max(sim[j, :, i])).tolist() for j in range(e)]
                            rs.append(f"loss.gsl {eff_L} {eff_nv} {n} {e} " + " ".join(f"{len(x)} " + " ".join(map(str, x)) for x in sims) + f" {len(obs)} " + " ".join(map(str, obs)))
                        model_lean.append(("GslDivLoss.compute_loss != BlackIt.Gsl.divEnsemble (binary64 instance)", got, [1.0 / d] * d if weights is None else list(weights), case, rs))
                    if not close(got, want, tol, 1e-9):
                        # the recorded finding is THE lossy packing of the pinned commit, not "any deviation with many symbols or long words"
                        pinned = ref.gsl(sim, real, nv, L, weights, pinned_packing=True) if (eff_nv >= 10 or eff_L >= 16) else None
                        if pinned is not None and close(got, pinned, tol, 1e-9):
                            chk.fail(f"GSL-div with {eff_nv} symbols and word lengths up to {eff_L} = {got!r}, documented definition (words as tuples) = {want!r}", case,
                                     signature=SIG_GSL if eff_nv >= 10 else SIG_GSL_LEN)
                            chk.case([which, opts, e, n, d, shape, ci], d >= 2 or e >= 2, {"loss": which, "options": opts, "value": got, "reference": want})
                            continue
                else:
                    h = rng.choice(["silverman", "scott", 0.5, 1.3])
                    ns = min(n, 24)
                    sim, real = sim[:, :ns, :], real[:ns]
                    mk = lambda: LikelihoodLoss(h=h)  # noqa: E731
                    got = float(mk().compute_loss(sim, real))
                    want = ref.likelihood(sim, real, h)
                    opts = {"h": h}; tol = 1e-6
                    rule = {"silverman": 1, "scott": 2}.get(h, 0)
                    model_lean.append(("LikelihoodLoss.compute_loss != BlackIt.Loss.likelihood (binary64 instance)", got, [1.0], case,
                                       [f"loss.likelihood {rule} {f2h(float(h) if rule == 0 else 0.0)} {e} {ns} {ns} {d} " + " ".join(f2h(x) for x in sim.reshape(-1)) + " "
                                        + " ".join(f2h(x) for x in real.reshape(-1))]))
            except Exception as ex:  # noqa: BLE001
                chk.fail(f"{which} raised {type(ex).__name__}: {str(ex)[:100]} on admissible input", case)
                continue
        case["case"]["options"] = {k: (v if not callable(v) else "fn") for k, v in opts.items()}
        # the same loss OBJECT used several times, as a calibration does (one object, thousands of evaluations against the same real data): after evaluations on
        # other simulated data (same real data, then other real data) the value on (sim, real) is, bit for bit, the one a fresh object gives
        with warnings.catch_warnings(), np.errstate(all="ignore"):
            warnings.simplefilter("ignore")
            try:
                used = mk()
                sim_b = gen_data(rng, sim.shape[0], sim.shape[1], sim.shape[2])[0]
                real_b = gen_data(rng, 1, real.shape[0], real.shape[1])[1]
                used.compute_loss(sim_b, real); used.compute_loss(sim, real); used.compute_loss(sim_b, real_b)
                got_used = float(used.compute_loss(sim, real))
                # ... and the caller keeps the empirical series in ONE buffer that it refills in place (a rolling window, re-scaled units): the object is
                # evaluated on the buffer holding other data, the buffer is overwritten with new data, and the value is the one of the data now in the buffer
                buf = np.array(real_b * 0.5 - 1.0, copy=True)      # data the object has not seen either
                used.compute_loss(sim, buf)
                buf[...] = real * 1.5 + 0.25            # data the object has never seen
                got_buf = float(used.compute_loss(sim, buf))
                fresh_buf = float(mk().compute_loss(sim, np.array(buf, copy=True)))
            except Exception as ex:  # noqa: BLE001
                chk.fail(f"{which} raised {type(ex).__name__}: {str(ex)[:100]} on admissible input when one loss object is evaluated several times", case)
                continue
        chk.count("used_object_re-evaluated")
        if f2h(got_buf) != f2h(fresh_buf) and not (got_buf != got_buf and fresh_buf != fresh_buf):
            chk.fail(f"{which} {case['case']['options']}: evaluated on a real-data buffer that the caller has refilled in place (with real*1.5+0.25) since the object's previous evaluation, "
                     f"the loss is {got_buf!r}; a fresh object on the data now in the buffer gives {fresh_buf!r}", case)
        if f2h(got_used) != f2h(got):
            chk.fail(f"{which} {case['case']['options']}: a loss object that has been evaluated before (on other simulated data, on the same data, on other real data) returns {got_used!r} "
                     f"where a fresh object returns {got!r} (documented definition {want!r})", case)
        chk.case([which, str(opts), e, n, d, shape, ci], d >= 2 or e >= 2, {"loss": which, "options": case["case"]["options"], "E": e, "N": n, "D": d, "value": got, "reference": want})
        chk.count("numeric_tolerance_cases")
        if not close(got, want, tol, 1e-9):
            chk.fail(f"{which} {case['case']['options']}: implementation {got!r}, documented definition {want!r}", case)
    # long series whose level is far above their spread: the likelihood must still be the definition (a squared distance obtained
    # from |x|^2 + |y|^2 - 2 x.y instead of from the differences loses everything there)
    for big in range(1 if chk.tier == "quick" else 3):
        prng = np.random.default_rng(rng.randrange(10 ** 9))
        R, S, D = 2, rng.choice([1500, 1600]), 2
        level = rng.choice([3e7, -5e6, 1e8])
        simb = level + prng.standard_normal((R, S, D)); realb = level + prng.standard_normal((S, D))
        hb = rng.choice(["silverman", 0.5])
        with warnings.catch_warnings(), np.errstate(all="ignore"):
            warnings.simplefilter("ignore")
            gotb = float(LikelihoodLoss(h=hb).compute_loss(simb, realb))
        wantb = ref.likelihood_big(simb, realb, hb)
        caseb = {"case": {"loss": "likelihood", "E": R, "N": S, "D": D, "shape": "long_offset_dominated", "level": level, "options": {"h": hb}}}
        chk.case(["likelihood-big", R, S, D, level, str(hb)], True, {"loss": "likelihood", "R": R, "S": S, "D": D, "level": level, "value": gotb, "reference": wantb})
        chk.count("likelihood:long_offset_dominated")
        if not close(gotb, wantb, 1e-6, 1e-9):
            chk.fail(f"likelihood on long series (R*T*S*D = {R * S * S * D}) at level {level:g}: implementation {gotb!r}, documented definition {wantb!r}", caseb)
    # a very long simulation against a short real series, bandwidth by rule of thumb: the rule uses the length of the WHOLE simulated series,
    # however the implementation organises its work
    for big in range(2 if chk.tier == "quick" else 6):
        prng = np.random.default_rng(rng.randrange(10 ** 9))
        R, S, T, D = rng.choice([1, 2]), rng.choice([140001, 200000, 270000]), rng.randint(2, 4), 1       # noqa: N806
        if big == 1:
            # ... and once per run against a real series of ordinary length: tens of millions of kernel terms in one evaluation (more than any work-buffer or
            # block size one might think of), the simulated length not a round number
            R, S, T = 2, rng.choice([200003, 170001]), rng.randint(50, 64)      # noqa: N806
            chk.count("likelihood:tens_of_millions_of_kernel_terms")
        simb = prng.standard_normal((R, S, D)) * 1.5 + 0.3; realb = prng.standard_normal((T, D))
        hb = ["silverman", "scott"][big % 2]
        with warnings.catch_warnings(), np.errstate(all="ignore"):
            warnings.simplefilter("ignore")
            gotb = float(LikelihoodLoss(h=hb).compute_loss(simb, realb))
        wantb = ref.likelihood_big(simb, realb, hb)
        caseb = {"case": {"loss": "likelihood", "E": R, "N": S, "T_real": T, "D": D, "shape": "very_long_simulation", "options": {"h": hb}}}
        chk.case(["likelihood-long", R, S, T, D, hb], True, {"loss": "likelihood", "R": R, "S": S, "T": T, "h": hb, "value": gotb, "reference": wantb})
        chk.count("likelihood:very_long_simulation")
        if not close(gotb, wantb, 1e-9, 1e-9):
            chk.fail(f"likelihood with h='{hb}' on a simulated series of {S} points: implementation {gotb!r}, documented definition {wantb!r}", caseb)
    # Fourier, GSL-div, likelihood: implementation vs the executable Lean model, coordinate by coordinate (tolerance: sums are ordered differently)
    flat = [r for *_, rs in model_lean for r in rs]
    answers = iter(lean_run(flat)) if flat else iter([])
    for what, got, ws, case, rs in model_lean:
        raw = [next(answers) for _ in rs]
        if "bad-op" in raw:
            chk.disagree(what + ": the model rejected the request", case); continue
        vals = [h2f(a) for a in raw]
        model = math.fsum(w * v for w, v in zip(ws, vals))
        chk.count("vs_lean_model:" + what.split(".")[0])
        if case["case"].get("loss") == "gsl" and not close(got, model, 1e-9, 1e-12):
            eff = case["case"].get("eff", [99, 99])
            if eff[0] >= 10 or eff[1] >= 16:
                continue      # base-10 packing artefacts at >= 10 symbols / long words are the recorded finding (the model packs exactly like the code, but in unbounded integers)
        rel = 1e-6 if what.startswith("MethodOfMoments") else 1e-9      # higher moments and autocorrelations: sums in another order, cancellation
        if not (close(got, model, rel, 1e-12) or (got != got and model != model)):
            chk.disagree(what, {"impl": got, "model": model, "per_coordinate_model": vals, **case})
    # discrete intermediates of GSL-div: exact, against the Lean model
    reqs, metas, disc_reqs, disc_meta = [], [], [], []
    for _ in range(150 if chk.tier == "quick" else 2000):
        n = rng.randint(2, 30); nv = rng.choice([2, 3, 5, 9, 9, 12])
        ts = np.array([rng.uniform(-3, 3) if rng.random() < 0.8 else rng.choice([-3.0, 0.0, 3.0]) for _ in range(n)])
        sym = GslDivLoss.discretize(ts, nv, np.min(ts), np.max(ts))
        want_sym = ref.discretize(ts.tolist(), nv)
        if sym.tolist() != want_sym:
            chk.fail(f"discretize with {nv} symbols gives {sym.tolist()[:8]}..., equal-width bins give {want_sym[:8]}...", {"case": {"kind": "discretize", "ts": ts.tolist(), "nv": nv}})
        if min(sym.tolist()) < 1 or max(sym.tolist()) > nv:
            chk.fail(f"discretize produced a symbol outside 1..{nv}", {"case": {"kind": "discretize", "ts": ts.tolist(), "nv": nv}})
        L = rng.randint(1, min(6, n))
        words = GslDivLoss.get_words(sym, L).tolist()
        reqs.append(f"gsl.words {len(sym)} " + " ".join(map(str, sym.tolist())) + f" {L}"); metas.append((sym.tolist(), L, words, nv))
        disc_reqs.append(f"gsl.discretize {nv} {len(ts)} " + " ".join(f2h(x) for x in ts.tolist())); disc_meta.append((ts.tolist(), nv, sym.tolist()))
        chk.case(["words", sym.tolist(), L], nv >= 3 and L >= 2, {"symbols": sym.tolist()[:10], "word_length": L, "words": words[:6]})
    for (ts_l, nv, sym), ans in zip(disc_meta, lean_run(disc_reqs)):
        chk.count("discretize_vs_lean_model")
        if ",".join(map(str, sym)) != ans:
            chk.disagree("GslDivLoss.discretize != BlackIt.Gsl.discretize (binary64 instance, exact)", {"ts": ts_l, "nb_values": nv, "impl": sym[:12], "model": ans[:60]})
    for (sym, L, words, nv), ans in zip(metas, lean_run(reqs)):
        mw, tup = ans.split(" | ")
        if ",".join(map(str, words)) != mw:
            chk.disagree("get_words != BlackIt.Gsl.getWords", {"symbols": sym, "length": L, "impl": words[:10], "model": mw[:60]})
        # word frequencies: packed vs tuples
        tc = sorted(int(x.split("=")[1]) for x in tup.split(";") if x)
        _, cnt = np.unique(np.array(words), return_counts=True)
        if sorted(cnt.tolist()) != tc:
            if nv >= 10:
                chk.fail(f"word counts of packed words {sorted(cnt.tolist())} differ from the counts of the symbol tuples {tc}", {"case": {"kind": "words", "symbols": sym, "L": L}}, signature=SIG_GSL)
            else:
                chk.fail(f"word counts of packed words differ from the counts of the symbol tuples although symbols <= 9", {"case": {"kind": "words", "symbols": sym, "L": L}})


def replay(path: Path) -> int:
    import os, subprocess, sys
    r = json.loads(path.read_text())
    print("C07 replay: cases are determined by VERIF_SEED; re-running the check with the recorded seed")
    return subprocess.call([sys.executable, str(Path(__file__).resolve().parents[1] / "check.py"), "C07", "--tier", r.get("tier", "quick")],
                           env=dict(os.environ, VERIF_SEED=str(r.get("seed", 0))))
