"""The whole particle-swarm sampler against the Lean model `BlackIt.Pso` (lean/BlackIt/Model/Pso.lean), bit for bit.

The real `ParticleSwarmSampler` is driven through `sample_batch` with a recording generator; histories grow the way a
calibrator makes them grow (the swarm's own batch, batches of other samplers before and after it, a failed batch that hands the
same history again, an empty history after a start).  After every call the raw proposal handed to `digitize_data` and the
sampler's whole state (positions, velocities, personal bests and their losses, global-best index, cursor) must equal what
`Pso.sampleBatch` computes from the recorded draws and the same history.

Oracles written independently of the model (evaluated on every call; a failure is a concrete failing input):
  * the history arrays are byte-identical before and after;
  * the batch has batch_size rows, one column per parameter, every value an element of its grid;
  * the theorems' conclusions on the real object: after a step every position lies in [0, 1]; the global-best index points at a
    smallest personal-best loss; every personal best is +inf/initial or a row the history holds *in that particle's own slot*,
    with that row's loss; personal-best losses never increase.
"""
from __future__ import annotations

import contextlib
import io
import warnings

import numpy as np

from vp.core import Check, f2h, lean_run
from vp.tape import RecGen, install


def _rows(m):
    return ",".join(" ".join(f2h(x) for x in row) for row in np.asarray(m, dtype=float).tolist())


def _state(smp):
    return (f"pos {_rows(smp._curr_particle_positions)} ; vel {_rows(smp._curr_particle_velocities)} ; bp {_rows(smp._best_particle_positions)} ; "
            f"bl {' '.join(f2h(x) for x in smp._best_position_losses.tolist())} ; gid {int(smp._global_best_particle_id)} ; prev {int(smp._previous_batch_index_start)}")


def _gen_bounds(rng, dims):
    from black_it.search_space import SearchSpace

    lo, hi, pr = [], [], []
    for _ in range(dims):
        kind = rng.choice(["unit", "unit", "scaled", "negative", "offset"])
        if kind == "unit":
            l, h, p = 0.0, 1.0, rng.choice([0.01, 0.05, 0.001, 0.25])
        elif kind == "scaled":
            sc = 10.0 ** rng.randint(-3, 3)
            l = rng.uniform(0, 5) * sc; p = rng.choice([0.01, 0.1, 0.3]) * sc; h = l + rng.randint(5, 80) * p + rng.choice([0.0, 0.4]) * p
        elif kind == "negative":
            l = -rng.uniform(1, 50); p = rng.choice([0.5, 0.1, 0.37]); h = l + rng.randint(4, 60) * p
        else:
            l = rng.choice([1e3, -1e4, 2.0 ** 12]); p = rng.choice([0.25, 0.5, 1.0]); h = l + rng.randint(3, 30) * p
        lo.append(float(l)); hi.append(float(h)); pr.append(float(p))
    return SearchSpace([lo, hi], pr, False)


def _loss(rng, kind):
    if kind == "ties":
        return float(rng.randint(0, 2))
    if kind == "inf":
        return rng.choice([float("inf"), rng.random(), rng.random(), 1e308, -float("inf")])
    if kind == "falling":
        return rng.random() * 0.1
    return rng.random() * 5


def run(chk: Check, n_cases: int):
    import black_it.samplers.particle_swarm as psm
    from black_it.samplers.particle_swarm import ParticleSwarmSampler

    rng = chk.rng
    reqs, impls, metas = [], [], []
    for case_i in range(n_cases):
        dims = rng.choice([1, 2, 2, 3, 4])
        bs = rng.choice([1, 2, 3, 4, 6])
        sp = _gen_bounds(rng, dims)
        across = rng.random() < 0.5
        w, c1, c2 = (0.9, 0.1, 0.1) if rng.random() < 0.3 else (rng.choice([0.5, 0.9, 1.2, 0.3]), rng.choice([0.1, 0.7, 2.0, 1.5]), rng.choice([0.1, 0.6, 2.0]))
        smp = ParticleSwarmSampler(batch_size=bs, random_state=rng.randrange(10 ** 6), inertia=w, c1=c1, c2=c2, global_minimum_across_samplers=across)
        gen = install(smp, RecGen(rng.randrange(10 ** 6)))
        lkind = rng.choice(["ties", "inf", "falling", "ordinary", "ordinary"])
        grid = sp.param_grid
        pts = np.zeros((0, dims)); losses = np.zeros(0)
        # other samplers may have filled the history before the swarm's first call
        if rng.random() < 0.5:
            k = rng.randint(1, 5)
            pts = np.array([[g[rng.randrange(len(g))] for g in grid] for _ in range(k)]).reshape(k, dims); losses = np.array([_loss(rng, lkind) for _ in range(k)])
        ncalls = rng.randint(2, 6)
        call_txt, impl_txt, events = [], [], []
        raw_rec = []
        orig = psm.digitize_data

        def wrapped(data, g, _o=orig, _r=raw_rec):
            _r.append(np.array(data, copy=True))
            return _o(data, g)

        psm.digitize_data = wrapped
        prev_bl = None
        try:
            for c in range(ncalls):
                p_in, l_in = np.array(pts, copy=True), np.array(losses, copy=True)
                pb, lb = p_in.tobytes(), l_in.tobytes()
                nlog = len(gen.log)
                del raw_rec[:]
                with warnings.catch_warnings(), np.errstate(all="ignore"), contextlib.redirect_stdout(io.StringIO()):
                    warnings.simplefilter("ignore")
                    out = smp.sample_batch(bs, sp, p_in, l_in)
                draws = [r for (k, _a, r) in gen.log[nlog:] if k == "random"]
                info = {"case": {"kind": "pso_full", "bs": bs, "dims": dims, "across": across, "inertia": w, "c1": c1, "c2": c2, "bounds": sp.parameters_bounds.tolist(),
                                 "precision": sp.parameters_precision.tolist(), "call": c, "points": p_in.tolist(), "losses": l_in.tolist(), "events": list(events)}}
                if p_in.tobytes() != pb or l_in.tobytes() != lb:
                    chk.fail(f"ParticleSwarmSampler modified the history passed to its call {c} (events so far: {events})", info)
                if len(draws) != 2 or any(np.shape(d) != (bs, dims) for d in draws) or len(raw_rec) != 1:
                    chk.disagree(f"ParticleSwarmSampler.sample_batch: expected two random(size=(bs, dims)) draws and one final digitize_data, saw {len(draws)} draws, {len(raw_rec)} snaps", info)
                    break
                out = np.asarray(out)
                if out.shape != (bs, dims) or any(not any(f2h(v) == f2h(gv) or v == gv for gv in grid[j]) for row in out for j, v in enumerate(row)):
                    chk.fail(f"ParticleSwarmSampler call {c}: batch {out.tolist()} is not batch_size x dims points of the grid", info, "shape-or-grid")
                # theorem conclusions on the real object
                started = len(p_in) == 0 or c == 0
                bl = np.array(smp._best_position_losses, copy=True)
                if started:
                    starts = []
                else:
                    cp = smp._curr_particle_positions
                    if np.all(np.isfinite(cp)) and not np.all((cp >= 0.0) & (cp <= 1.0)):
                        chk.fail(f"ParticleSwarmSampler call {c}: a current position lies outside the unit cube after the step: {cp.tolist()}", info)
                    if not np.all(bl[int(smp._global_best_particle_id)] <= bl):
                        chk.fail(f"ParticleSwarmSampler call {c}: the global-best index {smp._global_best_particle_id} does not point at a smallest personal-best loss {bl.tolist()}", info)
                    if not np.all(bl <= prev_bl):
                        chk.fail(f"ParticleSwarmSampler call {c}: a personal-best loss increased: {prev_bl.tolist()} -> {bl.tolist()}", info)
                    for pid in range(bs):
                        if bl[pid] != np.inf:
                            own = [s0 + pid for s0 in starts if s0 + pid < len(p_in)]
                            bp = np.asarray(smp._best_particle_positions[pid], dtype=float)
                            if not any(f2h(l_in[i]) == f2h(bl[pid]) and p_in[i].tobytes() == bp.tobytes() for i in own):
                                chk.fail(f"ParticleSwarmSampler call {c}: the personal best of particle {pid} (loss {bl[pid]!r}, point {bp.tolist()}) is not a row of the history "
                                         f"in one of that particle's own slots {own} with that loss", info)
                prev_bl = bl
                starts.append(len(p_in))
                call_txt.append(" ".join(f2h(x) for d in draws for x in np.asarray(d, dtype=float).flatten().tolist()) + f" {len(p_in)} " +
                                " ".join(f2h(x) for x in p_in.flatten().tolist()) + (" " if len(p_in) else "") + " ".join(f2h(x) for x in l_in.tolist()))
                impl_txt.append(f"raw {_rows(raw_rec[0])} ; " + _state(smp))
                # how the history grows until the next call
                ev = rng.choice(["own", "own", "own", "own+others", "others+own+others", "failed", "partial", "empty"]) if c + 1 < ncalls else "end"
                events.append(ev)
                newp, newl = [], []

                def others(k):
                    for _ in range(k):
                        newp.append([g[rng.randrange(len(g))] for g in grid]); newl.append(_loss(rng, lkind))
                if ev in ("own", "own+others", "others+own+others"):
                    # NB the calibrator appends the batch at the position the sampler was called with; rows of other samplers can only follow it
                    for row in out:
                        newp.append(row.tolist()); newl.append(_loss(rng, lkind))
                    if ev != "own":
                        others(rng.randint(1, 4))
                elif ev == "partial":      # fewer rows than the batch arrived (a foreign driver of the sampler); the zip in _update_best stops early
                    for row in out[: max(0, bs - 1)]:
                        newp.append(row.tolist()); newl.append(_loss(rng, lkind))
                elif ev == "empty":
                    pts = np.zeros((0, dims)); losses = np.zeros(0)
                if newp:
                    pts = np.vstack([pts, np.array(newp).reshape(len(newp), dims)]); losses = np.concatenate([losses, np.array(newl)])
        finally:
            psm.digitize_data = orig
        chk.count(f"pso_full:calls={len(call_txt)}"); chk.count("pso_full:" + ("across" if across else "own_best")); chk.count("pso_full:losses=" + lkind)
        for e in events:
            chk.count("pso_full:event=" + e)
        chk.case(["pso_full", bs, dims, across, call_txt], True, {"kind": "pso_full", "bs": bs, "dims": dims, "across": across, "events": events})
        if not call_txt:
            continue
        reqs.append(f"pso.run {bs} {dims} {f2h(w)} {f2h(c1)} {f2h(c2)} {int(across)} " + " ".join(f2h(x) for x in sp.parameters_bounds[0].tolist()) + " " +
                    " ".join(f2h(x) for x in sp.parameters_bounds[1].tolist()) + f" {len(call_txt)} " + " ".join(call_txt))
        impls.append(" | ".join(impl_txt))
        metas.append({"bs": bs, "dims": dims, "across": across, "inertia": w, "c1": c1, "c2": c2, "bounds": sp.parameters_bounds.tolist(), "events": events})
    answers = lean_run(reqs) if reqs else []
    z = lambda s: s.replace("8000000000000000", "0000000000000000")      # the sign of a zero is not observable after snapping
    for req, impl, ans, meta in zip(reqs, impls, answers, metas):
        if z(impl) != z(ans):
            ci = next((i for i, (a, b) in enumerate(zip(z(impl).split(" | "), z(ans).split(" | "))) if a != b), -1)
            a = z(impl).split(" | ")[ci] if ci >= 0 else impl
            b = z(ans).split(" | ")[ci] if ci >= 0 and ci < len(ans.split(" | ")) else ans
            part = next((x.split(" ")[0] for x, y in zip(a.split(" ; "), b.split(" ; ")) if x != y), "?")
            chk.disagree(f"ParticleSwarmSampler != BlackIt.Pso.sampleBatch on the recorded draws: call {ci}, first differing part '{part}'",
                         {**meta, "call": ci, "impl": a[:600], "model": b[:600], "request": req[:3000]})
