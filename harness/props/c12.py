"""C12 — deduplication loop: real `BaseSampler.sample` / `find_and_get_duplicates` vs `BlackIt.Dedup`."""
from __future__ import annotations

import contextlib
import io
import json
from collections import Counter
from pathlib import Path

import numpy as np

from vp.core import LEAN, Check, lean_run

MODULE = "BlackIt.Properties.C12"
PROP_FILE = LEAN / "BlackIt/Properties/C12.lean"


_REUSED = {}      # one long-lived sampler object, called again and again with unrelated histories (often of the same shape)


PRES = {"scale": 1.0, "layout": "C"}      # how the (integer-labelled) points of the current case are presented to the code under test


def presentation(dims, b, passes, existing):
    """deterministic in the case: whole numbers or multiples of 0.1 (non-dyadic: their sums depend on the order of summation),
    row-major or column-major history / batch arrays"""
    h = (len(existing) * 7 + dims * 3 + b + passes) % 6
    return {"scale": 0.1 if h in (1, 2, 4) else 1.0, "layout": {0: "C", 1: "C", 2: "F-hist", 3: "F-batch", 4: "F-both", 5: "C"}[h]}


def present(rows, dims, which):
    a = np.array(rows, dtype=float).reshape(-1, dims) * PRES["scale"]
    if PRES["layout"] in ("F-both", "F-" + which):
        a = np.asfortranarray(a)
    return a


def labels(a):
    """back to the integer labels (exact: the presentation is injective); None if a value is not one of the presented ones"""
    a = np.asarray(a, dtype=float)
    if PRES["scale"] == 1.0:
        return a
    lab = np.rint(a / PRES["scale"])
    return lab if np.array_equal(lab * PRES["scale"], a) else None


def make_sampler(script, batch_size, passes, reuse=False):
    from black_it.samplers.base import BaseSampler

    class Scripted(BaseSampler):
        """k-th call of sample_batch(m, …) returns the first m rows of script[k]; records what it is asked for"""

        def __init__(self):
            super().__init__(batch_size=batch_size, max_deduplication_passes=passes)
            self.load(script, batch_size, passes)

        def load(self, script_, batch_size_, passes_):
            self.script_, self.batch_size, self.max_deduplication_passes = script_, batch_size_, passes_
            self.requests, self.snapshots, self.first = [], [], None

        def sample_batch(self, batch_size, search_space, existing_points, existing_losses):
            k = len(self.requests)
            self.requests.append(int(batch_size))
            if self.first is not None:
                self.snapshots.append(self.first.copy())  # the batch as it is when pass k starts
            out = present(self.script_[k][:batch_size], len(self.script_[0][0]), "batch")
            if self.first is None:
                self.first = out
            return out

    if reuse and "obj" in _REUSED:
        _REUSED["obj"].load(script, batch_size, passes)
        return _REUSED["obj"]
    smp = Scripted()
    if reuse:
        _REUSED["obj"] = smp
    return smp


def rows_s(a) -> str:
    return " ".join(",".join(str(int(x)) for x in r) for r in a)


def req(passes, b, dims, existing, script) -> str:
    def rl(rows):
        return f"{len(rows)} " + " ".join(" ".join(str(int(x)) for x in r) for r in rows) if len(rows) else "0"
    return f"dedup.sample {passes} {b} {dims} {rl(existing)} {len(script)} " + " ".join(rl(s) for s in script)


def gen_case(rng, chk):
    dims = rng.choice([1, 1, 2, 3, 2, 3, 8, 9, 12])
    alpha = rng.choice([2, 3, 4, 6, 12])        # small alphabets -> frequent collisions
    b = rng.randint(1, 6)
    passes = rng.randint(0, 6)
    nex = rng.choice([0, 0, 1, 3, 8, 20])
    # a common large offset: rows that differ by a few units are then "close" in the sense of np.isclose, but they are different points
    off = rng.choice([0, 0, 0, 100000, 1000000, -30000000])
    chk.count("offset:" + ("none" if off == 0 else "large"))
    row = lambda: [off + rng.randrange(alpha) - rng.choice([0, 0, 1]) for _ in range(dims)]
    existing = [row() for _ in range(nex)]
    if existing and rng.random() < 0.4:
        existing += [list(rng.choice(existing)) for _ in range(rng.randint(1, 3))]  # history with internal repeats
        chk.count("history_with_repeats")
    script = []
    for k in range(passes + 1):
        rows = []
        for _ in range(b):
            kind = rng.choice(["fresh", "fresh", "hist", "inbatch", "earlier"])
            if kind == "hist" and existing:
                rows.append(list(rng.choice(existing)))
            elif kind == "inbatch" and rows:
                rows.append(list(rng.choice(rows)))
            elif kind == "earlier" and script:
                rows.append(list(rng.choice(rng.choice(script))))
            elif kind == "fresh" and rng.random() < 0.5:
                rows.append([off + 1000 + 10 * k + len(rows) + j for j in range(dims)])  # surely fresh
            else:
                rows.append(row())
        script.append(rows)
    if off == 0 and rng.random() < 0.5:
        # zeros of either sign: -0.0 == 0.0, so a point that differs from another only in the sign of a zero IS a repeat of it
        neg = lambda rows: [[(-0.0 if (v == 0 and rng.random() < 0.5) else float(v)) for v in r] for r in rows]
        existing = neg(existing)
        script = [neg(rows) for rows in script]
        chk.count("signed_zeros")
    return dims, b, passes, existing, script


def repeats(cur, existing) -> set[int]:
    c = Counter(tuple(r) for r in existing) + Counter(tuple(r) for r in cur)
    return {i for i, r in enumerate(cur) if c[tuple(r)] > 1}


def oracle(b, passes, existing, script, out, smp, warned) -> list[str]:
    """the statements of C12 evaluated on the recorded real run (independent of the Lean model)"""
    errs = []
    first = [tuple(r) for r in script[0][:b]]
    res = [tuple(r) for r in out.tolist()]
    if out.shape != (b, len(script[0][0])):
        errs.append(f"batch shape {out.shape} != ({b},{len(script[0][0])})")
        return errs
    if smp.requests[0] != b:
        errs.append(f"first request {smp.requests[0]} != batch_size {b}")
    states = [np.array(s).tolist() for s in smp.snapshots] + [out.tolist()]
    cur = [list(r) for r in script[0][:b]]
    touched = set()
    for k in range(1, len(smp.requests)):
        if [tuple(r) for r in states[k - 1]] != [tuple(r) for r in cur]:
            errs.append(f"batch before pass {k} is not what the substitutions so far give")
            break
        R = repeats(cur, existing)
        if smp.requests[k] != len(R):
            errs.append(f"pass {k}: asked the generator for {smp.requests[k]} points but there were {len(R)} repeats")
            break
        nxt = states[k]
        for i in range(b):
            if i not in R and tuple(nxt[i]) != tuple(cur[i]):
                errs.append(f"pass {k}: position {i} was not a repeat but was altered")
        if Counter(tuple(nxt[i]) for i in R) != Counter(tuple(r) for r in script[k][:len(R)]):
            errs.append(f"pass {k}: rows placed at the repeated positions are not the redrawn rows")
        touched |= R
        cur = [list(r) for r in nxt]
    if [tuple(r) for r in cur] != res:
        errs.append("returned batch differs from the last substituted batch")
    for i in range(b):
        if i not in touched and res[i] != first[i]:
            errs.append(f"position {i} never was a repeat but differs from the first draw")
    n_redraws = len(smp.requests) - 1
    if repeats(out.tolist(), existing) and n_redraws != passes:
        errs.append(f"returned a repeat after only {n_redraws} of {passes} redraw passes")
    if n_redraws > passes:
        errs.append(f"{n_redraws} redraw passes > budget {passes}")
    if n_redraws < passes and len(smp.requests) >= 1:
        # stopped early: last examined batch must have been clean
        if repeats(out.tolist(), existing):
            errs.append("stopped early although the batch still had repeats")
    return errs


def run_real(b, passes, dims, existing, script, reuse=False, smp=None):
    PRES.update(presentation(dims, b, passes, existing))
    if smp is None:
        smp = make_sampler(script, b, passes, reuse=reuse)
    else:
        smp.load(script, b, passes)
    ex = present(existing, dims, "hist")
    ex0 = ex.copy()
    buf = io.StringIO()
    with contextlib.redirect_stdout(buf):
        out = smp.sample(None, ex, np.zeros(len(ex)))
    hist_ok = np.array_equal(ex, ex0)
    out = labels(out)
    if out is None:
        raise ValueError("returned batch holds values that are neither first draws nor redraws")
    smp.snapshots = [labels(x) for x in smp.snapshots]
    return smp, out, "Warning" in buf.getvalue(), hist_ok


def run(chk: Check):
    from black_it.samplers.base import BaseSampler

    rng = chk.rng
    chk.rule = ("scripted BaseSampler subclass (k-th sample_batch call returns the first m rows of script[k]); histories of 0-23 "
                "rows incl. internal repeats, small alphabets so collisions are frequent: fresh rows, repeats of history, in-batch "
                "repeats, repeats of earlier redraws; batch 1-6, dims 1-3, passes 0-6. non-trivial = at least one redraw pass ran")
    chk.trusted_base = ["Lean 4.33 kernel", "Mathlib (Data.List.Perm/Nodup/Range)",
                        "numpy contract: unique(axis=0,return_counts) groups equal rows in lexicographic order; fancy assignment "
                        "samples[idx] = rows writes row k to position idx[k]", "harness/props/c12.py + lean/Driver.lean"]
    chk.assumptions = ["'gives up only if every pass still produced a repeat for it' is formalised per run (every pass still found "
                       "a repeat), see DESIGN.md §4 C12 reading note",
                       "generator contract: sample_batch(m) returns exactly m rows (hypothesis hdraw of sample_length; C03 discharges "
                       "it for the built-in samplers)"]
    chk.proof_stage(PROP_FILE)

    n = 4000 if chk.tier == "quick" else 60000
    cases = [gen_case(rng, chk) for _ in range(n)]
    # find_and_get_duplicates alone (order of reported positions)
    find_cases = []
    for _ in range(n // 4):
        dims = rng.choice([1, 2, 3, 8, 11]); a = rng.choice([2, 3, 5])
        off = rng.choice([0, 0, 100000, -2000000])
        new = [[off + rng.randrange(a) for _ in range(dims)] for _ in range(rng.randint(0, 8))]
        ex = [[off + rng.randrange(a) for _ in range(dims)] for _ in range(rng.randint(0, 8))]
        find_cases.append((dims, new, ex))
    reqs = [req(p, b, d, ex, sc) for (d, b, p, ex, sc) in cases]
    for dims, new, ex in find_cases:
        rl = lambda rows: f"{len(rows)} " + " ".join(" ".join(str(x) for x in r) for r in rows) if rows else "0"
        reqs.append(f"dedup.find {dims} {rl(new)} {rl(ex)}")
    answers = lean_run(reqs)

    for (dims, b, passes, existing, script), ans in zip(cases, answers):
        reuse = (len(existing) + dims + b) % 2 == 0      # about half of the cases go through one long-lived sampler object
        chk.count("sampler_object:" + ("reused" if reuse else "fresh"))
        pr = presentation(dims, b, passes, existing)
        chk.count(f"presented:{'multiples_of_0.1' if pr['scale'] != 1.0 else 'whole_numbers'}:{pr['layout']}:dims{'>=8' if dims >= 8 else '<8'}")
        try:
            smp, out, warned, hist_ok = run_real(b, passes, dims, existing, script, reuse=reuse)
            smp = type("Rec", (), {"requests": list(smp.requests), "snapshots": list(smp.snapshots)})()
        except Exception as e:  # noqa: BLE001  (an exception of the code under test is an outcome, not a harness error)
            chk.case([dims, b, passes, existing, script], True, {"batch_size": b, "passes": passes, "raised": type(e).__name__})
            chk.fail(f"sample() raised {type(e).__name__}: {str(e)[:120]} on a scripted draw sequence",
                     {"case": {"dims": dims, "b": b, "passes": passes, "existing": existing, "script": script}})
            continue
        runs = []
        impl = (f"samples {rows_s(out.tolist())} | requests {','.join(str(r) for r in smp.requests)}")
        model_main = ans.split(" | runs ")[0]
        model_warned = ans.endswith("warned 1")
        nontriv = len(smp.requests) > 1
        chk.case([dims, b, passes, existing, script], nontriv,
                 {"batch_size": b, "passes": passes, "history": existing[:6], "script": script[:3],
                  "returned": out.tolist(), "requests": smp.requests, "warned": warned})
        chk.count(f"redraw_passes:{len(smp.requests) - 1}")
        if repeats(out.tolist(), existing):
            chk.count("gave_up_with_repeat")
        for e in oracle(b, passes, existing, script, out, smp, warned):
            chk.fail("sample(): " + e, {"case": {"dims": dims, "b": b, "passes": passes, "existing": existing, "script": script}})
        if not hist_ok:
            chk.fail("sample() modified the history array", {"case": {"dims": dims, "b": b, "passes": passes, "existing": existing, "script": script}})
        if impl != model_main or warned != model_warned:
            chk.disagree("BaseSampler.sample != BlackIt.Dedup.sample",
                         {"case": {"dims": dims, "b": b, "passes": passes, "existing": existing, "script": script},
                          "impl": impl + f" warned {int(warned)}", "model": ans})
    object_life(chk, rng)
    huge_space(chk, rng)
    for (dims, new, ex), ans in zip(find_cases, answers[len(cases):]):
        PRES.update(presentation(dims, len(new), 0, ex))
        got = BaseSampler.find_and_get_duplicates(present(new, dims, "batch"), present(ex, dims, "hist"))
        impl = "[" + ",".join(str(int(i)) for i in got) + "]"
        R = repeats(new, ex)
        chk.case(["find", new, ex], len(R) > 0)
        if set(int(i) for i in got) != R or len(got) != len(R):
            chk.fail(f"find_and_get_duplicates reports {impl}, repeated positions are {sorted(R)}", {"case": {"find": True, "dims": dims, "new": new, "existing": ex}})
        if impl != ans:
            chk.disagree("find_and_get_duplicates != BlackIt.Dedup.findDuplicates", {"new": new, "existing": ex, "impl": impl, "model": ans})


def object_life(chk: Check, rng):
    """one sampler object through the life a calibration gives it: a history that only grows (its own batches and other samplers' rows), two to five calls,
    and - as a checkpoint restore does - a state round trip (__reduce_ex__/__getstate__/__setstate__, via copy.deepcopy) between some of the calls; the later
    draws keep hitting points recorded early in the history.  Every call is an ordinary case of the property and is compared with the model."""
    import copy

    n = 150 if chk.tier == "quick" else 2500
    pending = []
    for it in range(n):
        dims = rng.choice([1, 2, 3]); alpha = rng.choice([2, 3, 4]); b = rng.randint(1, 4); passes = rng.randint(1, 4)
        row = lambda: [rng.randrange(alpha) for _ in range(dims)]
        history = [row() for _ in range(rng.choice([0, 1, 2, 5]))]
        smp = None
        events = []
        for call in range(rng.randint(2, 5)):
            script = []
            for k in range(passes + 1):
                rows = []
                for _ in range(b):
                    kind = rng.choice(["fresh", "early", "early", "hist", "inbatch", "random"])
                    if kind in ("early", "hist") and history:
                        rows.append(list(history[rng.randrange(max(1, len(history) // 2))] if kind == "early" else rng.choice(history)))
                    elif kind == "inbatch" and rows:
                        rows.append(list(rng.choice(rows)))
                    elif kind == "fresh":
                        rows.append([1000 + 100 * call + 10 * k + len(rows) + j for j in range(dims)])
                    else:
                        rows.append(row())
                script.append(rows)
            existing = [list(r) for r in history]
            if smp is not None and rng.random() < 0.5:
                smp = copy.deepcopy(smp); events.append("state_round_trip")
                chk.count("object_life:state_round_trip_between_calls")
            case = {"case": {"dims": dims, "b": b, "passes": passes, "existing": existing, "script": script, "object_life": list(events), "call": call}}
            try:
                smp, out, warned, hist_ok = run_real(b, passes, dims, existing, script, smp=smp if smp is not None else make_sampler(script, b, passes))
            except Exception as e:  # noqa: BLE001
                chk.fail(f"sample() raised {type(e).__name__}: {str(e)[:120]} on call {call} of one sampler object (events {events})", case)
                break
            chk.case(["life", it, call, dims, b, passes, existing, script], len(smp.requests) > 1, {"batch_size": b, "passes": passes, "call": call, "events": list(events), "returned": out.tolist()})
            chk.count("object_life:calls")
            rec = type("Rec", (), {"requests": list(smp.requests), "snapshots": list(smp.snapshots)})()
            for e in oracle(b, passes, existing, script, out, rec, warned):
                chk.fail(f"sample() on call {call} of one sampler object over a growing history (events {events}): " + e, case)
            if not hist_ok:
                chk.fail("sample() modified the history array", case)
            pending.append((req(passes, b, dims, existing, script), f"samples {rows_s(out.tolist())} | requests {','.join(str(r) for r in rec.requests)}", warned, case))
            events.append("call")
            history += [list(map(float, r)) for r in out.tolist()] + [row() for _ in range(rng.choice([0, 0, 1, 3]))]
    for (rq, impl, warned, case), ans in zip(pending, lean_run([p[0] for p in pending]) if pending else []):
        if impl != ans.split(" | runs ")[0] or warned != ans.endswith("warned 1"):
            chk.disagree("BaseSampler.sample != BlackIt.Dedup.sample (one object, growing history, state round trips)", {**case, "impl": impl + f" warned {int(warned)}", "model": ans})


def huge_space(chk: Check, rng):
    """a real SearchSpace with more grid points than 64-bit counters can number (five parameters of 65536 values), every point exactly on the grid; the new
    points are near-copies of history points: equal in all coordinates but one (each coordinate in turn) - these are NOT repeats - next to true repeats"""
    from black_it.search_space import SearchSpace

    dims = 5
    sp = SearchSpace([[0.0] * dims, [65535.0] * dims], [1.0] * dims, False)
    pending = []
    for it in range(40 if chk.tier == "quick" else 600):
        b = rng.randint(1, 3); passes = rng.randint(1, 3)
        hist = [[rng.randrange(65536) for _ in range(dims)] for _ in range(rng.randint(2, 6))]
        script = []
        for k in range(passes + 1):
            rows = []
            for _ in range(b):
                base = list(rng.choice(hist))
                kind = rng.choice(["near", "near", "repeat", "fresh"])
                if kind == "near":
                    j = (it + len(rows) + k) % dims
                    base[j] = (base[j] + rng.choice([1, 255, 256, 4096, 32768, 65535])) % 65536
                    if base in hist:
                        base[j] = (base[j] + 1) % 65536
                elif kind == "fresh":
                    base = [rng.randrange(65536) for _ in range(dims)]
                rows.append(base)
            script.append(rows)
        case = {"case": {"dims": dims, "b": b, "passes": passes, "existing": hist, "script": script, "search_space": "5 x [0, 65535] step 1"}}
        smp = make_sampler(script, b, passes)
        PRES.update({"scale": 1.0, "layout": "C"})
        try:
            ex = np.array(hist, dtype=float)
            buf = io.StringIO()
            with contextlib.redirect_stdout(buf):
                out = smp.sample(sp, ex, np.zeros(len(ex)))
            out_l = labels(out)
        except Exception as e:  # noqa: BLE001
            chk.fail(f"sample() on a very large search space raised {type(e).__name__}: {str(e)[:100]}", case)
            continue
        if out_l is None:
            chk.fail("sample() on a very large search space returned values that are neither first draws nor redraws", case)
            continue
        smp.snapshots = [labels(x) for x in smp.snapshots]
        rec = type("Rec", (), {"requests": list(smp.requests), "snapshots": list(smp.snapshots)})()
        warned = "Warning" in buf.getvalue()
        chk.case(["huge", it, b, passes, hist, script], len(rec.requests) > 1, {"batch_size": b, "passes": passes, "returned": out_l.tolist()}); chk.count("huge_real_search_space")
        for e in oracle(b, passes, hist, script, out_l, rec, warned):
            chk.fail("sample() on a search space of 65536^5 points: " + e, case)
        pending.append((req(passes, b, dims, hist, script), f"samples {rows_s(out_l.tolist())} | requests {','.join(str(r) for r in rec.requests)}", warned, case))
    for (rq, impl, warned, case), ans in zip(pending, lean_run([p[0] for p in pending]) if pending else []):
        if impl != ans.split(" | runs ")[0] or warned != ans.endswith("warned 1"):
            chk.disagree("BaseSampler.sample != BlackIt.Dedup.sample (real search space of 65536^5 points)", {**case, "impl": impl + f" warned {int(warned)}", "model": ans})


def replay(path: Path) -> int:
    r = json.loads(path.read_text())
    bad = 0
    for fi in r.get("failing_inputs", []):
        c = fi.get("case")
        if not c or c.get("find"):
            continue
        try:
            smp, out, warned, _ = run_real(c["b"], c["passes"], c["dims"], c["existing"], c["script"])
        except Exception as e:  # noqa: BLE001
            print("REPLAY", fi["what"][:120], "-> still fails (raises", type(e).__name__ + ")"); bad += 1
            continue
        errs = oracle(c["b"], c["passes"], c["existing"], c["script"], out, smp, warned)
        print("REPLAY", fi["what"][:120], "->", "still fails" if errs else "passes now")
        bad += bool(errs)
    return 1 if bad else 0
