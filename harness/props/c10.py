"""C10 — RL scheduler/agent exchange under forced thread interleavings: real threads vs `BlackIt.RL`."""
from __future__ import annotations

import itertools
import json
import random
from pathlib import Path

from vp import rlsched
from vp.core import LEAN, Check, f2h, lean_run

MODULE = "BlackIt.Properties.C10"
PROP_FILE = LEAN / "BlackIt/Properties/C10.lean"


def mk_chooser(kind, rng, bits=None):
    state = {"k": 0}

    def choose(en, ctl):
        if len(en) == 1:
            return en[0]
        if kind == "random":
            return rng.choice(en)
        if kind == "main_first":
            return "M"
        if kind == "agent_first":
            return "A"
        if kind == "alternate":
            state["k"] += 1
            return en[state["k"] % 2]
        # explicit bit string (exhaustive exploration); default agent once the bits are used up
        b = bits[state["k"]] if state["k"] < len(bits) else 0
        state["k"] += 1
        return en[b]
    return choose


def expected_rewards(script, losses):
    """reward of every agent-chosen batch by the published rule, from that very batch's outcome: (reference - best)/reference when the best
    loss decreased, else 0; the reference is the best loss so far (set by the bootstrap batch)"""
    out, ref, li, batch = {}, None, 0, 0
    for n, fail in script:
        for _ in range(n):
            batch += 1
            l = losses[li % len(losses)]; li += 1
            if ref is None:
                ref = l
                continue
            if l < ref:
                out[batch] = None if (ref == 0 or abs(ref) == float("inf") or abs(l) == float("inf")) else (ref - l) / ref
                ref = l
            else:
                out[batch] = 0.0
    return out


def loss_sequence(script, losses):
    """(bootstrap loss, [minimum loss of every agent-chosen batch, in order]) of a scripted run"""
    seq, li = [], 0
    for n, fail in script:
        for _ in range(n):
            seq.append(losses[li % len(losses)]); li += 1
    return (seq[0], seq[1:]) if seq else (None, [])


def oracle(script, r, losses=None) -> list[str]:
    """the statements of C10 on the recorded real execution"""
    errs = []
    if losses is not None and not r["deadlock"]:
        want = expected_rewards(script, losses)
        for (b, a, rew) in r["learned"]:
            w = want.get(b, "?")
            if w is None or w == "?":
                continue
            if not (rew == w or (rew != rew and w != w)):
                errs.append(f"the reward learned for batch {b} is {rew!r}, that batch's own outcome gives {w!r}")
                break
    if r["deadlock"]:
        errs.append(f"deadlock: {r['deadlock']}")
        return errs
    if r["errors"]:
        errs.append(f"calibration thread raised: {r['errors'][0]}")
    ex = r["executed"]
    le = [(b, a) for (b, a, rew) in r["learned"]]
    if le != ex:
        errs.append(f"learn calls {le} are not exactly the executed agent-chosen batches {ex} (batch, sampler)")
    for i, s in enumerate(r["snaps"]):
        if s is None:
            continue
        l, e = s["le"], s["ex"]
        if not (l == e[:len(l)] and len(e) - len(l) <= 1):
            errs.append(f"at step {i}: learned {l} is not executed {e} minus at most the batch in flight")
            break
    for i, se in enumerate(r["session_ends"]):
        if se["aq"] or se["oq"]:
            errs.append(f"session {i + 1} ended with messages left over: actions {se['aq']}, outcomes {se['oq']}")
        if se["alive"]:
            errs.append(f"agent thread still alive after session {i + 1} ended")
        if se["le"] != se["ex"]:
            errs.append(f"session {i + 1} ended with learn calls {se['le']} != executed {se['ex']}")
    if len(r["session_ends"]) != len(script):
        errs.append(f"only {len(r['session_ends'])} of {len(script)} sessions completed")
    return errs


def model_compare(chk, cfg, r):
    script = cfg["script"]
    req = (f"rl.run {len(script)} " + " ".join(f"{n} {int(f)}" for n, f in script) + f" {len(r['tape'])} " + " ".join(map(str, r["tape"]))
           + f" {len(r['moves'])} " + " ".join("1" if m else "0" for m in r["moves"])).replace("  ", " ")
    return req


def snap_str(s):
    return (f"aq=[{','.join(map(str, s['aq']))}] oq=[{','.join('END' if x is None else str(x) for x in s['oq'])}] "
            f"ex=[{','.join(f'{b}:{a}' for b, a in s['ex'])}] le=[{','.join(f'{b}:{a}' for b, a in s['le'])}]")


def model_str(line):
    parts = dict(x.split("=", 1) for x in line.split(" ") if "=" in x)
    return f"aq={parts['aq']} oq={parts['oq']} ex={parts['ex']} le={parts['le']}"


def run(chk: Check):
    rng = chk.rng
    chk.rule = ("real RLScheduler + CalibrationEnv + MABEpsilonGreedy threads run under a controller that parks each thread at every synchronisation point "
                "(queue put/get, flag read/write, Thread.start/join, policy, learn) and grants one step at a time; scripts of 1-3 sessions x 1-3 batches, with and "
                "without a failing batch, improving and non-improving losses, epsilon-greedy and scripted agents; schedules: random, main-first, agent-first, "
                "alternating, and for the smallest scripts EVERY interleaving (all bit strings over the choice points). The event trace is replayed on the Lean "
                "model move by move. non-trivial = schedule with >= 3 points where both threads were enabled")
    chk.trusted_base = ["Lean 4.33 kernel", "CPython: queue.Queue put/get atomic and FIFO, attribute reads/writes atomic, Thread.start/join — preemption inside them is not modelled",
                        "local steps (policy, reward+learn, flag accesses of the calibration thread) fused with the neighbouring synchronisation step",
                        "harness/vp/rlsched.py (controller, event-to-move translation)"]
    chk.assumptions = ["granularity = synchronisation points; the theorem covers all interleavings at that granularity, all scripts, all failures, all agents"]
    chk.proof_stage(PROP_FILE)
    configs = []
    n_cfg = 10 if chk.tier == "quick" else 120
    for _ in range(n_cfg):
        ns = rng.randint(1, 3)
        script = [(rng.randint(1, 3), False) for _ in range(ns)]
        if rng.random() < 0.4:
            i = rng.randrange(ns); script[i] = (rng.randint(0, 2), True)
        inf = float("inf")
        losses = rng.choice([[10.0 - k for k in range(9)], [5.0, 5.0, 4.0, 6.0, 4.0, 3.5, 7.0, 1.0, 1.0], [3.0] * 9,
                             # a perfect fit (best loss exactly 0.0), ties at it, negative losses, a diverging first batch
                             [4.0, 0.0, 1.0, 2.0, 0.0, 0.0, 3.0, 0.0, 1.0], [0.0] * 9, [2.0, -1.0, -1.0, -3.5, 0.0, -3.5, 1.0, -4.0, 2.0],
                             [inf, inf, 2.0, inf, 1.0, 1.0, 0.5, inf, 0.25],
                             # slow late-stage convergence: improvements by a relative 1e-10 .. 1e-9
                             [1.0, 1.0 - 4e-10, 2.0, 1.0 - 1.6e-9, 0.5, 0.5 * (1 - 2e-10), 0.5, 0.5 * (1 - 9e-10), 0.1]])
        if len(configs) < 3:      # always: one perfect-fit run, one diverging first batch, one slow convergence, with batches after them
            losses = [[4.0, 0.0, 1.0, 2.0, 0.0, 0.0, 3.0, 0.0, 1.0], [inf, inf, 2.0, inf, 1.0, 1.0, 0.5, inf, 0.25],
                      [1.0, 1.0 - 4e-10, 2.0, 1.0 - 1.6e-9, 0.5, 0.5 * (1 - 2e-10), 0.5, 0.5 * (1 - 9e-10), 0.1]][len(configs)]
            script = [(3, False), (2, False)]
        chk.count("losses:" + ("zero" if 0.0 in losses else "inf" if inf in losses else "negative" if min(losses) < 0 else "positive"))
        configs.append({"script": script, "losses": losses, "agent": rng.choice(["eps", "eps", "scripted"]), "agent_seed": rng.randrange(100),
                        "actions": [rng.randrange(2) for _ in range(5)]})
    reqs, metas, rew_reqs, rew_meta = [], [], [], []
    for ci, cfg in enumerate(configs):
        runs = []
        kinds = ["main_first", "agent_first", "alternate"] + ["random"] * (10 if chk.tier == "quick" else 30)
        for kind in kinds:
            chooser = mk_chooser(kind, random.Random(rng.randrange(10 ** 9)))
            r = rlsched.run_real(cfg["script"], cfg["losses"], cfg["agent"], cfg["agent_seed"], chooser,
                                 scripted_actions=cfg["actions"] if cfg["agent"] == "scripted" else None)
            runs.append((kind, r))
        # schedule independence on the implementation: same config, every schedule -> same executed sequence and learn calls
        ref = None
        for kind, r in runs:
            key = (r["executed"], [(b, a) for (b, a, _) in r["learned"]], r["tape"][:len(r["executed"])])
            sample = {"script": cfg["script"], "agent": cfg["agent"], "schedule": kind, "choice_points": r["choice_points"], "events": len(r["events"]),
                      "executed": r["executed"], "first_events": [f"{w}:{e[0]}" for w, e in r["events"][:14]]}
            chk.case([cfg, [int(m) for m in r["moves"]]], r["choice_points"] >= 3, sample)
            chk.count("schedule:" + kind); chk.count("failing_session" if any(f for _, f in cfg["script"]) else "clean_sessions")
            for e in oracle(cfg["script"], r, cfg["losses"])[:3]:
                chk.fail("RL exchange: " + e, {"case": {"cfg": cfg, "moves": [int(m) for m in r["moves"]], "schedule": kind}})
            if ref is None:
                ref = key
            elif key[:2] != ref[:2] and not r["deadlock"]:
                chk.fail(f"the sequence of samplers depends on thread timing: {ref[0]} vs {key[0]} for the same script and agent",
                         {"case": {"cfg": cfg, "moves": [int(m) for m in r["moves"]], "schedule": kind}})
            reqs.append(model_compare(chk, cfg, r)); metas.append((cfg, kind, r))
            # the rewards the agent learned vs the model's scheduler -> environment chain (BlackIt.Bandit.runRewards), bit for bit
            boot, seq = loss_sequence(cfg["script"], cfg["losses"])
            if boot is not None and not r["deadlock"] and len(r["learned"]) == len(seq):
                rew_reqs.append(f"bandit.rewards {f2h(boot)} {len(seq)} " + " ".join(f2h(x) for x in seq)); rew_meta.append((cfg, kind, [rw for (_, _, rw) in r["learned"]]))
    for (cfg, kind, learned), ans in zip(rew_meta, lean_run(rew_reqs) if rew_reqs else []):
        chk.count("rewards_vs_lean_model")
        if " ".join(f2h(x) for x in learned) != ans:
            chk.disagree("rewards learned by the agent != BlackIt.Bandit.runRewards of the run's loss sequence", {"cfg": cfg, "schedule": kind, "impl": [f2h(x) for x in learned], "model": ans})
    # exhaustive interleavings of the smallest scripts
    for script in ([(1, False)], [(2, False)], [(1, True)]) if chk.tier == "quick" else ([(1, False)], [(2, False)], [(1, True)], [(1, False), (1, False)], [(3, False)]):
        cfg = {"script": script, "losses": [4.0, 3.0, 2.0, 1.0], "agent": "scripted", "agent_seed": 0, "actions": [1, 0, 1]}
        seen, frontier, n_runs = set(), [[]], 0
        while frontier and n_runs < (400 if chk.tier == "quick" else 6000):
            bits = frontier.pop()
            r = rlsched.run_real(script, cfg["losses"], "scripted", 0, mk_chooser("bits", None, bits), scripted_actions=cfg["actions"])
            n_runs += 1
            ncp = r["choice_points"]
            for j in range(len(bits), ncp):      # every unexplored deviation from the default choice
                alt = bits + [0] * (j - len(bits)) + [1]
                if tuple(alt) not in seen:
                    seen.add(tuple(alt)); frontier.append(alt)
            chk.case([cfg, [int(m) for m in r["moves"]]], ncp >= 3, None)
            chk.count("exhaustive_runs")
            for e in oracle(script, r)[:3]:
                chk.fail("RL exchange (exhaustive): " + e, {"case": {"cfg": cfg, "moves": [int(m) for m in r["moves"]], "schedule": bits}})
            reqs.append(model_compare(chk, cfg, r)); metas.append((cfg, "bits", r))
        chk.extra.setdefault("exhaustive_interleavings", []).append({"script": script, "runs": n_runs, "complete": not frontier})
    answers = lean_run(reqs)
    for (cfg, kind, r), ans in zip(metas, answers):
        outs = ans.split(" ; ")
        if r["deadlock"]:
            continue
        if any(o.startswith("DISABLED") for o in outs):
            k = next(i for i, o in enumerate(outs) if o.startswith("DISABLED"))
            chk.disagree("the real threads made a move the model does not allow", {"cfg": cfg, "schedule": kind, "move_index": k,
                         "event": str(r["events"][r["snap_idx"][k] - 1]) if k < len(r["snap_idx"]) else None})
            continue
        if outs[-1] != "terminal":
            chk.disagree("the real execution finished but the model is not in a terminal state", {"cfg": cfg, "schedule": kind, "model_end": outs[-2][:200]})
        for k, (si, line) in enumerate(zip(r["snap_idx"], outs[:-1])):
            s = r["snaps"][si] if si < len(r["snaps"]) else None
            if s is None:
                continue
            if snap_str(s) != model_str(line):
                chk.disagree("queues / executed / learned after a move differ between the real threads and BlackIt.RL",
                             {"cfg": cfg, "schedule": kind, "move_index": k, "event": str(r["events"][si - 1]), "impl": snap_str(s), "model": model_str(line)})
                break


def replay(path: Path) -> int:
    r = json.loads(path.read_text())
    bad = 0
    for fi in r.get("failing_inputs", []):
        c = fi.get("case")
        if not c:
            continue
        cfg = c["cfg"]
        # replay the recorded move sequence: grant M/A in that order whenever both are enabled
        seq = list(c["moves"])
        def chooser(en, ctl, seq=seq):
            return en[0]
        rr = rlsched.run_real([tuple(x) for x in cfg["script"]], cfg["losses"], cfg["agent"], cfg["agent_seed"],
                              mk_chooser("random", random.Random(0)), scripted_actions=cfg["actions"] if cfg["agent"] == "scripted" else None)
        errs = oracle([tuple(x) for x in cfg["script"]], rr)
        print("REPLAY", fi["what"][:120], "->", "still fails" if errs else "passes now (schedule-dependent: rerun the check)")
        bad += bool(errs)
    return 1 if bad else 0
