"""C05 — resuming from a checkpoint equals never having stopped (live splits and stop/restore cycles)."""
from __future__ import annotations

import copy
import json
import warnings
from pathlib import Path

import numpy as np

from props.c02 import scn_from_json, scn_json
from vp import calharness as ch
from vp import twin
from vp.core import LEAN, Check

MODULE = "BlackIt.Properties.C05"
PROP_FILE = LEAN / "BlackIt/Properties/C05.lean"


def gen_cfg(rng, k_samplers=None):
    names = list(twin.BUILTINS)
    rng.shuffle(names)
    k = k_samplers or rng.randint(2, 9)
    lineup = [(nm, rng.randint(1, 4) if nm != "BestBatchSampler" else rng.randint(1, 2), rng.choice([None, 3])) for nm in names[:k]]
    if lineup[0][0] in ("BestBatchSampler", "GaussianProcessSampler", "RandomForestSampler", "XGBoostSampler", "CORSSampler", "ParticleSwarmSampler") \
            or lineup[0][1] < 2:
        lineup.insert(0, ("HaltonSampler", 4, None))   # history-free first batch, large enough for best-batch (needs >= batch_size points)
    # with the RL scheduler the first batch comes from the line-up's own Halton sampler when it has one: it too must provide enough points for a
    # best-batch sampler that the agent may choose next (the library rejects that configuration with a ValueError — a user error, not the subject here)
    lineup = [(nm, max(bs, 2) if nm == "HaltonSampler" else bs, cs) for (nm, bs, cs) in lineup]
    cfg = {"lineup": lineup, "dims": rng.randint(1, 4), "loss": rng.choice(twin.LOSSES), "ensemble": rng.randint(1, 3),
           "seed": rng.randrange(10 ** 6), "n_jobs": 1}
    if cfg["loss"].startswith(("msm", "likelihood", "gsl")) and rng.random() < 0.6:
        # simulations longer or shorter than the real series (admissible: the constructor only warns); losses that compare summaries, not points
        cfg["sim_length"] = rng.choice([16, 30, 40])
    return cfg


def check_cfg(chk, cfg, n, comps, label):
    base, rets, _ = twin.run_segments(cfg, [(n, "end")], use_folder=True)
    for comp in comps:
        twin.RESTORE_DIFFS.clear()
        try:
            h, r, _ = twin.run_segments(cfg, comp)
        except Exception as e:  # noqa: BLE001  (the uninterrupted run completed: an exception here is a difference between stopping and not stopping)
            chk.case([cfg, comp], len(comp) >= 2, {"lineup": [x[0] for x in cfg["lineup"]], "loss": cfg["loss"], "total_batches": n, "segments": comp, "raised": type(e).__name__})
            chk.fail(f"the run cut into {comp} raised {type(e).__name__}: {str(e)[:120]} while the uninterrupted run of {n} batches completed"
                     + (f" (sim_length {cfg['sim_length']})" if cfg.get("sim_length") else ""), {"case": {"cfg": cfg, "n": n, "segments": comp}})
            continue
        bad = twin.same_history(base, h)
        if twin.RESTORE_DIFFS:
            # the restored object already differs from the one that was saved (generator buffers, sampler internals ...):
            # continuing from it cannot be guaranteed to equal never having stopped, even if this particular run does not show it yet
            k, dd = twin.RESTORE_DIFFS[0]
            chk.fail(f"state restored after segment {k} of {comp} is not the state that was stopped: {dd}", {"case": {"cfg": cfg, "n": n, "segments": comp}})
        nrest = sum(1 for _, b in comp if b == "restore")
        chk.case([cfg, comp], len(comp) >= 2, {"lineup": [x[0] for x in cfg["lineup"]], "loss": cfg["loss"], "total_batches": n, "segments": comp})
        chk.count(f"{label}:restores={min(nrest, 3)}"); chk.count(f"{label}:segments={min(len(comp), 5)}")
        if bad:
            chk.fail(f"history after segments {comp} differs from the uninterrupted run of {n} batches in {bad}", {"case": {"cfg": cfg, "n": n, "segments": comp}})
        # the last return value must equal the uninterrupted run's
        if not bad and (r[-1][0].tobytes() != rets[-1][0].tobytes() or np.asarray(r[-1][1], dtype=float).tobytes() != np.asarray(rets[-1][1], dtype=float).tobytes()):
            # ties of argsort may be ordered differently only if the histories differ: report
            if sorted(map(tuple, r[-1][0].tolist())) != sorted(map(tuple, rets[-1][0].tolist())):
                chk.fail(f"return value after segments {comp} differs from the uninterrupted run", {"case": {"cfg": cfg, "n": n, "segments": comp}})


def hist_fields(line):
    return {k: v for k, v in (x.split("=", 1) for x in line.split(" ")[1:] if "=" in x) if k in ("n", "b", "params", "losses", "series", "bn", "ms")}


def rl_live_split(chk: Check, rng):
    """OBSERVATION, outside the property's quantifier ("configurations as in C01": RL = a single session).  With the RL scheduler
    every calibrate() call is one session; the same batches in one call and split over two calls give different histories for
    agents whose answers depend on their own history.  Nothing here is judged; the counts go into the evidence.  The first case
    is the Lean witness `rl_split_not_transparent` (parity agent, 3 batches vs 1 + 2).  The comparison of each run with the
    Calibrator model (consumed actions as input) IS judged: several calibrate() calls with an RL scheduler are in C09's/C02's scope."""
    import dataclasses
    n_cases = 8 if chk.tier == "quick" else 80
    obs = {"differs": 0, "same": 0, "lean_witness": None}
    for i in range(n_cases):
        scn = ch.gen_scn(rng, sched="rl", max_batches=1)
        scn.folder, scn.conv, scn.faults, scn.verbose = False, None, [], False
        if i == 0:
            a, b = 1, 2
            scn.lineup = scn.lineup[:2] if len(scn.lineup) >= 2 else scn.lineup * 2
            scn.actions = [k % 2 for k in range(60)]
            scn.agent = "scripted"
        else:
            a, b = rng.randint(1, 3), rng.randint(1, 4)
            scn.agent = rng.choice(["scripted", "eps"])
        one = dataclasses.replace(scn, ops=[("C", a + b)])
        two = dataclasses.replace(scn, ops=[("C", a), ("C", b)])
        with warnings.catch_warnings():
            warnings.simplefilter("ignore")
            l1, i1 = ch.run_real(one)
            l2, i2 = ch.run_real(two)
        ok1, k1, x1, y1 = ch.compare(one, l1, i1)
        ok2, k2, x2, y2 = ch.compare(two, l2, i2)
        if not (ok1 and ok2):
            chk.disagree("RL calibration (one call / two calls) != BlackIt.Calibrator with the consumed actions", {"scenario": scn_json(two), "impl": (x1 or x2 or "")[:300], "model": (y1 or y2 or "")[:300]})
        h1, h2 = hist_fields(l1[-1]), hist_fields(l2[-1])
        differs = [k for k in h1 if h1[k] != h2.get(k)]
        chk.case(["rl-split", scn_json(two)], True, {"observation_only": True, "agent": scn.agent, "split": [a, b], "samplers_one_call": h1.get("ms"), "samplers_two_calls": h2.get("ms"),
                                                      "actions_consumed_one_call": i1["actions"], "actions_consumed_two_calls": i2["actions"]})
        chk.count(f"observation:rl-split:{scn.agent}:{'differs' if differs else 'same'}")
        obs["differs" if differs else "same"] += 1
        if i == 0:
            obs["lean_witness"] = {"theorem": "BlackIt.RL.rl_split_not_transparent", "predicted": {"one_call": [0, 1], "two_calls": [1, 0]},
                                   "real": {"one_call": i1["actions"], "two_calls": i2["actions"]}}
    chk.extra["observation_rl_live_split_outside_quantifier"] = obs


def run(chk: Check):
    rng = chk.rng
    chk.rule = ("(a) stub scenarios with explicit checkpoints and restores vs the Lean model; (b) real twins: line-ups drawn from the nine built-in samplers "
                "(every class active at some cut), all built-in losses, uninterrupted run of n batches vs EVERY composition of n with each boundary live or "
                "restore (n=4: 27 compositions; thorough n=6: 243), plus sampled compositions for n <= 24; byte-wise comparison of the five history arrays. "
                "non-trivial = composition with >= 2 segments")
    chk.trusted_base = ["Lean 4.33 kernel", "contract validated here, not proved: every built-in sampler is a state machine whose whole state survives pickle "
                        "(sklearn/xgboost/scipy objects)", "serialisers (C04)", "harness/vp/twin.py"]
    chk.assumptions = ["no convergence precision (early stopping is C14)",
                       "configurations as in C01: for the RL scheduler a single session, i.e. no cut; what happens when an RL run is split anyway is recorded as an observation (evidence key observation_rl_live_split_outside_quantifier), not judged"]
    chk.proof_stage(PROP_FILE)
    # (a) model correspondence on stub scenarios
    for i in range(60 if chk.tier == "quick" else 1000):
        scn = ch.gen_scn(rng, sched="rr", restore=True, max_batches=rng.randint(3, 14))
        scn.conv = None
        if i % 2 == 1:
            # no saving folder: checkpoints are only the explicit create_checkpoint() calls, possibly several batches apart
            scn.folder = False
            scn.ops = [o for o in scn.ops]
            if not any(o[0] == "K" for o in scn.ops):
                scn.ops.insert(rng.randint(1, len(scn.ops)), ("K",))
            chk.count("stub:explicit_checkpoints_only")
        with warnings.catch_warnings():
            warnings.simplefilter("ignore")
            lines, info = ch.run_real(scn)
        chk.case(scn_json(scn), any(o[0] == "R" for o in scn.ops), {"stub_ops": [o[:2] for o in scn.ops]})
        # the statement itself on the real code: when every restore comes right after a checkpoint of the current state (saving folder: after
        # every batch; explicit: a create_checkpoint() with no batch in between), the final history equals that of the same calls without any
        # checkpoint or restore
        synced, resumes_current = False, any(o[0] == "R" for o in scn.ops)
        for o in scn.ops:
            if o[0] == "K":
                synced = True
            elif o[0] == "C":
                # a call that runs batches with a saving folder ends on a checkpoint of the state it leaves; a call that runs none writes
                # nothing although it may have seeded the samplers (drawn from the calibrator's generator): not a checkpointed state
                synced = bool(scn.folder) and o[1] >= 1
            elif o[0] == "R":
                resumes_current = resumes_current and synced
            else:
                synced = False
        if resumes_current and not lines[-1].startswith(("raise", "hang", "no-checkpoint")):
            plain = copy.deepcopy(scn); plain.ops = [o for o in scn.ops if o[0] == "C"]; plain.folder = False
            with warnings.catch_warnings():
                warnings.simplefilter("ignore")
                plines, _ = ch.run_real(plain)
            bad = [f for f in ch.diff_fields(lines[-1], plines[-1]) if f in ("n", "b", "params", "losses", "series", "bn", "ms")]
            chk.count("stub:compared_with_the_uninterrupted_run")
            if bad:
                chk.fail(f"stub scenario {[o[:2] for o in scn.ops]}: after checkpoints and restores the history differs from the uninterrupted run in {bad}", {"case": {"kind": "stub", "scn": scn_json(scn)}})
        ok, k, a, b = ch.compare(scn, lines, info)
        if not ok:
            chk.disagree("Calibrator checkpoint/restore/continue != BlackIt.Calibrator",
                         {"scenario": scn_json(scn), "op_index": k, "fields": ch.diff_fields(a, b) if k is not None and k >= 0 else None, "impl": a[:500], "model": b[:500]})
    rl_live_split(chk, rng)
    # (b) exhaustive compositions on real twins
    n_small = 4 if chk.tier == "quick" else 6
    n_cfg = 3 if chk.tier == "quick" else 12
    for i in range(n_cfg):
        cfg = gen_cfg(rng, k_samplers=rng.randint(2, 4))
        check_cfg(chk, cfg, n_small, twin.compositions(n_small), "exhaustive")
    chk.extra["exhaustive_compositions_of"] = n_small
    # targeted: samplers that draw 32-bit integers, odd numbers of draws per batch, a restore at every boundary
    for i in range(3 if chk.tier == "quick" else 30):
        names = [rng.choice(["RandomUniformSampler", "BestBatchSampler", "RandomForestSampler", "XGBoostSampler", "GaussianProcessSampler"]) for _ in range(rng.randint(1, 3))]
        cfg = {"lineup": [("HaltonSampler", 3, None)] + [(nm, rng.choice([1, 3]), None) for nm in names], "dims": rng.choice([1, 3]), "loss": "minkowski",
               "ensemble": 1, "seed": rng.randrange(10 ** 6), "n_jobs": 1}
        n = 2 * len(cfg["lineup"]) + 1
        check_cfg(chk, cfg, n, [[(1, "restore")] * (n - 1) + [(1, "end")], [(2, "restore"), (n - 2, "end")]], "targeted")
    # targeted: samplers that carry state of their own from one of their batches to the next (swarm positions/velocities/bests, CORS
    # balls): a restore at every boundary, and a single restore at each boundary in turn, on a fine grid (raw != snapped positions)
    for i in range(2 if chk.tier == "quick" else 20):
        names = [["ParticleSwarmSampler"], ["CORSSampler"], ["ParticleSwarmSampler", "CORSSampler"], ["ParticleSwarmSampler", "ParticleSwarmSampler"]][(i + rng.randrange(4)) % 4 if i else 0]
        cfg = {"lineup": [("HaltonSampler", 3, None)] + [(nm, rng.choice([2, 3, 4]), None) for nm in names], "dims": rng.choice([2, 3]), "loss": "minkowski",
               "ensemble": 1, "seed": rng.randrange(10 ** 6), "n_jobs": 1, "prec": rng.choice([0.01, 0.001])}
        n = 3 * len(cfg["lineup"]) + 1
        comps = [[(1, "restore")] * (n - 1) + [(1, "end")]] + [[(j, "restore"), (n - j, "end")] for j in range(1, n)]
        check_cfg(chk, cfg, n, comps, "stateful")
    # every built-in loss with non-default options, a loss-driven sampler, a restore at every boundary: the loss object goes through pickle
    # between any two batches and must keep computing the same values
    opt_losses = [l for l in twin.LOSSES if "_" in l]
    for name in (opt_losses if chk.tier == "thorough" else rng.sample(opt_losses, 3) + ["msm_inv"]):
        cfg = {"lineup": [("HaltonSampler", 3, None), ("BestBatchSampler", 2, None)], "dims": 2, "loss": name, "ensemble": rng.choice([1, 3]),
               "seed": rng.randrange(10 ** 6), "n_jobs": 1}
        n = 5
        check_cfg(chk, cfg, n, [[(1, "restore")] * (n - 1) + [(1, "end")], [(2, "restore"), (n - 2, "end")]], "loss_options")
    # explicit checkpoints only (no saving folder), several batches between two of them, the same folder all along
    for i in range(3 if chk.tier == "quick" else 21):
        cfg = gen_cfg(rng, k_samplers=rng.randint(2, 4))
        cfg["explicit_checkpoints"] = True
        n = rng.randint(6, 9)
        comps = []
        first_cut_min = 1
        if i % 3 == 2:
            # the folder holds the checkpoint of a NEAR-TWIN calibration: same seed, same model and loss, the same line-up of history-free samplers except for the
            # second one. Its series file agrees with this run's on the first row and on the last sixteen rows of its five batches (22 rows) - and nowhere in between
            mid_a, mid_b = rng.sample(["RandomUniformSampler", "HaltonSampler", "RSequenceSampler"], 2)
            cfg["lineup"] = [("HaltonSampler", 4, None), (mid_a, 2, None), ("RSequenceSampler", 6, None), ("HaltonSampler", 6, None), ("RandomUniformSampler", 4, None)]
            cfg["loss"] = rng.choice(["minkowski", "msm"])
            cfg["leftover"] = {**copy.deepcopy(cfg), "lineup": [cfg["lineup"][0], (mid_b, 2, None)] + cfg["lineup"][2:], "batches": 5}
            cfg["leftover"].pop("explicit_checkpoints")
            n = rng.randint(7, 9)
            first_cut_min = 5
            chk.count("explicit_checkpoints:folder_holds_a_near-twin_calibration")
        elif i % 2 == 0:
            # the folder given to create_checkpoint() already holds the checkpoint of another calibration with the same shapes but another
            # loss function (same class with another option, or another class), and this run's first checkpoint is taken after >= 2 batches
            cfg["loss"] = rng.choice(["minkowski", "msm", "minkowski_p1"])
            cfg["leftover"] = {**copy.deepcopy(cfg), "loss": {"minkowski": "minkowski_p1", "msm": "msm_std", "minkowski_p1": "msm"}[cfg["loss"]],
                               "seed": rng.randrange(10 ** 6), "batches": rng.randint(1, 3)}
            cfg["leftover"].pop("explicit_checkpoints")
            first_cut_min = 2
            chk.count("explicit_checkpoints:folder_holds_another_calibration")
        for _ in range(2):
            cuts = sorted(rng.sample(range(first_cut_min, n), min(rng.randint(2, 3), n - first_cut_min)))
            seg, prev = [], 0
            for ci_, cpt in enumerate(cuts):
                seg.append((cpt - prev, "restore" if (ci_ == 0 and first_cut_min >= 5) else rng.choice(["restore", "restore", "live"]))); prev = cpt
            seg.append((n - prev, "end"))
            comps.append(seg)
        check_cfg(chk, cfg, n, comps, "explicit_checkpoints")
    # all nine samplers, sampled compositions of a longer run
    for i in range(4 if chk.tier == "quick" else 40):
        cfg = gen_cfg(rng, k_samplers=9)
        n = rng.randint(10, 24)
        comps = []
        for _ in range(2):
            cuts = sorted(rng.sample(range(1, n), rng.randint(1, 4)))
            seg, prev = [], 0
            for cpt in cuts:
                seg.append((cpt - prev, rng.choice(["live", "restore", "restore"]))); prev = cpt
            seg.append((n - prev, "end"))
            comps.append(seg)
        check_cfg(chk, cfg, n, comps, "sampled")


def replay(path: Path) -> int:
    r = json.loads(path.read_text())
    bad = 0
    for fi in r.get("failing_inputs", []):
        c = fi.get("case")
        if not c or "cfg" not in c:
            continue
        cfg = c["cfg"]; cfg["lineup"] = [tuple(x) for x in cfg["lineup"]]
        base, _, _ = twin.run_segments(cfg, [(c["n"], "end")], use_folder=True)
        h, _, _ = twin.run_segments(cfg, [tuple(s) for s in c["segments"]])
        fails = bool(twin.same_history(base, h))
        print("REPLAY", fi["what"][:120], "->", "still fails" if fails else "passes now")
        bad += fails
    return 1 if bad else 0
