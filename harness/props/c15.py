"""C15 — search-space validation and discretisation: real `SearchSpace` vs `BlackIt.SearchSpace`."""
from __future__ import annotations

import itertools
import copy
import json
import math
from fractions import Fraction
from pathlib import Path

import numpy as np

from vp.core import LEAN, Check, f2h, fl, frac_s, h2f, lean_run

MODULE = "BlackIt.Properties.C15"
PROP_FILE = LEAN / "BlackIt/Properties/C15.lean"
TOL = 0.0000001
BVALS = [-2.0, -1.0, 0.0, 1e-9, 0.5, 1.0, 2.0, 1e9]
PVALS = [-1.0, 0.0, 1e-9, 0.25, 1.0, 3.0]
SIG_SMALL_PREC = "C15/grid/precision<=tol"


def req_lists(bounds, prec) -> str:
    return f"{len(bounds)} " + " ".join(fl(b) for b in bounds) + " " + fl(prec)


def impl_check(bounds, prec) -> str:
    from black_it import search_space as ss

    try:
        ss.SearchSpace._check_bounds(bounds, prec)
        return "ok"
    except ss.SearchSpaceError as e:
        return impl_err(e)
    except Exception as e:  # noqa: BLE001  (a malformed specification must be rejected with the documented error class: anything else is an outcome to judge)
        return f"raised {type(e).__name__}: {str(e)[:60]}"


def impl_err(e) -> str:
    n = type(e).__name__
    a = {
        "BoundsNotOfSizeTwoError": lambda: [e.count_bounds_subarrays],
        "BoundsOfDifferentLengthError": lambda: [e.lower_bounds_length, e.upper_bounds_length],
        "BadPrecisionLengthError": lambda: [e.precisions_length, e.bounds_length],
        "SameLowerAndUpperBoundError": lambda: [e.param_index, f2h(e.bound_value)],
        "LowerBoundGreaterThanUpperBoundError": lambda: [e.param_index, f2h(e.lower_bound), f2h(e.upper_bound)],
        "PrecisionZeroError": lambda: [e.param_index],
        "PrecisionGreaterThanBoundsRangeError": lambda: [e.param_index, f2h(e.lower_bound), f2h(e.upper_bound), f2h(e.precision)],
    }[n]()
    return f"err {n} " + " ".join(str(x) for x in a)


def oracle_validation(bounds, prec) -> str:
    """the documented rule, written independently of both the code and the model"""
    if len(bounds) != 2:
        return f"err BoundsNotOfSizeTwoError {len(bounds)}"
    lo, hi = bounds
    if len(lo) != len(hi):
        return f"err BoundsOfDifferentLengthError {len(lo)} {len(hi)}"
    if len(prec) != len(lo):
        return f"err BadPrecisionLengthError {len(prec)} {len(lo)}"
    for i in range(len(lo)):
        l, h, p = Fraction(lo[i]), Fraction(hi[i]), Fraction(prec[i])
        if l == h:
            return f"err SameLowerAndUpperBoundError {i} {f2h(lo[i])}"
        if l > h:
            return f"err LowerBoundGreaterThanUpperBoundError {i} {f2h(lo[i])} {f2h(hi[i])}"
        if p == 0:
            return f"err PrecisionZeroError {i}"
        if Fraction(float(hi[i]) - float(lo[i])) < p:  # the range as the user's floats give it
            return f"err PrecisionGreaterThanBoundsRangeError {i} {f2h(lo[i])} {f2h(hi[i])} {f2h(prec[i])}"
    return "ok"


def oracle_grid(lo: float, hi: float, p: float, g: np.ndarray) -> tuple[list[str], list[str]]:
    """(violations, known-finding hits) of the discretisation clause for one well-formed parameter (p > 0)"""
    errs, known = [], []
    L, H, P = Fraction(lo), Fraction(hi), Fraction(p)
    scale = max(abs(lo), abs(hi), abs(p))
    # numpy's step is delta = fl(fl(lo+p)-lo): |delta-p| <= ulp(scale); element i accumulates i of those
    eps = Fraction(scale) * Fraction(len(g) + 8, 2 ** 51)
    if len(g) == 0:
        return ["empty grid for a well-formed parameter"], []
    if f2h(g[0]) != f2h(lo) and not (g[0] == lo):
        errs.append(f"grid does not start at the lower bound: {g[0]!r} vs {lo!r}")
    for i in (range(len(g)) if len(g) <= 64 else list(range(32)) + list(range(len(g) - 32, len(g)))):
        if abs(Fraction(float(g[i])) - (L + i * P)) > eps:
            errs.append(f"element {i} = {float(g[i])!r} is not lower + {i}*precision = {float(L + i * P)!r}")
            break
    if len(g) > 1 and not bool(np.all(np.diff(g) > 0)):
        errs.append("grid not strictly increasing")
    last = L + (len(g) - 1) * P
    # ends at the last step not beyond the upper bound (tolerance of the code: 1e-7 — or two float gaps at the magnitude of the
    # bounds when that is larger — and never more than half a step)
    tol = min(max(Fraction(TOL), 2 * Fraction(float(np.spacing(max(abs(lo), abs(hi)))))), P / 2)
    if last > H + tol + eps:
        errs.append(f"last element {float(g[-1])!r} beyond upper bound {hi!r} (+{float(tol)!r})")
    if last + P < H - eps:
        errs.append(f"grid stops early: last {float(g[-1])!r} + precision {p!r} still below upper bound {hi!r}")
    m = (H - L) / P
    if m.denominator == 1 and abs(Fraction(float(g[-1])) - H) > eps:
        errs.append(f"range is an exact multiple of the precision but the grid ends at {float(g[-1])!r}, not at {hi!r}")
    return errs, known


def gen_wellformed(rng, chk):
    d = rng.choice([1, 1, 2, 3, 4, 6])
    lo, hi, pr = [], [], []
    for _ in range(d):
        kind = rng.choice(["unit001", "multiple", "nonmultiple", "scaled", "dyadic", "tiny", "negative", "offset", "offset", "narrow"])
        chk.count("param:" + kind)
        if kind == "unit001":
            l, h, p = 0.0, 1.0, 0.01
        elif kind == "offset":
            # bounds dominated by a large offset (1e3 .. 2^40): the end-point tolerance must neither be lost in the sum nor grow with the offset
            base = rng.choice([10.0 ** rng.randint(3, 12), 2.0 ** rng.randint(10, 40)]) * rng.choice([1, -1])
            p = rng.choice([0.35, 0.5, 1.0, 0.25, 0.7, 10.0, 0.125, abs(base) / 10, abs(base) / 64])
            n = rng.randint(1, 300)
            frac = rng.choice([0.0, 0.0, rng.uniform(0.55, 0.95), rng.uniform(0.05, 0.45)])
            l = base if rng.random() < 0.7 else base - n * p
            h = l + n * p + frac * p
            if not (l < h and p <= h - l and abs(p) > 8 * np.spacing(max(abs(l), abs(h)))):
                l, h, p = 1e6, 1e6 + 1.0, 0.35
        elif kind == "narrow":
            # a narrow range on a large offset: distinct bounds that agree to nine or more digits
            e = rng.randint(10, 30)
            l = (2.0 ** e) * rng.choice([1, -1]) * rng.choice([1.0, 1.5, 1.25])
            w = 2.0 ** (e - rng.randint(31, 40))
            k = rng.randint(1, 6)
            h = l + w * (2 ** k)
            p = w * rng.choice([1, 2, 0.5])
            if not (l < h and p <= h - l):
                l, h, p = -2.0 ** 20, -2.0 ** 20 + 2.0 ** -11, 2.0 ** -17
        elif kind == "dyadic":
            p = 2.0 ** rng.randint(-8, 3); l = rng.randint(-64, 64) * p; h = l + rng.randint(1, 2000) * p + rng.choice([0, 0, p / 2])
        elif kind == "tiny":
            p = rng.choice([1e-7, 5e-8, 1e-8, 2e-7, 1.0000001e-7]); l = rng.choice([0.0, 1.0, -3e-6]); h = l + p * rng.randint(2, 300)
        else:
            sc = 10.0 ** rng.randint(-6, 6)
            l = rng.uniform(-10, 10) * sc if kind != "negative" else -abs(rng.uniform(1, 10) * sc)
            n = rng.randint(1, 20000) if rng.random() < 0.2 else rng.randint(1, 300)
            p = rng.choice([0.01, 0.1, 0.3, 0.7, 1.0, 0.05, 0.25]) * sc * rng.choice([1, 1, rng.uniform(0.5, 2)])
            h = l + n * p if kind == "multiple" else l + n * p + rng.random() * p
            if kind == "negative":
                h = min(h, -1e-12 * sc) if h > 0 else h
            if not (l < h and p <= h - l):
                l, h, p = 0.0, 1.0, 0.5
        lo.append(float(l)); hi.append(float(h)); pr.append(float(p))
    return [lo, hi], pr


def run(chk: Check):
    from black_it import search_space as ss

    rng = chk.rng
    chk.rule = ("validation: every combination over the value lattice bounds in {-2,-1,0,1e-9,.5,1,2,1e9} x precision in "
                "{-1,0,1e-9,.25,1,3} for 1 parameter (exhaustive), 2 parameters (exhaustive in thorough, sampled in quick), "
                "3 parameters sampled, plus shape malformations; discretisation: random well-formed spaces of 1-6 parameters "
                "(aligned and non-aligned ranges, scales 1e-6..1e6, dyadic exactness domain, precisions around 1e-7). "
                "non-trivial = malformed input with >= 2 simultaneously failing conditions, or a grid with >= 3 elements")
    chk.trusted_base = ["Lean 4.33 kernel", "Mathlib (Order.Floor, Order.Field, Rat.Floor, linarith/norm_num)",
                        "numpy arange contract: ceil((stop-start)/step) elements, element i = start + i*((start+step)-start) "
                        "(checked bit-for-bit each run)", "harness/props/c15.py + lean/Driver.lean"]
    chk.assumptions = ["grid theorems are over exact arithmetic (any ordered field with ceiling); binary64 rounding of the grid "
                       "elements is outside the theorems and covered by the bit-exact comparison with the Float instance",
                       "negative precisions are neither in the property's malformed list nor well-formed: compared with the model, "
                       "not judged by the oracle"]
    chk.proof_stage(PROP_FILE)

    reqs, meta = [], []

    def add_validation(bounds, prec, arr=False):
        reqs.append("ss.check " + req_lists(bounds, prec))
        meta.append(("val", bounds, prec, arr))

    # --- exhaustive / sampled lattice
    one = list(itertools.product(BVALS, BVALS, PVALS))
    for l, h, p in one:
        add_validation([[l], [h]], [p])
    chk.count("lattice_1param", len(one))
    if chk.tier == "thorough":
        two = itertools.product(one, one)
        n2 = 0
        for (l1, h1, p1), (l2, h2, p2) in two:
            add_validation([[l1, l2], [h1, h2]], [p1, p2]); n2 += 1
        chk.count("lattice_2param", n2)
        chk.extra["exhaustive_2param_lattice"] = True
    else:
        for _ in range(4000):
            (l1, h1, p1), (l2, h2, p2) = rng.choice(one), rng.choice(one)
            add_validation([[l1, l2], [h1, h2]], [p1, p2], arr=rng.random() < 0.3)
        chk.count("lattice_2param_sampled", 4000)
    for _ in range(3000 if chk.tier == "quick" else 60000):
        t = [rng.choice(one) for _ in range(3)]
        add_validation([[x[0] for x in t], [x[1] for x in t]], [x[2] for x in t], arr=rng.random() < 0.3)
    # --- near-equal (but distinct) bounds on a large offset, in both orders, with precisions around the width
    for _ in range(300 if chk.tier == "quick" else 4000):
        d = rng.randint(1, 3)
        lo, hi, pr = [], [], []
        for _ in range(d):
            e = rng.randint(8, 40)
            a = (2.0 ** e) * rng.choice([1, -1]) * rng.choice([1.0, 1.5, 1.75])
            w = 2.0 ** (e - rng.randint(30, 45))
            b = a + w * rng.choice([1, 2, 8, -1, -4, 0])
            lo.append(a); hi.append(b); pr.append(w * rng.choice([0.5, 1, 2, 16, 0]))
        add_validation([lo, hi], pr)
        chk.count("near_equal_bounds_on_offset")
    # --- shape malformations
    for _ in range(600):
        nb = rng.choice([0, 1, 2, 2, 2, 3, 4])
        bounds = [[rng.choice(BVALS) for _ in range(rng.randint(0, 4))] for _ in range(nb)]
        prec = [rng.choice(PVALS) for _ in range(rng.randint(0, 4))]
        add_validation(bounds, prec)
        chk.count("shape_malformed")

    # --- well-formed: grids
    n_spaces = 1500 if chk.tier == "quick" else 20000
    for _ in range(n_spaces):
        bounds, prec = gen_wellformed(rng, chk)
        reqs.append(f"ss.build {f2h(TOL)} " + req_lists(bounds, prec))
        meta.append(("build", bounds, prec, rng.random() < 0.3))
        fr = [Fraction(x) for x in bounds[0] + bounds[1] + prec]
        if all(x.denominator <= 2 ** 12 and abs(x.numerator) < 2 ** 30 and abs(x) < 2 ** 26 for x in fr):
            # exactness domain: tol = 2^-24 so that it is dyadic too is NOT what the code does; compare Rat model with exact tol
            reqs.append(f"ss.buildq {frac_s(Fraction(TOL))} {len(bounds)} " + " ".join(
                f"{len(b)} " + " ".join(frac_s(Fraction(x)) for x in b) for b in bounds)
                + f" {len(prec)} " + " ".join(frac_s(Fraction(x)) for x in prec))
            meta.append(("buildq", bounds, prec, False))
    # spaces whose size does not fit a machine word (the product of the grid lengths is an unbounded integer): 5 x 10001 points, 64 x 2, 20 x 11
    for lo_, hi_, pr_ in (([0.0] * 5, [1.0] * 5, [1e-4] * 5), ([0.0] * 64, [1.0] * 64, [1.0] * 64), ([-1.0] * 20, [1.0] * 20, [0.2] * 20),
                          ([0.0] * 4, [rng.choice([7.0, 10.0])] * 4, [1e-4] * 4)):
        reqs.append(f"ss.build {f2h(TOL)} " + req_lists([lo_, hi_], pr_)); meta.append(("build", [lo_, hi_], pr_, False))
        chk.count("space_size_beyond_2^63")
    # the witness of the repaired small-precision defect always runs (theorem small_precision_repaired)
    reqs.append(f"ss.build {f2h(TOL)} " + req_lists([[0.0], [1e-6]], [5e-8])); meta.append(("build", [[0.0], [1e-6]], [5e-8], False))

    # the error classes the package defines are the ones the model's validation can return (names read off the package, now)
    import inspect
    code_errs = sorted(n for n, c in inspect.getmembers(ss, inspect.isclass) if issubclass(c, ss.SearchSpaceError) and c is not ss.SearchSpaceError)
    model_errs = sorted(lean_run(["ss.errors"])[0].split(" "))
    chk.case(["error-classes", code_errs], True, {"op": "SearchSpaceError subclasses", "names": code_errs}); chk.count("error_classes_compared_with_the_model")
    if code_errs != model_errs:
        chk.disagree("the SearchSpaceError subclasses of the package != BlackIt.SearchSpace.errorNames", {"in_code_only": sorted(set(code_errs) - set(model_errs)), "in_model_only": sorted(set(model_errs) - set(code_errs))})
    answers = lean_run(reqs)
    for (kind, bounds, prec, arr), ans in zip(meta, answers):
        b_in = [np.array(b) for b in bounds] if arr and len({len(b) for b in bounds}) <= 1 else copy.deepcopy(bounds)
        if arr and b_in is not bounds and len(bounds) == 2:
            b_in = np.array(bounds)
        p_in = np.array(prec) if arr else copy.deepcopy(prec)
        if kind == "val":
            impl = impl_check(b_in, p_in)
            exp = oracle_validation(bounds, prec)
            nfail = 0
            if len(bounds) == 2 and len(bounds[0]) == len(bounds[1]) == len(prec):
                nfail = sum(1 for l, h, p in zip(bounds[0], bounds[1], prec) if l >= h or p == 0 or p > h - l)
            chk.case(["val", bounds, prec], nfail >= 2 or exp.split()[1:2] in (["BoundsNotOfSizeTwoError"],),
                     {"op": "_check_bounds", "bounds": bounds, "precision": prec, "result": impl})
            chk.count("outcome:" + (impl.split()[1] if impl != "ok" else "ok"))
            if impl != exp:
                chk.fail(f"validation differs from the documented rule: got {impl}, documented {exp}",
                         {"case": {"kind": "val", "bounds": bounds, "precision": prec}})
            if impl != ans:
                chk.disagree("_check_bounds != BlackIt.SearchSpace.checkBounds",
                             {"bounds": bounds, "precision": prec, "impl": impl, "model": ans})
            continue
        # build
        try:
            # verbosity only prints: every third space is built verbosely (output discarded)
            vb = (len(prec) + len(str(bounds))) % 3 == 0
            if vb:
                import contextlib, io
                with contextlib.redirect_stdout(io.StringIO()):
                    s = ss.SearchSpace(b_in, p_in, verbose=True)
                chk.count("built:verbose")
            else:
                s = ss.SearchSpace(b_in, p_in, verbose=False)
            # the space is what was declared at construction: half of the time the caller reuses (overwrites in place) the objects it passed before anything is read
            reused = len(str(bounds)) % 2 == 0
            if reused:
                scramble(b_in); scramble(p_in)
                chk.count("arguments_overwritten_by_the_caller_after_construction:" + ("arrays" if arr else "lists"))
            grids = s.param_grid
            if reused and [list(map(float, b)) for b in np.asarray(s.parameters_bounds).tolist()] != [list(map(float, b)) for b in bounds]:
                chk.fail("SearchSpace.parameters_bounds changed when the caller overwrote the list/array it had passed to the constructor",
                         {"case": {"kind": "build", "bounds": bounds, "precision": prec, "args_reused": True, "arrays": bool(arr)}})
            impl_f = f"ok {len(grids)} " + " ".join(fl(g) for g in grids) + f" {s.space_size}"
        except ss.SearchSpaceError as e:
            grids, impl_f = None, impl_err(e)
        if kind == "buildq":
            chk.count("exactness_domain_spaces")
            if grids is not None:
                impl_q = f"ok {len(grids)} " + " ".join(
                    f"{len(g)} " + " ".join(frac_s(Fraction(float(x))) for x in g) if len(g) else "0" for g in grids) + f" {s.space_size}"
                if impl_q != ans:
                    chk.disagree("SearchSpace grids != exact-arithmetic model on the exactness domain",
                                 {"bounds": bounds, "precision": prec, "impl": impl_q[:300], "model": ans[:300]})
            continue
        nontriv = grids is not None and all(len(g) >= 3 for g in grids)
        chk.case(["build", bounds, prec], nontriv,
                 {"op": "SearchSpace", "bounds": bounds, "precision": prec,
                  "grid_lengths": [len(g) for g in grids] if grids else None})
        if impl_f != ans:
            chk.disagree("SearchSpace grids != BlackIt.SearchSpace.build (Float instance)",
                         {"bounds": bounds, "precision": prec, "impl": impl_f[:300], "model": ans[:300]})
        exp = oracle_validation(bounds, prec)
        if (grids is None) != (exp != "ok"):
            chk.fail(f"well-formedness verdict differs from the documented rule ({exp})",
                     {"case": {"kind": "build", "bounds": bounds, "precision": prec}})
        if grids is not None:
            if s.space_size != math.prod(len(g) for g in grids):
                chk.fail("space_size is not the product of the grid lengths", {"case": {"kind": "build", "bounds": bounds, "precision": prec}})
            for j, g in enumerate(grids):
                if prec[j] <= 0:
                    continue
                errs, known = oracle_grid(bounds[0][j], bounds[1][j], prec[j], g)
                for e in errs:
                    chk.fail(f"grid of parameter {j}: " + e + (" (the caller overwrote the objects it had passed, after construction and before the grid was first read)" if reused else ""),
                             {"case": {"kind": "build", "bounds": bounds, "precision": prec, "parameter": j, "args_reused": reused, "arrays": bool(arr)}})
                for k in known:
                    chk.fail(f"grid of parameter {j}: " + k, {"case": {"kind": "build", "bounds": bounds, "precision": prec, "parameter": j}},
                             signature=SIG_SMALL_PREC)
        if grids is not None and len(str(prec)) % 3 == 0 and kind != "buildq":
            # what the library hands out is the caller's to do with as it pleases: the grid arrays of this space are overwritten in place, then the SAME
            # specification is declared again - the new space is the documented one
            try:
                for g in grids:
                    if g.flags.writeable:
                        g *= 3.0; g += 1.0
                s_again = ss.SearchSpace(copy.deepcopy(bounds), copy.deepcopy(prec), verbose=False)
                again = f"ok {len(s_again.param_grid)} " + " ".join(fl(g) for g in s_again.param_grid) + f" {s_again.space_size}"
            except Exception as e:  # noqa: BLE001
                again = f"raised {type(e).__name__}"
            chk.count("same_specification_declared_again_after_the_caller_overwrote_the_returned_grid")
            if again != ans:
                chk.fail(f"SearchSpace({bounds}, {prec}) declared a second time - after the caller overwrote, in place, the param_grid arrays the first space had returned - "
                         f"is not the documented space any more: {again[:160]}", {"case": {"kind": "build_again", "bounds": bounds, "precision": prec}})


def scramble(obj):
    """the caller goes on using the very objects it passed in (e.g. to set up the next space): every number in them is overwritten in place"""
    if isinstance(obj, np.ndarray):
        if obj.dtype.kind in "fiu" and obj.flags.writeable:
            obj[...] = obj * 7 + 3
        elif obj.dtype == object:
            for x in obj:
                scramble(x)
    elif isinstance(obj, list):
        for k in range(len(obj)):
            if isinstance(obj[k], (list, np.ndarray)):
                scramble(obj[k])
            elif isinstance(obj[k], (int, float)) and not isinstance(obj[k], bool):
                obj[k] = obj[k] * 7 + 3


def replay(path: Path) -> int:
    from black_it import search_space as ss

    r = json.loads(path.read_text())
    bad = 0
    for fi in r.get("failing_inputs", []):
        c = fi.get("case")
        if not c:
            continue
        if c["kind"] == "build_again":
            s1 = ss.SearchSpace(copy.deepcopy(c["bounds"]), copy.deepcopy(c["precision"]), verbose=False)
            ref = [np.array(g, copy=True) for g in s1.param_grid]
            for g in s1.param_grid:
                g *= 3.0; g += 1.0
            s2 = ss.SearchSpace(copy.deepcopy(c["bounds"]), copy.deepcopy(c["precision"]), verbose=False)
            fails = any(a.tobytes() != b.tobytes() for a, b in zip(ref, s2.param_grid))
        elif c["kind"] == "val":
            fails = impl_check(c["bounds"], c["precision"]) != oracle_validation(c["bounds"], c["precision"])
        else:
            try:
                b_in = np.array(c["bounds"]) if c.get("arrays") else copy.deepcopy(c["bounds"])
                p_in = np.array(c["precision"]) if c.get("arrays") else copy.deepcopy(c["precision"])
                s = ss.SearchSpace(b_in, p_in, verbose=False)
                if c.get("args_reused"):
                    scramble(b_in); scramble(p_in)
                fails = any(oracle_grid(c["bounds"][0][j], c["bounds"][1][j], c["precision"][j], g)[0] for j, g in enumerate(s.param_grid))
            except ss.SearchSpaceError:
                fails = oracle_validation(c["bounds"], c["precision"]) == "ok"
        print("REPLAY", fi["what"][:120], "->", "still fails" if fails else "passes now")
        bad += fails
    return 1 if bad else 0
