"""C08 — loss interface: purity, weight linearity, coordinate/ensemble symmetry, sign, validation."""
from __future__ import annotations

import json
import warnings
from fractions import Fraction
from pathlib import Path

import numpy as np

from vp.core import LEAN, Check, f2h, lean_run
from vp.deep import deep, diff

MODULE = "BlackIt.Properties.C08"
PROP_FILE = LEAN / "BlackIt/Properties/C08.lean"
SIG_NAN = "C08/msm/inverse-variance/nan-at-zero-spread"
FILTERS = {0: None, 1: lambda x: -x, 2: lambda x: x * 2.0, 3: lambda x: x[::-1], 4: lambda x: x * 0.5}


def make_stub(kind, weights, filters):
    from black_it.loss_functions.base import BaseLoss

    class Stub(BaseLoss):
        def compute_loss_1d(self, sim, real):
            if kind == 0:
                acc = 0.0
                for m in sim:
                    for a, b in zip(m.tolist(), real.tolist()):
                        acc = acc + (a - b)
                return acc
            return float(sim[0][0]) * 3.0 - float(real[0])

    return Stub(coordinate_weights=weights, coordinate_filters=filters)


def builtin_losses():
    from black_it.loss_functions.fourier import FourierLoss, ideal_low_pass_filter
    from black_it.loss_functions.gsl_div import GslDivLoss
    from black_it.loss_functions.likelihood import LikelihoodLoss
    from black_it.loss_functions.minkowski import MinkowskiLoss
    from black_it.loss_functions.msm import MethodOfMomentsLoss

    return {"minkowski": lambda **k: MinkowskiLoss(**k), "minkowski_p1": lambda **k: MinkowskiLoss(p=1, **k),
            "fourier": lambda **k: FourierLoss(**k), "fourier_ideal": lambda **k: FourierLoss(frequency_filter=ideal_low_pass_filter, f=0.5, **k),
            "msm": lambda **k: MethodOfMomentsLoss(**k), "msm_inv": lambda **k: MethodOfMomentsLoss(covariance_mat="inverse_variance", **k),
            "msm_std": lambda **k: MethodOfMomentsLoss(standardise_moments=True, **k),
            # user-supplied pieces that hand back views / the very array they were given (an in-place step inside the loss then writes into the caller's data)
            "msm_view_calc_std": lambda **k: MethodOfMomentsLoss(moment_calculator=_tail_view, standardise_moments=True, **k),
            "msm_identity_calc": lambda **k: MethodOfMomentsLoss(moment_calculator=_same_array, covariance_mat="inverse_variance", standardise_moments=True, **k),
            "minkowski_alias_filters": lambda **k: MinkowskiLoss(coordinate_filters=[_same_array] * _CUR["d"], **k),
            "fourier_alias_filters": lambda **k: FourierLoss(coordinate_filters=[_same_array] * _CUR["d"], **k),
            "msm_alias_filters": lambda **k: MethodOfMomentsLoss(coordinate_filters=[_same_array] * _CUR["d"], **k),
            "gsl": lambda **k: GslDivLoss(**k), "likelihood": lambda **k: LikelihoodLoss(**{kk: v for kk, v in k.items() if kk != "coordinate_weights"})}


def _tail_view(ts):
    return ts[-6:]


def _same_array(ts):
    return ts


_CUR = {"d": 1}       # number of coordinates of the data the next loss object is built for (length of the alias-filter list)


def gen_series(rng, e, n, d):
    prng = np.random.default_rng(rng.randrange(10 ** 9))
    kind = rng.choice(["normal", "walk", "scaled"])
    x = prng.standard_normal((e, n, d))
    if kind == "walk":
        x = np.cumsum(x, axis=1)
    if kind == "scaled":
        x = x * 10.0 ** rng.randint(-3, 3) + rng.uniform(-5, 5)
    real = prng.standard_normal((n, d)) + (np.cumsum(prng.standard_normal((n, d)), axis=0) if kind == "walk" else 0)
    return x, real


def run(chk: Check):
    rng = chk.rng
    chk.rule = ("(i) stub single-coordinate losses with exactly representable values plugged into BaseLoss: weights, filters (none/negate/double/reverse), 1-5 coordinates, "
                "1-4 members, wrong-length lists; compared bit-for-bit with the model and with an exact rational weighted sum; permuted coordinates, zero weights; "
                "(ii) every built-in loss: inputs snapshotted byte-wise around every call, repeated evaluations on one object interleaved with other data, ensemble "
                "permutations, sign, zero at sim == real. non-trivial = >= 2 coordinates with a filter or a non-uniform weight")
    chk.trusted_base = ["Lean 4.33 kernel", "Mathlib (ordered fields, big operators, positivity)", "IEEE + - * identical in Lean Float and CPython/numpy scalars on the stub values",
                        "numpy reductions in the built-in losses are only compared up to 1e-12 relative (reordered sums)", "harness/props/c08.py"]
    chk.assumptions = ["purity is decided on the real objects; the model is pure by construction",
                       "LikelihoodLoss overrides the coordinate loop and documents that it ignores weights: covered by purity, ensemble symmetry and filter validation only",
                       "inverse-variance MSM at zero spread (v_i = 0) divides by zero: theorem msmInverseVariance_nonneg carries the guard v_i > 0; the NaN there is a recorded known finding"]
    chk.proof_stage(PROP_FILE)
    reqs, metas = [], []
    n1 = 400 if chk.tier == "quick" else 6000
    for _ in range(n1):
        d, e, t = rng.randint(1, 5), rng.randint(1, 4), rng.randint(1, 5)
        kind = rng.choice([0, 0, 1])
        sim = np.array([[[float(rng.randint(-8, 8)) for _ in range(d)] for _ in range(t)] for _ in range(e)])     # (E, T, D)
        real = np.array([[float(rng.randint(-8, 8)) for _ in range(d)] for _ in range(t)])                         # (T, D)
        wk = rng.choice(["none", "ok", "ok", "zero", "short", "long"])
        fk = rng.choice(["none", "ok", "ok", "short", "long"])
        nw = {"none": None, "ok": d, "zero": d, "short": max(d - 1, 0), "long": d + 1}[wk]
        nf = {"none": None, "ok": d, "short": max(d - 1, 0), "long": d + 2}[fk]
        weights = None if nw is None else np.array([rng.choice([0.5, 1.0, 2.0, 0.25, -1.0, 3.0]) for _ in range(nw)])
        if wk == "zero" and nw:
            weights[rng.randrange(nw)] = 0.0
        wform = "float64"
        if weights is not None and rng.random() < 0.35:
            # the same kind of weights in other admissible containers / dtypes: whole numbers as an integer array, a list or a tuple; float32
            wform = rng.choice(["int_array", "int_list", "int_tuple", "float32"])
            if wform == "float32":
                weights = weights.astype(np.float32).astype(np.float64)          # values exactly representable in float32
            else:
                weights = np.array([float(rng.choice([1, 2, 3, 0, -1])) for _ in range(len(weights))])
        chk.count("weights_form:" + wform)
        ftags = None if nf is None else [rng.choice([0, 0, 1, 2, 3, 4]) for _ in range(nf)]
        filters = None if ftags is None else [FILTERS[g] for g in ftags]
        w_in = weights
        if weights is not None and wform != "float64":
            w_in = {"int_array": lambda w: w.astype(np.int64), "int_list": lambda w: [int(x) for x in w], "int_tuple": lambda w: tuple(int(x) for x in w),
                    "float32": lambda w: w.astype(np.float32)}[wform](weights)
        loss = make_stub(kind, w_in, filters)
        sim_f = sim
        if rng.random() < 0.25:
            # head counts: the simulated (and real) data are whole numbers held in an integer array; a filter may still return floats
            sim, real = sim.astype(np.int64), real.astype(np.int64)
            chk.count("data_dtype:int64")
        s0, r0 = sim.tobytes(), real.tobytes()
        try:
            v = loss.compute_loss(sim, real)
            impl = "ok " + f2h(float(v))
        except ValueError as ex:
            msg = str(ex)
            impl = ("err weights " if "coordinate_weights" in msg else "err filters ") + " ".join(x for x in msg.replace(",", " ").split() if x.isdigit())
        if sim.tobytes() != s0 or real.tobytes() != r0:
            chk.fail("BaseLoss.compute_loss modified its inputs", {"case": {"kind": "stub"}})
        case = {"case": {"kind": "stub", "loss_kind": kind, "sim": sim.tolist(), "real": real.tolist(), "weights": None if weights is None else weights.tolist(), "filters": ftags}}
        chk.case(["stub", kind, sim.tolist(), real.tolist(), case["case"]["weights"], ftags], d >= 2 and (wk in ("ok", "zero") or fk == "ok"),
                 {"D": d, "E": e, "T": t, "weights": case["case"]["weights"], "filters": ftags, "result": impl})
        chk.count(f"weights:{wk}"); chk.count(f"filters:{fk}")
        # oracle: validation rule and exact weighted sum
        bad_w = nw is not None and nw != d
        bad_f = nf is not None and nf != d
        if bad_w:
            if impl != f"err weights {nw} {d}":
                chk.fail(f"weight list of length {nw} for {d} coordinates: expected ValueError about coordinate_weights, got {impl}", case)
        elif bad_f:
            if impl != f"err filters {nf} {d}":
                chk.fail(f"filter list of length {nf} for {d} coordinates: expected ValueError about coordinate_filters, got {impl}", case)
        else:
            ws = [Fraction(1, d)] * d if weights is None else [Fraction(float(w)) for w in weights]
            tot = Fraction(0)
            mag = Fraction(0)
            for i in range(d):
                col = [sim[j, :, i] for j in range(e)]
                if ftags is not None and FILTERS[ftags[i]] is not None:
                    col = [FILTERS[ftags[i]](c) for c in col]
                if kind == 0:
                    l1 = sum(Fraction(float(a)) - Fraction(float(b)) for c in col for a, b in zip(c.tolist(), real[:, i].tolist()))
                else:
                    l1 = Fraction(float(col[0][0])) * 3 - Fraction(float(real[0, i]))
                tot += l1 * ws[i]
                mag += abs(l1 * ws[i])
            if not impl.startswith("ok") or abs(Fraction(float(v)) - tot) > mag * Fraction(1, 2 ** 45) + Fraction(1, 2 ** 60):
                chk.fail(f"compute_loss = {impl}, weighted sum of the single-coordinate values = {float(tot)!r}", case)
            # permutation of coordinates with weights and filters
            if d >= 2 and weights is not None and impl.startswith("ok"):
                perm = list(range(d)); rng.shuffle(perm)
                lp = make_stub(kind, weights[perm], None if filters is None else [filters[i] for i in perm])
                vp = lp.compute_loss(sim[:, :, perm], real[:, perm])
                if abs(Fraction(float(vp)) - Fraction(float(v))) > Fraction(1, 2 ** 40):
                    chk.fail(f"permuting coordinates with their weights and filters changed the loss: {float(v)!r} -> {float(vp)!r}", case)
        wtok = "-1" if weights is None else f"{len(weights)} " + " ".join(f2h(x) for x in weights.tolist())
        ftok = "-1" if ftags is None else f"{len(ftags)} " + " ".join(map(str, ftags))
        simtok = " ".join(f2h(sim[j, tt, i]) for i in range(d) for j in range(e) for tt in range(t))
        realtok = " ".join(f2h(real[tt, i]) for i in range(d) for tt in range(t))
        reqs.append(f"loss.compute {kind} {d} {e} {t} {wtok} {ftok} {simtok} {realtok}".replace("  ", " ")); metas.append((impl, case))
    answers = lean_run(reqs)
    for (impl, case), ans in zip(metas, answers):
        if weights_default_mismatch(impl, ans):
            chk.disagree("BaseLoss.compute_loss != BlackIt.Loss.computeLoss", {"impl": impl, "model": ans, **case})
    # (ii) built-in losses
    n2 = 25 if chk.tier == "quick" else 300
    makers = builtin_losses()
    for _ in range(n2):
        e, n, d = rng.randint(1, 4), rng.choice([16, 24, 40]), rng.randint(1, 3)
        sim, real = gen_series(rng, e, n, d)
        sim2, real2 = gen_series(rng, e, n, d)
        for name, mk0 in makers.items():
            def mk(_mk0=mk0, _d=d, **k):
                _CUR["d"] = len(k["coordinate_weights"]) if k.get("coordinate_weights") is not None else k.pop("_d", _d)
                k.pop("_d", None)
                return _mk0(**k)
            weights = rng.choice([None, np.array([rng.random() + 0.1 for _ in range(d)]), np.array([rng.randint(1, 4) for _ in range(d)])])     # the last: integer dtype
            loss = mk(coordinate_weights=weights)
            case = {"case": {"kind": "builtin", "loss": name, "E": e, "N": n, "D": d}}
            with warnings.catch_warnings(), np.errstate(all="ignore"):
                warnings.simplefilter("ignore")
                s0, r0 = sim.tobytes(), real.tobytes()
                st0 = deep(loss)
                v1 = float(loss.compute_loss(sim, real))
                if sim.tobytes() != s0 or real.tobytes() != r0:
                    chk.fail(f"{name}: compute_loss modified its inputs", case)
                v2 = float(loss.compute_loss(sim2, real2))           # interleave other data
                fresh2 = float(mk(coordinate_weights=weights).compute_loss(sim2, real2))
                if f2h(v2) != f2h(fresh2) and not (v2 != v2 and fresh2 != fresh2):
                    chk.fail(f"{name}: the value depends on earlier evaluations on the same object: a used object gives {v2!r} on a second data set, a fresh one {fresh2!r}", case)
                v1b = float(loss.compute_loss(sim, real))
                if f2h(v1) != f2h(v1b) and not (v1 != v1 and v1b != v1b):
                    chk.fail(f"{name}: the value depends on earlier evaluations on the same object: {v1!r} then {v1b!r}", case)
                if weights is None and name != "likelihood":
                    # the same object on data of ANOTHER shape (other length, other number of coordinates), then again on the first data
                    e3, n3, d3 = rng.randint(1, 3), rng.choice([16, 20, 32]), rng.randint(1, 3)
                    sim3, real3 = gen_series(rng, e3, n3, d3)
                    if "alias_filters" not in name:
                        v3 = float(loss.compute_loss(sim3, real3)); f3 = float(mk(_d=d3).compute_loss(sim3, real3))
                        if f2h(v3) != f2h(f3):
                            chk.fail(f"{name}: a used object gives {v3!r} on data of another shape ({e3},{n3},{d3}), a fresh one {f3!r}", case)
                        v1c = float(loss.compute_loss(sim, real))
                        if f2h(v1c) != f2h(v1):
                            chk.fail(f"{name}: the value depends on earlier evaluations on the same object (data of another shape in between): {v1!r} then {v1c!r}", case)
                fresh = float(mk(coordinate_weights=weights).compute_loss(sim, real))
                if f2h(fresh) != f2h(v1) and not (fresh != fresh and v1 != v1):
                    chk.fail(f"{name}: a used object gives {v1!r}, a fresh one {fresh!r}", case)
                # the caller refills ONE real-data buffer in place between two evaluations by the same object: the second value is the one of the data now there
                buf = np.array(real2 * 0.5 - 1.0, copy=True)      # data the object has not seen either
                loss.compute_loss(sim, buf)
                buf[...] = real * 1.5 + 0.25            # data the object has never seen
                vb = float(loss.compute_loss(sim, buf))
                vf = float(mk(coordinate_weights=weights).compute_loss(sim, np.array(buf, copy=True)))
                if f2h(vb) != f2h(vf) and not (vb != vb and vf != vf):
                    chk.fail(f"{name}: the value depends on earlier evaluations on the same object: on a real-data buffer refilled in place (real*1.5+0.25) since the previous evaluation "
                             f"it gives {vb!r}, a fresh object on the same data gives {vf!r}", case)
                # weight linearity on the real classes: the multi-coordinate value is the weighted sum of the values fresh objects give
                # on each coordinate alone; a zero weight removes the coordinate; permuting coordinates with weights changes nothing
                if name != "likelihood" and v1 == v1 and abs(v1) != float("inf"):
                    ws = np.full(d, 1.0 / d) if weights is None else weights
                    singles = [float(mk(_d=1).compute_loss(sim[:, :, i:i + 1], real[:, i:i + 1])) for i in range(d)]
                    tot = float(sum(w * l for w, l in zip(ws, singles)))
                    tol = 1e-9 * max(1.0, sum(abs(w * l) for w, l in zip(ws, singles)))
                    if not abs(tot - v1) <= tol:
                        chk.fail(f"{name}: multi-coordinate value {v1!r} != weighted sum {tot!r} of the single-coordinate values {singles}", case)
                    if d >= 2:
                        z = rng.randrange(d)
                        wz = np.array(ws, dtype=float); wz[z] = 0.0
                        vz = float(mk(coordinate_weights=wz).compute_loss(sim, real))
                        keep = [i for i in range(d) if i != z]
                        vk = float(mk(coordinate_weights=wz[keep]).compute_loss(sim[:, :, keep], real[:, keep]))
                        if not abs(vz - vk) <= 1e-9 * max(1.0, abs(vk)):
                            chk.fail(f"{name}: a zero weight on coordinate {z} gives {vz!r}, removing the coordinate gives {vk!r}", case)
                        perm = list(range(d)); rng.shuffle(perm)
                        vq = float(mk(coordinate_weights=np.array(ws, dtype=float)[perm]).compute_loss(sim[:, :, perm], real[:, perm]))
                        if not abs(vq - v1) <= 1e-9 * max(1.0, abs(v1)):
                            chk.fail(f"{name}: permuting coordinates with their weights changed the loss: {v1!r} -> {vq!r}", case)
                # ensemble permutation
                if e >= 2:
                    perm = list(range(e)); rng.shuffle(perm)
                    vp = float(loss.compute_loss(sim[perm], real))
                    if not (vp == v1 or abs(vp - v1) <= 1e-10 * max(1.0, abs(v1)) or (vp != vp and v1 != v1)):
                        chk.fail(f"{name}: reordering ensemble members changed the loss: {v1!r} -> {vp!r}", case)
                # sign
                if name in ("minkowski", "minkowski_p1", "fourier", "fourier_ideal", "msm", "msm_inv") and weights is None:
                    if v1 < 0:
                        chk.fail(f"{name}: negative loss {v1!r}", case)
                    if v1 != v1:
                        chk.fail(f"{name}: NaN loss on generic data", case, signature=SIG_NAN if name == "msm_inv" else None)
                # zero when every member equals the real data
                if name in ("minkowski", "minkowski_p1", "fourier", "fourier_ideal", "msm"):
                    same = np.repeat(real[None, :, :], e, axis=0)
                    z = float(mk(coordinate_weights=weights).compute_loss(same, real))
                    # exact zero in exact arithmetic; the mean of E identical floats may differ from the value by rounding
                    if not (abs(z) <= 1e-12 * (1.0 + float(np.max(np.abs(real)))) * n):
                        chk.fail(f"{name}: loss {z!r} != 0 although every simulated member equals the real data", case)
                if name == "msm_inv":
                    same = np.repeat(real[None, :, :], e, axis=0)
                    z = float(mk(coordinate_weights=weights).compute_loss(same, real))
                    if z != z or z < 0:
                        chk.fail(f"inverse-variance MSM at sim == real returns {z!r} (0 * inf): not a non-negative number", case, signature=SIG_NAN)
            chk.case(["builtin", name, e, n, d, f2h(v1)], True, {"loss": name, "E": e, "N": n, "D": d, "value": v1})
            chk.count("builtin:" + name)
    # the symmetries on LARGE inputs (odd ensemble sizes, long series): whatever an implementation does to bound its working memory
    # (blocks, chunks, streaming), reordering ensemble members or coordinates does not change the value
    big_shapes = [(3, 1200, 1), (5, 700, 2)] if chk.tier == "quick" else [(3, 1200, 1), (5, 700, 2), (3, 2000, 1), (7, 500, 3), (5, 1500, 1)]
    for (e, n, d) in big_shapes:
        prng = np.random.default_rng(rng.randrange(10 ** 9))
        sim = prng.standard_normal((e, n, d)) * (1.0 + 0.3 * np.arange(e))[:, None, None] + 0.2 * np.arange(e)[:, None, None]      # members differ visibly
        real = prng.standard_normal((n, d))
        for name, mk0 in makers.items():
            if "alias_filters" in name or name.startswith("gsl"):
                continue
            _CUR["d"] = d
            case = {"case": {"kind": "builtin_large", "loss": name, "E": e, "N": n, "D": d}}
            with warnings.catch_warnings(), np.errstate(all="ignore"):
                warnings.simplefilter("ignore")
                v1 = float(mk0().compute_loss(sim, real))
                perm = list(range(e)); perm = perm[1:] + perm[:1]
                if rng.random() < 0.5:
                    perm = [perm[-1]] + perm[:-1][::-1]
                vp = float(mk0().compute_loss(sim[perm], real))
                vq = v1
                if d >= 2:
                    cp = list(range(d))[::-1]
                    vq = float(mk0().compute_loss(sim[:, :, cp], real[:, cp]))
            chk.case(["builtin-large", name, e, n, d], True, {"loss": name, "E": e, "N": n, "D": d, "value": v1})
            chk.count("builtin_large:" + name)
            if not (vp == v1 or abs(vp - v1) <= 1e-9 * max(1.0, abs(v1)) or (vp != vp and v1 != v1)):
                chk.fail(f"{name} on large data (E={e}, N={n}, D={d}): reordering ensemble members {perm} changed the loss: {v1!r} -> {vp!r}", case)
            if not (vq == v1 or abs(vq - v1) <= 1e-9 * max(1.0, abs(v1)) or (vq != vq and v1 != v1)):
                chk.fail(f"{name} on large data (E={e}, N={n}, D={d}): reversing the coordinates changed the loss: {v1!r} -> {vq!r}", case)
    # one loss object over a long life: several hundred different data sets (as in a long calibration against changing targets, or one object serving many
    # calibrations), then the first few again - each value is what a fresh object gives, whatever was evaluated before and however often
    n_life = 300 if chk.tier == "quick" else 1200
    for name in ("msm", "msm_std", "msm_inv", "minkowski", "fourier", "gsl", "likelihood"):
        _CUR["d"] = 1
        obj = makers[name]()
        data = [gen_series(rng, 1, 12, 1) for _ in range(n_life)]
        case = {"case": {"kind": "long_life", "loss": name, "evaluations": n_life}}
        with warnings.catch_warnings(), np.errstate(all="ignore"):
            warnings.simplefilter("ignore")
            try:
                first = [float(obj.compute_loss(sm, rl)) for sm, rl in data]
                again = [float(obj.compute_loss(sm, rl)) for sm, rl in data[:6]]
                fresh = [float(makers[name]().compute_loss(sm, rl)) for sm, rl in data[:6]]
            except Exception as ex:  # noqa: BLE001
                chk.fail(f"{name}: one loss object evaluated {n_life} data sets in a row raised {type(ex).__name__}: {str(ex)[:80]}", case)
                continue
        chk.case(["long-life", name, n_life, data[0][1].tolist()], True, {"loss": name, "evaluations": n_life})
        chk.count("loss_object_long_life:" + name)
        same = lambda a, b: f2h(a) == f2h(b) or (a != a and b != b)
        for k in range(6):
            if not same(first[k], fresh[k]) or not same(again[k], fresh[k]):
                chk.fail(f"{name}: data set {k} evaluated by one object gives {first[k]!r} at first and {again[k]!r} after {n_life} other evaluations; a fresh object gives {fresh[k]!r}", case)
                break
    # data with missing or non-finite observations ("for all data"): a gap in the empirical series (NaN), an overflowed simulation (+-inf).  Whatever value a
    # loss assigns to such data, or whichever error it raises, the caller's arrays are byte-for-byte what they were and a second evaluation says the same
    n_nf = 6 if chk.tier == "quick" else 40
    for _ in range(n_nf):
        e, n, d = rng.randint(1, 3), rng.choice([16, 24]), rng.randint(1, 2)
        sim, real = gen_series(rng, e, n, d)
        where = rng.choice(["real", "real", "sim", "both"])
        vals = [rng.choice([float("nan"), float("nan"), float("inf"), -float("inf")]) for _ in range(rng.randint(1, 3))]
        for v in vals:
            if where in ("real", "both"):
                real[rng.randrange(n), rng.randrange(d)] = v
            if where in ("sim", "both"):
                sim[rng.randrange(e), rng.randrange(n), rng.randrange(d)] = v
        for name, mk0 in makers.items():
            _CUR["d"] = d
            case = {"case": {"kind": "non_finite_data", "loss": name, "E": e, "N": n, "D": d, "where": where, "values": [repr(v) for v in vals], "sim": sim.tolist(), "real": real.tolist()}}
            s0, r0 = sim.tobytes(), real.tobytes()
            outs = []
            with warnings.catch_warnings(), np.errstate(all="ignore"):
                warnings.simplefilter("ignore")
                obj = mk0()
                for _rep in range(2):
                    try:
                        outs.append(f2h(float(obj.compute_loss(sim, real))))
                    except Exception as ex:  # noqa: BLE001
                        outs.append("raised " + type(ex).__name__)
                    if sim.tobytes() != s0 or real.tobytes() != r0:
                        which = "real_data" if real.tobytes() != r0 else "sim_data"
                        chk.fail(f"{name}: compute_loss modified its input {which} (data with non-finite observations {vals!r} in {where}); evaluation {_rep + 1} gave {outs[-1]}", case)
                        sim = np.frombuffer(s0, dtype=sim.dtype).reshape(sim.shape).copy(); real = np.frombuffer(r0, dtype=real.dtype).reshape(real.shape).copy()
                        break
            nanish = lambda t: t in ("7ff8000000000000", "fff8000000000000")
            if len(outs) == 2 and outs[0] != outs[1] and not (nanish(outs[0]) and nanish(outs[1])):
                chk.fail(f"{name}: the same data (with non-finite observations) evaluated twice by one object gives {outs[0]} then {outs[1]}", case)
            chk.case(["non-finite", name, e, n, d, where, outs[0]], True, {"loss": name, "where": where, "result": outs[0]})
            chk.count("non_finite_data:" + where); chk.count("non_finite_data:outcome=" + ("raised" if outs[0].startswith("raised") else "nan" if nanish(outs[0]) else "number"))
    # wrong-length lists on the built-ins
    for name, mk in makers.items():
        for which in ("coordinate_weights", "coordinate_filters"):
            if (name == "likelihood" and which == "coordinate_weights") or "alias_filters" in name:
                continue
            _CUR["d"] = 2
            sim, real = gen_series(rng, 2, 16, 2)
            arg = np.ones(3) if which == "coordinate_weights" else [None, None, None]
            try:
                with warnings.catch_warnings():
                    warnings.simplefilter("ignore")
                    mk(**{which: arg}).compute_loss(sim, real)
                res = "accepted"
            except ValueError:
                res = "ValueError"
            except Exception as ex:  # noqa: BLE001
                res = type(ex).__name__
            chk.case(["wrong_len", name, which], True, {"loss": name, "list": which, "result": res})
            if res != "ValueError":
                chk.fail(f"{name}: {which} of length 3 for 2 coordinates was {res}, expected ValueError", {"case": {"kind": "wrong_len", "loss": name, "which": which}})


def weights_default_mismatch(impl, ans):
    return impl != ans


def replay(path: Path) -> int:
    import os, subprocess, sys
    r = json.loads(path.read_text())
    print("C08 replay: cases are determined by VERIF_SEED; re-running the check with the recorded seed")
    return subprocess.call([sys.executable, str(Path(__file__).resolve().parents[1] / "check.py"), "C08", "--tier", r.get("tier", "quick")],
                           env=dict(os.environ, VERIF_SEED=str(r.get("seed", 0))))
