"""C18 — sampler ids: never reassigned, identify the producing class, recoverable from a checkpoint."""
from __future__ import annotations

import json
import io
import contextlib
import shutil
import warnings
from pathlib import Path

import numpy as np

from props.c02 import scn_from_json, scn_json
from vp import calharness as ch
from vp.core import LEAN, Check

MODULE = "BlackIt.Properties.C18"
PROP_FILE = LEAN / "BlackIt/Properties/C18.lean"
SIG_RESTORE = "C18/restore/table-rebuilt-from-lineup"
SIG_PLOT = "C18/checkpoint/table-not-persisted"


def table_of(line: str) -> dict:
    t = line.split(" table=[")[1].split("]")[0]
    return {int(a.split(":")[0]): int(a.split(":")[1]) for a in t.split(";") if a}


def analyse(scn, lines, info):
    """returns (violations, known-finding hits)"""
    errs, known = [], []
    names = ch.class_names()
    tables = [table_of(l) if " table=[" in l else None for l in lines]
    ops = [None] + list(scn.ops)
    saved = None           # the table as of the last checkpoint written to the folder
    nb = [int(l.split(" b=")[1].split(" ")[0]) if " b=" in l else None for l in lines]
    for i in range(1, len(lines)):
        if tables[i] is None or tables[i - 1] is None:
            continue
        op = ops[i][0]
        if op == "R":
            # a restore brings back the table that was stored with the checkpoint, nothing else
            if saved is not None and tables[i] != saved:
                errs.append(f"restore returned the id table {tables[i]}, the checkpoint was written with {saved}")
        else:
            for cls, idv in tables[i - 1].items():
                if tables[i].get(cls) != idv:
                    errs.append(f"id of {names[cls]} changed from {idv} to {tables[i].get(cls)} at op {op}")
        if op == "K" or (op == "C" and scn.folder and nb[i] is not None and nb[i - 1] is not None and nb[i] > nb[i - 1]):
            saved = dict(tables[i])
        ids = list(tables[i].values())
        if len(set(ids)) != len(ids):
            errs.append(f"two classes share an id after op {op}: {tables[i]}")
    # labels identify the producing class in the final table
    cal = info["cal"]
    order = info["rec"].get("_order", [])
    final = {names[c]: i for c, i in tables[-1].items()} if tables[-1] is not None else dict(cal.samplers_id_table)
    if not any(o[0] == "R" for o in scn.ops) and not scn.faults:
        pos = 0
        for b, (obj, cname, bs, rows) in enumerate(order):
            k = len(rows)
            if pos + k > cal.n_sampled_params:
                break
            got = set(int(x) for x in np.asarray(cal.method_samp)[pos:pos + k])
            if got != {final.get(cname)}:
                errs.append(f"batch {b} was produced by {cname} (id {final.get(cname)} in the current table) but is labelled {sorted(got)}")
            pos += k
    return errs, known


def plot_lookup(scn, info):
    """names the plotting utilities recover from the calibrator-written checkpoint, vs the calibrator's own table"""
    from black_it.plot.plot_results import _get_samplers_names

    cal = info["cal"]
    folder = info["folder"]
    ids = sorted(set(int(x) for x in np.asarray(cal.method_samp)))
    inv = {v: k for k, v in cal.samplers_id_table.items()}
    truth = [inv.get(i) for i in ids]
    try:
        got = _get_samplers_names(folder, ids)
    except Exception as e:  # noqa: BLE001
        got = f"{type(e).__name__}: {e}"
    return ids, truth, got


def run(chk: Check):
    rng = chk.rng
    chk.rule = ("stub line-ups with repeated classes; op sequences over calibrate / create_checkpoint / restore / set_samplers / set_scheduler; "
                "every run ends with a checkpoint in a real folder on which plot_results._get_samplers_names is called. "
                "non-trivial = at least one set_samplers/set_scheduler and >= 2 batches")
    chk.trusted_base = ["Lean 4.33 kernel", "python dict preserves insertion order (id table)", "pickle round trip of the scheduler", "stubs of harness/vp/calharness.py"]
    chk.assumptions = ["a restore returns the table stored with the checkpoint (which may be older than the live one): 'never reassigned' is about one life line of the calibrator"]
    chk.proof_stage(PROP_FILE)
    folder_reuse(chk, rng)
    many_classes(chk, rng)
    n = 120 if chk.tier == "quick" else 2000
    for i in range(n):
        scn = ch.gen_scn(rng, sched="rr", restore=rng.random() < 0.5, set_ops=True, max_batches=rng.randint(2, 9))
        if i % 10 == 3:
            # the line-up is replaced by the SAME classes in another order (or a subset, then all of them again), then checkpoint, restore, continue
            k = rng.randint(2, 4)
            classes = rng.sample(range(len(ch.STUB_NAMES)), k)
            mk = lambda order: [(c, bs, script, cs) for c, (_, bs, script, cs) in zip(order, ch.gen_stub_lineup(rng, len(order), scn.dims, scn.bounds))]
            scn.lineup = mk(classes)
            perm = classes[:]
            while perm == classes:
                rng.shuffle(perm)
            ops = [("C", rng.randint(1, 2))]
            if rng.random() < 0.5:
                ops += [(rng.choice(["SS", "SCH"]), mk(perm[:1]), "rr"), ("C", 1)]
            ops += [(rng.choice(["SS", "SCH"]), mk(perm), "rr"), ("C", rng.randint(1, 2)), ("K",), ("R",), ("C", rng.randint(1, 2))]
            scn.ops = [o if o[0] != "SS" else o[:2] for o in ops]
            scn.loss_table = {}
            chk.count("reorder_same_classes_then_restore")
        scn.ops = list(scn.ops) + [("K",)]
        scn.keep_folder = True
        with warnings.catch_warnings():
            warnings.simplefilter("ignore")
            lines, info = ch.run_real(scn)
        try:
            nset = len([o for o in scn.ops if o[0] in ("SS", "SCH")])
            chk.case(scn_json(scn), nset >= 1 and info["cal"].current_batch_index >= 2,
                     {"lineup": [ch.STUB_NAMES[c] for c, *_ in scn.lineup], "ops": [(o[0], [ch.STUB_NAMES[c] for c, *_ in o[1]]) if o[0] in ("SS", "SCH") else o[:2] for o in scn.ops],
                      "final_table": info["cal"].samplers_id_table})
            chk.count(f"set_ops:{min(nset, 3)}"); chk.count("with_restore" if any(o[0] == "R" for o in scn.ops) else "no_restore")
            errs, known = analyse(scn, lines, info)
            for e in errs[:3]:
                chk.fail("id table: " + e, {"case": scn_json(scn)})
            ids, truth, got = plot_lookup(scn, info)
            if got != truth:
                if True:
                    chk.fail(f"plotting cannot map ids {ids} (really {truth}) back to names from the calibrator's checkpoint: {got}", {"case": scn_json(scn)})
            ok, k, a, b = ch.compare(scn, lines, info)
            if not ok:
                chk.disagree("Calibrator id table / labels != BlackIt.Calibrator",
                             {"scenario": scn_json(scn), "op_index": k, "fields": ch.diff_fields(a, b) if k is not None and k >= 0 else None, "impl": a[:500], "model": b[:500]})
        finally:
            if info.get("folder"):
                shutil.rmtree(info["folder"], ignore_errors=True)


# thirteen sampler classes of a user's own (picklable: module level), so that a calibration can come to know more than ten class names
_RETURNED: list = []      # class names of the samplers whose sample() returned a batch, in order


def _mk_user_classes():
    from black_it.samplers.random_uniform import RandomUniformSampler
    out = []
    def _sample(self, search_space, existing_points, existing_losses):
        # ground truth of who produced a batch: every successful sample() is logged; a class may refuse a history that is too short for it (as best-batch does)
        need = getattr(type(self), "_needs", 0)
        if len(existing_points) < need:
            raise ValueError(f"{type(self).__name__} needs at least {need} evaluated points, got {len(existing_points)}")
        out = RandomUniformSampler.sample(self, search_space, existing_points, existing_losses)
        _RETURNED.append(type(self).__name__)
        return out

    for k in range(13):
        cls = type(f"UserSampler{k:02d}", (RandomUniformSampler,), {"__module__": __name__, "sample": _sample})
        globals()[cls.__name__] = cls
        out.append(cls)
    return out


def many_classes(chk: Check, rng):
    """a calibration whose line-up is replaced again and again until it knows twelve sampler classes (ids up to 11, two digits), a checkpoint, a restore,
    one more replacement that brings in a class never seen before, more batches, a checkpoint: no id is ever reassigned, every sample's id names the class
    that produced it, and the plotting helper recovers the names from the folder.  Judged on the real objects (no model comparison)."""
    import tempfile
    from black_it.calibrator import Calibrator
    from black_it.loss_functions.minkowski import MinkowskiLoss
    from black_it.plot.plot_results import _get_samplers_names

    classes = globals().get("_USER_CLASSES") or _mk_user_classes()
    globals()["_USER_CLASSES"] = classes
    for it in range(2 if chk.tier == "quick" else 12):
        order = classes[:]; rng.shuffle(order)
        folder = tempfile.mkdtemp(prefix="vpc18many")
        produced = []          # class name of every recorded sample, in order
        tables = []
        case = {"case": {"kind": "many_classes", "order": [c.__name__ for c in order]}}
        try:
            with contextlib.redirect_stdout(io.StringIO()), warnings.catch_warnings():
                warnings.simplefilter("ignore")
                mk = lambda cs: [c(batch_size=rng.randint(1, 2), random_state=rng.randrange(1000)) for c in cs]
                model = lambda theta, N, seed: np.full((N, 1), float(np.sum(theta)))      # noqa: E731, N803
                cal = Calibrator(loss_function=MinkowskiLoss(), real_data=np.zeros((5, 1)), model=model, parameters_bounds=[[0.0, 0.0], [1.0, 1.0]],
                                 parameters_precision=[0.001, 0.001], ensemble_size=1, samplers=mk(order[0:4]), saving_folder=folder, verbose=False, random_state=it, n_jobs=1)

                def run_batches(cal_, nb):
                    for _ in range(nb):
                        n0 = len(cal_.params_samp)
                        smp = cal_.scheduler.samplers[cal_.current_batch_index % len(cal_.scheduler.samplers)] if hasattr(cal_.scheduler, "samplers") else None
                        r0 = len(_RETURNED)
                        try:
                            cal_.calibrate(1)
                        except ValueError as e:
                            if "needs at least" not in str(e):
                                raise
                            chk.count("many_classes:scheduled_sampler_refused_the_history")
                            return            # the scheduled class refused the history: nothing is recorded for it; the line-up is replaced next
                        returned = _RETURNED[r0:]
                        # the rows recorded in this batch were produced by the class whose sample() returned last (ground truth, not what the scheduler says)
                        produced.extend([returned[-1] if returned else type(smp).__name__] * (len(cal_.params_samp) - n0))
                        tables.append(dict(cal_.samplers_id_table))
                if it % 2 == 0:
                    order[1]._needs = 50      # (every other calibration) the second class of the first line-up cannot work on a history this short
                run_batches(cal, 4)
                order[1]._needs = 0
                cal.set_samplers(mk(order[4:8])); run_batches(cal, 4)
                cal.set_samplers(mk(order[8:12])); run_batches(cal, 4)
                cal = Calibrator.restore_from_checkpoint(folder, model=model)
                tables.append(dict(cal.samplers_id_table))
                cal.set_samplers(mk([order[12], order[2]])); run_batches(cal, 2)
                cal.create_checkpoint(folder)
                final = dict(cal.samplers_id_table)
                ids = [int(x) for x in np.asarray(cal.method_samp)]
                names_from_folder = _get_samplers_names(folder, sorted(set(ids)))
        except Exception as e:  # noqa: BLE001
            chk.fail(f"a calibration that comes to know thirteen sampler classes raised {type(e).__name__}: {str(e)[:120]}", case)
            shutil.rmtree(folder, ignore_errors=True)
            continue
        finally:
            for c in classes:
                c._needs = 0
        shutil.rmtree(folder, ignore_errors=True)
        chk.case(["many-classes", it, [c.__name__ for c in order]], True, {"classes": len(final), "samples": len(ids)}); chk.count("calibration_knowing_13_sampler_classes")
        for t_prev, t_next in zip(tables, tables[1:] + [final]):
            moved = {k: (v, t_next.get(k)) for k, v in t_prev.items() if t_next.get(k) != v}
            if moved:
                chk.fail(f"id table: ids were reassigned or lost between two states of one calibration (13 classes, restore in between): {moved}", case); break
        if len(set(final.values())) != len(final):
            chk.fail(f"id table: two sampler classes share one id: {final}", case)
        inv = {v: k for k, v in final.items()}
        wrong = [(i, inv.get(ids[i]), produced[i]) for i in range(min(len(ids), len(produced))) if inv.get(ids[i]) != produced[i]]
        if wrong or len(ids) != len(produced):
            chk.fail(f"id table: {len(wrong)} samples carry an id that does not name the class that produced them (first: row {wrong[0][0] if wrong else '?'} labelled "
                     f"{wrong[0][1] if wrong else '?'}, produced by {wrong[0][2] if wrong else '?'}); table {final}", case)
        want_names = [inv.get(i) for i in sorted(set(ids))]
        if list(names_from_folder) != want_names:
            chk.fail(f"plotting maps ids {sorted(set(ids))} to {list(names_from_folder)} from the checkpoint folder, the calibrator's table says {want_names}", case)


def folder_reuse(chk: Check, rng):
    """one process, one folder: run A checkpoints into it and is looked up by the plotting helper, then a different run B (other
    classes / other order, ids within A's range) checkpoints into the same folder and is looked up again"""
    for i in range(6 if chk.tier == "quick" else 60):
        a = ch.gen_scn(rng, sched="rr", max_batches=3)
        n_cls = len(ch.STUB_NAMES)
        ka = rng.randint(2, 3)
        first = rng.sample(range(n_cls), ka)
        a.lineup = [(first[j % ka], bs, script, cs) for j, (_, bs, script, cs) in enumerate(a.lineup[:ka] if len(a.lineup) >= ka else (a.lineup * ka)[:ka])]
        a.ops = [("C", rng.randint(1, 3)), ("K",)]; a.folder = True; a.keep_folder = True
        with warnings.catch_warnings():
            warnings.simplefilter("ignore")
            la, ia = ch.run_real(a)
        folder = ia["folder"]
        try:
            ids, truth, got = plot_lookup(a, ia)
            if got != truth:
                chk.fail(f"plotting cannot map ids {ids} (really {truth}) back to names from the calibrator's checkpoint: {got}", {"case": scn_json(a)})
            # run B: other classes in the same positions (so the ids 0..k-1 are all known to whoever remembered A's table), fewer or equally many
            b = ch.gen_scn(rng, sched="rr", max_batches=3)
            kb = rng.randint(1, ka)
            second = rng.sample([c for c in range(n_cls) if c not in first[:1]], kb)
            b.dims, b.bounds, b.precision, b.simlen = a.dims, a.bounds, a.precision, a.simlen
            b.lineup = [(second[j], bs, script, cs) for j, (_, bs, script, cs) in enumerate(ch.gen_stub_lineup(rng, kb, a.dims, a.bounds))]
            b.loss_table = {}
            b.ops = [("C", rng.randint(1, 3)), ("K",)]; b.folder = True; b.keep_folder = True; b.use_folder = folder
            with warnings.catch_warnings():
                warnings.simplefilter("ignore")
                lb, ib = ch.run_real(b)
            ids, truth, got = plot_lookup(b, ib)
            chk.case(["folder-reuse", scn_json(a), scn_json(b)], True, {"run_A": [ch.STUB_NAMES[c] for c, *_ in a.lineup], "run_B_same_folder": [ch.STUB_NAMES[c] for c, *_ in b.lineup],
                                                                         "ids": ids, "names_recovered": got})
            chk.count("folder_reuse_two_runs")
            if got != truth:
                chk.fail(f"second run in a used folder: plotting maps ids {ids} to {got}, they were produced by {truth}", {"case": scn_json(b), "first_run": scn_json(a)})
        finally:
            shutil.rmtree(folder, ignore_errors=True)


def replay(path: Path) -> int:
    r = json.loads(path.read_text())
    bad = 0
    for fi in r.get("failing_inputs", []):
        c = fi.get("case")
        if not c:
            continue
        if fi.get("first_run"):
            a = scn_from_json(fi["first_run"]); a.keep_folder = True; a.use_folder = None
            _, ia = ch.run_real(a)
            plot_lookup(a, ia)
            b = scn_from_json(c); b.keep_folder = True; b.use_folder = ia["folder"]
            _, ib = ch.run_real(b)
            ids, truth, got = plot_lookup(b, ib)
            shutil.rmtree(ia["folder"], ignore_errors=True)
            print("REPLAY", fi["what"][:120], "->", "still fails" if got != truth else "passes now")
            bad += got != truth
            continue
        scn = scn_from_json(c); scn.keep_folder = True
        lines, info = ch.run_real(scn)
        errs, _ = analyse(scn, lines, info)
        ids, truth, got = plot_lookup(scn, info)
        shutil.rmtree(info["folder"], ignore_errors=True)
        fails = bool(errs) or got != truth
        print("REPLAY", fi["what"][:120], "->", "still fails" if fails else "passes now")
        bad += fails
    return 1 if bad else 0
