"""C17 — grid snapping: real `get_closest` / `digitize_data` vs the Lean model (`BlackIt.Snap`)."""
from __future__ import annotations

import json
from fractions import Fraction
from pathlib import Path

import numpy as np

from vp.core import LEAN, Check, f2h, fl, frac_s, h2f, lean_run

MODULE = "BlackIt.Properties.C17"
PROP_FILE = LEAN / "BlackIt/Properties/C17.lean"


# ------------------------------------------------------------------ generators
def gen_grid(rng, chk) -> np.ndarray:
    kind = rng.choice(["arange", "arange", "irregular", "dyadic", "single", "dups", "wide", "subnormal", "extreme_range"])
    chk.count("grid:" + kind)
    if kind == "subnormal":
        # elements that are small odd multiples of the smallest subnormal (halving or scaling them is not exact), both signs
        n = rng.randint(2, 12)
        ks = sorted({rng.choice([-1, 1, 1]) * rng.randint(0, 40) for _ in range(n)})
        return np.array([k * 5e-324 for k in ks], dtype=np.float64)
    if kind == "extreme_range":
        # a non-uniform grid from tiny to the top of the float range
        xs = sorted({rng.choice([0.0, 5e-324, 1.5e-323, 2.2250738585072014e-308, 1e-300, 1.0, 1e300, 8.9e307, 1.7e308, -1.7e308, -1e300, -5e-324])
                     for _ in range(rng.randint(2, 9))})
        return np.array(xs, dtype=np.float64)
    if kind == "single":
        return np.array([rng.choice([0.0, -3.5, 1e-9, 7e8])])
    if kind == "arange":
        lo = rng.choice([0.0, -1.0, 0.1, -1e6, 1e-7, 123.456]) * rng.choice([1, 1, 3.7])
        prec = rng.choice([0.01, 0.3, 1.0, 1e-4, 0.1, 2.5, 1e3])
        n = rng.randint(1, 200)
        return np.arange(lo, lo + prec * (n - 1) + 1e-7, prec, dtype=np.float64)
    if kind == "dyadic":
        n = rng.randint(1, 60)
        xs = sorted({rng.randint(-4096, 4096) / 2 ** rng.randint(0, 6) for _ in range(n)})
        return np.array(xs, dtype=np.float64)
    if kind == "dups":
        n = rng.randint(2, 40)
        xs = sorted(rng.choice([-2.0, -1.0, 0.0, 0.5, 1.0, 3.0]) for _ in range(n))
        return np.array(xs, dtype=np.float64)
    if kind == "wide":
        n = rng.randint(2, 30)
        xs = sorted({rng.choice([-1, 1]) * 10.0 ** rng.uniform(-12, 12) for _ in range(n)})
        return np.array(xs, dtype=np.float64)
    n = rng.randint(2, 200)
    xs = np.cumsum([rng.choice([1e-3, 0.5, 1.0, 7.25, 1e-9]) * rng.random() for _ in range(n)]) + rng.uniform(-50, 50)
    return np.array(xs, dtype=np.float64)


def gen_values(rng, grid: np.ndarray, m: int, chk) -> np.ndarray:
    vs = []
    lo, hi = float(grid[0]), float(grid[-1])
    span = max(hi - lo, 1.0)
    for _ in range(m):
        k = rng.choice(["elem", "mid", "mid_ulp", "elem_ulp", "inside", "below", "above", "far", "zero"])
        chk.count("value:" + k)
        i = rng.randrange(len(grid))
        j = min(i + 1, len(grid) - 1)
        if k == "elem":
            v = float(grid[i])
        elif k == "mid":
            v = float(grid[i]) / 2 + float(grid[j]) / 2
        elif k == "mid_ulp":
            v = float(np.nextafter(float(grid[i]) / 2 + float(grid[j]) / 2, rng.choice([-np.inf, np.inf])))
        elif k == "elem_ulp":
            v = float(np.nextafter(grid[i], rng.choice([-np.inf, np.inf])))
        elif k == "inside":
            v = rng.uniform(lo, hi)
        elif k == "below":
            v = lo - rng.random() * span
        elif k == "above":
            v = hi + rng.random() * span
        elif k == "far":
            v = rng.choice([-1, 1]) * rng.choice([1e300, 1e30, 1.7e308])
        else:
            v = rng.choice([0.0, -0.0])
        vs.append(v)
    return np.array(vs, dtype=np.float64)


def is_dyadic_small(x: float) -> bool:
    fr = Fraction(x)
    return fr.denominator <= 2 ** 20 and abs(fr.numerator) < 2 ** 40


# ------------------------------------------------------------------ oracle (independent of the model)
def oracle_closest(grid: np.ndarray, vals: np.ndarray, out: np.ndarray) -> list[str]:
    errs = []
    gl = grid.tolist()
    gset = {f2h(g) for g in gl} | {f2h(0.0), f2h(-0.0)} if 0.0 in gl else {f2h(g) for g in gl}
    for v, r in zip(vals.tolist(), out.tolist()):
        if f2h(r) not in gset:
            errs.append(f"value {v!r}: result {r!r} is not an element of the grid")
            continue
        dmin = min(abs(v - g) for g in gl)  # python float ops == IEEE binary64 == np.fabs(v-g)
        if abs(v - r) > dmin:
            errs.append(f"value {v!r}: result {r!r} at distance {abs(v - r)!r} but grid has an element at {dmin!r}")
    return errs


def oracle_idem(gc, grid, out) -> list[str]:
    again = gc(grid, out.copy())
    bad = [i for i in range(len(out)) if f2h(again[i]) != f2h(out[i]) and again[i] != out[i]]
    return [f"not idempotent: snap({out[i]!r}) = {again[i]!r}" for i in bad[:3]]


# ------------------------------------------------------------------ the check
def run(chk: Check):
    from black_it.utils.base import digitize_data, get_closest

    rng = chk.rng
    chk.rule = ("random sorted grids (np.arange as SearchSpace builds them, irregular, dyadic, duplicates, 24 decades wide, "
                "single element) x values (grid elements, exact mid-points, +-1ulp around both, inside, below, above, "
                "1e300); a case = (grid, value vector) or (grids, 2-D array); non-trivial = grid has >= 2 elements and at "
                "least one value is strictly inside the range and not a grid element")
    chk.trusted_base = ["Lean 4.33 kernel", "Mathlib (Order.Basic, Algebra.Order.Group.Abs)",
                        "IEEE-754: Lean Float == numpy float64 for - and fabs, comparison; np.searchsorted(side=left) == "
                        "count of elements < v on a sorted array", "harness/props/c17.py + lean/Driver.lean"]
    chk.assumptions = ["the theorem is about an abstract unimodal distance; for |v-g| over an ordered group this is proved "
                       "(abs_unimodal), for IEEE fl|v-g| it is 'rounding is monotone' (trusted)",
                       "model tied to the code by bit-exact differential runs on the cases counted here"]
    chk.proof_stage(PROP_FILE)

    n_grids = 300 if chk.tier == "quick" else 6000
    reqs, meta = [], []
    # corpus first
    for f in sorted((Path(__file__).resolve().parents[2] / "corpus").glob("C17-*.json")):
        c = json.loads(f.read_text())
        grid = np.array([h2f(h) for h in c["grid"]]); vals = np.array([h2f(h) for h in c["values"]])
        reqs.append(f"snap.closest {fl(grid)} {fl(vals)}"); meta.append(("closest", grid, vals))
        chk.count("corpus")
    for _ in range(n_grids):
        grid = gen_grid(rng, chk)
        vals = gen_values(rng, grid, rng.randint(1, 80), chk)
        reqs.append(f"snap.closest {fl(grid)} {fl(vals)}"); meta.append(("closest", grid, vals))
        if all(is_dyadic_small(g) for g in grid.tolist()):
            dv = np.array([v for v in vals.tolist() if is_dyadic_small(v)])
            if len(dv):
                reqs.append("snap.closestq " + f"{len(grid)} " + " ".join(frac_s(g) for g in grid.tolist())
                            + f" {len(dv)} " + " ".join(frac_s(v) for v in dv.tolist()))
                meta.append(("closestq", grid, dv))
    # 2-D digitize
    for _ in range(n_grids // 3):
        ncols = rng.randint(1, 6)
        grids = [gen_grid(rng, chk) for _ in range(ncols)]
        if rng.random() < 0.35 and ncols >= 2:
            # columns whose grids look alike from outside (same size, same first and last element) or are the very same grid,
            # but differ inside: each column must still be snapped against its own grid
            base = grids[0]
            for j in range(1, ncols):
                r = rng.random()
                if r < 0.3:
                    grids[j] = base.copy()
                elif len(base) >= 3 and r < 0.9:
                    inner = np.sort(np.array([rng.uniform(float(base[0]), float(base[-1])) for _ in range(len(base) - 2)]))
                    g = np.concatenate([[base[0]], inner, [base[-1]]])
                    if np.all(np.diff(g) > 0):
                        grids[j] = g
            chk.count("digitize:look_alike_grids")
        elif rng.random() < 0.25 and ncols >= 2:
            # grids that agree element-wise to within the customary float tolerances (rtol 1e-5, atol 1e-8) without being equal:
            # a tiny scale, or a relative shift of a few 1e-6
            if rng.random() < 0.5:
                u = 10.0 ** rng.randint(-12, -10); m = rng.randint(3, 15)
                grids = [np.arange(m + 1) * (u * k) for k in rng.sample([1.0, 2.0, 3.0, 5.0, 7.0, 11.0], min(ncols, 6))]
            else:
                base = grids[0]
                grids = [base] + [base * (1.0 + rng.choice([1, -1, 2]) * 3e-6) + rng.choice([0.0, 1e-9]) for _ in range(ncols - 1)]
                grids = [np.sort(g) for g in grids]
            ncols = len(grids)
            chk.count("digitize:grids_close_but_not_equal")
        nrows = rng.choice([0, 1, 2, 3, 7, 20, 50])
        data = np.zeros((nrows, ncols))
        for j in range(ncols):
            data[:, j] = gen_values(rng, grids[j], nrows, chk) if nrows else []
        reqs.append(f"snap.digitize {ncols} " + " ".join(fl(g) for g in grids) + f" {nrows} "
                    + " ".join(f2h(x) for x in data.flatten().tolist()))
        # "all array shapes": the rows may carry trailing axes (rows x parameters x stack); the model sees the equivalent two-dimensional problem
        stack = rng.choice([0, 0, 0, 1, 2, 3]) if nrows else 0
        if stack and nrows % stack == 0 and nrows // stack >= 1:
            r3 = nrows // stack
            data3 = data.reshape(r3, stack, ncols).transpose(0, 2, 1).copy()         # [r, j, k] = data[r*stack + k, j]
            meta.append(("digitize3", grids, (data, data3)))
            chk.count(f"shape:{r3}x{ncols}x{stack}")
        else:
            meta.append(("digitize", grids, data))
            chk.count(f"shape:{nrows}x{ncols}")

    answers = lean_run(reqs)
    grid_buffers = {}
    for (kind, grid, vals), ans in zip(meta, answers):
        if kind in ("digitize", "digitize3"):
            grids, data = grid, vals
            if kind == "digitize3":
                data, data3 = vals
                b3 = data3.copy()
                try:
                    out3 = digitize_data(data3, grids)
                except Exception as e:  # noqa: BLE001
                    chk.case(["dig3", [g.tolist() for g in grids], data3.tolist()], True, {"op": "digitize_data", "shape": list(data3.shape), "raised": type(e).__name__})
                    chk.fail(f"digitize_data raised {type(e).__name__}: {str(e)[:80]} on data of shape {data3.shape} (rows x parameters x stack)",
                             {"case": {"kind": "digitize3", "grids": [[f2h(x) for x in g] for g in grids], "shape": list(data3.shape), "values": [f2h(v) for v in data3.flatten()]}})
                    continue
                if out3.shape != data3.shape or not np.array_equal(b3, data3):
                    chk.fail("digitize_data changes the shape of / modifies a 3-d input", {"shape_in": data3.shape, "shape_out": out3.shape})
                    continue
                out = out3.transpose(0, 2, 1).reshape(-1, len(grids))
                before = data.copy()
            else:
                before = data.copy()
                out = digitize_data(data, grids)
            impl = " ".join(f2h(x) for x in out.flatten().tolist())
            nontriv = data.shape[0] > 0 and data.shape[1] > 1
            chk.case(["dig", [g.tolist() for g in grids], data.tolist()], nontriv,
                     {"op": "digitize_data", "shape": list(data.shape), "grid_sizes": [len(g) for g in grids]})
            if out.shape != data.shape:
                chk.fail("digitize_data changes the array shape", {"shape_in": data.shape, "shape_out": out.shape})
            if not np.array_equal(before, data):
                chk.fail("digitize_data modified its input", {})
            for j in range(data.shape[1]):
                for e in oracle_closest(grids[j], data[:, j], out[:, j]):
                    chk.fail("digitize_data column not snapped to its own grid: " + e,
                             {"case": {"grid": [f2h(g) for g in grids[j]], "values": [f2h(v) for v in data[:, j]]}, "column": j})
            if impl != ans:
                chk.disagree("digitize_data != BlackIt.Snap.digitize", {"request": reqs[0][:0] + "snap.digitize ...",
                             "impl": impl[:400], "model": ans[:400], "grids": [g.tolist() for g in grids], "data": data.tolist()})
            continue
        # the caller may keep ONE array for its grid and refill it in place between calls (same object, new sorted contents)
        if len(grid) in grid_buffers and rng.random() < 0.6:
            grid_buffers[len(grid)][:] = grid
            grid = grid_buffers[len(grid)]
            chk.count("grid_object:refilled_in_place")
        else:
            grid_buffers[len(grid)] = grid
        # "acts element-wise on arrays": the same values as a 1-d, 2-d or 3-d array (and as a non-contiguous view) must give the same results
        shaped = vals.copy()
        how = rng.choice(["1d", "1d", "2d", "3d", "strided", "2d-f", "3d-f", "2d-f"])
        if how in ("2d", "2d-f") and len(vals) >= 2 and len(vals) % 2 == 0:
            shaped = shaped.reshape(2, -1)
        elif how in ("3d", "3d-f") and len(vals) >= 4 and len(vals) % 4 == 0:
            shaped = shaped.reshape(2, 2, -1)
        if how.endswith("-f") and shaped.ndim > 1:
            # the same logical array in column-major memory (what a transpose, a pandas column block or np.asfortranarray gives)
            shaped = np.asfortranarray(shaped) if rng.random() < 0.5 else np.ascontiguousarray(shaped.T).T
            chk.count("array_layout:column-major")
        elif how == "strided":
            shaped = np.repeat(shaped, 2)[::2]
        chk.count("array_shape:" + "x".join(map(str, shaped.shape)) if shaped.ndim > 1 else "array_shape:1d")
        out = get_closest(grid, shaped)
        gc_case = {"case": {"grid": [f2h(g) for g in grid], "values": [f2h(v) for v in vals], "shape": list(shaped.shape),
                            "column_major": bool(shaped.ndim > 1 and not shaped.flags["C_CONTIGUOUS"]), "strided": how == "strided"}}
        if out.shape != shaped.shape:
            chk.fail(f"get_closest changed the array shape {shaped.shape} -> {out.shape}", gc_case)
        out = np.asarray(out).reshape(-1)
        inside = [v for v in vals.tolist() if grid[0] < v < grid[-1] and v not in set(grid.tolist())]
        nontriv = len(grid) >= 2 and bool(inside)
        chk.case([kind, grid.tolist(), vals.tolist()], nontriv,
                 {"op": "get_closest", "grid_len": len(grid), "grid_head": grid[:4].tolist(), "values_head": vals[:4].tolist(),
                  "out_head": out[:4].tolist()})
        errs = oracle_closest(grid, vals, out) + oracle_idem(get_closest, grid, out)
        for e in errs[:3]:
            chk.fail("get_closest" + (f" on a {'column-major ' if gc_case['case']['column_major'] else ''}array of shape {tuple(shaped.shape)}" if shaped.ndim > 1 else "") + ": " + e, gc_case)
        if kind == "closest":
            impl = " ".join(f2h(x) for x in out.tolist())
        else:
            impl = " ".join(frac_s(Fraction(x)) for x in out.tolist())
            chk.count("exactness_domain_cases")
            # exact-arithmetic oracle on the exactness domain
            for v, r in zip(vals.tolist(), out.tolist()):
                dm = min(abs(Fraction(v) - Fraction(g)) for g in grid.tolist())
                if abs(Fraction(v) - Fraction(r)) != dm:
                    chk.fail(f"get_closest (exact): {v!r} -> {r!r} is not a nearest element",
                             {"case": {"grid": [f2h(g) for g in grid], "values": [f2h(v)]}})
        if impl != ans:
            i = next((k for k, (x, y) in enumerate(zip(impl.split(), ans.split())) if x != y), -1)
            chk.disagree(f"get_closest != BlackIt.Snap.getClosest ({kind})",
                         {"grid": [f2h(g) for g in grid], "value": f2h(vals[i]) if i >= 0 else None,
                          "impl": impl.split()[i] if i >= 0 else impl[:200], "model": ans.split()[i] if i >= 0 else ans[:200]})


def replay(path: Path) -> int:
    from black_it.utils.base import get_closest

    r = json.loads(path.read_text())
    bad = 0
    for fi in r.get("failing_inputs", []):
        c = fi.get("case")
        if not c:
            continue
        grid = np.array([h2f(h) for h in c["grid"]]); vals = np.array([h2f(h) for h in c["values"]])
        shaped = vals.copy().reshape(c.get("shape", [len(vals)]))
        if c.get("column_major"):
            shaped = np.asfortranarray(shaped)
        if c.get("strided"):
            shaped = np.repeat(shaped, 2)[::2]
        out = np.asarray(get_closest(grid, shaped)).reshape(-1)
        errs = oracle_closest(grid, vals, out)
        print("REPLAY", fi["what"][:100], "->", "still fails" if errs else "passes now")
        bad += bool(errs)
    return 1 if bad else 0
