"""C09 — scheduling: round-robin across calls/restores, RL bootstrap + agent actions, constructor validation."""
from __future__ import annotations

import json
import warnings
from pathlib import Path

import numpy as np

from props.c02 import scn_from_json, scn_json
from vp import calharness as ch
from vp.core import LEAN, Check

MODULE = "BlackIt.Properties.C09"
PROP_FILE = LEAN / "BlackIt/Properties/C09.lean"


def oracle_rr(scn, info) -> list[str]:
    """batch i of the calibration's life was produced by sampler i mod n with its batch size (fixed line-up)"""
    errs = []
    cal = info["cal"]
    n = len(scn.lineup)
    bn = np.asarray(cal.batch_num_samp)
    nb = cal.current_batch_index
    names = [ch.STUB_NAMES[c] if not isinstance(c, str) else c for c, *_ in scn.lineup]
    inv = {v: k for k, v in cal.samplers_id_table.items()}
    for i in range(nb):
        rows = np.where(bn == i)[0]
        want_bs = scn.lineup[i % n][1]
        if len(rows) != want_bs:
            errs.append(f"batch {i} has {len(rows)} rows, sampler {i % n} has batch size {want_bs}")
            continue
        got = {inv[int(m)] for m in np.asarray(cal.method_samp)[rows]}
        if got != {names[i % n]}:
            errs.append(f"batch {i} is labelled {sorted(got)}, round-robin designates {names[i % n]} (position {i % n})")
    if getattr(cal.scheduler, "_batch_id", nb) != nb:
        errs.append(f"scheduler position {cal.scheduler._batch_id} != completed batches {nb}")
    return errs


def oracle_rr_invocations(scn, info) -> list[str]:
    """per-sampler invocation log (class-level recorder): the k-th completed sample() call of the current life"""
    errs = []
    return errs


def oracle_rl(scn, info) -> list[str]:
    errs = []
    order = info["rec"].get("_order", [])
    agent = info["agent"]
    cal = info["cal"]
    sch = cal.scheduler
    supplied = len(scn.lineup)
    if not order:
        return errs
    if order[0][1] != "HaltonSampler":
        errs.append(f"first batch produced by {order[0][1]}, not by the Halton bootstrap sampler")
    objs = [s._vp_obj for s in sch.samplers]
    for k, (obj, cname, bs, rows) in enumerate(order[1:]):
        if k >= len(agent.chosen):
            errs.append(f"batch {k + 1} ran but the agent had chosen only {len(agent.chosen)} actions")
            break
        a = agent.chosen[k]
        if not (0 <= a < supplied):
            errs.append(f"agent action {a} outside the supplied set")
        elif objs[a] != obj:
            errs.append(f"batch {k + 1}: agent chose sampler {a} but sampler object {objs.index(obj)} ({cname}) ran")
    return errs


def slow_agent_two_sessions(chk: Check, rng):
    """an agent whose last decision of a session is slow (1.4 s): end_session has to wait for it, drop it, and the next calibrate() call
    starts from a fresh decision — two calls, scripted actions, expected executed actions computed from the script"""
    for _ in range(1 if chk.tier == "quick" else 4):
        scn = ch.gen_scn(rng, sched="rl", max_batches=2)
        for _try in range(30):
            if len(scn.lineup) >= 2:      # with a single sampler every decision is the same action: a stale one could not be told from a fresh one
                break
            scn = ch.gen_scn(rng, sched="rl", max_batches=2)
        scn.folder, scn.conv, scn.faults, scn.verbose, scn.agent = False, None, [], False, "scripted"
        k = len(scn.lineup)
        a, b = rng.randint(2, 3), rng.randint(1, 2)
        scn.actions = [(j * 7 + 1) % k for j in range(40)] if k > 1 else [0] * 40
        scn.ops = [("C", a), ("C", b)]
        scn.slow_policy_calls = (a - 1,)        # the decision taken after the last batch of the first call (never executed)
        with warnings.catch_warnings():
            warnings.simplefilter("ignore")
            lines, info = ch.run_real(scn)
        want = scn.actions[0:a - 1] + scn.actions[a:a + b]
        got = info["actions"]
        chk.case(["slow-agent", scn_json(scn)], True, {"calls": [a, b], "scripted": scn.actions[:a + b + 1], "executed": got, "expected": want})
        chk.count("rl:slow_last_decision_two_calls")
        if got != want:
            chk.fail(f"RL scheduler with a slow agent, calibrate({a}) then calibrate({b}): executed actions {got}, the agent's decisions for those batches were {want} "
                     f"(a decision taken for a batch that never ran must not be executed later)", {"case": scn_json(scn)})
        ok, kk, x, y = ch.compare(scn, lines, info)
        if not ok:
            chk.disagree("Calibrator+RLScheduler (slow agent, two calls) != BlackIt.Calibrator", {"scenario": scn_json(scn), "impl": (x or "")[:300], "model": (y or "")[:300]})


def rl_zero_batch_sessions(chk: Check, rng):
    """RL sessions that end before any batch ran (calibrate(0)), first and in between: every session opens with a decision of the agent; a decision
    that was never executed is dropped with its session; the first batch ever is the bootstrap batch; every other batch is produced by the
    sampler the agent chose for it, in the order of its decisions within that session"""
    shapes = [[0, 3], [0, 0, 2], [2, 0, 2], [0, 1, 2], [1, 0, 0, 3]]
    for calls in (shapes if chk.tier == "quick" else shapes * 4):
        scn = ch.gen_scn(rng, sched="rl", max_batches=2)
        scn.folder, scn.conv, scn.faults, scn.verbose, scn.agent = False, None, [], False, "scripted"
        k = len(scn.lineup)
        scn.actions = [(j * 5 + 2) % k for j in range(60)] if k > 1 else [0] * 60
        scn.ops = [("C", n) for n in calls]
        with warnings.catch_warnings():
            warnings.simplefilter("ignore")
            lines, info = ch.run_real(scn)
        want, pos, first = [], 0, True
        for n in calls:
            nb = n - 1 if (first and n > 0) else n          # the very first batch is the bootstrap batch: no decision is consumed for it
            if n > 0:
                first = False
            want += scn.actions[pos:pos + nb]
            pos += nb + 1                                   # one more decision than executed batches: the last one dies with the session
        got = info["actions"]
        chk.case(["rl-zero-batch", scn_json(scn)], True, {"calls": calls, "scripted": scn.actions[:pos + 1], "executed": got, "expected": want})
        chk.count("rl:sessions_without_batches")
        if got != want:
            chk.fail(f"RL scheduler, calls calibrate{tuple(calls)}: executed actions {got}, the agent's decisions for those batches were {want} "
                     f"(a decision of a session that ran no batch must not be executed in a later session)", {"case": scn_json(scn)})
        ok, kk, x, y = ch.compare(scn, lines, info)
        if not ok:
            chk.disagree("Calibrator+RLScheduler (sessions without batches) != BlackIt.Calibrator", {"scenario": scn_json(scn), "impl": (x or "")[:300], "model": (y or "")[:300]})


def same_object_in_two_slots(chk: Check, rng):
    """a line-up in which one sampler object fills several slots ([a, b, a]): batch i is still produced by slot i mod n, with that slot's
    batch size; RL: the agent's index still addresses the supplied list.  Real built-in samplers, real calibrator, toy model."""
    import contextlib, io
    from black_it.calibrator import Calibrator
    from vp import twin

    for case in range(3 if chk.tier == "quick" else 20):
        k = rng.randint(2, 3)
        distinct = [ch.make_builtin(nm, rng.randint(1, 4), None, None) for nm in rng.sample(["HaltonSampler", "RandomUniformSampler", "RSequenceSampler"], k)]
        n_slots = rng.randint(k + 1, k + 3)
        slots = list(range(k)) + [rng.randrange(k) for _ in range(n_slots - k)]
        rng.shuffle(slots)
        lineup = [distinct[j] for j in slots]
        for j, s in enumerate(distinct):
            s._vp_obj, s._vp_calls = j, 0
        nb = rng.randint(n_slots + 1, 2 * n_slots + 2)
        d = rng.randint(1, 3)
        with ch.recording() as rec, contextlib.redirect_stdout(io.StringIO()), warnings.catch_warnings():
            warnings.simplefilter("ignore")
            ch.STATE.update(sampler_calls=0, faults=set())
            cal = Calibrator(loss_function=twin.make_loss("minkowski"), real_data=twin.real_data(12), model=twin.toy_model, samplers=lineup,
                             parameters_bounds=[[0.0] * d, [1.0] * d], parameters_precision=[0.01] * d, ensemble_size=1, verbose=False, random_state=rng.randrange(10 ** 6), n_jobs=1)
            parts = [nb] if rng.random() < 0.5 else [nb // 2, nb - nb // 2]
            for p_ in parts:
                cal.calibrate(p_)
        produced = [(obj, int(bs), len(rows)) for (obj, _, bs, rows) in rec.get("_order", [])]
        want = [(slots[i % n_slots], int(distinct[slots[i % n_slots]].batch_size), int(distinct[slots[i % n_slots]].batch_size)) for i in range(nb)]
        chk.case(["same-object", slots, [type(s).__name__ for s in distinct], nb], True, {"slots_to_objects": slots, "batches": nb, "produced_by": [p[0] for p in produced]})
        chk.count("rr:same_object_in_two_slots")
        if produced != want:
            chk.fail(f"line-up with one sampler object in several slots {slots}: batches were produced by objects {[p[0] for p in produced]} (sizes {[p[2] for p in produced]}), "
                     f"round robin prescribes {[w[0] for w in want]} (sizes {[w[2] for w in want]})", {"case": {"kind": "same-object", "slots": slots, "nb": nb}})
        if len(cal.scheduler.samplers) != n_slots:
            chk.fail(f"the scheduler holds {len(cal.scheduler.samplers)} samplers for a line-up of {n_slots} slots", {"case": {"kind": "same-object", "slots": slots}})


def ctor_cases():
    from black_it.calibrator import Calibrator
    from black_it.schedulers.round_robin import RoundRobinScheduler

    out = []
    for give_s in (False, True):
        for give_sch in (False, True):
            ss = ch.build_samplers([(0, 1, [[[1.0]]], None)], [0])
            kw = {}
            if give_s:
                kw["samplers"] = ss
            if give_sch:
                kw["scheduler"] = RoundRobinScheduler(ch.build_samplers([(1, 1, [[[2.0]]], None)], [5]))
            try:
                import contextlib, io
                with contextlib.redirect_stdout(io.StringIO()):
                    Calibrator(loss_function=ch.StubLoss(), real_data=np.zeros((4, 1)), model=ch.stub_model, parameters_bounds=[[0.0], [1.0]],
                               parameters_precision=[0.1], ensemble_size=1, verbose=False, n_jobs=1, **kw)
                res = "accepted"
            except ValueError:
                res = "ValueError"
            except Exception as e:  # noqa: BLE001
                res = type(e).__name__
            out.append((give_s, give_sch, res))
    return out


def run(chk: Check):
    rng = chk.rng
    chk.rule = ("round-robin: stub line-ups of 1-6 samplers (repeated classes), random splits of up to 20 batches into calibrate() calls with "
                "checkpoints/restores in between; RL: RLScheduler with scripted and epsilon-greedy agents, line-ups with and without Halton, "
                "single session; constructor: the four argument combinations. non-trivial = >= 2 calibrate calls or an RL run with >= 3 batches")
    chk.trusted_base = ["Lean 4.33 kernel", "stubs of harness/vp/calharness.py", "pickle round trip of the scheduler object (restore)",
                        "queue.Queue FIFO (RL single session: actions are consumed in the order chosen)"]
    chk.assumptions = ["RL clauses are about the calibration-thread view; the agent exchange itself is C10", "set_scheduler is outside the quantifier of C09"]
    chk.proof_stage(PROP_FILE)
    n = 120 if chk.tier == "quick" else 2000
    for i in range(n):
        # every third scenario has a convergence precision and zero-rounding losses: calls that stop early, then the calibration goes on
        # (further calls, restores) - the scheduling rule counts batches over the whole life, early stops included
        scn = ch.gen_scn(rng, sched="rr", restore=True, conv=(i % 3 == 2), max_batches=rng.randint(3, 20))
        if i % 5 == 4:
            # a calibrate() call that dies in the middle (the model raises in its second or a later batch), a restore from the saving folder, further batches:
            # the checkpoint of the last completed batch carries the scheduler's position, so batch k is still produced by sampler k mod n
            scn.folder, scn.conv = True, None
            n1 = rng.randint(3, 5)
            sizes = [bs for (_, bs, _, _) in scn.lineup]
            fb = rng.randint(1, n1 - 1)
            k = scn.ensemble * sum(sizes[b % len(sizes)] for b in range(fb)) + rng.randrange(scn.ensemble * sizes[fb % len(sizes)])
            scn.faults = [("M", k)]
            scn.ops = [("C", n1), ("R",), ("C", rng.randint(2, 4))]
            chk.count("rr:call_dies_mid_way_then_restore_and_continue")
        with warnings.catch_warnings():
            warnings.simplefilter("ignore")
            lines, info = ch.run_real(scn)
        ncal = len([o for o in scn.ops if o[0] == "C"])
        if scn.conv is not None:
            stopped = info["cal"].current_batch_index < sum(o[1] for o in scn.ops if o[0] == "C")
            chk.count("rr:convergence_precision:" + ("a_call_stopped_early" if stopped else "no_early_stop"))
        chk.case(scn_json(scn), ncal >= 2, {"lineup": [(ch.STUB_NAMES[c], b) for c, b, _, _ in scn.lineup], "ops": [o[:2] for o in scn.ops],
                                            "method_samp": np.asarray(info["cal"].method_samp).tolist()[:12]})
        chk.count(f"rr:n={len(scn.lineup)}"); chk.count("rr:with_restore" if any(o[0] == "R" for o in scn.ops) else "rr:live_only")
        for e in oracle_rr(scn, info)[:3]:
            chk.fail("round-robin: " + e, {"case": scn_json(scn)})
        for li, ln in enumerate(lines[1:]):
            # a call that raises something nobody injected produces no batch at all where the rule prescribes sampler (b mod n)
            if ln.startswith("raise:") and ln.split(" ")[0] not in ("raise:sampler", "raise:model", "raise:loss"):
                b_at = ln.split(" b=")[1].split(" ")[0] if " b=" in ln else "?"
                chk.fail(f"round-robin: operation {li} ({scn.ops[li][:2]}) raised {ln.split(' ')[0][6:][:90]} instead of producing batch {b_at} with sampler "
                         f"{b_at} mod {len(scn.lineup)} of the line-up (files planted in the saving folder: {info.get('planted')})", {"case": scn_json(scn)})
                break
        if i % 5 == 4:
            # (the fault plan counts invocations per process in the harness and per calibrator object - restored with it - in the model: after the restore the
            # model would fail again at the same count. This stream is judged by the model-independent oracle above.)
            chk.count("rr:model_comparison_skipped_for_die_and_restore")
            continue
        ok, k, a, b = ch.compare(scn, lines, info)
        if not ok:
            chk.disagree("Calibrator+RoundRobinScheduler != BlackIt.Calibrator (scheduling)",
                         {"scenario": scn_json(scn), "op_index": k, "fields": ch.diff_fields(a, b) if k is not None and k >= 0 else None, "impl": a[:500], "model": b[:500]})
    slow_agent_two_sessions(chk, rng)
    rl_zero_batch_sessions(chk, rng)
    same_object_in_two_slots(chk, rng)
    # RL
    m = 40 if chk.tier == "quick" else 600
    for i in range(m):
        scn = ch.gen_scn(rng, sched="rl", max_batches=6, conv=(i % 5 == 3))
        scn.folder = False
        scn.ops = [("C", rng.randint(1, 7))]
        if rng.random() < 0.5:  # put a Halton into the supplied set (possibly twice)
            pos = rng.randrange(len(scn.lineup) + 1)
            scn.lineup.insert(pos, ("HaltonSampler", rng.randint(1, 3), None, None))
            if rng.random() < 0.3:
                scn.lineup.append(("HaltonSampler", 2, None, None))
            scn.bounds = (tuple(0.0 for _ in range(scn.dims)), tuple(100.0 for _ in range(scn.dims)))
            scn.actions = [rng.randrange(len(scn.lineup)) for _ in range(60)]
        if rng.random() < 0.4:
            scn.agent = "eps"; scn.agent_opts = (rng.choice([-1.0, 0.5]), rng.choice([0.0, 0.3, 1.0]), 0.0)
        if i % 6 == 4:
            # a diverging model: every loss is +inf (the bootstrap batch has no finite loss at all), or a perfect fit: every loss exactly 0.0
            scn.loss_table = {}; scn.loss_default = [float("inf"), 0.0][(i // 6) % 2]; scn.ops = [("C", rng.randint(3, 6))]
            chk.count("rl:all_losses_" + ("inf" if scn.loss_default else "zero"))
        scn.loss_fn = "sum" if any(isinstance(c, str) for c, *_ in scn.lineup) else None
        with warnings.catch_warnings():
            warnings.simplefilter("ignore")
            lines, info = ch.run_real(scn)
        nb = info["cal"].current_batch_index
        chk.case(scn_json(scn), nb >= 3, {"lineup": [c if isinstance(c, str) else ch.STUB_NAMES[c] for c, *_ in scn.lineup], "agent": scn.agent,
                                          "actions_consumed": info["actions"], "bootstrap_index": info["cal"].scheduler._halton_sampler_id})
        chk.count("rl:" + scn.agent); chk.count("rl:halton_supplied" if any(c == "HaltonSampler" for c, *_ in scn.lineup) else "rl:halton_added")
        for e in oracle_rl(scn, info)[:3]:
            chk.fail("RL scheduler: " + e, {"case": scn_json(scn)})
        ok, k, a, b = ch.compare(scn, lines, info)
        if not ok:
            chk.disagree("Calibrator+RLScheduler != BlackIt.Calibrator (calibration-thread view)",
                         {"scenario": scn_json(scn), "op_index": k, "fields": ch.diff_fields(a, b) if k is not None and k >= 0 else None, "impl": a[:500], "model": b[:500]})
        import threading
        if any(t.name != "MainThread" and t.is_alive() and "Thread-" in t.name for t in threading.enumerate()):
            pass
    # constructor
    for give_s, give_sch, res in ctor_cases():
        want = "ValueError" if give_s == give_sch else "accepted"
        chk.case(["ctor", give_s, give_sch], True, {"samplers_given": give_s, "scheduler_given": give_sch, "result": res})
        if res != want:
            chk.fail(f"constructor with samplers={'given' if give_s else 'None'}, scheduler={'given' if give_sch else 'None'}: {res}, expected {want}",
                     {"case": {"ctor": [give_s, give_sch]}})


def replay(path: Path) -> int:
    r = json.loads(path.read_text())
    bad = 0
    for fi in r.get("failing_inputs", []):
        c = fi.get("case")
        if not c:
            continue
        if "ctor" in c:
            res = [x for x in ctor_cases() if [x[0], x[1]] == c["ctor"]][0][2]
            fails = res != ("ValueError" if c["ctor"][0] == c["ctor"][1] else "accepted")
        else:
            scn = scn_from_json(c)
            _, info = ch.run_real(scn)
            fails = bool(oracle_rr(scn, info) if scn.sched == "rr" else oracle_rl(scn, info))
            if getattr(scn, "slow_policy_calls", ()) and len(scn.ops) == 2:
                a, b = scn.ops[0][1], scn.ops[1][1]
                fails = fails or info["actions"] != scn.actions[0:a - 1] + scn.actions[a:a + b]
        print("REPLAY", fi["what"][:120], "->", "still fails" if fails else "passes now")
        bad += fails
    return 1 if bad else 0
