"""C13 — Halton and R sequences: real `halton()`, prime sieve, sampler cursors vs `BlackIt.Halton`."""
from __future__ import annotations

import json
from fractions import Fraction
from pathlib import Path

import numpy as np

from vp.core import LEAN, Check, f2h, fl, h2f, lean_run
from vp.tape import RecGen, install

MODULE = "BlackIt.Properties.C13"
PROP_FILE = LEAN / "BlackIt/Properties/C13.lean"
PRIMES40 = [2, 3, 5, 7, 11, 13, 17, 19, 23, 29, 31, 37, 41, 43, 47, 53, 59, 61, 67, 71, 73, 79, 83, 89, 97, 101, 103, 107,
            109, 113, 127, 131, 137, 139, 149, 151, 157, 163, 167, 173]


def radinv_exact(b: int, n: int) -> Fraction:
    x, d = Fraction(0), Fraction(1)
    while n > 0:
        n, r = divmod(n, b)
        d *= b
        x += Fraction(r) / d
    return x


def rows_hex(a) -> str:
    return " ".join(f2h(x) for x in np.asarray(a, dtype=float).flatten().tolist())


def start_indices(rng, n):
    out = []
    for _ in range(n):
        k = rng.choice(["uniform", "pow", "pow", "edge"])
        if k == "uniform":
            out.append(rng.randrange(0, 2 ** 16 + 2 ** 12))
        elif k == "edge":
            out.append(rng.choice([0, 1, 19, 20, 2 ** 16 - 1, 2 ** 16, 2 ** 16 + 2 ** 12 - 7]))
        else:  # around powers of a base: carries
            b = rng.choice(PRIMES40[:12]); e = rng.randint(1, 16)
            out.append(max(0, min(b ** e + rng.randint(-4, 2), 2 ** 16 + 2 ** 12 - 7)))
    return out


def run(chk: Check):
    import black_it.samplers.halton as hm
    import black_it.samplers.r_sequence as rm
    from black_it.search_space import SearchSpace

    rng = chk.rng
    # several Halton sampler objects alive at once, built before ANYTHING in this process has asked for a prime, then used in turns (below) on spaces of
    # growing dimension, between uses of other sampler objects
    h_pool = [hm.HaltonSampler(batch_size=1, random_state=0) for _ in range(3)]
    chk.rule = ("halton(): dims 1-40 (first d primes), start indices stratified over [0,2^16+2^12) (uniform, around powers of each base, "
                "edges), batch sizes 1-12; samplers: seeds through a recording generator, 1-6 successive batch sizes on one object, "
                "pre-snap points captured by wrapping digitize_data; R-sequence likewise. non-trivial = dims >= 2 and >= 2 points")
    chk.trusted_base = ["Lean 4.33 kernel", "Mathlib (Nat.digits, Nat.Prime, Order.Floor, field_simp/ring)",
                        "IEEE + * / identical in Lean Float and numpy elementwise ops; x % 1 == x - floor(x) for x >= 0",
                        "the C library's pow (behind Python's pow and Lean's Float.pow): the compute_phi loop is tied bit for bit to Halton.phiLoop at binary64; that pow(y, 1/(d+1)) is the exact root is "
                        "the contract under which phi_is_generalised_golden_ratio holds (residual |phi^(d+1) - phi - 1| <= 1e-12 checked); np.power may differ from pow by an ulp, alpha compared within 2 ulp",
                        "harness/props/c13.py + lean/Driver.lean"]
    chk.assumptions = ["radical-inverse theorem is over an exact field; the binary64 loop is tied bit-for-bit to the Float instance and "
                       "to the exact value within 2^-50", "prime table proved for d <= 40 (the property's range) by kernel evaluation"]
    chk.proof_stage(PROP_FILE)
    # ---- compute_phi against Halton.phiLoop (bit for bit) and the step vector against Halton.alphas (within 2 ulp: np.power is not pow), every dimension of the quantifier
    dims_phi = list(range(1, 41)) + ([rng.randint(41, 400) for _ in range(5)] if chk.tier == "quick" else list(range(41, 400)))
    for d, ans in zip(dims_phi, lean_run([f"rseq.phi {d}" for d in dims_phi])):
        phi = rm.RSequenceSampler.compute_phi(d)
        alpha = np.power(1 / phi, np.arange(1, d + 1))
        chk.case(["phi", d], True, {"op": "compute_phi", "dims": d, "phi": phi})
        chk.count("phi_loop_bit_exact_cases")
        if " | " not in ans or ans.split(" | ")[0] != f2h(phi):
            chk.disagree(f"RSequenceSampler.compute_phi({d}) != BlackIt.Halton.phiLoop at binary64", {"dims": d, "impl": f2h(phi), "model": ans[:40]})
            if not (abs(phi ** (d + 1) - (phi + 1)) <= 1e-12 * (d + 1)):
                chk.fail(f"compute_phi({d}) = {phi!r} is not the generalised golden ratio: phi^(d+1) - phi - 1 = {phi ** (d + 1) - phi - 1!r}", {"case": {"kind": "phi", "d": d}})
            continue
        model_alpha = [h2f(t) for t in ans.split(" | ")[1].split(" ")]
        if len(model_alpha) != d or any(abs(a - b) > 2 * np.spacing(abs(b)) for a, b in zip(alpha.tolist(), model_alpha)):
            chk.disagree(f"np.power(1/phi, 1..{d}) is not within 2 ulp of BlackIt.Halton.alphas", {"dims": d, "impl": alpha.tolist()[:6], "model": model_alpha[:6]})

    reqs, meta = [], []
    # ---- primes
    for n in range(1, 41):
        reqs.append(f"halton.primes {n}"); meta.append(("primes", n))
    # ---- raw halton()
    N = 250 if chk.tier == "quick" else 5000
    for s in start_indices(rng, N):
        d = rng.choice([1, 2, 3, 5, 8, 13, 40, rng.randint(1, 40)])
        k = rng.randint(1, 12)
        reqs.append(f"halton.seq {k} {s} {d} " + " ".join(str(p) for p in PRIMES40[:d])); meta.append(("seq", k, s, d))
    # ---- every power of every base in range as the LAST, the FIRST and an inner index of a batch (digit-count / carry boundaries), all 40 bases
    powers = sorted({p ** e for p in PRIMES40 for e in range(2, 17) if p ** e < 2 ** 16 + 2 ** 12})
    for P in powers:
        for k, s in ((rng.randint(1, 9), None), (rng.randint(2, 9), P - 1), (rng.randint(3, 9), max(0, P - 2))):
            s = max(0, P - k) if s is None else s          # first variant: the batch ENDS at index P (indices s+1 .. s+k)
            reqs.append(f"halton.seq {k} {s} 40 " + " ".join(str(p) for p in PRIMES40)); meta.append(("seq", k, s, 40))
    chk.count("prime_power_batch_boundaries", 3 * len(powers))
    # ---- one very large request (more points than any internal block or table size one might think of: 2^16 + a few, 10^5): the same points as always
    for k_big in ([2 ** 16 + 37] if chk.tier == "quick" else [2 ** 16 + 37, 100003, 2 ** 17 + 1]):
        s_big = rng.randrange(0, 4096); d_big = rng.choice([1, 2, 3])
        reqs.append(f"halton.seq {k_big} {s_big} {d_big} " + " ".join(str(p) for p in PRIMES40[:d_big])); meta.append(("seq", k_big, s_big, d_big))
        chk.count("very_large_single_request")
    # ---- HaltonSampler: seeds, cursors, successive batches
    M = 150 if chk.tier == "quick" else 3000
    for _ in range(M):
        seed = rng.randrange(10 ** 4); d = rng.choice([rng.randint(1, 8), rng.randint(1, 8), rng.randint(9, 40)])
        sizes = [rng.randint(1, 7) for _ in range(rng.randint(1, 6))]
        forced = rng.choice([None, None] + start_indices(rng, 1))
        meta.append(("hsampler", seed, d, sizes, forced)); reqs.append("halton.primes 1")  # placeholder, real request built below
    for _ in range(M):
        seed = rng.randrange(10 ** 4); d = rng.choice([rng.randint(1, 8), rng.randint(1, 8), rng.randint(9, 40)])
        sizes = [rng.randint(1, 7) for _ in range(rng.randint(1, 6))]
        meta.append(("rsampler", seed, d, sizes)); reqs.append("halton.primes 1")

    # run the implementation first for the sampler cases (their requests depend on the recorded seed draws)
    impl_out = {}
    h_reuse = []
    pool_uses = [0]
    hs_count = [0]
    r_reuse = []
    for i, m in enumerate(meta):
        if m[0] == "hsampler":
            _, seed, d, sizes, forced = m
            if hs_count[0] < 16:
                # the first sampler uses of a run go strictly up in dimension, from one object to the next: each needs primes that no object alive has needed so far
                d = [2, 3, 4, 5, 6, 7, 8, 9, 10, 12, 14, 16, 18, 20, 22, 24][hs_count[0]]
                meta[i] = m = (m[0], seed, d, sizes, forced)
            hs_count[0] += 1
            if i % 4 == 1:
                smp = h_pool[(i // 4) % len(h_pool)]
                chk.count("halton_object:one_of_several_alive_used_in_turns")
                pool_uses[0] += 1
            elif h_reuse and i % 2 == 0:
                smp = h_reuse[0]          # one long-lived sampler object serving spaces of changing dimension (prime tables, cursors must follow)
                chk.count("halton_object:reused")
            else:
                smp = hm.HaltonSampler(batch_size=sizes[0], random_state=0)
                h_reuse[:] = [smp]
                if i % 8 == 3:
                    h_pool[(i // 8) % len(h_pool)] = smp      # a sampler built in the middle of the others' lives joins them
            g = install(smp, RecGen(seed)); smp._reset_sequence_index()
            s0 = int(smp._sequence_index)
            drawn = [x for x in g.log if x[0] == "integers"]
            if not (20 <= s0 < 2 ** 16) or int(drawn[-1][2]) != s0:
                chk.fail(f"Halton start index {s0} not the seed-determined draw in [20,2^16)", {"case": {"kind": "hsampler", "seed": seed}})
            if forced is not None:
                smp._sequence_index = forced; s0 = forced
            outs, cursors = [], []
            for k in sizes:
                outs.append(smp._halton(k, d)); cursors.append(int(smp._sequence_index))
            impl_out[i] = (s0, outs, cursors)
            reqs[i] = f"halton.many {s0} {d} " + " ".join(str(p) for p in PRIMES40[:d]) + f" {len(sizes)} " + " ".join(map(str, sizes))
            # two real objects: batches [n, n] vs one of 2n (implementation-side statement of 'no gaps')
            a = hm.HaltonSampler(2, random_state=seed); b = hm.HaltonSampler(2, random_state=seed)
            n = sizes[0]
            two = np.vstack([a._halton(n, d), a._halton(n, d)]); one = b._halton(2 * n, d)
            if not np.array_equal(two, one):
                chk.fail("two Halton batches of n differ from one batch of 2n", {"case": {"kind": "hsampler", "seed": seed, "d": d, "n": n}})
        elif m[0] == "rsampler":
            _, seed, d, sizes = m
            if r_reuse and i % 2 == 0:
                smp = r_reuse[0]          # one long-lived sampler object serving spaces of changing (growing AND shrinking) dimension
                chk.count("rsequence_object:reused:" + ("fewer_dims" if d < r_reuse[1] else "more_or_equal_dims"))
                r_reuse[1] = d
            else:
                smp = rm.RSequenceSampler(batch_size=sizes[0], random_state=0)
                r_reuse[:] = [smp, d]
            g = install(smp, RecGen(seed)); smp._reset()
            idx0, start = int(smp._sequence_index), float(smp._sequence_start)
            ints = [x for x in g.log if x[0] == "integers"]; rnd = [x for x in g.log if x[0] == "random"]
            if not (20 <= idx0 < 2 ** 16) or int(ints[-1][2]) != idx0 or float(rnd[-1][2]) != start:
                chk.fail("R-sequence index/offset are not the seed-determined draws", {"case": {"kind": "rsampler", "seed": seed}})
            phi = rm.RSequenceSampler.compute_phi(d)
            alpha = np.power(1 / phi, np.arange(1, d + 1))
            outs, cursors = [], []
            for k in sizes:
                outs.append(smp._r_sequence(k, d)); cursors.append(int(smp._sequence_index))
            impl_out[i] = (idx0, start, alpha, outs, cursors, phi)
            reqs[i] = f"rseq.many {f2h(start)} {idx0} {fl(alpha)} {len(sizes)} " + " ".join(map(str, sizes))

    # the seed given to the constructor — by keyword, or positionally as (batch_size, random_state), the signature all samplers share —
    # determines start index, offset and points
    from black_it.search_space import SearchSpace
    for _ in range(6 if chk.tier == "quick" else 60):
        seed, bs, d = rng.randrange(10 ** 6), rng.randint(1, 5), rng.randint(1, 4)
        sp = SearchSpace([[0.0] * d, [1.0] * d], [1e-5] * d, False)
        for cls, nm in ((hm.HaltonSampler, "HaltonSampler"), (rm.RSequenceSampler, "RSequenceSampler")):
            a, b, c = cls(batch_size=bs, random_state=seed), cls(bs, seed), cls(bs, random_state=seed)
            outs = [x.sample_batch(bs, sp, np.zeros((0, d)), np.zeros(0)) for x in (a, b, c)]
            chk.case(["ctor-seed", nm, seed, bs, d], True, {"sampler": nm, "seed": seed, "batch_size": bs, "dims": d})
            chk.count("constructor_seed:keyword_vs_positional")
            if not (np.array_equal(outs[0], outs[1]) and np.array_equal(outs[0], outs[2])) or int(a._sequence_index) != int(b._sequence_index):
                chk.fail(f"{nm}({bs}, {seed}) (seed passed positionally) does not emit the sequence of {nm}(batch_size={bs}, random_state={seed}): the seed does not determine the sequence",
                         {"case": {"kind": "ctor_seed", "sampler": nm, "seed": seed, "batch_size": bs, "dims": d}})
            if int(b.max_deduplication_passes) != int(a.max_deduplication_passes):
                chk.fail(f"{nm}({bs}, {seed}): the positional seed ended up in another option (max_deduplication_passes = {b.max_deduplication_passes})",
                         {"case": {"kind": "ctor_seed", "sampler": nm, "seed": seed, "batch_size": bs, "dims": d}})
    answers = lean_run(reqs)
    calc = hm._CachedPrimesCalculator()
    order = list(range(1, 41)); rng.shuffle(order)
    got_primes = {n: calc.get_n_primes(n).tolist() for n in order}      # one cached calculator, random call order
    for i, (m, ans) in enumerate(zip(meta, answers)):
        if m[0] == "primes":
            n = m[1]
            impl = " ".join(str(p) for p in got_primes[n])
            fresh = " ".join(str(p) for p in hm._CachedPrimesCalculator().get_n_primes(n).tolist())
            chk.case(["primes", n], n >= 2, {"op": "get_n_primes", "n": n, "out": got_primes[n][-3:]})
            if got_primes[n] != PRIMES40[:n] or fresh != impl:
                chk.fail(f"get_n_primes({n}) is not the first {n} primes", {"case": {"kind": "primes", "n": n}})
            if impl != ans:
                chk.disagree("get_n_primes != BlackIt.Halton.getNPrimes", {"n": n, "impl": impl, "model": ans})
        elif m[0] == "seq":
            _, k, s, d = m
            out = hm.halton(k, np.array(PRIMES40[:d]), s)
            chk.case(["seq", k, s, d], d >= 2 and k >= 2, {"op": "halton", "sample_size": k, "n_start": s, "dims": d, "row0": out[0][:3].tolist()})
            chk.count(f"dims:{'1' if d == 1 else '2-8' if d <= 8 else '9-40'}")
            for r in range(k):
                for j in range(d):
                    ex = radinv_exact(PRIMES40[j], s + 1 + r)
                    if abs(Fraction(float(out[r, j])) - ex) > Fraction(1, 2 ** 50):
                        chk.fail(f"halton point {s + 1 + r} base {PRIMES40[j]}: {float(out[r, j])!r} is not the radical inverse {float(ex)!r}",
                                 {"case": {"kind": "seq", "k": k, "s": s, "d": d}})
            if rows_hex(out) != ans:
                chk.disagree("halton() != BlackIt.Halton.halton (Float)", {"k": k, "n_start": s, "dims": d, "impl": rows_hex(out)[:200], "model": ans[:200]})
        elif m[0] == "hsampler":
            _, seed, d, sizes, forced = m
            s0, outs, cursors = impl_out[i]
            impl = " | ".join(rows_hex(o) for o in outs) + f" | cursor {cursors[-1]}"
            chk.case(["hs", seed, d, sizes, forced], d >= 2 and len(sizes) >= 2, {"op": "HaltonSampler._halton x n", "seed": seed, "dims": d, "batch_sizes": sizes, "start_index": s0, "cursors": cursors})
            exp = s0
            for kk, c in zip(sizes, cursors):
                exp += kk
                if c != exp:
                    chk.fail(f"Halton cursor {c} after batch, expected {exp}", {"case": {"kind": "hsampler", "seed": seed, "d": d, "sizes": sizes}})
            flat = np.vstack(outs)
            for r in range(len(flat)):
                for j in range(d):
                    if abs(Fraction(float(flat[r, j])) - radinv_exact(PRIMES40[j], s0 + 1 + r)) > Fraction(1, 2 ** 50):
                        chk.fail(f"sampler point {r} is not the radical inverse of s+{r + 1}", {"case": {"kind": "hsampler", "seed": seed, "d": d, "sizes": sizes}})
                        break
            if impl != ans:
                chk.disagree("HaltonSampler batches/cursor != BlackIt.Halton.drawMany", {"seed": seed, "dims": d, "sizes": sizes, "impl": impl[-120:], "model": ans[-120:]})
        else:
            _, seed, d, sizes = m
            idx0, start, alpha, outs, cursors, phi = impl_out[i]
            impl = " | ".join(rows_hex(o) for o in outs) + f" | cursor {cursors[-1]}"
            chk.case(["rs", seed, d, sizes], d >= 2 and len(sizes) >= 2, {"op": "RSequenceSampler._r_sequence x n", "seed": seed, "dims": d, "batch_sizes": sizes, "index": idx0, "offset": start})
            chk.count("numeric_tolerance_cases")
            if abs(phi ** (d + 1) - (phi + 1)) > 1e-12 or any(abs(alpha[j] - phi ** (-(j + 1))) > 1e-13 for j in range(d)):
                chk.fail("R-sequence: phi/alpha are not the generalised golden ratio powers", {"case": {"kind": "rsampler", "seed": seed, "d": d}})
            flat = np.vstack(outs)
            for r in range(len(flat)):
                want = (start + (idx0 + r) * alpha) % 1
                if not (np.max(np.abs(flat[r] - want)) <= 1e-12):
                    chk.fail(f"R-sequence point {r} is not frac(offset + n*alpha)", {"case": {"kind": "rsampler", "seed": seed, "d": d, "sizes": sizes}})
                    break
            if len(flat) > 1:
                step = (flat[1:] - flat[:-1] - alpha) % 1
                if np.max(np.minimum(step, 1 - step)) > 1e-9:
                    chk.fail("consecutive R-sequence points do not advance by alpha mod 1", {"case": {"kind": "rsampler", "seed": seed, "d": d, "sizes": sizes}})
            if impl != ans:
                chk.disagree("RSequenceSampler batches/cursor != BlackIt.Halton.rPoint/drawMany", {"seed": seed, "dims": d, "sizes": sizes, "impl": impl[-120:], "model": ans[-120:]})

    # ---- sample_batch: the point that is snapped is lower + u*(upper-lower) with u the sequence point, and the cursor moves through sample()
    for cls, mod, fn in ((hm.HaltonSampler, hm, "_halton"), (rm.RSequenceSampler, rm, "_r_sequence")):
        for _ in range(40 if chk.tier == "quick" else 400):
            d = rng.randint(1, 5)
            lo = [rng.uniform(-5, 5) for _ in range(d)]; hi = [l + rng.uniform(0.5, 4) for l in lo]
            sp = SearchSpace([lo, hi], [rng.choice([0.01, 0.001, 0.1]) for _ in range(d)], False)
            smp = cls(batch_size=rng.randint(1, 6), random_state=rng.randrange(1000))
            twin = cls(batch_size=smp.batch_size, random_state=smp.random_state)
            captured = []
            orig = mod.digitize_data
            mod.digitize_data = lambda data, grid: (captured.append(data.copy()), orig(data, grid))[1]
            try:
                c0 = int(smp._sequence_index)
                out = smp.sample(sp, np.zeros((0, d)), np.zeros(0))
                c1 = int(smp._sequence_index)
            finally:
                mod.digitize_data = orig
            total = sum(len(c) for c in captured)
            u = getattr(twin, fn)(total, d)
            want = sp.parameters_bounds[0] + u * (sp.parameters_bounds[1] - sp.parameters_bounds[0])
            chk.case(["sb", cls.__name__, d, lo, hi], True)
            if c1 - c0 != total or not np.array_equal(np.vstack(captured), want):
                chk.fail(f"{cls.__name__}.sample: pre-snap points are not the next {total} sequence points mapped to the box",
                         {"case": {"kind": "sample_batch", "cls": cls.__name__}})


def replay(path: Path) -> int:
    print("C13 replay: re-run the check with the recorded seed (cases are fully determined by VERIF_SEED); file:", path)
    r = json.loads(path.read_text())
    import os, subprocess, sys
    env = dict(os.environ, VERIF_SEED=str(r.get("seed", 0)))
    return subprocess.call([sys.executable, str(Path(__file__).resolve().parents[1] / "check.py"), "C13", "--tier", r.get("tier", "quick")], env=env)
