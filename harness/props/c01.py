"""C01 — a calibration run is a pure function of configuration and seed (nuisance independence, draw traces)."""
from __future__ import annotations

import copy
import json
import warnings
from pathlib import Path

import numpy as np

from props.c02 import scn_from_json, scn_json
from props.c05 import gen_cfg
from vp import calharness as ch
from vp import twin
from vp.core import LEAN, Check, HarnessError
from vp.deep import deep, diff
from vp.tape import RecGen

MODULE = "BlackIt.Properties.C01"
PROP_FILE = LEAN / "BlackIt/Properties/C01.lean"


def contract_reseed_erases(chk, rng):
    """component contract `ReseedErases`, validated on the real sampler classes: two objects constructed with
    different seeds (and even used differently) are deep-equal after the same `random_state` assignment"""
    from black_it.search_space import SearchSpace

    n_ok = 0
    sp = SearchSpace([[0.0, 0.0], [1.0, 1.0]], [0.01, 0.01], False)
    for name in twin.BUILTINS:
        for _ in range(3 if chk.tier == "quick" else 20):
            a = ch.make_builtin(name, 2, ch.SMALL_OPTS.get(name), rng.randrange(1000))
            b = ch.make_builtin(name, 2, ch.SMALL_OPTS.get(name), rng.choice([None, rng.randrange(1000)]))
            if name in ("HaltonSampler", "RandomUniformSampler", "RSequenceSampler") and rng.random() < 0.5:
                a.sample(sp, np.zeros((0, 2)), np.zeros(0))   # a used object vs a fresh one
            s = rng.randrange(2 ** 31)
            a.random_state = s; b.random_state = s
            da, db = deep(a), deep(b)
            # the prime cache of the Halton sampler is a pure cache (get_n_primes(n) is the first n primes whatever was cached: C13)
            strip = lambda t: (t[0], t[1], [(k, v) for k, v in t[2] if k != "_prime_number_generator"]) if t[0] == "obj" else t
            d = diff(strip(da), strip(db))
            if d:
                chk.fail(f"{name}: state after random_state={s} still depends on how the object was constructed/used: {d[:3]}",
                         {"case": {"kind": "reseed", "sampler": name}})
            else:
                n_ok += 1
    chk.contracts.append({"name": "ReseedErases", "kind": "validated on the real component", "cases": n_ok,
                          "what": "sampler.random_state = s makes the sampler state independent of constructor seed and prior use"})


def trace_conformance(chk, rng):
    """every generator of calibrator / scheduler / samplers / agent is a recording subclass; check who draws what, in which order"""
    import black_it.utils.seedable as sd

    made = []
    orig = sd.default_rng

    def factory(seed=None):
        g = RecGen(seed)
        made.append(g)
        return g

    sd.default_rng = factory
    try:
        for _ in range(4 if chk.tier == "quick" else 40):
            made.clear()
            cfg = gen_cfg(rng, k_samplers=rng.randint(2, 5))
            cfg["n_jobs"] = rng.choice([1, 2])
            n = rng.randint(2, 5)
            h, rets, cal = twin.run_segments(cfg, [(n, "end")])
            calgen = cal.random_generator
            m = len(cal.scheduler.samplers)
            draws = [int(x[2]) for x in calgen.log if x[0] == "integers"]
            E = cfg["ensemble"]
            nsim = len(h["params"]) * E
            chk.case(["trace", cfg, n], True, {"lineup": [x[0] for x in cfg["lineup"]], "n_jobs": cfg["n_jobs"], "calibrator_draws": len(draws), "simulations": nsim})
            chk.count("trace_runs")
            if len(draws) != m + nsim:
                chk.fail(f"calibrator generator made {len(draws)} draws, expected {m} burnt + {nsim} simulation seeds", {"case": {"kind": "trace", "cfg": cfg, "n": n}})
                continue
            ref = np.random.default_rng(cfg["seed"])
            want = [int(ref.integers(2 ** 32 - 1)) for _ in range(m + nsim)]
            if draws != want:
                chk.fail("calibrator draws are not the consecutive stream of default_rng(seed)", {"case": {"kind": "trace", "cfg": cfg, "n": n}})
            # simulation seeds really used: recompute the series with the seeds at positions m + i*E + e
            ok = True
            for i in range(len(h["params"])):
                for e in range(E):
                    s = twin.toy_model(h["params"][i], h["series"].shape[2], want[m + i * E + e])
                    if s.tobytes() != h["series"][i, e].tobytes():
                        ok = False
            if not ok:
                chk.fail("stored series are not the model at (params[i], seed = draw m + i*E + e)", {"case": {"kind": "trace", "cfg": cfg, "n": n}})
            # no two owners share a generator object
            owners = [cal] + [cal.scheduler] + list(cal.scheduler.samplers)
            gens = [id(o.random_generator) for o in owners]
            if len(set(gens)) != len(gens):
                chk.fail("two objects share one generator object", {"case": {"kind": "trace", "cfg": cfg, "n": n}})
    finally:
        sd.default_rng = orig


def history_digest(h, rets):
    import hashlib
    d = hashlib.sha256()
    for k in sorted(h):
        d.update(k.encode()); d.update(np.ascontiguousarray(h[k]).tobytes())
    for p, l in rets:
        d.update(np.ascontiguousarray(p).tobytes()); d.update(np.asarray(l, dtype=float).tobytes())
    return d.hexdigest()


def fresh_process_twins(chk: Check, rng):
    import json as _json, os, subprocess, sys
    from vp.core import VERIF
    child = VERIF / "harness/children/twin_child.py"
    env = dict(os.environ)
    for i in range(3 if chk.tier == "quick" else 12):
        # increasing dimensionalities within this process (2, 3, then 4 parameters), every class that keeps tables or caches of its own
        dims = [2, 3, 4][i % 3]
        cfg = {"lineup": [("HaltonSampler", 3, None), (rng.choice(["RSequenceSampler", "RandomUniformSampler", "BestBatchSampler"]), 2, None), ("HaltonSampler", 2, None)],
               "dims": dims, "loss": rng.choice(["minkowski", "msm"]), "ensemble": 1, "seed": rng.randrange(10 ** 6), "n_jobs": 1, "sched": "rl" if i % 3 == 2 else "rr"}
        n = rng.randint(2, 4)
        h, rets, _ = twin.run_segments(cfg, [(n, "end")], use_folder=False)
        here = history_digest(h, rets)
        p = subprocess.run([sys.executable, str(child), _json.dumps(cfg), str(n)], capture_output=True, text=True, env=env, timeout=600)
        there = next((l.split()[1] for l in p.stdout.splitlines() if l.startswith("DIGEST")), None)
        chk.case(["fresh-process", cfg, n], True, {"dims": dims, "sched": cfg["sched"], "same_digest": here == there})
        chk.count("fresh_process_twin")
        if there is None:
            raise HarnessError("fresh-process twin produced no digest: " + p.stderr[-300:])
        if here != there:
            chk.fail(f"the same configuration and seed give a different history in a fresh interpreter than in this process (after earlier calibrations): dims={dims}",
                     {"case": {"kind": "fresh-process", "cfg": cfg, "n": n}})


def run(chk: Check):
    rng = chk.rng
    chk.rule = ("differential pairs on the real code: same configuration and calibrator seed, varying n_jobs in {1,2,4}, verbosity, saving folder and the "
                "constructor seeds of the sampler objects (and of the RL agent); line-ups from the nine built-in samplers, both scheduler kinds (RL single "
                "session), all built-in losses, 1-4 parameters, ensemble 1-3; byte comparison of the five history arrays and return values; plus draw-trace "
                "conformance with recording generators and the reseeding contract on each sampler class. non-trivial = pair differs in >= 2 nuisance inputs")
    chk.trusted_base = ["Lean 4.33 kernel", "numpy PCG64 determinism per seed", "third-party samplers' internals (sklearn, xgboost, scipy) are deterministic given their "
                        "random_state — validated differentially, not proved", "joblib workers are pure evaluators of model(theta, N, seed)", "harness/vp/twin.py"]
    chk.assumptions = ["the run is a function in the model by construction; the theorems show the nuisance inputs do not enter it, under the per-class contract ReseedErases"]
    chk.proof_stage(PROP_FILE)
    contract_reseed_erases(chk, rng)
    trace_conformance(chk, rng)
    n_pairs = 24 if chk.tier == "quick" else 300
    for i in range(n_pairs):
        cfg = gen_cfg(rng, k_samplers=rng.choice([2, 3, 5, 9]))
        cfg["sched"] = "rl" if i % 4 == 3 else "rr"
        n = rng.randint(2, 6)
        if cfg["sched"] == "rl":
            # an agent that explores always / often / sometimes: with epsilon 1 every action is a draw of the agent's generator, so a generator that is not the
            # one the calibrator seeded shows at the first action it takes
            cfg["agent_eps"] = [1.0, 0.6, 0.2][(i // 4) % 3]
            chk.count(f"rl_agent:epsilon={cfg['agent_eps']}")
        if i % 4 == 1:
            # non-finite losses in the history (a diverging simulation): samplers that tolerate them, and always a history-driven one
            cfg["loss"] = "infmix"
            cfg["lineup"] = [("HaltonSampler", 4, None)] + [(rng.choice(["BestBatchSampler", "RandomUniformSampler", "ParticleSwarmSampler", "XGBoostSampler", "RSequenceSampler"]), rng.randint(2, 3), None)
                                                            for _ in range(rng.randint(1, 3))] + [("BestBatchSampler", 2, None)]
            n = rng.randint(4, 7)
            chk.count("loss:infmix")
        if i % 6 == 0:
            # a search space of a handful of points that the run exhausts: every proposal of the de-duplicating samplers is a repeat through all
            # their passes — whatever a sampler does then, it does it with its own seeded generator
            cfg["dims"] = rng.choice([1, 2]); cfg["prec"] = 0.5
            cfg["lineup"] = [(rng.choice(["RandomUniformSampler", "HaltonSampler", "RSequenceSampler"]), rng.randint(2, 3), None) for _ in range(rng.randint(2, 3))]
            cfg["loss"] = rng.choice(["minkowski", "msm"]); cfg.pop("sim_length", None)
            n = rng.randint(7, 10)
            chk.count("space:exhausted_by_the_run")
        if i % 4 == 2:
            # a model that uses its theta argument as scratch space: in-process (n_jobs=1) it gets the calibrator's own array, in workers a pickled copy
            cfg["model"] = "mutating"
            cfg["ensemble"] = 1 if i % 8 == 2 else cfg["ensemble"]
            chk.count("model:writes-into-theta")
        if i % 6 == 2 and cfg["sched"] == "rr" and len({nm for nm, *_ in cfg["lineup"][1:]}) < 2:
            cfg["lineup"] = list(cfg["lineup"]) + [("RandomUniformSampler", 2, None), ("RSequenceSampler", 2, None)]     # (a line-up the used-folder pairs below can permute)
        if i % 12 == 5:
            # a model that refuses some of the seeds it is handed (raises): whatever happens then - here: the exception ends the run - happens in the same way,
            # at the same point and with the same history for every number of jobs
            cfg["model"] = "raising"
            cfg["ensemble"] = max(2, cfg["ensemble"])
            cfg["lineup"] = [(nm, max(bs, 2), cs) for nm, bs, cs in cfg["lineup"]]
            n = max(n, 4)
            chk.count("model:raises_for_some_seeds")
        if i == 7:
            # a long history (hundreds of points after the first batch) in front of the history-driven samplers: whatever they do differently on large
            # training sets, they do it with the generators the calibrator seeded
            cfg["lineup"] = [("HaltonSampler", 640, None), ("GaussianProcessSampler", 3, None), ("RandomForestSampler", 2, None), ("GaussianProcessSampler", 4, None), ("XGBoostSampler", 2, None), ("BestBatchSampler", 2, None)]
            cfg["dims"], cfg["ensemble"], cfg["loss"], cfg["sched"] = 2, 1, "minkowski", "rr"
            cfg.pop("model", None); cfg.pop("agent_eps", None)
            n = 6
            chk.count("history_of_more_than_600_points_before_the_surrogates")
        if i in (10, 11):
            # a line-up that schedules a history-dependent sampler before the history has enough points for it ("any order, any batch sizes"): the library refuses
            # with a ValueError - or does whatever else it does - identically in both runs (i = 11: the RL agent may pick best-batch right after the one-point bootstrap)
            cfg["lineup"] = ([("BestBatchSampler", 3, None), ("HaltonSampler", 2, None), ("RandomUniformSampler", 2, None)] if i == 10 and rng.random() < 0.5 else
                             [("HaltonSampler", 2, None), ("BestBatchSampler", 4, None), ("RandomUniformSampler", 2, None)] if i == 10 else
                             [("BestBatchSampler", 2, None), ("BestBatchSampler", 3, None), ("RandomUniformSampler", 2, None)])
            cfg["dims"], cfg["ensemble"], cfg["loss"] = 2, 1, "minkowski"
            cfg.pop("model", None); cfg["may_raise"] = True
            n = 4
            chk.count("lineup:history_dependent_sampler_scheduled_too_early")
        # the process-wide generators (numpy's legacy global stream, Python's random module) are nobody's configuration: they differ between the two runs of a pair
        import random as _random
        np.random.seed(1234 + i); _random.seed(1234 + i)
        base, rets, _ = twin.run_segments(cfg, [(n, "end")], use_folder=False)
        np.random.seed(99 + 7 * i); _random.seed(99 + 7 * i)
        other = copy.deepcopy(cfg)
        changed = []
        if rng.random() < 0.6 or cfg.get("model") in ("mutating", "raising"):
            other["n_jobs"] = rng.choice([2, 4]); changed.append("n_jobs")
        if rng.random() < 0.5:
            other["verbose"] = True; changed.append("verbose")
        use_folder = (rng.random() < 0.5 or i % 6 == 2) and cfg["sched"] == "rr"
        if use_folder:
            changed.append("folder")
            if len(cfg["lineup"]) >= 3 and len({nm for nm, *_ in cfg["lineup"][1:]}) >= 2 and (rng.random() < 0.7 or i % 6 == 2) and not cfg.get("may_raise"):
                # ... and the folder is not empty: it holds the checkpoint of an earlier calibration with the same sampler classes in another order (and another seed)
                other["leftover"] = dict(cfg, lineup=[cfg["lineup"][0]] + list(reversed(cfg["lineup"][1:])), seed=cfg["seed"] + 1, batches=1)
                other["leftover"].pop("leftover", None); other["leftover"].pop("model", None)      # (the earlier calibration used a well-behaved model)
                changed.append("folder_holds_another_calibration_of_the_same_classes")
        if rng.random() < 0.7 or cfg["sched"] == "rl":
            other["lineup"] = [(nm, bs, rng.randrange(10 ** 4)) for (nm, bs, _) in cfg["lineup"]]; changed.append("ctor_seeds")
            other["agent_ctor_seed"] = rng.randrange(100)
        if cfg["loss"] == "infmix" and "verbose" not in changed:
            other["verbose"] = True; changed.append("verbose")
        if not changed:
            other["verbose"] = True; changed.append("verbose")
        try:
            h, r, _ = twin.run_segments(other, [(n, "end")], use_folder=use_folder)
        except Exception as e:  # noqa: BLE001  (the base run completed: an exception here is a dependence on the nuisance inputs)
            chk.case(["pair", cfg, other, n], len(changed) >= 2, {"lineup": [x[0] for x in cfg["lineup"]], "varied": changed, "raised": type(e).__name__})
            chk.fail(f"the run with {changed} changed raised {type(e).__name__}: {str(e)[:100]} while the base run completed",
                     {"case": {"kind": "pair", "cfg": cfg, "other": other, "n": n, "folder": use_folder}})
            continue
        bad = twin.same_history(base, h)
        chk.case(["pair", cfg, other, n], len(changed) >= 2, {"lineup": [x[0] for x in cfg["lineup"]], "sched": cfg["sched"], "loss": cfg["loss"], "batches": n, "varied": changed})
        for c in changed:
            chk.count("varied:" + c)
        chk.count("sched:" + cfg["sched"])
        if bad:
            chk.fail(f"history depends on {changed}: fields {bad} differ", {"case": {"kind": "pair", "cfg": cfg, "other": other, "n": n, "folder": use_folder}})
        elif len(rets) != len(r) or any((a != b) if (isinstance(a[0], str) or isinstance(b[0], str)) else
                                        (a[0].tobytes() != b[0].tobytes() or np.asarray(a[1], dtype=float).tobytes() != np.asarray(b[1], dtype=float).tobytes()) for a, b in zip(rets, r)):
            chk.fail(f"return values depend on {changed}", {"case": {"kind": "pair", "cfg": cfg, "other": other, "n": n, "folder": use_folder}})
    # the result must not depend on what ran earlier in the same process: the same configuration in a fresh interpreter and here, after all
    # the runs above (samplers with process-wide caches, class attributes, module-level state)
    fresh_process_twins(chk, rng)
    # model correspondence of the seeding cascade (which draw goes to which sampler, generator position) on stubs, n_jobs 1/2
    for i in range(30 if chk.tier == "quick" else 400):
        scn = ch.gen_scn(rng, sched=rng.choice(["rr", "rr", "rl"]), max_batches=5, njobs=rng.choice([1, 1, 2]))
        scn.folder = False
        scn.ops = [("C", rng.randint(1, 5))] if scn.sched == "rl" else [o for o in scn.ops if o[0] == "C"]
        with warnings.catch_warnings():
            warnings.simplefilter("ignore")
            lines, info = ch.run_real(scn, model=ch.par_model if scn.njobs > 1 else None)
        chk.case(scn_json(scn), True)
        ok, k, a, b = ch.compare(scn, lines, info)
        if not ok:
            chk.disagree("seeding cascade / seed positions != BlackIt.Calibrator.setSeeds/batchSeeds",
                         {"scenario": scn_json(scn), "op_index": k, "fields": ch.diff_fields(a, b) if k is not None and k >= 0 else None, "impl": a[:500], "model": b[:500]})


def replay(path: Path) -> int:
    r = json.loads(path.read_text())
    bad = 0
    for fi in r.get("failing_inputs", []):
        c = fi.get("case")
        if not c or c.get("kind") != "pair":
            continue
        for k in ("cfg", "other"):
            c[k]["lineup"] = [tuple(x) for x in c[k]["lineup"]]
        base, _, _ = twin.run_segments(c["cfg"], [(c["n"], "end")], use_folder=False)
        try:
            h, _, _ = twin.run_segments(c["other"], [(c["n"], "end")], use_folder=c["folder"])
            fails = bool(twin.same_history(base, h))
        except Exception:  # noqa: BLE001
            fails = True
        print("REPLAY", fi["what"][:120], "->", "still fails" if fails else "passes now")
        bad += fails
    return 1 if bad else 0
