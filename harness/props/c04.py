"""C04 — checkpoint restores the calibrator state exactly (both back-ends, serialiser contracts, folder history)."""
from __future__ import annotations

import contextlib
import io
import json
import os
import shutil
import tempfile
import warnings
from pathlib import Path

import numpy as np

from vp import leftovers

from props.c05 import gen_cfg
from vp import twin
from vp.core import HarnessError, LEAN, Check, f2h, lean_run
from vp.deep import deep, diff

MODULE = "BlackIt.Properties.C04"
PROP_FILE = LEAN / "BlackIt/Properties/C04.lean"
SIG_STALE = "C04/folder-reuse/stale-series-rows"
SIG_RL = "C04/rl-scheduler/unpicklable"


def gen_floats(rng, n) -> np.ndarray:
    out = np.empty(n)
    for i in range(n):
        k = rng.random()
        if k < 0.55:
            out[i] = rng.random() * 10.0 ** rng.randint(-6, 6)
        elif k < 0.75:
            out[i] = np.float64(rng.getrandbits(52) | (rng.randint(1, 2046) << 52)).view(np.float64) if False else \
                np.array([rng.getrandbits(52) | (rng.randint(1, 2046) << 52)], dtype=np.uint64).view(np.float64)[0]
        elif k < 0.85:
            out[i] = round(rng.random(), rng.randint(1, 6))          # grid-like decimals (what parameters look like)
        elif k < 0.9:
            out[i] = np.array([rng.getrandbits(52)], dtype=np.uint64).view(np.float64)[0]   # subnormal
        elif k < 0.95:
            out[i] = rng.choice([1e300, -1e300, 1e-300, 0.1 + 0.2, 1 / 3, 5e-324, 1.7976931348623157e308, -0.0, 0.0])
        else:
            out[i] = -abs(rng.random()) * 10.0 ** rng.randint(-3, 3)
    return out


def bits(a) -> bytes:
    return np.ascontiguousarray(np.asarray(a, dtype=np.float64)).tobytes()


def contract_backends(chk, rng, n):
    """`dec (enc x) = x` for the four real serialisers, through the real save/load functions"""
    from black_it.utils import json_pandas_checkpointing as jp
    from black_it.utils import sqlite3_checkpointing as sq

    d = 2
    params = gen_floats(rng, n * d).reshape(n, d)
    losses = gen_floats(rng, n)
    losses[::97] = np.inf
    losses[5::211] = -np.inf
    series = gen_floats(rng, n * 2 * 3).reshape(n, 2, 3, 1)
    bounds = gen_floats(rng, 2 * d).reshape(2, d)
    prec = gen_floats(rng, d)
    real = gen_floats(rng, 6).reshape(3, 2)
    bnum = np.arange(n) // 3
    meth = (np.arange(n) // 3) % 4
    gen_state = np.random.default_rng(rng.randrange(10 ** 9)).bit_generator.state
    args = (bounds, prec, real, 2, 3, 1, None, False, "folder", 7, gen_state, "toy_model", ["sched"], "loss", 11, n, 1,
            params, losses, series, bnum, meth)
    folder = tempfile.mkdtemp(prefix="vpc04")
    res = {}
    try:
        jp.save_calibrator_state(folder, *args)
        got = jp.load_calibrator_state(folder, 0)
        res["csv:params"] = bits(got[17]) == bits(params)
        res["csv:losses"] = bits(got[18]) == bits(losses)
        res["hdf5:series"] = bits(got[19]) == bits(series) and got[19].shape == series.shape
        res["csv:labels"] = np.array_equal(got[20], bnum) and np.array_equal(got[21], meth)
        res["json:bounds"] = bits(np.asarray(got[0])) == bits(bounds) and bits(np.asarray(got[1])) == bits(prec) and bits(got[2]) == bits(real)
        res["json:generator_state"] = got[10] == gen_state
        res["json:counters"] = (got[14], got[15], got[3], got[4], got[9]) == (11, n, 2, 3, 7)
        bad_idx = [i for i in range(n) if bits(got[17][i]) != bits(params[i]) or bits(got[18][i:i + 1]) != bits(losses[i:i + 1])]
        args_sq = args[:15] + args[17:]     # the sqlite back-end has no n_sampled_params / n_jobs
        sq.save_calibrator_state(folder, *args_sq)
        g2 = sq.load_calibrator_state(folder)
        res["sqlite:arrays"] = all(bits(a) == bits(b) for a, b in ((g2[15], params), (g2[16], losses), (g2[17], series), (g2[0], bounds), (g2[2], real)))
        res["sqlite:generator_state"] = g2[10] == gen_state
    finally:
        shutil.rmtree(folder, ignore_errors=True)
    for k, ok in res.items():
        chk.contracts.append({"name": f"dec(enc x) = x  [{k}]", "kind": "validated on the real library", "cases": n, "ok": bool(ok)})
        if not ok:
            ex = ""
            if k.startswith("csv") and bad_idx:
                i = bad_idx[0]
                ex = f" e.g. row {i}: saved {params[i].tolist()} / {losses[i]!r}, loaded {np.asarray(got[17][i]).tolist()} / {float(got[18][i])!r}; {len(bad_idx)}/{n} rows differ"
            chk.fail(f"serialiser contract broken [{k}]: loaded value is not bit-identical to the saved one{ex}", {"case": {"kind": "contract", "which": k}})


def calibrator_state(cal):
    d = deep(cal)
    return d


def op_script(chk, rng, cfg, script):
    """run ops on a real calibrator; after every restore compare the restored object with the saved one"""
    from black_it.calibrator import Calibrator

    folder = tempfile.mkdtemp(prefix="vpc04s")
    fails, known = [], []
    try:
        with contextlib.redirect_stdout(io.StringIO()), warnings.catch_warnings():
            warnings.simplefilter("ignore")
            auto = not cfg.get("explicit_only")          # explicit_only: no saving folder, only create_checkpoint() calls write
            cal = twin.build(cfg, folder if auto else None)
            saved = None
            for op in script:
              try:
                if op[0] == "C":
                    cal.calibrate(op[1])
                    if auto:
                        saved = deep(cal) if cal.current_batch_index > 0 else saved     # calibrate() checkpoints after each batch
                        if cal.current_batch_index > 0:
                            leftovers.plant_stale_pickles(folder)
                elif op[0] == "K":
                    cal.create_checkpoint(folder)
                    saved = deep(cal)
                    leftovers.plant_stale_pickles(folder)
                elif op[0] == "R" and saved is not None:
                    r = Calibrator.restore_from_checkpoint(folder, model=twin.toy_model)
                    dd = diff(saved, deep(r))
                    if dd:
                        fails.append(f"restored calibrator differs from the saved one at {dd[:4]}")
                    cal = r
                elif op[0] == "NEWX":
                    # a different run (another seed, another option of the loss) runs WITHOUT saving folder for a few batches and is then
                    # checkpointed explicitly into the used folder: every file there must be replaced by this run's
                    other_loss = {"minkowski": "minkowski_p1", "minkowski_p1": "minkowski", "msm": "msm_std", "msm_std": "msm"}.get(cfg["loss"], "minkowski_p1")
                    cfg2 = dict(cfg, seed=cfg["seed"] + 1, loss=other_loss)
                    cal = twin.build(cfg2, None)
                    cal.calibrate(op[1])
                    cal.create_checkpoint(folder)
                    saved = deep(cal)
                    r = Calibrator.restore_from_checkpoint(folder, model=twin.toy_model)
                    dd = diff(saved, deep(r))
                    if dd:
                        fails.append(f"another run checkpointed explicitly (after {op[1]} batches) into a used folder: restored state differs at {dd[:3]}")
                    cal = r
                    saved = None
                elif op[0] == "NEWL":
                    # a trial with ANOTHER loss (same model, seed and samplers: the same parameters and the same simulated series, other losses) ran one batch in this
                    # folder; then the run proper starts there: the folder must hold this run's losses, not the trial's
                    # (another loss of the same family: the simulation length, hence the series, stays the same)
                    long_family = str(cfg["loss"]).startswith(("msm", "likelihood", "gsl"))
                    other_loss = {"minkowski": "minkowski_p1", "minkowski_p1": "minkowski", "msm": "msm_std", "msm_std": "msm"}.get(cfg["loss"], "msm_inv" if long_family else "minkowski_p1")
                    trial = twin.build(dict(cfg, loss=other_loss), folder)
                    trial.calibrate(1)
                    cal = twin.build(dict(cfg), folder)
                    cal.calibrate(op[1])
                    saved = deep(cal)
                    r = Calibrator.restore_from_checkpoint(folder, model=twin.toy_model)
                    dd = diff(saved, deep(r))
                    if dd:
                        fails.append(f"a run of {op[1]} batch(es) started in a folder holding a one-batch trial with the same series and another loss ({other_loss}): "
                                     f"the checkpoint does not hold the state calibrate() returned with, differs at {dd[:3]}")
                    cal = r
                    saved = None
                elif op[0] == "NEW":
                    # a different run starts in the same folder
                    cfg2 = dict(cfg, seed=cfg["seed"] + 1)
                    cal = twin.build(cfg2, folder)
                    cal.calibrate(op[1])
                    saved = deep(cal)
                    r = Calibrator.restore_from_checkpoint(folder, model=twin.toy_model)
                    dd = diff(saved, deep(r))
                    if dd:
                        (known if all(".series_samp" in x for x in dd) else fails).append(
                            f"new run in a used folder: restored state differs at {dd[:3]}")
                    cal = r
                    saved = None
              except Exception as e:  # noqa: BLE001  (exception of the code under test = an outcome)
                fails.append(f"{op[0]} raised {type(e).__name__}: {str(e)[:100]}")
                break
    finally:
        shutil.rmtree(folder, ignore_errors=True)
    return fails, known


def folder_logic_case(rng):
    """sequence of saves into one folder, as ids, for the Lean folder model"""
    snaps = []
    cur = []
    run_id = 0
    for _ in range(rng.randint(1, 5)):
        k = rng.choice(["grow", "grow", "same", "newrun", "sameends"])
        if k == "sameends" and len(cur) >= 3:
            # another run whose first and last rows coincide with what is on disk, different in between, at least as long
            run_id += 1
            mid = [run_id * 1000 + 500 + j for j in range(len(cur) - 2)]
            cur = [cur[0]] + mid + [cur[-1]] + [run_id * 1000 + 900 + j for j in range(rng.randint(0, 2))]
        elif k == "grow" or k == "sameends":
            cur = cur + [run_id * 1000 + len(cur) + j for j in range(rng.randint(1, 3))]
        elif k == "newrun":
            run_id += 1
            cur = [run_id * 1000 + j for j in range(rng.randint(1, 4))]
        snaps.append(list(cur))
    return snaps


def real_folder_saves(snaps):
    """real save/load with series rows that carry their id"""
    from black_it.utils import json_pandas_checkpointing as jp

    folder = tempfile.mkdtemp(prefix="vpc04f")
    try:
        for ids in snaps:
            n = len(ids)
            e = 1 + (ids[0] // 1000) % 2 if ids else 1          # runs with an odd id have an ensemble of 2: another trailing shape
            series = np.repeat(np.array(ids, dtype=float).reshape(n, 1, 1, 1), e, axis=1)
            params = np.array(ids, dtype=float).reshape(n, 1)
            jp.save_calibrator_state(folder, np.zeros((2, 1)), np.ones(1), np.zeros((1, 1)), 1, 1, 1, None, False, None, 0,
                                     np.random.default_rng(0).bit_generator.state, "m", "s", "l", len(snaps), n, 1,
                                     params, np.array(ids, dtype=float), series, np.zeros(n, dtype=int), np.zeros(n, dtype=int))
        got = jp.load_calibrator_state(folder, 0)
        return [int(x) for x in got[17][:, 0]], [int(x) for x in got[19][:, 0].reshape(-1)]
    finally:
        shutil.rmtree(folder, ignore_errors=True)


def folder_args(ids, n_saves):
    n = len(ids)
    e = 1 + (ids[0] // 1000) % 2 if ids else 1
    series = np.repeat(np.array(ids, dtype=float).reshape(n, 1, 1, 1), e, axis=1)
    params = np.array(ids, dtype=float).reshape(n, 1)
    return (np.zeros((2, 1)), np.ones(1), np.zeros((1, 1)), 1, 1, 1, None, False, None, 0, np.random.default_rng(0).bit_generator.state, "m", "s", "l", n_saves, n, 1,
            params, np.array(ids, dtype=float), series, np.zeros(n, dtype=int), np.zeros(n, dtype=int))


def other_process_takes_over(chk: Check, rng):
    """this process saves run A into a folder; ANOTHER process saves a different run B of exactly the same shape into it; this process saves A
    again (grown): what is restored must be A's state — whatever a process remembers about its own earlier writes, the folder may have changed"""
    import pickle, subprocess, sys
    from black_it.utils import json_pandas_checkpointing as jp
    from vp.core import VERIF
    child = VERIF / "harness/children/save_child.py"
    for _ in range(2 if chk.tier == "quick" else 10):
        n1 = rng.randint(2, 5)
        a1 = [2000 + j for j in range(n1)]                      # even run id: ensemble 1
        b = [4000 + j for j in range(n1)]                       # another run, same number of rows, same layout
        a2 = a1 + [2000 + n1 + j for j in range(rng.randint(0, 3))]
        folder = tempfile.mkdtemp(prefix="vpc04x")
        statefile = tempfile.mktemp(prefix="vpc04state")
        try:
            jp.save_calibrator_state(folder, *folder_args(a1, 1))
            pickle.dump(folder_args(b, 1), open(statefile, "wb"))
            env = dict(os.environ, PYTHONPATH=str(VERIF / "harness") + os.pathsep + os.environ.get("PYTHONPATH", ""))
            p = subprocess.run([sys.executable, str(child), "json", folder, statefile], capture_output=True, text=True, env=env, timeout=120)
            if "SAVED" not in p.stdout:
                raise HarnessError("the other process could not save: " + p.stderr[-300:])
            jp.save_calibrator_state(folder, *folder_args(a2, 2))
            got = jp.load_calibrator_state(folder, 0)
            ser = [int(x) for x in got[19][:, 0].reshape(-1)]
        finally:
            shutil.rmtree(folder, ignore_errors=True)
            with contextlib.suppress(FileNotFoundError):
                os.remove(statefile)
        chk.case(["other-process", a1, b, a2], True, {"saved_here": a1, "saved_by_another_process": b, "saved_here_again": a2, "restored_series_ids": ser})
        chk.count("folder_taken_over_by_another_process")
        if ser != a2:
            chk.fail(f"a folder rewritten by another process in between: saved series ids {a2}, restored {ser}", {"case": {"kind": "other-process", "a1": a1, "b": b, "a2": a2}})


def two_live_calibrators(chk: Check, rng):
    """two calibrator objects of DIFFERENT runs (same line-up and shapes, other seed) alive in one process and taking turns in one saving folder:
    after each calibrate() the folder must hold the state of the calibrator that just returned — whatever either object remembers about its own
    earlier writes there"""
    from black_it.calibrator import Calibrator
    from vp.deep import deep, diff
    for it in range(3 if chk.tier == "quick" else 30):
        bs = rng.randint(1, 3)
        cfg_a = {"lineup": [("HaltonSampler", bs, None), ("RandomUniformSampler", bs, None)], "dims": rng.randint(1, 3), "loss": rng.choice(["minkowski", "msm"]),
                 "ensemble": rng.randint(1, 2), "seed": rng.randrange(10 ** 6), "n_jobs": 1}
        cfg_b = {**cfg_a, "seed": cfg_a["seed"] + 1}
        folder = tempfile.mkdtemp(prefix="vpc04two")
        turns = []
        try:
            with contextlib.redirect_stdout(io.StringIO()), warnings.catch_warnings():
                warnings.simplefilter("ignore")
                a, b = twin.build(cfg_a, folder), twin.build(cfg_b, folder)
                order = [a, b, a, b, a] if it % 2 == 0 else [a, b, b, a, a]
                for k, cal in enumerate(order):
                    who = "A" if cal is a else "B"
                    if k >= 2 and (it + k) % 3 == 0 and order[k - 1] is not cal:
                        # this turn is an explicit checkpoint of the state the object already has (it ran no batch since its own last write there, but the
                        # other run has written the folder in the meantime)
                        cal.create_checkpoint(folder)
                        who = who + "k"
                    else:
                        cal.calibrate(1)
                    turns.append(who)
                    got = Calibrator.restore_from_checkpoint(folder, model=twin.toy_model)
                    dd = diff(deep(cal), deep(got))
                    if dd:
                        chk.fail(f"two runs taking turns in one folder ({''.join(turns)}): after calibrate() of run {who} returned, the folder does not hold its state: {dd[:3]}",
                                 {"case": {"kind": "two_live", "cfg": cfg_a, "turns": turns}})
                        break
        finally:
            shutil.rmtree(folder, ignore_errors=True)
        chk.case(["two-live", cfg_a, turns], True, {"turns": "".join(turns), "batch_size": bs})
        chk.count("two_live_calibrators_taking_turns_in_one_folder")


def run(chk: Check):
    rng = chk.rng
    chk.rule = ("(i) serialiser contracts: random floats (mantissa x exponent, grid-like decimals, subnormals, 1e+-300, +-inf, -0.0) through the real CSV/JSON/HDF5 "
                "and SQLite paths, bit comparison; (ii) real calibrators (all built-in samplers, all losses) driven by scripts over calibrate / create_checkpoint / "
                "restore / new run in the same folder, deep bit-exact comparison of the restored object (config, counters, arrays, generator state, recursive state of "
                "scheduler, samplers, loss); zero-batch checkpoints; RL scheduler with a folder; (iii) the create-or-append logic of the series file vs the Lean folder model. "
                "non-trivial = script with a restore after >= 2 batches, or a folder-logic case with >= 2 saves")
    chk.trusted_base = ["Lean 4.33 kernel", "json (repr round trip), pickle, h5py, sqlite3 as libraries — their round trips are checked here on samples, not proved",
                        "harness/vp/deep.py (what 'observable state' means: recursive __dict__ with numpy-aware equality)"]
    chk.assumptions = ["theorem load_save is unconditional in what the folder held before (the series file is appended to only when its rows are a prefix of the current ones)",
                       "RLScheduler cannot be pickled at all (known finding), so 'both scheduler kinds' holds for round-robin only"]
    chk.proof_stage(PROP_FILE)
    # the data-file names the code under test knows (read off its source, now) are the ones the model's directory has: load_ignores_foreign_file and
    # save_keeps_foreign_files are statements about exactly these names
    model_names = sorted(lean_run(["ckpt.names"])[0].split(" "))
    code_names = leftovers.known_filenames()
    chk.case(["names", code_names], True, {"op": "data-file names in the source", "names": code_names}); chk.count("file_names_compared_with_the_model")
    if sorted(code_names) != model_names:
        chk.disagree("the code under test names data files that BlackIt.Checkpoint.Dir.fileNames does not have (or the other way round)",
                     {"in_code_only": sorted(set(code_names) - set(model_names)), "in_model_only": sorted(set(model_names) - set(code_names))})
    contract_backends(chk, rng, 20000 if chk.tier == "quick" else 200000)
    chk.count("contract_floats", 20000 if chk.tier == "quick" else 200000)
    # (ii)
    for i in range(14 if chk.tier == "quick" else 150):
        cfg = gen_cfg(rng, k_samplers=rng.choice([2, 4, 9]))
        script = []
        for _ in range(rng.randint(2, 5)):
            k = rng.choice(["C", "C", "K", "R", "R"])
            script.append(("C", rng.randint(0 if not script else 1, 3)) if k == "C" else (k,))
        if i % 4 == 1:
            # many parameters: column names of the results table with two digits (params_samp_10 sorts before params_samp_2 as a string)
            cfg["dims"] = rng.choice([11, 12, 13, 24])
            cfg["lineup"] = [(nm, bs, cs) for nm, bs, cs in cfg["lineup"] if nm in ("HaltonSampler", "RandomUniformSampler", "RSequenceSampler", "BestBatchSampler")] \
                or [("HaltonSampler", 3, None)]
            if cfg["lineup"][0][0] == "BestBatchSampler":
                cfg["lineup"].insert(0, ("HaltonSampler", 4, None))
            script = [("C", rng.randint(1, 3)), ("R",), ("C", rng.randint(1, 2)), ("K",), ("R",)]      # always restored after batches were run
            chk.count("wide:dims>=10")
        if i % 3 == 2:
            # explicit checkpoints several batches apart onto an earlier checkpoint of the same run, no saving folder
            cfg["explicit_only"] = True
            script = [("C", rng.randint(1, 2)), ("K",), ("C", rng.randint(2, 3)), ("K",), ("R",), ("C", 1), ("C", rng.randint(1, 2)), ("K",), ("R",)]
            chk.count("script:explicit_checkpoints_only")
        if i % 5 == 0:
            script = [("K",), ("R",), ("C", 2), ("R",)]          # zero-batch checkpoint, then continue
        if i % 7 == 3:
            script = [("C", rng.randint(2, 3)), ("NEW", rng.randint(1, 4))]
        if i % 7 == 6:
            script = [("C", rng.randint(1, 3)), ("NEWX", rng.randint(2, 4)), ("C", 1), ("K",), ("R",)]
        if i % 7 == 5:
            script = ([("C", rng.randint(1, 2))] if rng.random() < 0.5 else []) + [("NEWL", rng.randint(1, 3)), ("C", 1), ("R",)]
            cfg.pop("explicit_only", None)
        fails, known = op_script(chk, rng, cfg, script)
        chk.case([cfg, script], any(o[0] == "R" for o in script), {"lineup": [x[0] for x in cfg["lineup"]], "loss": cfg["loss"], "script": script})
        chk.count("script:" + "".join(o[0][0] for o in script)[:6])
        for f in fails[:2]:
            chk.fail("restore: " + f, {"case": {"kind": "script", "cfg": cfg, "script": script}})
        for k in known[:1]:
            chk.fail("restore: " + k, {"case": {"kind": "script", "cfg": cfg, "script": script}}, signature=SIG_STALE)
    # in every run: a line-up whose samplers carry state of their own (the swarm: positions, velocities, personal bests, cursor), restored after each of them has
    # proposed and been fed back at least once - the restored samplers hold the state they were saved with
    for auto in (True, False):
        cfg = gen_cfg(rng, k_samplers=2)
        cfg["lineup"] = [("ParticleSwarmSampler", rng.randint(2, 4), None), (rng.choice(["HaltonSampler", "RSequenceSampler"]), 2, None)]
        cfg["dims"] = min(cfg["dims"], 4)
        cfg.pop("explicit_only", None)
        if not auto:
            cfg["explicit_only"] = True
        script = [("C", 3), ("K",), ("R",), ("C", 2), ("K",), ("R",), ("C", 1)]
        fails, known = op_script(chk, rng, cfg, script)
        chk.case([cfg, script], True, {"lineup": [x[0] for x in cfg["lineup"]], "loss": cfg["loss"], "script": script})
        chk.count("script:stateful_samplers_restored_after_feedback")
        for f in fails[:2]:
            chk.fail("restore: " + f, {"case": {"kind": "script", "cfg": cfg, "script": script}})
    # RL scheduler + saving folder
    cfg = gen_cfg(rng, k_samplers=3); cfg["sched"] = "rl"; cfg["folder"] = True
    try:
        twin.run_segments(cfg, [(2, "restore"), (1, "end")])
        chk.count("rl_with_folder_ok")
    except Exception as e:  # noqa: BLE001
        if "pickle" in str(e).lower() or "lock" in str(e).lower():
            chk.fail(f"RL scheduler + saving folder: {type(e).__name__}: {str(e)[:80]}", {"case": {"kind": "rl_folder", "cfg": cfg}}, signature=SIG_RL)
        else:
            chk.fail(f"RL scheduler + saving folder: {type(e).__name__}: {str(e)[:120]}", {"case": {"kind": "rl_folder", "cfg": cfg}})
    finally:
        import threading
        for t in threading.enumerate():
            pass
    other_process_takes_over(chk, rng)
    two_live_calibrators(chk, rng)
    # (iii) folder logic vs Lean
    cases = [folder_logic_case(rng) for _ in range(60 if chk.tier == "quick" else 600)]
    reqs = [f"ckpt.saves {len(s)} " + " ".join(f"{k} {len(ids)} " + " ".join(map(str, ids)) + f" {len(ids)} " + " ".join(map(str, ids)) for k, ids in enumerate(s)) for s in cases]
    answers = lean_run(reqs)
    for snaps, ans in zip(cases, answers):
        try:
            rows, ser = real_folder_saves(snaps)
        except Exception as e:  # noqa: BLE001
            chk.case(["folder", snaps], len(snaps) >= 2, {"saves_series_ids": snaps, "raised": type(e).__name__})
            chk.fail(f"saving into a folder that holds another checkpoint raised {type(e).__name__}: {str(e)[:100]}", {"case": {"kind": "folder", "snaps": snaps}}, signature=SIG_STALE)
            continue
        impl = f"params {len(snaps) - 1} rows {','.join(map(str, rows))} series {','.join(map(str, ser))}"
        chk.case(["folder", snaps], len(snaps) >= 2, {"saves_series_ids": snaps, "loaded_series_ids": ser})
        same_run_prefix = all(a == b[:len(a)] for a, b in zip(snaps, snaps[1:]))
        if ser != snaps[-1]:
            if not same_run_prefix:
                chk.fail(f"folder reused by another run: saved series ids {snaps[-1]}, restored {ser}", {"case": {"kind": "folder", "snaps": snaps}}, signature=SIG_STALE)
            else:
                chk.fail(f"series restored {ser} != saved {snaps[-1]}", {"case": {"kind": "folder", "snaps": snaps}})
        if impl != ans:
            chk.disagree("save/load of the checkpoint folder != BlackIt.Checkpoint.save/load", {"snaps": snaps, "impl": impl, "model": ans})


def replay(path: Path) -> int:
    r = json.loads(path.read_text())
    bad = 0
    import random
    for fi in r.get("failing_inputs", []):
        c = fi.get("case")
        if not c:
            continue
        if c["kind"] == "folder":
            try:
                rows, ser = real_folder_saves(c["snaps"]); fails = ser != c["snaps"][-1]
            except Exception:  # noqa: BLE001
                fails = True
        elif c["kind"] == "script":
            c["cfg"]["lineup"] = [tuple(x) for x in c["cfg"]["lineup"]]
            f, k = op_script(None, random.Random(0), c["cfg"], [tuple(o) for o in c["script"]]); fails = bool(f or k)
        else:
            continue
        print("REPLAY", fi["what"][:120], "->", "still fails" if fails else "passes now")
        bad += fails
    return 1 if bad else 0
