"""C19 — bandit agent and reward: real MABEpsilonGreedy / MABCalibrationEnv vs `BlackIt.Bandit`."""
from __future__ import annotations

import json
from fractions import Fraction
from pathlib import Path

import numpy as np

from vp.core import LEAN, Check, f2h, fl, h2f, lean_run
from vp.tape import RecGen, install

MODULE = "BlackIt.Properties.C19"
PROP_FILE = LEAN / "BlackIt/Properties/C19.lean"


def gen_script(rng, chk):
    n = rng.randint(1, 8)
    alpha = rng.choice([-1.0, -1.0, 0.5, 0.25, 0.1, 1.0, rng.random()])
    eps = rng.choice([0.0, 0.0, 1.0, 0.1, 0.5, rng.random()])
    q0 = rng.choice([0.0, 0.0, 1.0, -2.5, rng.random(),
                     # optimistic initial values written as integers (admissible for a float parameter), numpy scalars of other dtypes
                     1, 5, True, np.int64(2), np.float32(0.5)])
    chk.count("initial_values_type:" + type(q0).__name__)
    seed = rng.randrange(10 ** 6)
    chk.count(f"alpha:{'sample_avg' if alpha == -1 else 'const'}"); chk.count(f"eps:{'0' if eps == 0 else '1' if eps == 1 else 'mid'}")
    ops = []
    # losses may be negative (a log-likelihood, a user-defined score): the rule is the same formula there, and the reference moves on every decrease
    ref = rng.choice([1.0, 10.0, 0.3, 1e-3, 7.5, -0.5, -3.0, -1e-3])
    chk.count("reward:reference_sign=" + ("neg" if ref < 0 else "pos"))
    for _ in range(rng.randint(1, 40)):
        k = rng.choice(["P", "P", "L", "L", "R", "PLR"])
        if k in ("P", "PLR"):
            # scripted boundary values of random(): exactly eps, just below/above; or the real stream (None)
            u = rng.choice([None, None, None, eps, float(np.nextafter(eps, 2)), float(np.nextafter(eps, -1)) if eps > 0 else 0.0, 0.0])
            ops.append(["P", u, rng.randrange(n) if rng.random() < 0.5 else None])
        if k in ("R", "PLR"):
            if rng.random() < 0.25:
                # reference bests at which the relative improvement is not defined: a perfect fit (0.0), a diverged run (+-inf);
                # not decreased (equal or worse) must still be "reward zero, reference unchanged"
                cur = rng.choice([0.0, 0.0, float("inf"), -float("inf"), -0.0])
                new = rng.choice([cur, cur, 1.0, float("inf"), 0.0] if cur != -float("inf") else [cur, 0.0, -1.0])
                ops.append(["R", cur, new])
                chk.count("reward:degenerate_reference")
                continue
            new = rng.choice([ref, ref * rng.random(), ref * (1 + rng.random()), ref / 2, float(np.nextafter(ref, 0)), 0.0])
            ops.append(["R", ref, new]); ref = min(ref, new) if new != 0 else ref
        if k in ("L", "PLR"):
            r = rng.choice([0.0, 1.0, 0.5, rng.random(), rng.random(), 0.25, -0.5])
            ops.append(["L", rng.randrange(n), r])
    return n, alpha, eps, q0, seed, ops


def run_real(n, alpha, eps, q0, seed, ops):
    from black_it.schedulers.rl.agents.epsilon_greedy import MABEpsilonGreedy
    from black_it.schedulers.rl.envs.mab import MABCalibrationEnv

    ag = MABEpsilonGreedy(n, alpha, eps, q0, random_state=seed)
    g = install(ag, RecGen(seed))
    env = MABCalibrationEnv(n)
    outs, lean_ops, trace = [], [], []
    for op in ops:
        if op[0] == "P":
            if op[1] is not None:
                g.script_random.append(op[1])
            if op[2] is not None:
                g.script_choice.append(op[2])
            n0 = len(g.log)
            act = ag.policy(0)
            draws = g.log[n0:]
            u = [d for d in draws if d[0] == "random"][0][2]
            ch = [d for d in draws if d[0] == "choice"]
            c = int(np.ravel(ch[0][2])[0]) if ch else 0
            g.script_choice.clear()
            lean_ops.append(f"P {f2h(u)} {c}")
            outs.append(str(act))
            trace.append(("P", float(u), c if ch else None, act))
        elif op[0] == "L":
            qb, cb = list(ag.Q), list(ag.actions_count)
            ag.learn(0, op[1], op[2], 0)
            lean_ops.append(f"L {op[1]} {f2h(op[2])}")
            outs.append(" ".join(f2h(x) for x in ag.Q) + " / " + " ".join(str(c) for c in ag.actions_count))
            trace.append(("L", op[1], op[2], qb, cb, list(ag.Q), list(ag.actions_count)))
        else:
            env._curr_best_loss = op[1]
            try:
                if len(trace) % 2 == 0:
                    r = env.get_reward(None, op[2])
                else:
                    # the way the scheduler delivers it: through the environment's step() (outcome waiting in its queue)
                    env._in_queue.put((None, op[2]))
                    _, r, _, ended, _ = env.step(np.int64(0))
                    env._out_queue.get_nowait()
                    r = float(r) if not ended else "session-ended"
            except Exception as e:  # noqa: BLE001  (ZeroDivisionError with Python floats at a zero reference; anything else is an outcome the oracle judges)
                r = type(e).__name__
                while not env._out_queue.empty():
                    env._out_queue.get_nowait()
            lean_ops.append(f"R {f2h(op[1])} {f2h(op[2])}")
            outs.append(f"{f2h(r) if not isinstance(r, str) else r} {f2h(env._curr_best_loss)}")
            trace.append(("R", op[1], op[2], r, env._curr_best_loss))
    return lean_ops, outs, trace, ag


def oracle(n, alpha, eps, trace) -> list[str]:
    """the published rules recomputed independently (exact rationals, float result within 4 ulp-ish)"""
    errs = []
    close = lambda x, q: abs(Fraction(x) - q) <= abs(q) * Fraction(1, 2 ** 48) + Fraction(1, 2 ** 1000)
    for t in trace:
        if t[0] == "R":
            _, cur, new, r, ref = t
            if new < cur:
                if cur == 0 or abs(cur) == float("inf") or abs(new) == float("inf"):
                    # improvement over a reference at which the relative improvement is undefined: the VALUE of the reward is outside the rule's domain;
                    # but the best loss decreased, so - unless the call raised - the reference is the new best afterwards (a reference stuck at the
                    # initial +inf would make every later reward meaningless)
                    if not isinstance(r, str) and ref != new:
                        errs.append(f"the best loss decreased {cur!r}->{new!r} (reward {r!r}) but the reference best stayed at {ref!r}")
                    continue
                if isinstance(r, str) or not close(r, (Fraction(cur) - Fraction(new)) / Fraction(cur)):
                    errs.append(f"reward for {cur!r}->{new!r} is {r!r}, not (prev-new)/prev")
                if ref != new:
                    errs.append(f"reference best not moved on improvement: {ref!r}")
            else:
                if r != 0.0 or ref != cur:
                    errs.append(f"non-improving outcome {cur!r}->{new!r} gave reward {r!r}, reference {ref!r}")
        elif t[0] == "L":
            _, a, r, qb, cb, qa, ca = t
            step = Fraction(1, int(cb[a]) + 1) if alpha == -1 else Fraction(alpha)
            want = Fraction(float(qb[a])) + step * (Fraction(float(r)) - Fraction(float(qb[a])))
            if not close(float(qa[a]), want) and abs(Fraction(float(qa[a])) - want) > Fraction(1, 2 ** 45):
                errs.append(f"estimate of action {a} moved to {qa[a]!r}, rule gives {float(want)!r}")
            if int(ca[a]) != int(cb[a]) + 1 or any(int(ca[j]) != int(cb[j]) for j in range(n) if j != a):
                errs.append("counters not updated as documented")
            if any(f2h(float(qa[j])) != f2h(float(qb[j])) for j in range(n) if j != a):
                errs.append("an estimate other than the rewarded action's changed")
        else:
            _, u, c, act = t
            if not (0 <= act < n):
                errs.append(f"policy returned invalid action {act}")
    return errs


def long_lived_agent(chk: Check, rng):
    """one arm rewarded a very large number of times by one agent (a long calibration, or an agent kept across calibrations): more lessons than any
    window, table or counter width one might think of; the update rule is the published one at every count.  The count-th and the (count+1)-th estimate are
    compared bit for bit with the model; the last step is also judged by the exact rule."""
    from black_it.schedulers.rl.agents.epsilon_greedy import MABEpsilonGreedy

    reqs, impls, metas = [], [], []
    for cnt in ([130000, 70000] if chk.tier == "quick" else [130000, 70000, 300000, 1100000]):
        n = rng.randint(2, 4); a = rng.randrange(n)
        alpha = -1.0 if cnt >= 100000 else rng.choice([-1.0, 0.25])      # the longest lives are sample-average ones: the step keeps shrinking as 1/count
        r1 = rng.choice([0.5, 0.3, 0.125]); r2 = rng.choice([0.0, 1.0, 0.9])
        ag = MABEpsilonGreedy(n, alpha, 0.0, initial_values=0.0, random_state=0)
        for _ in range(cnt):
            ag.learn(0, a, r1, 0)
        q_before = [float(x) for x in ag.Q]; c_before = [int(x) for x in ag.actions_count]
        ag.learn(0, a, r2, 0)
        q_after = [float(x) for x in ag.Q]; c_after = [int(x) for x in ag.actions_count]
        impls.append(" ".join(f2h(x) for x in q_before) + " / " + " ".join(map(str, c_before)) + " ; " + " ".join(f2h(x) for x in q_after) + " / " + " ".join(map(str, c_after)))
        reqs.append(f"bandit.repeat {n} {f2h(alpha)} {f2h(0.0)} {f2h(0.0)} {a} {cnt} {f2h(r1)} {f2h(r2)}")
        metas.append({"n_actions": n, "alpha": alpha, "action": a, "lessons": cnt, "reward": r1, "last_reward": r2})
        chk.case(["long", n, alpha, a, cnt, r1, r2], True, metas[-1]); chk.count("long_lived_agent:lessons>=70000")
        step = Fraction(1, c_before[a] + 1) if alpha == -1 else Fraction(alpha)
        want = Fraction(q_before[a]) + step * (Fraction(r2) - Fraction(q_before[a]))
        if abs(Fraction(q_after[a]) - want) > abs(want) * Fraction(1, 2 ** 45) + Fraction(1, 2 ** 60) or c_after[a] != cnt + 1:
            chk.fail(f"bandit: after {cnt} lessons on action {a} (estimate {q_before[a]!r}) the lesson with reward {r2!r} moved the estimate to {q_after[a]!r}; the rule "
                     f"(step {'1/count' if alpha == -1 else alpha}) gives {float(want)!r}", {"case": {"kind": "long_lived_agent", **metas[-1]}})
    for rq, impl, ans, meta in zip(reqs, impls, lean_run(reqs), metas):
        if impl != ans:
            chk.disagree("MABEpsilonGreedy after many lessons != BlackIt.Bandit.learn iterated", {**meta, "impl": impl[:200], "model": ans[:200]})


def run(chk: Check):
    rng = chk.rng
    chk.rule = ("scripted interactions with the real agent/env: policy calls (real PCG64 stream recorded, plus scripted boundary values of "
                "random() at eps and +-1ulp), learn calls, reward calls (improving, equal, worse, 1ulp better, zero); 1-8 actions, "
                "alpha in {-1 sentinel, dyadic, arbitrary}, eps in {0,1,mid}; non-trivial = script has >= 1 learn and >= 1 policy op")
    chk.trusted_base = ["Lean 4.33 kernel", "Mathlib (Order.Field, BigOperators, field_simp/ring/linarith)",
                        "IEEE-754 + - * / identical in Lean Float and CPython floats", "numpy Generator is an arbitrary stream (tape)",
                        "harness/props/c19.py + lean/Driver.lean"]
    chk.assumptions = ["theorems are over an exact ordered field; binary64 evaluation is tied by bit-exact comparison with the Float instance",
                       "reward rule assumes a non-zero previous best (property domain)"]
    chk.proof_stage(PROP_FILE)
    long_lived_agent(chk, rng)
    n_scripts = 1500 if chk.tier == "quick" else 30000
    scripts = [gen_script(rng, chk) for _ in range(n_scripts)]
    reals = [run_real(*s) for s in scripts]
    reqs = [f"bandit.run {s[0]} {f2h(s[1])} {f2h(s[2])} {f2h(s[3])} " + " ".join(r[0]) for s, r in zip(scripts, reals)]
    answers = lean_run(reqs)
    ndet = 0
    for s, (lean_ops, outs, trace, ag), ans in zip(scripts, reals, answers):
        n, alpha, eps, q0, seed, ops = s
        kinds = {t[0] for t in trace}
        chk.case([n, alpha, eps, float(q0), type(q0).__name__, seed, ops], {"P", "L"} <= kinds,
                 {"n_actions": n, "alpha": alpha, "eps": eps, "q0": float(q0), "q0_type": type(q0).__name__, "ops": ops[:6], "final_Q": [float(x) for x in ag.Q]})
        for e in oracle(n, alpha, eps, trace):
            chk.fail("bandit: " + e, {"case": {"script": s}})
        if eps == 0.0:
            for t in trace:
                pass
        impl = " ; ".join(outs)
        if impl != ans:
            k = next((i for i, (x, y) in enumerate(zip(outs, ans.split(" ; "))) if x != y), -1)
            chk.disagree("MABEpsilonGreedy/MABCalibrationEnv != BlackIt.Bandit",
                         {"script": s, "op_index": k, "op": lean_ops[k] if k >= 0 else None,
                          "impl": outs[k] if k >= 0 else impl[:200], "model": ans.split(" ; ")[k] if k >= 0 else ans[:200]})
        # determinism: a second real run with the same seed and script coincides
        if ndet < 200:
            ndet += 1
            _, outs2, _, _ = run_real(*s)
            if outs2 != outs:
                chk.fail("two runs with the same seed and rewards differ", {"case": {"script": s}})
    # greedy clause on the implementation: eps = 0 -> chosen action has maximal estimate
    for s, (lean_ops, outs, trace, ag) in zip(scripts, reals):
        if s[2] != 0.0:
            continue
        q = [s[3]] * s[0]
        for t in trace:
            if t[0] == "L":
                q = t[5]
            elif t[0] == "P" and q[t[3]] != max(q):
                chk.fail(f"eps=0 but action {t[3]} with estimate {q[t[3]]!r} chosen, max is {max(q)!r}", {"case": {"script": s}})
    chk.count("determinism_pairs", ndet)
    reseed_midlife(chk, rng)
    env_across_sessions(chk, rng)


def reseed_midlife(chk: Check, rng):
    """'choices are a deterministic function of its seed and the rewards it received': two agents constructed with different seeds, one of
    which has already answered policy calls, are given the same rewards and are then re-seeded through the public random_state setter
    (what RLScheduler/Calibrator do with the agent they are handed): from there on their choices must coincide, and coincide with those of
    an agent constructed with that seed."""
    from black_it.schedulers.rl.agents.epsilon_greedy import MABEpsilonGreedy

    for it in range(60 if chk.tier == "quick" else 1500):
        n = rng.randint(2, 8); eps = rng.choice([1.0, 0.5, 0.3, 0.9]); alpha = rng.choice([-1.0, 0.5])
        s_new = rng.randrange(10 ** 6)
        lessons = [(rng.randrange(n), rng.choice([0.0, 1.0, rng.random()])) for _ in range(rng.randint(0, 6))]
        m = rng.randint(5, 30)
        outs = []
        for who in ("used", "fresh", "constructed_with_it"):
            ag = MABEpsilonGreedy(n, alpha, eps, 0.0, random_state=(rng.randrange(10 ** 6) if who != "constructed_with_it" else s_new))
            if who == "used":
                for _ in range(rng.randint(1, 5)):
                    ag.policy(0)
            for a, r in lessons:
                ag.learn(0, a, r, 0)
            if who != "constructed_with_it":
                ag.random_state = s_new
            outs.append([int(ag.policy(0)) for _ in range(m)])
        chk.case(["reseed", n, eps, s_new, lessons], True, {"n_actions": n, "eps": eps, "lessons": len(lessons), "choices_head": outs[1][:6]})
        chk.count("reseed_midlife")
        if not (outs[0] == outs[1] == outs[2]):
            which = "an agent that had already answered policy calls" if outs[0] != outs[1] else "an agent constructed with that seed"
            chk.fail(f"after random_state = {s_new} and the same rewards, {which} chooses differently from a fresh agent given the same seed: {outs[0][:8]} / {outs[1][:8]} / {outs[2][:8]}",
                     {"case": {"kind": "reseed", "n": n, "eps": eps, "alpha": alpha, "seed": s_new, "lessons": lessons}})


def env_across_sessions(chk: Check, rng):
    """the environment as the RL scheduler drives it over SEVERAL sessions (outcomes through step(), an end-of-session marker, reset() at the next
    session start): the reference best is the best loss of the whole calibration — it is lowered by improvements only and survives the end of a session"""
    from black_it.schedulers.rl.envs.mab import MABCalibrationEnv

    for it in range(40 if chk.tier == "quick" else 800):
        n = rng.randint(1, 5)
        env = MABCalibrationEnv(n)
        env.reset()
        ref = rng.choice([1.0, 10.0, 0.3, 7.5, 123.0])
        env._curr_best_loss = ref                       # what the scheduler does after the bootstrap batch
        trace, bad = [], None
        for session in range(rng.randint(2, 4)):
            if session > 0:
                env.reset()                             # start of the next session (the agent thread calls it)
            for _ in range(rng.randint(0, 3)):
                best = min(ref, ref * rng.choice([1.0, 0.5, 0.9, 0.999, 1.0, 0.25]))      # the scheduler reports the best loss so far: never above the reference
                env._in_queue.put((None, best))
                _, r, _, ended, _ = env.step(np.int64(rng.randrange(n)))
                env._out_queue.get_nowait()
                want = (ref - best) / ref if best < ref else 0.0
                trace.append((session, ref, best, float(r), want))
                if ended or f2h(float(r)) != f2h(float(want)) or env._curr_best_loss != min(ref, best):
                    bad = bad or (session, ref, best, float(r), want, env._curr_best_loss)
                ref = min(ref, best)
            env._in_queue.put(None)                     # end of the session
            _, r, _, ended, _ = env.step(np.int64(0))
            env._out_queue.get_nowait()
            if not ended or r != 0.0:
                bad = bad or (session, "end-of-session marker", None, float(r), 0.0, env._curr_best_loss)
        chk.case(["env-sessions", n, [t[:3] for t in trace]], len({t[0] for t in trace}) >= 2, {"sessions": len({t[0] for t in trace}), "outcomes": len(trace)})
        chk.count("env:several_sessions")
        if bad:
            chk.fail(f"environment over several sessions: in session {bad[0]} with reference {bad[1]!r} the outcome {bad[2]!r} was rewarded {bad[3]!r} (rule: {bad[4]!r}); reference afterwards {bad[5]!r}",
                     {"case": {"kind": "env_sessions", "trace": trace}})


def replay(path: Path) -> int:
    r = json.loads(path.read_text())
    bad = 0
    for fi in r.get("failing_inputs", []):
        c = fi.get("case")
        if not c:
            continue
        if "script" not in c:
            from vp.core import rerun_by_seed
            return rerun_by_seed("C19", r)
        s = c["script"]
        _, _, trace, _ = run_real(*s)
        errs = oracle(s[0], s[1], s[2], trace)
        print("REPLAY", fi["what"][:120], "->", "still fails" if errs else "passes now")
        bad += bool(errs)
    return 1 if bad else 0
