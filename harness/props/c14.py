"""C14 — early stopping exactly when the best loss rounds to zero (scripted losses through the stub model)."""
from __future__ import annotations

import copy
import json
import warnings
from fractions import Fraction
from pathlib import Path

import numpy as np

from props.c02 import scn_from_json, scn_json
from vp import calharness as ch
from vp.core import LEAN, Check, f2h

MODULE = "BlackIt.Properties.C14"
PROP_FILE = LEAN / "BlackIt/Properties/C14.lean"


def rounds_to_zero(x: float, p: int):
    """exact rule |x*10^p| <= 1/2 (round-half-even to 0); None inside a 4-ulp band around the boundary where
    np.round's own floating multiplication decides"""
    if x != x or x in (float("inf"), float("-inf")):
        return False
    v = abs(Fraction(x)) * 10 ** p
    half = Fraction(1, 2)
    if v == half:
        return True                      # an exactly representable tie: round-half-even gives 0
    if abs(v - half) <= half * Fraction(4, 2 ** 52):
        return None
    return v <= half


def oracle(scn, info_lines, info) -> list[str]:
    errs = []
    return errs


def simulate_expected(scn: ch.Scn, info):
    """expected number of batches per calibrate op from the recorded losses (independent of the model)"""
    cal = info["cal"]
    losses = np.asarray(cal.losses_samp, dtype=float)
    bn = np.asarray(cal.batch_num_samp)
    return losses, bn


def run_one(chk, scn):
    with warnings.catch_warnings():
        warnings.simplefilter("ignore")
        return ch.run_real(scn)


def check_counts(scn, lines, info) -> list[str]:
    """per calibrate call: ran exactly min(n, first batch whose running min rounds to zero)"""
    errs = []
    cal = info["cal"]
    if any(o[0] == "R" for o in scn.ops):      # (after a restore `cal` is another object: judged by the model comparison only)
        return errs
    losses = np.asarray(cal.losses_samp, dtype=float)
    bn = np.asarray(cal.batch_num_samp)
    # batches completed after each op, from the dumps
    done = [int(l.split(" b=")[1].split(" ")[0]) for l in lines]
    b = done[0]
    for op, after, line in zip(scn.ops, done[1:], lines[1:]):
        if op[0] != "C":
            continue
        if line.startswith("raise:"):      # a call that failed (injected fault): how many batches it completed is C11's matter; later calls are judged on the recorded history
            b = after
            continue
        ran = after - b
        expect = op[1]
        ambiguous = False
        for j in range(1, op[1] + 1):
            upto = losses[bn < b + j]
            if len(upto) == 0 or b + j > cal.current_batch_index + 10:
                break
            if scn.conv is not None:
                r = rounds_to_zero(float(np.min(upto)), scn.conv)
                if r is None:
                    ambiguous = True
                    break
                if r:
                    expect = j
                    break
            if b + j > int(bn.max(initial=-1)) + 1:
                break
        if not ambiguous and ran != expect:
            errs.append(f"calibrate({op[1]}) from batch {b} ran {ran} batches, expected {expect} "
                        f"(precision {scn.conv}, running minima {[float(np.min(losses[bn < b + j])) for j in range(1, min(op[1], ran + 1) + 1) if np.any(bn < b + j)]})")
        b = after
    return errs


def fault_after_zero(scn, rng) -> bool:
    """a batch of >= 2 parameters whose loss evaluation fails at a later parameter after an earlier parameter of the *same* batch got a loss that
    rounds to zero: that loss never enters the history, so it must not stop a later call"""
    n = len(scn.lineup)
    sizes = [bs for (_, bs, _, _) in scn.lineup]
    total = sum(o[1] for o in scn.ops if o[0] == "C")
    cands = [fb for fb in range(max(total, 1)) if sizes[fb % n] >= 2 and len(scn.lineup[fb % n][2]) > fb // n]
    if not cands:
        return False
    fb = rng.choice(cands[:4])
    bs = sizes[fb % n]
    r = rng.randint(1, bs - 1)
    k = sum(sizes[b % n] for b in range(fb)) + r
    rows = scn.lineup[fb % n][2][fb // n]
    target = tuple(rows[rng.randrange(0, r)])
    h = 0.5 * 10.0 ** (-scn.conv)
    for th, v in list(scn.loss_table.items()):
        if rounds_to_zero(float(v), scn.conv) is not False:
            scn.loss_table[th] = 1.0 + 2.0 * h
    if any(tuple(row) == target for b in range(fb) for row in (scn.lineup[b % n][2][b // n] if len(scn.lineup[b % n][2]) > b // n else [])):
        return False          # the same vector is proposed (and recorded) earlier: the run would rightly stop there
    scn.loss_table[target] = rng.choice([0.0, h / 3, -h / 3])
    scn.faults = [("L", k)]
    scn.ops = [o for o in scn.ops if o[0] == "C"] + [("C", rng.randint(2, 3))]
    return True


def run(chk: Check):
    rng = chk.rng
    chk.rule = ("stub scenarios with convergence precision 0-12 (and none), loss tables seeded with 0, +-0.5*10^-p, one ulp either side, "
                "0.4*10^-p, -0.0, inf; verbose on and off (twin runs), with and without folder (restore after return), several calibrate calls; a loss evaluation failing mid-batch after a zero loss of the same batch, followed by further calls. "
                "non-trivial = a call stopped early or a loss within a factor 10 of the threshold occurred")
    chk.trusted_base = ["Lean 4.33 kernel", "np.round(x,p) == 0  <=>  |fl(x*10^p)| <= 0.5 (numpy multiplies, rints, divides) — compared bit-for-bit each run",
                        "stubs of harness/vp/calharness.py"]
    chk.assumptions = ["'rounds to zero' is np.round's; inputs within 4 ulp of the .5*10^-p boundary are compared with the model but not judged by the exact-rational oracle"]
    chk.proof_stage(PROP_FILE)
    n = 150 if chk.tier == "quick" else 2500
    for i in range(n):
        scn = ch.gen_scn(rng, sched="rr", conv=rng.random() < 0.85, set_ops=(i % 3 == 1), max_batches=rng.randint(2, 12))
        scn.verbose = rng.random() < 0.5
        if i % 5 == 2 and scn.conv is not None:
            # a nearly exhausted space: the samplers keep proposing the same few vectors (the history is full of repeated parameter vectors),
            # most of them with a loss that does not round to zero, one or two with a loss that does
            vals = [0.0, 0.5, 1.0, 1.5, 2.0] if scn.dims == 1 else [0.0, 1.0]
            if i % 10 == 7 or scn.dims <= 2:
                # ... and the DECLARED space is that small too (5 points, or 3 per parameter): the run samples more rows than the space has points
                scn.bounds = (tuple(0.0 for _ in range(scn.dims)), tuple((2.0 if scn.dims == 1 else 1.0) for _ in range(scn.dims)))
                chk.count("declared_space_smaller_than_the_number_of_rows_sampled")
            scn.lineup = [(c, bs, [[[rng.choice(vals) for _ in range(scn.dims)] for _ in range(bs)] for _ in script], cs) for (c, bs, script, cs) in scn.lineup]
            h = 0.5 * 10.0 ** (-scn.conv)
            thetas = sorted({tuple(r) for (_, _, script, _) in scn.lineup for call in script for r in call})
            scn.loss_table = {th: rng.choice([1.0, 3.0, 0.7, 2.0 * h + 1.0]) for th in thetas}
            if i % 10 == 2 and len(thetas) >= 2:
                # the vector whose loss rounds to zero is proposed late: in no sampler's first two calls, i.e. after the history already holds
                # more rows than there are distinct vectors
                late, other = thetas[-1], thetas[0]
                scn.lineup = [(c, bs, [[(list(other) if (ci < 2 and tuple(r) == late) else r) for r in call] for ci, call in enumerate(script)], cs) for (c, bs, script, cs) in scn.lineup]
                scn.loss_table[late] = rng.choice([0.0, h / 3, -h / 3])
                chk.count("history_with_repeated_vectors:zero_loss_late")
            else:
                for th in rng.sample(thetas, min(len(thetas), rng.randint(1, 2))):
                    scn.loss_table[th] = rng.choice([0.0, h / 3, -h / 3, 0.4 * 10.0 ** (-scn.conv)])
            chk.count("history_with_repeated_vectors")
        if scn.folder and rng.random() < 0.6:
            scn.ops = [o for o in scn.ops if o[0] == "C"][:3]
            scn.ops.append(("R",))
        elif i % 3 == 1 and any(o[0] in ("SS", "SCH") for o in scn.ops):
            # the line-up / the scheduler object is replaced between calls: the stop rule looks at the calibrator's history, whoever schedules
            scn.ops = [o for o in scn.ops if o[0] in ("C", "SS", "SCH")]
            chk.count("scheduler_or_samplers_replaced_between_calls")
        else:
            scn.ops = [o for o in scn.ops if o[0] == "C"]
        if scn.conv is not None and i % 4 == 3 and all(o[0] == "C" for o in scn.ops) and fault_after_zero(scn, rng):
            chk.count("loss_fails_mid_batch_after_a_loss_rounding_to_zero_then_more_calls")
        lines, info = run_one(chk, scn)
        cal = info["cal"]
        stopped_early = any(o[0] == "C" for o in scn.ops) and cal.current_batch_index < sum(o[1] for o in scn.ops if o[0] == "C")
        near = scn.conv is not None and len(cal.losses_samp) and any(0 < abs(Fraction(float(x))) * 10 ** scn.conv <= 5 for x in np.asarray(cal.losses_samp, dtype=float) if np.isfinite(x))
        chk.case(scn_json(scn), bool(stopped_early or near), {"precision": scn.conv, "verbose": scn.verbose, "folder": scn.folder, "ops": [o[:2] for o in scn.ops],
                                                        "losses": np.asarray(cal.losses_samp, dtype=float).tolist()[:10], "batches_run": cal.current_batch_index})
        chk.count("stopped_early" if stopped_early else "ran_all"); chk.count(f"verbose:{scn.verbose}"); chk.count(f"folder:{scn.folder}")
        for e in check_counts(scn, lines, info)[:2]:
            chk.fail("early stopping: " + e, {"case": scn_json(scn)})
        # verbosity twin
        twin = copy.deepcopy(scn); twin.verbose = not scn.verbose
        tl, tinfo = run_one(chk, twin)
        strip = lambda L: [x for x in L]
        if [l for l in tl] != [l for l in lines]:
            k = next(i for i, (a, b) in enumerate(zip(tl, lines)) if a != b)
            chk.fail(f"run depends on verbosity: op {k - 1} differs in {ch.diff_fields(lines[k], tl[k])}", {"case": scn_json(scn)})
        # trigger batch in the checkpoint: the folder equals the returned state
        if scn.folder and scn.ops[-1][0] == "R" and len(lines) >= 3:
            if ch.canon_line(lines[-1]).split(" result=")[0].split(" table=")[0] != ch.canon_line(lines[-2]).split(" result=")[0].split(" table=")[0]:
                chk.fail("the checkpoint in the saving folder is not the state calibrate() returned with: " + str(ch.diff_fields(lines[-2], lines[-1])),
                         {"case": scn_json(scn)})
        ok, k, a, b = ch.compare(scn, lines, info)
        if not ok:
            chk.disagree("Calibrator.calibrate (early stop) != BlackIt.Calibrator.calLoop",
                         {"scenario": scn_json(scn), "op_index": k, "fields": ch.diff_fields(a, b) if k is not None and k >= 0 else None, "impl": a[:500], "model": b[:500]})
    shared_scheduler(chk, rng)
    long_history(chk, rng)


def long_history(chk: Check, rng):
    """a calibration with thousands of rows per batch (more than 5000 sampled parameters after two batches), a convergence precision and a saving folder: the
    best loss rounds to zero at the third of five requested batches - the call stops there, and the folder holds exactly the state it returned with"""
    for it in range(1 if chk.tier == "quick" else 4):
        scn = ch.gen_scn(rng, sched="rr", conv=True, max_batches=5)
        bs = rng.randint(2600, 3000)
        scn.dims, scn.ensemble, scn.simlen, scn.folder, scn.verbose = 1, 1, 4, True, bool(it % 2)
        scn.bounds, scn.precision = ((0.0,), (100.0,)), (0.5,)
        scn.conv = rng.randint(2, 6)
        rows = lambda: [[float(rng.randint(2, 200)) / 2.0] for _ in range(bs)]
        script = [rows() for _ in range(6)]
        script[2][rng.randrange(bs)] = [0.5]                     # the vector whose loss rounds to zero arrives in the third batch
        scn.lineup = [(scn.lineup[0][0], bs, script, None)]
        scn.loss_table = {(0.5,): rng.choice([0.0, 0.3 * 10.0 ** (-scn.conv)])}
        scn.loss_default = 1.0 + rng.random()
        scn.ops = [("C", 5), ("R",)]
        scn.faults = []
        lines, info = run_one(chk, scn)
        cal = info["cal"]
        chk.case(["long-history", bs, scn.conv], True, {"batch_size": bs, "precision": scn.conv, "rows": int(cal.n_sampled_params), "batches_run": int(cal.current_batch_index)})
        chk.count("history_of_more_than_5000_rows")
        done = [int(l.split(" b=")[1].split(" ")[0]) for l in lines if " b=" in l]
        if len(done) >= 2 and done[1] != 3:
            chk.fail(f"early stopping on a long history ({bs} rows per batch): calibrate(5) ran {done[1]} batches, the best loss rounds to zero at precision {scn.conv} in batch 3", {"case": scn_json(scn)})
        if len(lines) >= 3 and ch.canon_line(lines[-1]).split(" result=")[0].split(" table=")[0] != ch.canon_line(lines[-2]).split(" result=")[0].split(" table=")[0]:
            chk.fail(f"long history ({int(cal.n_sampled_params)} rows): the checkpoint in the saving folder is not the state calibrate() returned with after the early stop: "
                     + str(ch.diff_fields(lines[-2], lines[-1])), {"case": {k: v for k, v in scn_json(scn).items() if k != "lineup"}})


def shared_scheduler(chk: Check, rng):
    """one scheduler object handed to two calibrators one after the other (scheduler=...): the second calibration has its own, empty history
    and stops exactly when ITS smallest loss rounds to zero — not because of anything the scheduler object went through before"""
    import contextlib, io
    from black_it.calibrator import Calibrator
    from black_it.loss_functions.minkowski import MinkowskiLoss
    from black_it.samplers.halton import HaltonSampler
    from black_it.samplers.random_uniform import RandomUniformSampler
    from black_it.schedulers.round_robin import RoundRobinScheduler

    for it in range(6 if chk.tier == "quick" else 80):
        p = rng.randint(1, 6); h = 0.5 * 10.0 ** (-p)
        bs = rng.randint(1, 3)
        zero_at = rng.randint(1, 3)                       # batch (1-based) of the first run whose loss rounds to zero
        n2 = rng.randint(2, 5)
        second_zero_at = rng.choice([None, None, n2, rng.randint(1, n2)])
        script1 = [1.0 + k for k in range(zero_at - 1)] + [rng.choice([0.0, h / 3, -h / 3])] + [5.0] * 4
        script2 = [0.9 + 0.01 * k for k in range(n2 + 1)]
        if second_zero_at is not None:
            script2[second_zero_at - 1] = rng.choice([0.0, h / 2.5])
        state = {"k": 0, "script": script1}

        def model(theta, N, seed, _st=state, _bs=bs):  # noqa: N803
            v = _st["script"][min(_st["k"] // _bs, len(_st["script"]) - 1)]
            _st["k"] += 1
            return np.full((N, 1), v)
        sched = RoundRobinScheduler([HaltonSampler(batch_size=bs), RandomUniformSampler(batch_size=bs)])
        kw = dict(loss_function=MinkowskiLoss(p=1), real_data=np.zeros((1, 1)), model=model, parameters_bounds=[[0.0, 0.0], [1.0, 1.0]], parameters_precision=[0.001, 0.001],
                  ensemble_size=1, convergence_precision=p, verbose=bool(it % 2), saving_folder=None, n_jobs=1)
        with contextlib.redirect_stdout(io.StringIO()), warnings.catch_warnings():
            warnings.simplefilter("ignore")
            c1 = Calibrator(scheduler=sched, random_state=rng.randrange(10 ** 6), **kw)
            c1.calibrate(zero_at + 2)
            state.update(k=0, script=script2)
            c2 = Calibrator(scheduler=sched, random_state=rng.randrange(10 ** 6), **kw)
            c2.calibrate(n2)
        want1, want2 = zero_at, (second_zero_at if second_zero_at is not None else n2)
        chk.case(["shared-scheduler", p, bs, zero_at, n2, second_zero_at], True,
                 {"precision": p, "first_run_batches": int(c1.current_batch_index), "second_run_batches": int(c2.current_batch_index), "second_run_losses": np.asarray(c2.losses_samp, dtype=float).tolist()[:6]})
        chk.count("scheduler_object_shared_by_two_calibrators")
        case = {"case": {"kind": "shared_scheduler", "precision": p, "batch_size": bs, "script1": script1, "script2": script2, "n2": n2}}
        if int(c1.current_batch_index) != want1:
            chk.fail(f"first calibration ran {c1.current_batch_index} batches, its smallest loss rounds to zero at batch {want1} (precision {p})", case)
        if int(c2.current_batch_index) != want2:
            chk.fail(f"a calibration given a scheduler object that another calibration used before ran {c2.current_batch_index} of {n2} batches with losses "
                     f"{np.asarray(c2.losses_samp, dtype=float).tolist()[:6]}; its own smallest loss rounds to zero at batch {second_zero_at} (precision {p}): expected {want2}", case)


def replay(path: Path) -> int:
    r = json.loads(path.read_text())
    bad = 0
    for fi in r.get("failing_inputs", []):
        c = fi.get("case")
        if not c:
            continue
        scn = scn_from_json(c)
        lines, info = run_one(None, scn)
        twin = copy.deepcopy(scn); twin.verbose = not scn.verbose
        tl, _ = run_one(None, twin)
        fails = bool(check_counts(scn, lines, info)) or tl != lines
        print("REPLAY", fi["what"][:120], "->", "still fails" if fails else "passes now")
        bad += fails
    return 1 if bad else 0
