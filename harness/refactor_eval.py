#!/usr/bin/env python3
"""Negative control: run every quick check against behaviour-preserving refactorings of the code under test (worktrees given on the command line, used through
PYTHONPATH).  A check that raises an alarm (or crashes) on such a tree depends on how the code is written rather than on what it does.
usage: refactor_eval.py [--jobs 8] [--props C01,C02] <worktree> ..."""
import json, os, subprocess, sys
from concurrent.futures import ThreadPoolExecutor
from pathlib import Path

VERIF = Path(__file__).resolve().parents[1]
args = sys.argv[1:]
jobs = 8
props = [c["property_id"] for c in json.load(open(VERIF / "MANIFEST.json"))["checks"]]
if "--jobs" in args:
    i = args.index("--jobs"); jobs = int(args[i + 1]); del args[i:i + 2]
if "--props" in args:
    i = args.index("--props"); props = args[i + 1].split(","); del args[i:i + 2]


def one(task):
    wt, prop = task
    p = subprocess.run(f"/venv/bin/python harness/check.py {prop} --tier quick", shell=True, cwd=VERIF, capture_output=True, text=True,
                       env=dict(os.environ, PYTHONPATH=wt, VERIF_SEED="0"), timeout=3600)
    last = [l for l in p.stdout.split("\n") if l.startswith("[") or l.startswith("VIOLATION")]
    return wt, prop, p.returncode, " | ".join(last)[-200:] if last else p.stderr[-300:]


tasks = [(wt, pr) for wt in args for pr in props]
bad = 0
with ThreadPoolExecutor(jobs) as ex:
    for wt, prop, rc, last in ex.map(one, tasks):
        if rc != 0:
            bad += 1
            print(f"ALARM {Path(wt).name} {prop} rc={rc} :: {last}", flush=True)
print(f"runs={len(tasks)} alarms={bad}")
