#!/usr/bin/env python3
"""Run the repository's pinned test command with the verification guard OFF and compare with BASELINE.json."""
import json, os, subprocess, sys, tempfile, xml.etree.ElementTree as ET

base = json.load(open("/root/.vp/BASELINE.json"))
env = {k: v for k, v in os.environ.items() if k != "BLACK_IT_VERIF"}
with tempfile.TemporaryDirectory() as d:
    xml = os.path.join(d, "j.xml")
    cmd = base["cmd"].replace("<file>", xml)
    subprocess.run(cmd, shell=True, env=env, stdout=subprocess.DEVNULL, stderr=subprocess.DEVNULL)
    passed = set()
    for tc in ET.parse(xml).getroot().iter("testcase"):
        if not any(c.tag in ("failure", "error", "skipped") for c in tc):
            passed.add(f"{tc.get('classname')}::{tc.get('name')}")
missing = [t for t in base["stable_pass"] if t not in passed]
print(f"stable baseline tests passing: {len(base['stable_pass']) - len(missing)}/{len(base['stable_pass'])}")
for m in missing:
    print("MISSING", m)
sys.exit(1 if missing else 0)
