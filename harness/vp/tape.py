"""Recording / scripted numpy Generator (a transparent subclass: same stream as default_rng(seed))."""
from __future__ import annotations

import numpy as np


class RecGen(np.random.Generator):
    """records every draw the code makes; `script` may override the value of `random()` / `choice()`"""

    def __new__(cls, seed=None, owner=None):
        return super().__new__(cls, np.random.PCG64(np.random.SeedSequence(seed)))

    def __init__(self, seed=None, owner=None):
        super().__init__(np.random.PCG64(np.random.SeedSequence(seed)))
        self.log: list = []
        self.owner = owner
        self.script_random: list = []
        self.script_choice: list = []

    def integers(self, *a, **k):
        r = super().integers(*a, **k)
        self.log.append(("integers", a, r))
        return r

    def random(self, *a, **k):
        r = super().random(*a, **k)
        if self.script_random and not a and not k:
            r = self.script_random.pop(0)
        self.log.append(("random", a, r))
        return r

    def choice(self, *a, **k):
        r = super().choice(*a, **k)
        if self.script_choice:
            v = self.script_choice.pop(0)
            r = np.array([v]) if np.ndim(r) else v
        self.log.append(("choice", a[1:], r))
        return r


def install(obj, gen):
    """replace the private generator of a BaseSeedable"""
    obj._BaseSeedable__random_generator = gen
    return gen
